/- driver ops for property C10 (model side of the correspondence)

   c10.session : {"objs": [obj…], "ops": [op…], "cm": bool}
     obj  = {"vecs": [[rat|null]], "odesc": [[k, lbl]], "rdesc": [[k, [lbl]]], "pdesc": [[k, [lbl]]]}
     lbl  = int | string | [int] | null
     answer {"init": [dump], "steps": [{"exc": bool, "store": [dump]} | {"exc": bool, "out": …}]}
     round 3: obj may carry "meas": string|null (dissimilarity_measure); the session "pk": bool
     (permute_rdms passes the measure on); every step answer carries "meas": [string|null];
     `getitem` may carry "idx" = {"kind": "int", "i": k} | {"kind": "list", "l": [k]} |
     {"kind": "slice", "start": k|null, "stop": k|null, "step": k} | {"kind": "mask", "l": [bool]}
     instead of "sel" (resolved by `resolveIdx` against the number of RDMs of the source)
   c10.resolve : {"n": n, "idx": idx} → [positions] | null
   c10.nfrom   : {"len": n} → [nFromReduced len, nFromLength len]
   c10.roundtrip : {"n": n, "vec": [...]} → matrix and vector∘matrix
-/
import Rsa.Core.Wire
import Rsa.Core.Rdm
import Rsa.Core.C10Meas
import Rsa.Gen.C10

open Lean Rsa.Wire Rsa.Rdm

namespace Rsa.Drv.C10

def asLbl (j : Json) : R Lbl :=
  match j with
  | .null => pure Lbl.none
  | .str s => pure (Lbl.str s)
  | .arr a => do let l ← a.toList.mapM asInt; pure (Lbl.arr l)
  | _ => do let i ← asInt j; pure (Lbl.int i)

def ofLbl : Lbl → Json
  | .int i => ofInt i
  | .str s => Json.str s
  | .arr l => ofList ofInt l
  | .none => Json.null

def asDesc (j : Json) : R Desc := do
  (← asArr j).mapM (fun kv => do
    match ← asArr kv with
    | [k, v] => do pure (← asStr k, ← asList asLbl v)
    | _ => throw "descriptor entry must be [key, values]")

def asODesc (j : Json) : R ODesc := do
  (← asArr j).mapM (fun kv => do
    match ← asArr kv with
    | [k, v] => do pure (← asStr k, ← asLbl v)
    | _ => throw "descriptor entry must be [key, value]")

def ofDesc (d : Desc) : Json :=
  ofList (fun kv => Json.arr #[Json.str kv.1, ofList ofLbl kv.2]) d

def ofODesc (d : ODesc) : Json :=
  ofList (fun kv => Json.arr #[Json.str kv.1, ofLbl kv.2]) d

def ofVec (v : List (Option Rat)) : Json := ofList (ofOpt ofRat) v

def asObj (j : Json) : R (Obj Rat) := do
  let vecs ← fld j "vecs" >>= asList (asList (asOpt asRat))
  let od ← asODesc (fldD j "odesc" (Json.arr #[]))
  let rd ← asDesc (fldD j "rdesc" (Json.arr #[]))
  let pd ← asDesc (fldD j "pdesc" (Json.arr #[]))
  -- "n3d": the constructor was given square matrices of that size (`n_cond = x.shape[1]`)
  let built ← match fldD j "n3d" Json.null with
    | Json.null => pure (mk2d vecs od rd pd)
    | jn => do pure (mk3d (← asNat jn) vecs od rd pd)
  match built with
  | some o => pure o
  | none => throw "initial object rejected by the constructor"

def ofObj (o : Obj Rat) : Json :=
  obj [("n", ofNat o.nCond), ("vecs", ofList ofVec o.vecs), ("odesc", ofODesc o.odesc),
       ("rdesc", ofDesc o.rdesc), ("pdesc", ofDesc o.pdesc)]

def ofStore (s : Store Rat) : Json := ofList ofObj s

def ofMatrix (n : Nat) (m : Nat → Nat → Option Rat) : Json :=
  ofList (fun i => ofList (fun j => ofOpt ofRat (m i j)) (List.range n)) (List.range n)

def ofRow (r : List (String × Lbl)) : Json :=
  ofList (fun kv => Json.arr #[Json.str kv.1, ofLbl kv.2]) r

def ofDf (rows : List (DfRow Rat)) : Json :=
  ofList (fun r => obj [("v", ofOpt ofRat r.value), ("rdm", ofRow r.rdm),
                        ("c1", ofRow r.c1), ("c2", ofRow r.c2)]) rows

def asVals (j : Json) : R (List Lbl) := fld j "vals" >>= asList asLbl

def asIdx (j : Json) : R Idx := do
  match ← fld j "kind" >>= asStr with
  | "int" => pure (Idx.int (← fld j "i" >>= asInt))
  | "list" => pure (Idx.list (← fld j "l" >>= asList asInt))
  | "mask" => pure (Idx.mask (← fld j "l" >>= asList asBool))
  | "slice" => pure (Idx.slice (← asOpt asInt (fldD j "start" Json.null))
      (← asOpt asInt (fldD j "stop" Json.null)) (← fld j "step" >>= asInt))
  | k => throw s!"unknown index kind {k}"

def ofMeas (m : MStore) : Json := ofList (ofOpt Json.str) m

/-- parse a store-changing operation -/
def asOp (s : Store Rat) (name : String) (j : Json) : R (Option Op) := do
  let src := fld j "src" >>= asNat
  let by_ := fld j "by" >>= asStr
  match name with
  | "getitem" =>
      match fldD j "idx" Json.null with
      | Json.null => pure (some (.getitem (← src) (← fld j "sel" >>= asList asNat)))
      | ji =>
        let i ← src
        let idx ← asIdx ji
        -- an index numpy rejects selects "row n" here, which `getitem` rejects as out of range
        let n := (s[i]?.map (·.nRdm)).getD 0
        pure (some (.getitem i ((resolveIdx n idx).getD [n])))
  | "subset" => pure (some (.subset (← src) (← by_) (← asVals j)))
  | "subsample" => pure (some (.subsample (← src) (← by_) (← asVals j)))
  | "subset_pattern" => pure (some (.subsetPattern (← src) (← by_) (← asVals j)))
  | "subsample_pattern" => pure (some (.subsamplePattern (← src) (← by_) (← asVals j)))
  | "reorder" => pure (some (.reorder (← src) (← fld j "ord" >>= asList asNat)))
  | "sort_alpha" => pure (some (.sortAlpha (← src) (← by_) (← fld j "reindex" >>= asBool)))
  | "sort_list" => pure (some (.sortList (← src) (← by_) (← asVals j) (← fld j "reindex" >>= asBool)))
  | "append" => pure (some (.append (← src) (← fld j "other" >>= asNat)))
  | "concat" => pure (some (.concat (← fld j "srcs" >>= asList asNat)
      (← asOpt asStr (fldD j "target" Json.null))))
  | "copy" => pure (some (.copy (← src)))
  | "dict" => pure (some (.copy (← src)))
  | "from_partials" =>
      pure (some (.fromPartials (← fld j "srcs" >>= asList asNat)
        (← asOpt (asList asLbl) (fldD j "all" Json.null)) (← fld j "desc" >>= asStr)))
  | "permute" => pure (some (.permute (← src) (← fld j "p" >>= asList asNat)))
  | "inverse_permute" => pure (some (.inversePermute (← src)))
  | _ => pure none

/-- read-only queries: `iter`, `matrices`, `vectors`, `to_df` -/
def query (name : String) (s : Store Rat) (j : Json) : R Json := do
  let i ← fld j "src" >>= asNat
  match s[i]? with
  | none => pure (obj [("exc", Json.bool true)])
  | some o =>
    match name with
    | "iter" =>
        let items := (List.range o.nRdm).map (fun r => o.getitem [r])
        if items.all Option.isSome then
          pure (obj [("exc", Json.bool false), ("out", ofList (ofOpt ofObj) items)])
        else pure (obj [("exc", Json.bool true)])
    | "matrices" =>
        pure (obj [("exc", Json.bool false),
          ("out", ofList (fun r => ofMatrix o.nCond (o.matrix r)) (List.range o.nRdm))])
    | "vectors" => pure (obj [("exc", Json.bool false), ("out", ofList ofVec o.vecs)])
    | "len" => pure (obj [("exc", Json.bool false), ("out", ofNat o.nRdm)])
    | "reversed" =>
        let items := (List.range o.nRdm).reverse.map (fun r => o.getitem [r])
        if items.all Option.isSome then
          pure (obj [("exc", Json.bool false), ("out", ofList (ofOpt ofObj) items)])
        else pure (obj [("exc", Json.bool true)])
    | "to_df" => pure (obj [("exc", Json.bool false), ("out", ofDf o.toDf)])
    | _ => throw s!"unknown session op {name}"

def session (j : Json) : R Json := do
  let objs ← fld j "objs" >>= asList asObj
  let ops ← fld j "ops" >>= asArr
  let cm ← asBool (fldD j "cm" (Json.bool true))
  let pk ← asBool (fldD j "pk" (Json.bool false))
  let meas0 ← (← fld j "objs" >>= asArr).mapM (fun oj => asOpt asStr (fldD oj "meas" Json.null))
  let mut s : Store Rat := objs
  let mut m : MStore := meas0
  let mut out : Array Json := #[]
  for oj in ops do
    let name ← fld oj "op" >>= asStr
    if name == "sort_unknown" then
      -- `sort_by(desc=<neither 'alpha' nor a list>)`: not an operation of the model, the library
      -- raises ValueError and nothing changes
      out := out.push (obj [("exc", Json.bool true), ("store", ofStore s), ("meas", ofMeas m)])
    else
    match ← asOp s name oj with
    | some op =>
      match stepME pk cm (s, m) op with
      | some (s', m') =>
        s := s'
        m := m'
        out := out.push (obj [("exc", Json.bool false), ("store", ofStore s), ("meas", ofMeas m)])
      | none => out := out.push (obj [("exc", Json.bool true), ("store", ofStore s), ("meas", ofMeas m)])
    | none => out := out.push (← query name s oj)
  pure (obj [("init", ofStore objs), ("steps", Json.arr out)])

def resolve (j : Json) : R Json := do
  let n ← fld j "n" >>= asNat
  let idx ← fld j "idx" >>= asIdx
  pure (ofOpt (ofList ofNat) (resolveIdx n idx))

def nfrom (j : Json) : R Json := do
  let n ← fld j "len" >>= asNat
  pure (Json.arr #[ofNat (Rsa.Gen.C10.nFromReduced n), ofNat (Rsa.Gen.C10.nFromLength n)])

/-- vector → square → vector on one RDM of `n` conditions -/
def roundtrip (j : Json) : R Json := do
  let n ← fld j "n" >>= asNat
  let v ← fld j "vec" >>= asList (asOpt asRat)
  let m := matOf n (some (0 : Rat)) v
  pure (obj [("matrix", ofMatrix n m), ("vector", ofVec (Rsa.matToVec n m))])

def handle : Handler := fun op j =>
  match op with
  | "c10.session" => some (session j)
  | "c10.nfrom" => some (nfrom j)
  | "c10.resolve" => some (resolve j)
  | "c10.roundtrip" => some (roundtrip j)
  | _ => none

end Rsa.Drv.C10
