/- driver ops for property C10 (model side of the correspondence) -/
import Rsa.Core.Wire

open Lean Rsa.Wire

namespace Rsa.Drv.C10

def handle : Handler := fun _op _j => none

end Rsa.Drv.C10
