/- driver ops for property C06 (model side of the correspondence) -/
import Rsa.Core.Wire
import Rsa.Core.Stats
import Rsa.Gen.C06

open Lean Rsa.Wire Rsa.Stats

namespace Rsa.Drv.C06

/-- `_dual_bootstrap` on one triple of variances, exact arithmetic -/
def dualOp (j : Json) : R Json := do
  let v ← fld j "v" >>= asList asRat
  let nr ← asOpt asRat (fldD j "n_rdm" Json.null)
  let np ← asOpt asRat (fldD j "n_pattern" Json.null)
  match v with
  | [v0, v1, v2] => pure (ofRat (dual nr np v0 v1 v2))
  | _ => throw "need three variances"

/-- `_correct_1d` on one variance -/
def correct1d (j : Json) : R Json := do
  let v ← fld j "v" >>= asRat
  let nr ← asOpt asRat (fldD j "n_rdm" Json.null)
  let np ← asOpt asRat (fldD j "n_pattern" Json.null)
  pure (ofRat (correct np nr v))

/-- `pairwise_contrast(np.arange(m))` -/
def contrastOp (j : Json) : R Json := do
  let m ← fld j "m" >>= asNat
  pure (ofList (ofList ofInt) (pairwiseContrast (α := Int) m))

/-! nested arrays -/

inductive Nd (α : Type) where
  | leaf : Option α → Nd α
  | node : Array (Nd α) → Nd α

partial def parseNd {α : Type} (f : Json → R α) (j : Json) : R (Nd α) :=
  match j with
  | .arr xs => do
      let ys ← xs.mapM (parseNd f)
      pure (.node ys)
  | .null => pure (.leaf none)
  | x => do
      let v ← f x
      pure (.leaf (some v))

/-- element at a multi-index; out of range / too shallow / too deep is `none` -/
def Nd.get {α : Type} : Nd α → List Nat → Option α
  | n, [] => match n with
    | .leaf x => x
    | .node _ => none
  | n, i :: is => match n with
    | .leaf _ => none
    | .node xs => if h : i < xs.size then Nd.get xs[i] is else none

section ops
variable {α : Type} [Add α] [Sub α] [Mul α] [Div α] [Neg α] [Zero α] [One α] [NatCast α]
  [LT α] [DecidableLT α] [LE α] [DecidableLE α] [Max α] [Min α]

def matFn (nd : Nd α) : Nat → Nat → α := fun i j => (nd.get [i, j]).getD 0
def vecFn (nd : Nd α) : Nat → α := fun i => (nd.get [i]).getD 0
def mat3Fn (nd : Nd α) (k : Nat) : Nat → Nat → α := fun i j => (nd.get [k, i, j]).getD 0

def ofVars (out : α → Json) (v : Vars α) : Json :=
  obj [("model", ofList out v.model), ("diff", ofList out v.diff),
       ("nc", ofList (fun p => ofList out [p.1, p.2]) v.nc)]

/-- `extract_variances(variance, nc_included, n_rdm, n_pattern)`; `m` = number of models -/
def extractVars (nd : Nd α) (ndim m : Nat) (nc : Bool) (nr np : Option α) : R (Vars α) :=
  match ndim with
  | 0 => pure (extract1 m nc (fun _ => (nd.get []).getD 0) np nr)
  | 1 => pure (extract1 m nc (vecFn nd) np nr)
  | 2 => pure (extract2 m nc (matFn nd) np nr)
  | 3 => pure (extract3 m nc (mat3Fn nd 0) (mat3Fn nd 1) (mat3Fn nd 2) nr np)
  | _ => throw "variance must have 0..3 dimensions"

def extractOp (inp : Json → R α) (out : α → Json) (j : Json) : R Json := do
  let nd ← fld j "var" >>= parseNd inp
  let ndim ← fld j "ndim" >>= asNat
  let m ← fld j "m" >>= asNat
  let nc ← fld j "nc" >>= asBool
  let nr ← asOpt inp (fldD j "n_rdm" Json.null)
  let np ← asOpt inp (fldD j "n_pattern" Json.null)
  let v ← extractVars nd ndim m nc nr np
  pure (ofVars out v)

end ops

/-! Float-valued ops -/

def evalsFn (nd : Nd Float) : Evals Float := fun r j idx => nd.get (r :: j :: idx)

def epsF : Float := Float.ofScientific 2220446049250313 true 31   -- 2.220446049250313e-16

def ofOptF : Option Float → Json := ofOpt ofFloat

def listFn (l : List Float) : Nat → Float := fun i => l.getD i 0

/-- the t statistics of `t_tests` (as `|squareform(t)|`), `t_test_0` (`t`), `t_test_nc`
    (`|t|`) for given effects and variances -/
def tStatsJson (m : Nat) (e : List (Option Float)) (v : Vars Float) (ncMean : Option Float) : Json :=
  let ok := e.all Option.isSome
  let ef : Nat → Float := fun i => (e.getD i none).getD 0
  if !ok then obj [("pair", Json.null), ("zero", Json.null), ("nc", Json.null)] else
  let pair := (List.range m).map (fun i => (List.range m).map (fun k =>
    absG (tPairMat epsF m ef v.diff i k)))
  let zero := (List.range m).map (fun i => tZero epsF ef (listFn v.model) i)
  let ncv := listFn (v.nc.map (·.1))
  let nc := match ncMean with
    | some c => ofList ofFloat ((List.range m).map (fun i => absG (tNc epsF ef ncv c i)))
    | none => Json.null
  obj [("pair", ofList (ofList ofFloat) pair), ("zero", ofList ofFloat zero), ("nc", nc)]

/-- everything a `Result` reports for the t-test: variances, SEM, means, t statistics -/
def resultOp (j : Json) : R Json := do
  let nd ← fld j "evals" >>= parseNd asFloat
  let nB ← fld j "nB" >>= asNat
  let m ← fld j "m" >>= asNat
  let shape ← fld j "shape" >>= asList asNat
  let cv ← fld j "cv_method" >>= asStr
  let E := evalsFn nd
  let means ←
    if cv == "fixed" || cv == "crossvalidation" then
      match shape with
      | [n] => pure (getMeansFixed nB m n E)
      | _ => throw "fixed / crossvalidation evaluations are 3-D"
    else pure (getMeansBoot nB m shape E)
  let eff := (List.range m).map (effect nB shape E)
  let base := [("means", ofList ofOptF means), ("effects", ofList ofOptF eff)]
  let vj := fldD j "var" Json.null
  if vj.isNull then
    pure (obj (base ++ [("vars", Json.null)]))
  else do
    let vnd ← parseNd asFloat vj
    let ndim ← fld j "ndim" >>= asNat
    let lastDim ← fld j "last_dim" >>= asNat
    let nr ← asOpt asFloat (fldD j "n_rdm" Json.null)
    let np ← asOpt asFloat (fldD j "n_pattern" Json.null)
    let ncLow ← asList (asOpt asFloat) (fldD j "nc_lower" (Json.arr #[]))
    let v ← extractVars vnd ndim m (ncIncluded ndim lastDim m) nr np
    let sem := v.model.map getSem
    pure (obj (base ++ [("vars", ofVars ofFloat v), ("sem", ofList ofFloat sem),
      ("t", tStatsJson m eff v (nanMean ncLow))]))

/-- the three bootstrap tests on (collapsed) bootstrap evaluations -/
def bootOp (j : Json) : R Json := do
  let nd ← fld j "evals" >>= parseNd asFloat
  let nB ← fld j "nB" >>= asNat
  let m ← fld j "m" >>= asNat
  let shape ← fld j "shape" >>= asList asNat
  let E := evalsFn nd
  let c : Nat → Nat → Option Float := cell shape E
  let ltb : Float → Float → Bool := fun a b => a < b
  let eqb : Float → Float → Bool := fun a b => a == b
  let leb : Float → Float → Bool := fun a b => a ≤ b
  let pair := (List.range m).map (fun i => (List.range m).map (fun k =>
    bootPairMat ltb eqb nB m c i k))
  let base := [("pair", ofList (ofList ofFloat) pair)]
  -- zero / noise-ceiling tests exist for 2-D evaluations only
  if !shape.isEmpty then pure (obj base) else do
    let zero := (List.range m).map (fun i => bootOneSided leb nB (fun r => c r i) (fun _ => some 0))
    let ncj := fldD j "nc_rows" Json.null
    if ncj.isNull then pure (obj (base ++ [("zero", ofList ofFloat zero)])) else do
      let ncRows ← asList (asOpt asFloat) ncj
      -- a single value is broadcast over the rows
      let ref : Nat → Option Float := fun r =>
        if ncRows.length = 1 then ncRows.getD 0 none else ncRows.getD r none
      let nc := (List.range m).map (fun i => bootOneSided leb nB ref (fun r => c r i))
      pure (obj (base ++ [("zero", ofList ofFloat zero), ("nc", ofList ofFloat nc)]))

/-- the per-model subject vectors the rank-sum tests hand to `wilcoxon` -/
def ranksumOp (j : Json) : R Json := do
  let nd ← fld j "evals" >>= parseNd asFloat
  let nB ← fld j "nB" >>= asNat
  let m ← fld j "m" >>= asNat
  let n ← fld j "n" >>= asNat
  let E := evalsFn nd
  pure (ofList (ofList ofOptF) ((List.range m).map (ranksumData nB n E)))

/-- `eval_fixed` from the per-subject evaluations `x[model][subject]` on -/
def fixedOp (j : Json) : R Json := do
  let nd ← fld j "x" >>= parseNd asFloat
  let m ← fld j "m" >>= asNat
  let n ← fld j "n" >>= asNat
  let ncLow ← asOpt asFloat (fldD j "nc_lower" Json.null)
  let x : Nat → Nat → Float := fun i s => (nd.get [i, s]).getD 0
  let v := fixedVars m n x
  let eff := (List.range m).map (fun i => some (meanN n (x i)))
  let cov := (List.range m).map (fun i => (List.range m).map (fun k => fixedCov n x i k))
  pure (obj [("cov", ofList (ofList ofFloat) cov), ("vars", ofVars ofFloat v),
    ("sem", ofList ofFloat (v.model.map getSem)),
    ("dof", ofInt (Rsa.Gen.C06.fixedDof n)),
    ("means", ofList ofOptF eff), ("t", tStatsJson m eff v ncLow)])

/-- variances a `Result` built by an evaluation function must report for its stored covariance:
    corrected with the count(s) of the resampled factor(s) only -/
def evaluatorOp (j : Json) : R Json := do
  let cv ← fld j "cv" >>= asStr
  let vnd ← fld j "var" >>= parseNd asFloat
  let ndim ← fld j "ndim" >>= asNat
  let lastDim ← fld j "last_dim" >>= asNat
  let m ← fld j "m" >>= asNat
  let nRdm ← fld j "n_rdm" >>= asFloat
  let nCond ← fld j "n_cond" >>= asFloat
  match resampledOf cv with
  | none => throw s!"unknown cv_method {cv}"
  | some f =>
    let ns := evaluatorNs f nRdm nCond
    let v ← extractVars vnd ndim m (ncIncluded ndim lastDim m) ns.1 ns.2
    pure (obj [("vars", ofVars ofFloat v), ("sem", ofList ofFloat (v.model.map getSem))])

def handle : Handler := fun op j =>
  match op with
  | "c06.dual" => some (dualOp j)
  | "c06.correct1d" => some (correct1d j)
  | "c06.contrast" => some (contrastOp j)
  | "c06.extract" => some (extractOp asRat ofRat j)
  | "c06.extractf" => some (extractOp asFloat ofFloat j)
  | "c06.result" => some (resultOp j)
  | "c06.boot" => some (bootOp j)
  | "c06.ranksum" => some (ranksumOp j)
  | "c06.fixed" => some (fixedOp j)
  | "c06.evaluator" => some (evaluatorOp j)
  | _ => none

end Rsa.Drv.C06
