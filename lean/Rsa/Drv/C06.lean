/- driver ops for property C06 (model side of the correspondence) -/
import Rsa.Core.Wire
import Rsa.Gen.C06

open Lean Rsa.Wire

namespace Rsa.Drv.C06

/-- `_dual_bootstrap` on one triple of variances, exact arithmetic -/
def dual (j : Json) : R Json := do
  let v ← fld j "v" >>= asList asRat
  let nr ← asOpt asRat (fldD j "n_rdm" Json.null)
  let np ← asOpt asRat (fldD j "n_pattern" Json.null)
  match v, nr, np with
  | [v0, v1, v2], some nr, some np => pure (ofRat (Rsa.Gen.C06.dualBootstrapN v0 v1 v2 nr np))
  | [v0, v1, v2], _, _ => pure (ofRat (Rsa.Gen.C06.dualBootstrap v0 v1 v2))
  | _, _, _ => throw "need three variances"

/-- `_correct_1d` on one variance -/
def correct1d (j : Json) : R Json := do
  let v ← fld j "v" >>= asRat
  let nr ← asOpt asRat (fldD j "n_rdm" Json.null)
  let np ← asOpt asRat (fldD j "n_pattern" Json.null)
  match np, nr with
  | some np, some nr => pure (ofRat (Rsa.Gen.C06.correct1dBoth v np nr))
  | some np, none => pure (ofRat (Rsa.Gen.C06.correct1dPattern v np))
  | none, some nr => pure (ofRat (Rsa.Gen.C06.correct1dRdm v nr))
  | none, none => pure (ofRat (Rsa.Gen.C06.correct1dNone v))

def handle : Handler := fun op j =>
  match op with
  | "c06.dual" => some (dual j)
  | "c06.correct1d" => some (correct1d j)
  | _ => none

end Rsa.Drv.C06
