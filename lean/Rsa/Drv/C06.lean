/- driver ops for property C06 (model side of the correspondence) -/
import Rsa.Core.Wire
import Rsa.Core.Stats
import Rsa.Gen.C06

open Lean Rsa.Wire Rsa.Stats Rsa.Gen.C06

namespace Rsa.Drv.C06

/-- `_dual_bootstrap` on one triple of variances, exact arithmetic -/
def dualOp (j : Json) : R Json := do
  let v ← fld j "v" >>= asList asRat
  let nr ← asOpt asRat (fldD j "n_rdm" Json.null)
  let np ← asOpt asRat (fldD j "n_pattern" Json.null)
  match v with
  | [v0, v1, v2] => pure (ofRat (dual nr np v0 v1 v2))
  | _ => throw "need three variances"

/-- `_correct_1d` on one variance -/
def correct1d (j : Json) : R Json := do
  let v ← fld j "v" >>= asRat
  let nr ← asOpt asRat (fldD j "n_rdm" Json.null)
  let np ← asOpt asRat (fldD j "n_pattern" Json.null)
  pure (ofRat (correct np nr v))

/-- `pairwise_contrast(np.arange(m))` -/
def contrastOp (j : Json) : R Json := do
  let m ← fld j "m" >>= asNat
  pure (ofList (ofList ofInt) (pairwiseContrast (α := Int) m))

/-! nested arrays -/

inductive Nd (α : Type) where
  | leaf : Option α → Nd α
  | node : Array (Nd α) → Nd α

partial def parseNd {α : Type} (f : Json → R α) (j : Json) : R (Nd α) :=
  match j with
  | .arr xs => do
      let ys ← xs.mapM (parseNd f)
      pure (.node ys)
  | .null => pure (.leaf none)
  | x => do
      let v ← f x
      pure (.leaf (some v))

/-- element at a multi-index; out of range / too shallow / too deep is `none` -/
def Nd.get {α : Type} : Nd α → List Nat → Option α
  | n, [] => match n with
    | .leaf x => x
    | .node _ => none
  | n, i :: is => match n with
    | .leaf _ => none
    | .node xs => if h : i < xs.size then Nd.get xs[i] is else none

section ops
variable {α : Type} [Add α] [Sub α] [Mul α] [Div α] [Neg α] [Zero α] [One α] [NatCast α]
  [LT α] [DecidableLT α] [LE α] [DecidableLE α] [Max α] [Min α]

def matFn (nd : Nd α) : Nat → Nat → α := fun i j => (nd.get [i, j]).getD 0
def vecFn (nd : Nd α) : Nat → α := fun i => (nd.get [i]).getD 0
def mat3Fn (nd : Nd α) (k : Nat) : Nat → Nat → α := fun i j => (nd.get [k, i, j]).getD 0

def ofVars (out : α → Json) (v : Vars α) : Json :=
  obj [("model", ofList out v.model), ("diff", ofList out v.diff),
       ("nc", ofList (fun p => ofList out [p.1, p.2]) v.nc)]

/-- `extract_variances(variance, nc_included, n_rdm, n_pattern)`; `m` = number of models -/
def extractVars (nd : Nd α) (ndim m : Nat) (nc : Bool) (nr np : Option α) : R (Vars α) :=
  match ndim with
  | 0 => pure (extract1 m nc (fun _ => (nd.get []).getD 0) np nr)
  | 1 => pure (extract1 m nc (vecFn nd) np nr)
  | 2 => pure (extract2 m nc (matFn nd) np nr)
  | 3 => pure (extract3 m nc (mat3Fn nd 0) (mat3Fn nd 1) (mat3Fn nd 2) nr np)
  | _ => throw "variance must have 0..3 dimensions"

def extractOp (inp : Json → R α) (out : α → Json) (j : Json) : R Json := do
  let nd ← fld j "var" >>= parseNd inp
  let ndim ← fld j "ndim" >>= asNat
  let m ← fld j "m" >>= asNat
  let nc ← fld j "nc" >>= asBool
  let nr ← asOpt inp (fldD j "n_rdm" Json.null)
  let np ← asOpt inp (fldD j "n_pattern" Json.null)
  let v ← extractVars nd ndim m nc nr np
  pure (ofVars out v)

end ops

/-! Float-valued ops -/

def evalsFn (nd : Nd Float) : Evals Float := fun r j idx => nd.get (r :: j :: idx)

def epsF : Float := Float.ofScientific 2220446049250313 true 31   -- 2.220446049250313e-16

def ofOptF : Option Float → Json := ofOpt ofFloat

def listFn (l : List Float) : Nat → Float := fun i => l.getD i 0

/-- the t statistics of `t_tests` (as `|squareform(t)|`), `t_test_0` (`t`), `t_test_nc`
    (`|t|`) for given effects and variances -/
def tStatsJson (m : Nat) (e : List (Option Float)) (v : Vars Float) (ncMean ncMeanUpper : Option Float) :
    R Json := do
  -- the call sites of all_tests and of pair_tests / zero_tests / nc_tests must hand over the same
  -- things (codes re-read from the source: see `routes_forward_dof_and_variances`)
  if allPairVar != singlePairVar || allZeroVar != singleZeroVar || allNcVar != singleNcVar
      || allNcCeil != singleNcCeil then
    throw "all_tests and the single wrappers pass different variances / ceilings"
  if singlePairVar != 1 || resultPairVar != 1 || resultAllDiffVar != 1 then
    throw "the pair test does not receive diff_var"
  if singleZeroVar != 0 || resultZeroVar != 0 || resultAllModelVar != 0 then
    throw "the test against zero does not receive model_var"
  if resultNcVar != 4 || resultAllNcVar != 4 then
    throw "the ceiling test does not receive noise_ceil_var"
  -- round 7: a model without any value has an undefined effect (IEEE NaN here, as in numpy); its
  -- statistics are undefined, those of the other models are not affected
  let ef : Nat → Float := fun i => (e.getD i none).getD (0.0 / 0.0)
  let pair := (List.range m).map (fun i => (List.range m).map (fun k =>
    absG (tPairMat epsF m ef v.diff i k)))
  let zero := (List.range m).map (fun i => tZero epsF ef (listFn v.model) i)
  let ncv ← match singleNcVar with
    | 2 => pure (listFn (v.nc.map (·.1)))
    | 3 => pure (listFn (v.nc.map (·.2)))
    | _ => throw "unexpected variance for the ceiling test"
  let ncm ← match singleNcCeil with
    | 0 => pure ncMean
    | 1 => pure ncMeanUpper
    | _ => throw "unexpected ceiling value for the ceiling test"
  let nc := match ncm with
    | some c => ofList ofFloat ((List.range m).map (fun i => absG (tNc epsF ef ncv c i)))
    | none => Json.null
  pure (obj [("pair", ofList (ofList ofFloat) pair), ("zero", ofList ofFloat zero), ("nc", nc)])

/-- the degrees of freedom that reach each t-test through `Result.test_all` -> `all_tests` and
    through `Result.test_pairwise / test_zero / test_noise` -> the single wrappers -/
def dofRoutes (d : Int) : Json :=
  obj [("all", ofList ofInt [allPairDof (resultAllDof d), allZeroDof (resultAllDof d), allNcDof (resultAllDof d)]),
       ("single", ofList ofInt [singlePairDof (resultPairDof d), singleZeroDof (resultZeroDof d),
          singleNcDof (resultNcDof d)]),
       ("util_all", ofList ofInt [allPairDof d, allZeroDof d, allNcDof d]),
       ("util_single", ofList ofInt [singlePairDof d, singleZeroDof d, singleNcDof d])]

/-- everything a `Result` reports for the t-test: variances, SEM, means, t statistics -/
def resultOp (j : Json) : R Json := do
  let nd ← fld j "evals" >>= parseNd asFloat
  let nB ← fld j "nB" >>= asNat
  let m ← fld j "m" >>= asNat
  let shape ← fld j "shape" >>= asList asNat
  let cv ← fld j "cv_method" >>= asStr
  let E := evalsFn nd
  let means ←
    if cv == "fixed" || cv == "crossvalidation" then
      match shape with
      | [n] => pure (getMeansFixed nB m n E)
      | _ => throw "fixed / crossvalidation evaluations are 3-D"
    else pure (getMeansSpec nB m shape E)
  let eff := (List.range m).map (effect nB shape E)
  let base := [("means", ofList ofOptF means), ("effects", ofList ofOptF eff)]
  let vj := fldD j "var" Json.null
  if vj.isNull then
    pure (obj (base ++ [("vars", Json.null)]))
  else do
    let vnd ← parseNd asFloat vj
    let ndim ← fld j "ndim" >>= asNat
    let lastDim ← fld j "last_dim" >>= asNat
    let nr ← asOpt asFloat (fldD j "n_rdm" Json.null)
    let np ← asOpt asFloat (fldD j "n_pattern" Json.null)
    let ncLow ← asList (asOpt asFloat) (fldD j "nc_lower" (Json.arr #[]))
    let ncUp ← asList (asOpt asFloat) (fldD j "nc_upper" (Json.arr #[]))
    let dof ← asInt (fldD j "dof" (ofInt 1))
    let v ← extractVars vnd ndim m (ncIncluded ndim lastDim m) nr np
    let sem := v.model.map getSem
    let t ← tStatsJson m eff v (nanMean ncLow) (nanMean ncUp)
    -- confidence intervals / error bars: `q` is the Student-t quantile the harness computed at the
    -- tail `propcut` (returned, so that the harness can check it used the model's tail)
    let pct ← asOpt asFloat (fldD j "pct" Json.null)
    let q ← asOpt asFloat (fldD j "q" Json.null)
    let level : Float := match pct with
      | some p => Rsa.Gen.C06.ebCiPercent p
      | none => Rsa.Gen.C06.ebCiDefault
    let upct : Float := match pct with
      | some p => p
      | none => Rsa.Gen.C06.utilCiDefault
    let ciPart : List (String × Json) := match q with
      | none => []
      | some q =>
        let ms := means.map (fun x => x.getD (0.0 / 0.0))
        let okm := true
        let cis := List.zipWith (fun mu se => resultCi mu se q) ms sem
        let ebs := List.zipWith (fun mu se => resultEbCi mu se q) ms sem
        let ue := v.model.map (fun mv => utilEbCi mv q)
        [("ci", if okm then ofList (ofList ofFloat) [cis.map (·.1), cis.map (·.2)] else Json.null),
         ("eb_ci", if okm then ofList (ofList ofFloat) [ebs.map (·.1), ebs.map (·.2)] else Json.null),
         ("util_eb_ci", ofList (ofList ofFloat) [ue.map (·.1), ue.map (·.2)])]
    let us := v.model.map utilEbSem
    pure (obj (base ++ [("vars", ofVars ofFloat v), ("sem", ofList ofFloat sem),
      ("t", t), ("dof", dofRoutes dof),
      ("propcut", ofList ofFloat [Rsa.Gen.C06.ciPropCut level, Rsa.Gen.C06.utilPropCut upct]),
      ("util_eb_sem", ofList (ofList ofFloat) [us.map (·.1), us.map (·.2)])] ++ ciPart))

/-- the three bootstrap tests on (collapsed) bootstrap evaluations -/
def bootOp (j : Json) : R Json := do
  let nd ← fld j "evals" >>= parseNd asFloat
  let nB ← fld j "nB" >>= asNat
  let m ← fld j "m" >>= asNat
  let shape ← fld j "shape" >>= asList asNat
  let E := evalsFn nd
  let c : Nat → Nat → Option Float := cell shape E
  let ltb : Float → Float → Bool := fun a b => a < b
  let eqb : Float → Float → Bool := fun a b => a == b
  let leb : Float → Float → Bool := fun a b => a ≤ b
  let pair := (List.range m).map (fun i => (List.range m).map (fun k =>
    bootPairMat ltb eqb nB m c i k))
  let base := [("pair", ofList (ofList ofFloat) pair)]
  -- one value per bootstrap sample (mean over folds / repetitions), one p-value per model
  let zero := (List.range m).map (fun i => bootZeroNd leb nB shape E i)
  let ncj := fldD j "nc_lower" Json.null
  if ncj.isNull then pure (obj (base ++ [("zero", ofList ofFloat zero)])) else do
    let ncShape ← asList asNat (fldD j "nc_shape" (Json.arr #[]))
    let scalar ← asBool (fldD j "nc_scalar" (Json.bool false))
    let ncNd ← parseNd asFloat ncj
    -- a single value is broadcast over the bootstrap samples
    let ncFn : Nat → List Nat → Option Float := fun r idx =>
      if scalar then ncNd.get [] else ncNd.get (r :: idx)
    let nc := (List.range m).map (fun i => bootNcNd leb nB shape (if scalar then [] else ncShape) E ncFn i)
    pure (obj (base ++ [("zero", ofList ofFloat zero), ("nc", ofList ofFloat nc)]))

/-- the per-model subject vectors the rank-sum tests hand to `wilcoxon` -/
def ranksumOp (j : Json) : R Json := do
  let nd ← fld j "evals" >>= parseNd asFloat
  let nB ← fld j "nB" >>= asNat
  let m ← fld j "m" >>= asNat
  let n ← fld j "n" >>= asNat
  let E := evalsFn nd
  let c ← asFloat (fldD j "nc_value" (ofFloat 0))
  let data := (List.range m).map (ranksumData nB n E)
  -- the null distribution is external: report W⁺, W⁻ and the ranks (the `g` of `srP` packs them)
  let pack : Float → Float → List Float → Json := fun wp wm rk =>
    obj [("plus", ofFloat wp), ("minus", ofFloat wm), ("ranks", ofList ofFloat rk)]
  let ofO : Option Json → Json := fun x => x.getD Json.null
  let pairs := (List.range m).map (fun i => (List.range m).map (fun k =>
    if i < k then ofO (wilcoxonPair pack (ranksumData nB n E i) (ranksumData nB n E k)) else Json.null))
  let zero := (List.range m).map (fun i => ofO (ranksumValueSR pack nB n E 0 i))
  let ncv := (List.range m).map (fun i => ofO (ranksumValueSR pack nB n E c i))
  pure (obj [("data", ofList (ofList ofOptF) data), ("pair", ofList (ofList id) pairs),
    ("zero", ofList id zero), ("nc", ofList id ncv)])

/-- `eval_fixed` from the per-subject evaluations `x[model][subject]` on -/
def fixedOp (j : Json) : R Json := do
  let nd ← fld j "x" >>= parseNd asFloat
  let m ← fld j "m" >>= asNat
  let n ← fld j "n" >>= asNat
  let ncLow ← asOpt asFloat (fldD j "nc_lower" Json.null)
  let x : Nat → Nat → Float := fun i s => (nd.get [i, s]).getD 0
  let v := fixedVars m n x
  let eff := (List.range m).map (fun i => some (meanN n (x i)))
  let cov := (List.range m).map (fun i => (List.range m).map (fun k => fixedCov n x i k))
  let ncUp ← asOpt asFloat (fldD j "nc_upper" Json.null)
  let t ← tStatsJson m eff v ncLow ncUp
  pure (obj [("cov", ofList (ofList ofFloat) cov), ("vars", ofVars ofFloat v),
    ("sem", ofList ofFloat (v.model.map getSem)),
    ("dof", ofInt (Rsa.Gen.C06.fixedDof n)),
    ("dof_routes", dofRoutes (Rsa.Gen.C06.fixedDof n)),
    ("means", ofList ofOptF eff), ("t", t)])

/-- variances a `Result` built by an evaluation function must report for its stored covariance:
    corrected with the count(s) of the resampled factor(s) only -/
def evaluatorOp (j : Json) : R Json := do
  let cv ← fld j "cv" >>= asStr
  let vnd ← fld j "var" >>= parseNd asFloat
  let ndim ← fld j "ndim" >>= asNat
  let lastDim ← fld j "last_dim" >>= asNat
  let m ← fld j "m" >>= asNat
  let nRdm ← fld j "n_rdm" >>= asFloat
  let nCond ← fld j "n_cond" >>= asFloat
  match resampledOf cv with
  | none => throw s!"unknown cv_method {cv}"
  | some f =>
    let ns := evaluatorNs f nRdm nCond
    let v ← extractVars vnd ndim m (ncIncluded ndim lastDim m) ns.1 ns.2
    pure (obj [("vars", ofVars ofFloat v), ("sem", ofList ofFloat (v.model.map getSem))])

/-- round 4: a session on one `Result` — the model runs the calls with an explicit state (content and
    caches) through `runSession` with the effects / results *as coded* (write counts and state cells are
    the generated leaves).  The stand-alone value of a call is a function of the content it finds, so the
    op reports per call whether the content it saw and the content it left behind are the pristine ones;
    the harness then takes the call's value from the stand-alone ops (`c06.result`, `c06.boot`, …) on the
    pristine content. -/
def sessionOp (j : Json) : R Json := do
  let evals ← fld j "evals" >>= asList (asOpt asInt)
  let vars ← fld j "vars" >>= asList asInt
  let ceil ← fld j "ceil" >>= asList (asOpt asInt)
  let callsJ ← fld j "calls" >>= asArr
  let calls ← callsJ.mapM (fun cj => do
    let r ← fld cj "route" >>= asStr
    let arg ← fld cj "arg" >>= asNat
    let key ← fld cj "key" >>= asNat
    match Route.ofString? r with
    | some route => pure ({ route := route, arg := arg, key := key } : Call)
    | none => throw s!"unknown route {r}")
  let content : Content Int := { evals := evals, vars := vars, ceil := ceil }
  let pure_ : Call → Content Int → Content Int := fun _ ct => ct
  let s0 : SState Int (Content Int) := { content := content, memo := [] }
  let out := runSession (callEffect pure_) (callResult pure_) calls s0
  let rows := (calls.zip out).map (fun (c, (seen, after)) =>
    obj [("seen_pristine", Json.bool (decide (seen = content))),
         ("after_pristine", Json.bool (decide (after.content = content))),
         ("memo_empty", Json.bool after.memo.isEmpty),
         ("writes", ofNat (writesOf c.route))])
  pure (obj [("calls", Json.arr rows.toArray), ("cells", ofNat stateCells)])

def handle : Handler := fun op j =>
  match op with
  | "c06.dual" => some (dualOp j)
  | "c06.correct1d" => some (correct1d j)
  | "c06.contrast" => some (contrastOp j)
  | "c06.extract" => some (extractOp asRat ofRat j)
  | "c06.extractf" => some (extractOp asFloat ofFloat j)
  | "c06.result" => some (resultOp j)
  | "c06.boot" => some (bootOp j)
  | "c06.ranksum" => some (ranksumOp j)
  | "c06.fixed" => some (fixedOp j)
  | "c06.evaluator" => some (evaluatorOp j)
  | "c06.session" => some (sessionOp j)
  | _ => none

end Rsa.Drv.C06
