/- driver ops for property C14 (model side of the correspondence)

   op "c14.run":
     mode    "rat" (exact; methods full, diag, shrinkage_eye) | "float" (all four methods)
     kind    "residuals" | "measurements" | "unbalanced"
     method  "full" | "diag" | "shrinkage_eye" | "shrinkage_diag"
     p       number of channels
     inputs  [ {"rows": [[x..]..], "labels": [n..]?, "p": n?} .. ]   numbers as ints / "p/q";
             "p" = channel count of that list element when it differs from the request's `p"
     as_list true: the call received a list (answer is a list), false: a single input
     dof     null | number | [numbers]
   answer: one (or a list of) {"cov": [[..]] | null, "prec": [[..]] | null,
                               "lam": λ | null, "clip": "lo"|"hi"|"in"|"deg"|"const"|null}
     clip "deg": d2 / denom not positive (covariance equals its target); "const": shrinkage_diag
     with a channel without positive variance (NaN path of the source, see `sdDegenerate`)
     cov  = null : the library raises (unbalanced design handed to np.stack, short dof list)
     prec = null : covariance singular (exact test)
     prec is always computed exactly (Rat) with the certificate A·B = I checked; in
     float mode the double-valued covariance is first converted to the rationals it denotes.
-/
import Rsa.Core.Wire
import Rsa.Core.Noise

open Lean Rsa.Wire Rsa.Noise

namespace Rsa.Drv.C14

/-- placeholder only: the exact mode rejects `shrinkage_diag` (the one method calling
    `np.sqrt`) before any square root could be taken. -/
local instance : Rsa.HasSqrt Rat := ⟨fun _ => 0⟩

/-- the rational a finite double denotes -/
def floatToRat (f : Float) : Option Rat :=
  let b := f.toBits.toNat
  let neg := b / 2 ^ 63 = 1
  let e : Nat := (b / 2 ^ 52) % 2048
  let m : Nat := b % 2 ^ 52
  if e = 2047 then none
  else
    let (mant, ex) : Nat × Int := if e = 0 then (m, -1074) else (m + 2 ^ 52, (e : Int) - 1075)
    let v : Rat := if ex ≥ 0 then (mant : Rat) * ((2 : Rat) ^ ex.toNat)
                   else (mant : Rat) / ((2 : Rat) ^ (-ex).toNat)
    some (if neg then -v else v)

def ratToFloat (r : Rat) : Float := Float.ofInt r.num / Float.ofNat r.den

def parseMethod (s : String) : R Method :=
  match s with
  | "full" => pure .full
  | "diag" => pure .diag
  | "shrinkage_eye" => pure .eye
  | "shrinkage_diag" => pure .sdiag
  | _ => throw s!"unknown method {s}"

def rowOf {α} [Zero α] (l : List α) : Row α := fun j => l[j]?.getD 0

structure Input (α : Type) where
  rows : List (List α)
  labels : List Nat
  p : Option Nat := none      -- channel count of this element when it differs from the request's

section generic
variable {α : Type} [Add α] [Sub α] [Mul α] [Div α] [Zero α] [One α] [NatCast α] [Neg α]
variable [LT α] [DecidableLT α] [LE α] [DecidableLE α] [Min α] [Max α] [Rsa.HasSqrt α]

/-- shrinkage intensity and which side of the clip it is on (for coverage tags) -/
def lamInfo (m : Method) (rows : List (Row α)) (dof : α) (p : Nat) : Option α × String :=
  match m with
  | .eye =>
    if 0 < eyeD2 rows p then
      (some (eyeLambda rows p),
        if eyeD2 rows p < eyeB2raw rows p then "hi"
        else if 0 < eyeB2raw rows p then "in" else "lo")
    else (some (eyeLambda rows p), "deg")
  | .sdiag =>
    if sdDegenerate rows dof p then (some (sdLambda rows dof p), "const")
    else if 0 < sdDen rows dof p then
      let raw := sdNum rows dof p / sdDen rows dof p
      (some (sdLambda rows dof p), if 1 < raw then "hi" else if raw < 0 then "lo" else "in")
    else (some (sdLambda rows dof p), "deg")
  | _ => (none, "")

/-- covariance of one input with the dof handed to it (`none` = natural dof), through the
    evaluation plan of `Rsa.Core.Noise` (proved equal to the model functions);
    outer `none` = the library raises -/
def covOne (kind : String) (m : Method) (inp : Input α) (dof : Option α) (p : Nat) :
    Option (List (List α) × Option α × String) :=
  let rows := inp.rows.map rowOf
  let obs : List (Obs α) := List.zip inp.labels rows
  match kind with
  | "residuals" =>
    let d := dof.getD ((Rsa.Gen.C14.dofResiduals rows.length : Nat) : α)
    let (l, c) := lamInfo m (residRows2 rows p) d p
    some (covFromResidualsL m rows dof p, l, c)
  | "measurements" =>
    match balancedR (groups obs) with
    | none => none
    | some r =>
      let d := dof.getD ((Rsa.Gen.C14.dofTensor (groups obs).length r : Nat) : α)
      let (l, c) := lamInfo m (residRows3 (groups obs) p) d p
      (covFromMeasurementsL m obs dof p).map (fun cv => (cv, l, c))
  | _ =>
    let d := dof.getD ((Rsa.Gen.C14.dofUnbalanced obs.length (uniq (labels obs)).length : Nat) : α)
    let (l, c) := lamInfo m (residRowsUnb obs p) d p
    some (covFromUnbalancedL m obs dof p, l, c)

end generic

/-- exact precision of a covariance given as rationals -/
def precJson (p : Nat) (cov : Mat Rat) : Json :=
  match precOf cov p with
  | none => Json.null
  | some b => ofList (ofList ofRat) (matList p b)

def resultJson {α} (p : Nat) (out : α → Json) (toRat : α → Option Rat)
    (r : Option (List (List α) × Option α × String)) : Json :=
  match r with
  | none => obj [("cov", Json.null), ("prec", Json.null), ("lam", Json.null), ("clip", Json.null)]
  | some (cl, lam, clip) =>
    let exact : Option (List (List Rat)) := cl.mapM (fun row => row.mapM toRat)
    let prec := match exact with
      | none => Json.null
      | some e => precJson p (fun j k => ((e[j]?).getD [])[k]?.getD 0)
    obj [("cov", ofList (ofList out) cl), ("prec", prec),
         ("lam", ofOpt out lam), ("clip", if clip = "" then Json.null else Json.str clip)]

def parseInput {α} (num : Json → R α) (j : Json) : R (Input α) := do
  let rows ← fld j "rows" >>= asList (asList num)
  let labels ← match j.getObjVal? "labels" with
    | .ok v => if v.isNull then pure [] else asList asNat v
    | .error _ => pure []
  let pi ← match j.getObjVal? "p" with
    | .ok v => if v.isNull then pure none else some <$> asNat v
    | .error _ => pure none
  pure { rows := rows, labels := labels, p := pi }

def parseDof {α} (num : Json → R α) (j : Json) : R (DofArg α) :=
  if j.isNull then pure .none
  else match j with
    | .arr _ => do let l ← asList num j; pure (.list l)
    | _ => do let x ← num j; pure (.scalar x)

section run
variable {α : Type} [Add α] [Sub α] [Mul α] [Div α] [Zero α] [One α] [NatCast α] [Neg α]
variable [LT α] [DecidableLT α] [LE α] [DecidableLE α] [Min α] [Max α] [Rsa.HasSqrt α]

def runG (num : Json → R α) (out : α → Json) (toRat : α → Option Rat) (j : Json) : R Json := do
  let kind ← fld j "kind" >>= asStr
  let m ← fld j "method" >>= asStr >>= parseMethod
  let p ← fld j "p" >>= asNat
  let inputs ← fld j "inputs" >>= asList (parseInput num)
  let asL ← fld j "as_list" >>= asBool
  let dof ← parseDof num (fldD j "dof" Json.null)
  if asL then
    -- the list branches: `cov_from_measurements` delegates to `cov_from_unbalanced`
    let kind' := if kind = "residuals" then "residuals" else "unbalanced"
    let res := (List.range inputs.length).map (fun i =>
      match inputs[i]?, dof.at i with
      | some inp, some di => (inp.p.getD p, covOne kind' m inp di (inp.p.getD p))
      | _, _ => (p, none))
    pure (ofList (fun (pr : Nat × _) => resultJson pr.1 out toRat pr.2) res)
  else
    match inputs, dof with
    | [inp], .none => pure (resultJson p out toRat (covOne kind m inp Option.none p))
    | [inp], .scalar d => pure (resultJson p out toRat (covOne kind m inp (some d) p))
    | _, _ => throw "single input needs exactly one input and a scalar / null dof"

end run

def run (j : Json) : R Json := do
  let mode ← fld j "mode" >>= asStr
  if mode = "rat" then
    let m ← fld j "method" >>= asStr >>= parseMethod
    if m = .sdiag then throw "shrinkage_diag needs float mode (np.sqrt)"
    runG (α := Rat) asRat ofRat (fun r => some r) j
  else
    runG (α := Float) (fun v => ratToFloat <$> asRat v) ofFloat floatToRat j

/-! op "c14.session" (round 4): one dataset object, a sequence of steps
     mode   "rat" | "float"
     p      number of channels
     rows   [[x..]..]           the measurements the object is built with
     descs  [[n..]..]           one list of values (codes) per observation descriptor
     steps  [ {"t":"sort","d":k} | {"t":"desc","d":k,"i":i,"v":n} | {"t":"val","i":i,"j":j,"x":num}
            | {"t":"est","est":"measurements"|"unbalanced","method":…,"d":k,"dof":null|num} .. ]
   answer: one result object (as for "c14.run") per "est" step, in order.  The content is
   threaded through `Rsa.Noise.Step.apply` (the function `runSession` / `applySteps` are made
   of); each estimate is computed from the content of that moment and from nothing else. -/

section session
variable {α : Type} [Add α] [Sub α] [Mul α] [Div α] [Zero α] [One α] [NatCast α] [Neg α]
variable [LT α] [DecidableLT α] [LE α] [DecidableLE α] [Min α] [Max α] [Rsa.HasSqrt α]

def parseStep (num : Json → R α) (j : Json) : R (Step α) := do
  let t ← fld j "t" >>= asStr
  match t with
  | "sort" => do pure (.sort (← fld j "d" >>= asNat))
  | "desc" => do
    pure (.setDesc (← fld j "d" >>= asNat) (← fld j "i" >>= asNat) (← fld j "v" >>= asNat))
  | "val" => do
    pure (.setVal (← fld j "i" >>= asNat) (← fld j "j" >>= asNat) (← fld j "x" >>= num))
  | "est" => do
    let e ← fld j "est" >>= asStr
    let est ← match e with
      | "measurements" => pure Est.measurements
      | "unbalanced" => pure Est.unbalanced
      | _ => throw s!"unknown estimator {e}"
    let m ← fld j "method" >>= asStr >>= parseMethod
    let d ← fld j "d" >>= asNat
    let dj := fldD j "dof" Json.null
    let dof ← if dj.isNull then pure none else some <$> num dj
    pure (.est est m d dof)
  | _ => throw s!"unknown step {t}"

/-- the estimate of one `est` step on the content `s` (through the evaluation plan) -/
def estJson (out : α → Json) (toRat : α → Option Rat) (p : Nat) (s : List (SObs α))
    (e : Est) (m : Method) (d : Nat) (dof : Option α) : Json :=
  let inp : Input α := { rows := s.map (fun o => (List.range p).map o.2),
                         labels := labels (view d s) }
  let kind := match e with | .measurements => "measurements" | .unbalanced => "unbalanced"
  resultJson p out toRat (covOne kind m inp dof p)

def sessionG (num : Json → R α) (out : α → Json) (toRat : α → Option Rat) (exact : Bool)
    (j : Json) : R Json := do
  let p ← fld j "p" >>= asNat
  let rows ← fld j "rows" >>= asList (asList num)
  let descs ← fld j "descs" >>= asList (asList asNat)
  let steps ← fld j "steps" >>= asList (parseStep num)
  let s0 : List (SObs α) := (List.range rows.length).map (fun i =>
    (descs.map (fun dl => dl[i]?.getD 0), rowOf ((rows[i]?).getD [])))
  let (_, outs) ← steps.foldlM (fun (acc : List (SObs α) × List Json) st => do
    match st with
    | .est e m d dof =>
      if exact ∧ m = .sdiag then throw "shrinkage_diag needs float mode (np.sqrt)"
      pure (acc.1, estJson out toRat p acc.1 e m d dof :: acc.2)
    | _ => pure (st.apply acc.1, acc.2)) (s0, [])
  pure (Json.arr outs.reverse.toArray)

end session

def session (j : Json) : R Json := do
  let mode ← fld j "mode" >>= asStr
  if mode = "rat" then
    sessionG (α := Rat) asRat ofRat (fun r => some r) true j
  else
    sessionG (α := Float) (fun v => ratToFloat <$> asRat v) ofFloat floatToRat false j

/-- op "c14.dof": the three generated leaves on concrete sizes -/
def dofs (j : Json) : R Json := do
  let n ← fld j "n" >>= asNat
  let c ← fld j "c" >>= asNat
  let r ← fld j "r" >>= asNat
  pure (obj [("residuals", ofNat (Rsa.Gen.C14.dofResiduals n)),
             ("tensor", ofNat (Rsa.Gen.C14.dofTensor c r)),
             ("unbalanced", ofNat (Rsa.Gen.C14.dofUnbalanced n c))])

def handle : Handler := fun op j =>
  match op with
  | "c14.run" => some (run j)
  | "c14.dof" => some (dofs j)
  | "c14.session" => some (session j)
  | _ => none

end Rsa.Drv.C14
