/-
  Rsa.Core.C20Syntax — the importers' *syntax constants as the source spells them* (property C20).

  `harness/leaves/C20.py` derives from the current text of `io/bids.py`, `io/fmriprep.py`,
  `io/mne.py`, `io/meadows.py`, `io/spm.py` every separator, entity key, entity order, look-up
  dict and slice bound, encoded as naturals in `Rsa.Gen.C20` (characters by code point, strings as
  big-endian bytes behind a leading 1, lists as ','-joined strings).  This module decodes them and
  re-states the model functions that contain such constants in terms of the generated values
  (namespace `Rsa.Importers.Src`).  The driver executes these; `Rsa/Lemmas/C20Syntax.lean` proves
  each equal to its literal twin in `Rsa.Core.Importers`, about which the structural theorems are
  proved — so the property theorems of `Rsa/Props/C20.lean`, stated about `Src.*`, stop to
  elaborate when the source's constants change.  Core Lean only.
-/
import Rsa.Core.Importers
import Rsa.Gen.C20

namespace Rsa.Importers

/-- decode the byte string behind the leading 1 (fuel = maximal length) -/
def natToStrAux : Nat → Nat → Str → Str
  | 0, _, acc => acc
  | f + 1, n, acc => if n ≤ 1 then acc else natToStrAux f (n / 256) (Char.ofNat (n % 256) :: acc)

def natToStr (n : Nat) : Str := natToStrAux 160 n []

/-- a ','-joined list of non-empty names -/
def natToList (n : Nat) : List Str :=
  match natToStr n with
  | [] => []
  | s => splitOn ',' s

/-- decode a table of 20-bit entries (value + 2^19) behind a leading 1, first entry lowest -/
def decodeTable : Nat → Nat → List Int
  | 0, _ => []
  | f + 1, n =>
    if n ≤ 1 then [] else (((n % 1048576 : Nat) : Int) - 524288) :: decodeTable f (n / 1048576)

/-- the tabulated standard HRF of `io/hrf.py` in units of 1e-7 (regenerated from the source) -/
def hrfTable : List Int := decodeTable 2048 Rsa.Gen.C20.hrfTableCode

/-- index of the first maximal entry -/
def argmaxInt : List Int → Nat
  | [] => 0
  | [_] => 0
  | a :: b :: r => let j := argmaxInt (b :: r); if (b :: r)[j]?.getD 0 > a then j + 1 else 0

def nondecreasing : List Int → Bool
  | a :: b :: r => decide (a ≤ b) && nondecreasing (b :: r)
  | _ => true

def sDerivative : Str := ['d', 'e', 'r', 'i', 'v', 'a', 't', 'i', 'v', 'e']
def sModality : Str := ['m', 'o', 'd', 'a', 'l', 'i', 't', 'y']
def sSuffix : Str := ['s', 'u', 'f', 'f', 'i', 'x']
def sExt : Str := ['e', 'x', 't']

/-- attribute of a `BidsFile` by its Python name -/
def entOf (e : BidsEnt) (k : Str) : Option Str :=
  if k = sDerivative then e.derivative else if k = sSub then e.sub else if k = sSes then e.ses
  else if k = sTask then e.task else if k = sRun then e.run else if k = sSpace then e.space
  else if k = sDesc then e.desc else if k = sModality then e.modality
  else if k = sSuffix then some e.suffix else if k = sExt then some e.ext else none

namespace Src
open Rsa.Gen.C20

/-! ### BIDS: `BidsFile._findEntity`, `_deconstruct` -/

def cPSeg : Char := Char.ofNat pSegSep
def cPKey : Char := Char.ofNat pKeySep
def cPSfxSeg : Char := Char.ofNat pSfxSegSep
def cPExt : Char := Char.ofNat pExtSep

def findEntity (ent : Str) : List Str → Option Str
  | [] => none
  | seg :: rest =>
    if (ent ++ [cPKey]).isPrefixOf seg then some (pyReplace (ent ++ [cPKey]) [] seg)
    else findEntity ent rest

def stripDerivative (parts : List Str) : Except String (Option Str × List Str) :=
  match parts with
  | d :: _ =>
    if d = natToStr pDerivDir then
      match parts[pDerivIdx]? with
      | some x => .ok (some x, parts.drop pDerivSkip)
      | none => .error "IndexError"
    else .ok (none, parts)
  | [] => .ok (none, parts)

def pickModality (ses : Option Str) (parts : List Str) : Except String (Option Str) :=
  if parts.length > pModMinlen then
    match parts[if truthy ses then pModIdxSes else pModIdx]? with
    | some m => .ok (some m)
    | none => .error "IndexError"
  else .ok none

def suffixOf (segs : List Str) : Str :=
  match splitOn cPExt (lastOf segs) with
  | [] => []
  | s :: _ => s

def extOf (segs : List Str) : Str :=
  match splitOn cPExt (lastOf segs) with
  | [] => []
  | _ :: r => joinWith cPExt r

def bidsParse (p : Str) : Except String BidsEnt :=
  let segs := splitOn cPSeg (basename p)
  let segs2 := splitOn cPSfxSeg (basename p)
  match stripDerivative (normParts p) with
  | .error e => .error e
  | .ok (derivative, parts) =>
    let ses := findEntity (natToStr pKeySes) segs
    match pickModality ses parts with
    | .error e => .error e
    | .ok modality =>
      .ok { derivative := derivative
            sub := findEntity (natToStr pKeySub) segs
            ses := ses
            task := findEntity (natToStr pKeyTask) segs
            run := findEntity (natToStr pKeyRun) segs
            space := findEntity (natToStr pKeySpace) segs
            desc := findEntity (natToStr pKeyDesc) segs
            modality := modality
            suffix := suffixOf segs2
            ext := extOf segs2 }

def modalitySet (p : Str) : Bool :=
  match stripDerivative (normParts p) with
  | .ok (_, parts) => parts.length > pModMinlen
  | .error _ => false

/-! ### BIDS: `BidsLayout._replace` -/

def cFSeg : Char := Char.ofNat fSegSep
def cFKey : Char := Char.ofNat fKeySep
def cFExt : Char := Char.ofNat fExtSep

def entSeg (name : Str) (v : Option Str) : List Str :=
  if truthy v then [name ++ cFKey :: pyStr v] else []

/-- the literal in front of the key separator in the file-name segment of entity `k` -/
def nameKey (k : Str) : Str :=
  if k = sSes then natToStr fNamekeySes else if k = sTask then natToStr fNamekeyTask
  else if k = sRun then natToStr fNamekeyRun else if k = sSpace then natToStr fNamekeySpace
  else if k = sDesc then natToStr fNamekeyDesc else []

def bidsFnameSegs (e : BidsEnt) : List Str :=
  [natToStr fNamekeySub ++ cFKey :: pyStr e.sub] ++
    (natToList fNameOrder).flatMap (fun k => entSeg (nameKey k) (entOf e k)) ++
    [e.suffix ++ cFExt :: e.ext]

def bidsFname (e : BidsEnt) : Str := joinWith cFSeg (bidsFnameSegs e)

/-- the directory component(s) contributed by entity `k` (the deriver fixes the kinds:
    derivative = literal + value, sub / ses = keyed, modality = bare value) -/
def dirOf (e : BidsEnt) (k : Str) : List Str :=
  if k = sDerivative then
    (if truthy e.derivative then [natToStr fDerivDir, pyStr e.derivative] else [])
  else if k = sSub then entSeg (natToStr fDirkeySub) e.sub
  else if k = sSes then entSeg (natToStr fDirkeySes) e.ses
  else if k = sModality then (if truthy e.modality then [pyStr e.modality] else [])
  else []

def bidsDirs (e : BidsEnt) : List Str := (natToList fDirOrder).flatMap (dirOf e)

def bidsFormat (e : BidsEnt) : Str := osJoin (bidsDirs e ++ [bidsFname e])

/-- one entry of a look-up's `dict(...)`: 0 absent, 2 `None`, 3 the `desc` argument,
    4 the `suffix` argument, otherwise a string literal -/
def decOpt (code : Nat) (desc suffix : Str) : Option (Option Str) :=
  if code = 0 then none else if code = 2 then some none
  else if code = 3 then some (some desc) else if code = 4 then some (some suffix)
  else some (some (natToStr code))

def decStr (code : Nat) (desc suffix : Str) : Option Str :=
  if code = 0 then none else if code = 3 then some desc else if code = 4 then some suffix
  else some (natToStr code)

def metaRepl (d s : Str) : BidsRepl :=
  { derivative := decOpt lkMetaDerivative d s, sub := decOpt lkMetaSub d s,
    ses := decOpt lkMetaSes d s, task := decOpt lkMetaTask d s, run := decOpt lkMetaRun d s,
    space := decOpt lkMetaSpace d s, desc := decOpt lkMetaDesc d s,
    modality := decOpt lkMetaModality d s, suffix := decStr lkMetaSuffix d s,
    ext := decStr lkMetaExt d s }

def eventsRepl (d s : Str) : BidsRepl :=
  { derivative := decOpt lkEventsDerivative d s, sub := decOpt lkEventsSub d s,
    ses := decOpt lkEventsSes d s, task := decOpt lkEventsTask d s, run := decOpt lkEventsRun d s,
    space := decOpt lkEventsSpace d s, desc := decOpt lkEventsDesc d s,
    modality := decOpt lkEventsModality d s, suffix := decStr lkEventsSuffix d s,
    ext := decStr lkEventsExt d s }

def tableSiblingRepl (d s : Str) : BidsRepl :=
  { derivative := decOpt lkTableDerivative d s, sub := decOpt lkTableSub d s,
    ses := decOpt lkTableSes d s, task := decOpt lkTableTask d s, run := decOpt lkTableRun d s,
    space := decOpt lkTableSpace d s, desc := decOpt lkTableDesc d s,
    modality := decOpt lkTableModality d s, suffix := decStr lkTableSuffix d s,
    ext := decStr lkTableExt d s }

def mriSiblingRepl (d s : Str) : BidsRepl :=
  { derivative := decOpt lkMriDerivative d s, sub := decOpt lkMriSub d s,
    ses := decOpt lkMriSes d s, task := decOpt lkMriTask d s, run := decOpt lkMriRun d s,
    space := decOpt lkMriSpace d s, desc := decOpt lkMriDesc d s,
    modality := decOpt lkMriModality d s, suffix := decStr lkMriSuffix d s,
    ext := decStr lkMriExt d s }

def bidsReplace (b : BidsEnt) (r : BidsRepl) : Str := bidsFormat (override b r)

def findMetaFor (b : BidsEnt) : Str := bidsReplace b (metaRepl [] [])
def findEventsFor (b : BidsEnt) : Str := bidsReplace b (eventsRepl [] [])
def findTableSiblingOf (b : BidsEnt) (desc suffix : Str) : Str :=
  bidsReplace b (tableSiblingRepl desc suffix)
def findMriSiblingOf (b : BidsEnt) (desc suffix : Str) : Str :=
  bidsReplace b (mriSiblingRepl desc suffix)

def findTableKeyFor (b : BidsEnt) : Str :=
  osJoin ((if truthy b.derivative then [natToStr tkDerivDir, pyStr b.derivative] else []) ++
    [natToStr tkPre ++ pyStr b.desc ++ natToStr tkMid ++ b.suffix ++ natToStr tkPost])

def findDerivativeFiles (files : List Str) (derivative desc : Str) (tasks : Option (List Str)) :
    List Str :=
  let pre := natToStr dfDerivDir ++ '/' :: derivative ++ ['/']
  let cands := sortStr (files.filter (fun f =>
    pre.isPrefixOf f && (natToStr dfGlobPrefix).isPrefixOf (basename f)))
  let withDesc := cands.filter (fun f => containsSub (natToStr dfDescPre ++ desc) f)
  let noJson := withDesc.filter (fun f => !(endsWithStr (natToStr dfMetaExt) f))
  match tasks with
  | none => noJson
  | some ts => ts.flatMap (fun t => noJson.filter (fun f => containsSub (natToStr dfTaskPre ++ t) f))

/-! ### fMRIPrep -/

/-- `find_fmriprep_runs`: the derivative and description it searches for -/
def fmriprepRuns (files : List Str) (tasks : Option (List Str)) : List Str :=
  findDerivativeFiles files (natToStr fpDerivative) (natToStr fpDesc) tasks

def maskOf (b : BidsEnt) : Str := findMriSiblingOf b (natToStr fpMaskDesc) (natToStr fpMaskSuffix)
def confoundsOf (b : BidsEnt) : Str :=
  findTableSiblingOf b (natToStr fpConfDesc) (natToStr fpConfSuffix)
def parcOf (b : BidsEnt) : Str := findMriSiblingOf b (natToStr fpParcDesc) (natToStr fpParcSuffix)

def confoundDefault : List Str := natToList fpConfDefault

/-- `get_dataset_descriptors`: (key, attribute, guard) triples in source order -/
def datasetDescriptors (e : BidsEnt) : List (Str × Option Str) :=
  ((natToList ddOrder).zip ((natToList ddAttrs).zip (splitOn ',' (natToStr ddGuards)))).flatMap
    (fun kag => if kag.2.2 = [] || truthy (entOf e kag.2.2) then [(kag.1, entOf e kag.2.1)] else [])

/-! ### MNE: `descriptors_from_bids_filename` -/

def cMSeg : Char := Char.ofNat mSegSep
def cMKey : Char := Char.ofNat mKeySep

def findLastEntity (name : Str) : List Str → Option Str
  | [] => none
  | seg :: rest =>
    match findLastEntity name rest with
    | some v => some v
    | none =>
      if (name ++ [cMKey]).isPrefixOf seg then some (seg.drop (mneSliceStart name.length)) else none

/-- the descriptors dict as an association list in source order; absent keys are `none` -/
def mneDescriptors (fname : Str) : List (Str × Option Str) :=
  (natToList mKeys).map (fun k => (k, findLastEntity k (splitOn cMSeg fname)))


/-! ### Meadows: `extract_filename_segments`, `is_petname` -/

def cMdExt : Char := Char.ofNat mdExtSep
def cMdSeg : Char := Char.ofNat mdSegSep
def cMdPet : Char := Char.ofNat mdPetSep
def cMdVer : Char := Char.ofNat mdVersionStrip

def isPetname (petnames : List Str) (seg : Str) : Bool :=
  if seg.contains cMdPet then
    let parts := splitOn cMdPet seg
    if parts.length = mdPetParts then
      match parts[mdPetIdx]? with
      | some b => petnames.contains b
      | none => false
    else false
  else false

def meadowsSegments (petnames : List Str) (fpath : Str) : Except String MInfo :=
  match splitOn cMdExt (basename fpath) with
  | [fname, ext] =>
    let segs := splitOn cMdSeg fname
    match segs[mdVersionIdx]?, segs[mdExpIdx]?, negIdx segs mdStructBack with
    | some s3, some s1, some l1 =>
      let base : MInfo :=
        { version := pyReplace [cMdVer] [] s3, experiment := s1, structure_ := l1, filetype := ext,
          taskScopeSingle := true, participantScopeSingle := true,
          participant := none, taskIndex := none, taskName := none }
      match negIdx segs mdDigitBack with
      | none => .error "IndexError"
      | some dg =>
        if isDigitStr dg then
          match negIdx segs mdAParticipantBack, negIdx segs mdAIndexBack with
          | some p, some ix =>
            .ok { base with participant := some p, taskIndex := some (natOfDigits ix) }
          | _, _ => .error "IndexError"
        else
          match negIdx segs mdPetBack with
          | none => .error "IndexError"
          | some pt =>
            if isPetname petnames pt then
              match negIdx segs mdBParticipantBack with
              | some p => .ok { base with taskScopeSingle := false, participant := some p }
              | none => .error "IndexError"
            else
              match negIdx segs mdCTaskBack with
              | some t => .ok { base with participantScopeSingle := false, taskName := some t }
              | none => .error "IndexError"
    | _, _, _ => .error "IndexError"
  | _ => .error "ValueError"

/-! ### Meadows: the json loop with the keep-test the source spells (`mlJsonSame`) -/

/-- `load_rdms_comps_json`: the loop, the test on a later task regenerated from the source -/
def jsonLoop {α : Type} := jsonLoopBy (α := α) (sameStim mlJsonSame)

def compsJson {α : Type} (info : MInfo) (tasks : Option (List (JTask α))) : Except String (Comps α) :=
  compsJsonBy (sameStim mlJsonSame) info tasks

/-- `load_rdms_comps_mat` with the participant test the source spells (`mlMatSame`) -/
def compsMat {α : Type} (info : MInfo) (vars : List (Str × MatVal α)) : Except String (Comps α) :=
  compsMatBy (sameStim mlMatSame) info vars

/-! ### SPM: regressor names, file relocation -/

def cSpName : Char := Char.ofNat spNameSep

def dropLastN {β : Type} : Nat → List β → List β
  | 0, l => l
  | n + 1, l => dropLastN n l.dropLast

def parseRegName (s : Str) : Except String (Nat × Str) :=
  let toks := splitOn cSpName s
  match toks[spRunTok]?, toks[spNameTok]? with
  | some s0, some s1 =>
    let d := dropLastN spRunHiBack (s0.drop spRunLo)
    if isDigitStr d then .ok (natOfDigits d, s1) else .error "ValueError"
  | _, _ => .error "IndexError"

def relocate (base fpath : Str) : Str :=
  let cf := Char.ofNat spRelocFrom
  let ct := Char.ofNat spRelocTo
  let norm := pyReplace [cf] [ct] fpath
  let b := pyReplace [cf] [ct] base
  match findSub (natToStr spRelocAnchor) norm with
  | some c => b ++ '/' :: norm.drop c
  | none => b ++ '/' :: norm.drop (norm.length - 1)

/-! ### look-up sessions: the layout's look-ups and the state the classes carry -/

/-- `isdir(join(path, 'derivatives', derivative))` on a listed tree: some file lives below it -/
def derivativeDirExists (files : List Str) (derivative : Str) : Bool :=
  files.any (fun f => (natToStr dfDerivDir ++ '/' :: derivative ++ ['/']).isPrefixOf f)

def lk : Lookups where
  parse := bidsParse
  metaFor := findMetaFor
  eventsFor := findEventsFor
  tableSibling := findTableSiblingOf
  mriSibling := findMriSiblingOf
  tableKey := findTableKeyFor
  derivativeFiles := fun files d desc tasks =>
    if derivativeDirExists files d then .ok (findDerivativeFiles files d desc tasks)
    else .error "ValueError"

/-- every attribute a `BidsLayout` ever assigns to itself (sorted) -/
def layoutFields : List Str := natToList stLayoutFields
/-- the attributes `BidsFile.__init__` / `BidsJsonFile.__init__` assign besides the entities -/
def fileFields : List Str := natToList stFileFields
def jsonFields : List Str := natToList stJsonFields
/-- the attributes an `FmriprepRun` assigns to itself -/
def runFields : List Str := natToList stRunFields
/-- where the two caches live: `self._meta` on the file asked, `self._data` on its sidecar -/
def metaCacheOwner : Str := natToStr stMetaCache
def dataCacheOwner : Str := natToStr stDataCache

end Src

end Rsa.Importers
