/-
  Rsa.Core.C15Layout — memory layout and dtype of the measurement array (property C15, round 3).

  A 2-d numpy array is a flat element buffer, an offset and two strides (in elements; strides
  may be negative).  `calc_rdm_unbalanced` hands `ensure_double(dataset.measurements)` =
  `a.astype(np.float64)` to the kernel, whose typed memoryview `float_t [:, :] data` reads
  `data[i, ch]` through the strides.  `astype` (default `order='K'`) allocates a fresh array that
  keeps the axis order of the source: row-major when |stride of axis 1| <= |stride of axis 0|,
  else column-major (the correspondence compares this rule with numpy's strides for C, Fortran,
  sliced and reversed views).  An integer array is converted entry by entry (`ofInt`).
  `kernelInput` is the logical matrix the kernel sees.  No Mathlib.
-/
import Rsa.Core.Unbalanced

namespace Rsa.Unb

/-- a 2-d array view: flat buffer, offset and strides in elements -/
structure View (β : Type) where
  buf : Nat → β
  off : Int
  s0 : Int
  s1 : Int

/-- entry `(i, j)` read through the strides -/
def View.read {β : Type} (v : View β) (i j : Nat) : β :=
  v.buf (v.off + (i : Int) * v.s0 + (j : Int) * v.s1).toNat

/-- freshly allocated C-contiguous array holding the logical matrix `M` (`P` columns) -/
def rowMajor {β : Type} (P : Nat) (M : Nat → Nat → β) : View β :=
  { buf := fun k => M (k / P) (k % P), off := 0, s0 := (P : Int), s1 := 1 }

/-- freshly allocated Fortran-contiguous array holding `M` (`n` rows) -/
def colMajor {β : Type} (n : Nat) (M : Nat → Nat → β) : View β :=
  { buf := fun k => M (k % n) (k / n), off := 0, s0 := 1, s1 := (n : Int) }

/-- does `astype(order='K')` produce a row-major copy of this view? -/
def keepsRowMajor {β : Type} (v : View β) : Bool := v.s1.natAbs ≤ v.s0.natAbs

/-- `ensure_double`: `a.astype(np.float64)` — element-wise conversion `cast` into a fresh array
    that keeps the axis order of the source -/
def ensureDouble {β γ : Type} (cast : β → γ) (n P : Nat) (v : View β) : View γ :=
  if keepsRowMajor v then rowMajor P (fun i j => cast (v.read i j))
  else colMajor n (fun i j => cast (v.read i j))

/-- the logical `n × P` matrix the kernel reads from its memoryview (`none` = NaN) -/
def kernelInput {α : Type} (n P : Nat) (v : View (Option α)) : Nat → Nat → Option α :=
  fun i ch => if i < n ∧ ch < P then v.read i ch else none

section generic
variable {α : Type} [Add α] [Sub α] [Mul α] [Div α] [Neg α] [Zero α] [One α] [NatCast α]
  [LT α] [DecidableLT α] [LE α] [DecidableLE α] [Max α] [Min α]

/-- conversion of an integer entry to double -/
def castInt (z : Int) : Option α := some (ofInt z)

/-- the configuration `calc` works on when the data matrix is `X` and `k` is the per-pair kernel -/
def dataCfg (base : Cfg α) (k : (Nat → Option α) → (Nat → Option α) → α × α)
    (X : Nat → Nat → Option α) : Cfg α :=
  { base with kern := fun i j => k (X i) (X j) }

end generic

end Rsa.Unb
