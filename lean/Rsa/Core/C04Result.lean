/-
  Rsa.Core.C04Result — how every evaluator of `inference/evaluate.py` assembles its `Result`
  object (property C04, round 3): the `cv_method` string, the shapes of the stored `evaluations`
  and `noise_ceiling` arrays, whether a covariance is handed over, and which counts `n_rdm` /
  `n_pattern` are passed to the constructor (they select the small-sample correction of the
  variances, property C06) respectively remain as attributes afterwards.

  Everything here is read off the source text on every run: `harness/leaves/C04.py` finds the one
  `Result(...)` call of each evaluator, resolves its keyword arguments through the assignments of
  the `boot_type` branches and emits them as definitions `Rsa.Gen.C04.res*`, `shape*`, `ndim*`
  (encodings: `None` = 0, a count `c` = `c + 1`; `cv_method` = position in `cvMethodNames`;
  boot type 0 = both, 1 = rdm, 2 = pattern).  This module only decodes them.

  Also here: the default numbers of folds (`k_pattern=None`, `k_rdm=None`, `n_pattern=None`,
  `n_rdm=None`), the explicit outcome of `crossval` on a rejected fold request (the set generator's
  `AssertionError`) and the explicit outcome of a covariance from fewer than two usable resamples.
  No Mathlib.
-/
import Rsa.Core.Eval
import Rsa.Gen.C05

namespace Rsa.Eval

open Rsa Rsa.Boot

/-- the evaluation routines that return a `Result` -/
inductive Evaluator where
  | fixed
  | bootstrap (bt : BootType)
  | crossval
  | bcv (bt : BootType)
  | dual
  | random (bt : BootType)
deriving DecidableEq, Repr

/-- boot-type code of the derived leaves -/
def btCode : BootType → Nat
  | .both => 0
  | .rdm => 1
  | .pattern => 2

/-- the `cv_method` strings, in the order of `CV_METHODS` of `harness/leaves/C04.py` -/
def cvMethodNames : List String :=
  ["fixed", "bootstrap", "bootstrap_pattern", "bootstrap_rdm", "crossvalidation",
   "bootstrap_crossval", "bootstrap_crossval_pattern", "bootstrap_crossval_rdm", "dual_bootstrap"]

def cvMethodName (c : Nat) : String := cvMethodNames.getD c "?"

/-- `None` = 0, count `c` = `c + 1` -/
def decCount (c : Nat) : Option Nat := if c = 0 then none else some (c - 1)

/-- the sizes that determine the shapes -/
structure Sizes where
  /-- number of bootstrap samples requested -/
  N : Nat
  nModels : Nat
  nRdm : Nat
  nCond : Nat
  kr : Nat := 1
  kp : Nat := 1
  nCv : Nat := 1
  /-- `crossval`: number of folds handed in -/
  nFolds : Nat := 0
  /-- `crossval` without `ceil_set`: number of evaluated folds -/
  nOkFolds : Nat := 0
  bootNc : Bool := true
  hasCeil : Bool := true
  calcNc : Bool := true
deriving Repr

structure ResultMeta where
  cvMethod : String
  evalShape : List Nat
  ncShape : List Nat
  /-- `variances=` is an array (not `None`) -/
  hasVariances : Bool
  /-- keyword arguments `n_rdm=`, `n_pattern=` of the constructor call -/
  passedNRdm : Option Nat
  passedNPattern : Option Nat
  /-- the attributes of the returned object -/
  attrNRdm : Option Nat
  attrNPattern : Option Nat
deriving DecidableEq, Repr

def shapeOf (ndim : Nat) (f : Nat → Nat) : List Nat := (List.range ndim).map f

/-- the leaves of one evaluator: cv_method code, passed / attribute counts -/
structure ResLeaves where
  cv : Nat → Nat
  pR : Nat → Nat → Nat → Nat
  pP : Nat → Nat → Nat → Nat
  aR : Nat → Nat → Nat → Nat
  aP : Nat → Nat → Nat → Nat

open Rsa.Gen.C04 in
def resLeaves : Evaluator → ResLeaves
  | .fixed => ⟨resCvMethodFixed, resPassedNRdmFixed, resPassedNPatternFixed,
      resAttrNRdmFixed, resAttrNPatternFixed⟩
  | .bootstrap .both => ⟨resCvMethodBootstrap, resPassedNRdmBootstrap, resPassedNPatternBootstrap,
      resAttrNRdmBootstrap, resAttrNPatternBootstrap⟩
  | .bootstrap .pattern => ⟨resCvMethodBootstrapPattern, resPassedNRdmBootstrapPattern,
      resPassedNPatternBootstrapPattern, resAttrNRdmBootstrapPattern,
      resAttrNPatternBootstrapPattern⟩
  | .bootstrap .rdm => ⟨resCvMethodBootstrapRdm, resPassedNRdmBootstrapRdm,
      resPassedNPatternBootstrapRdm, resAttrNRdmBootstrapRdm, resAttrNPatternBootstrapRdm⟩
  | .crossval => ⟨resCvMethodCrossval, resPassedNRdmCrossval, resPassedNPatternCrossval,
      resAttrNRdmCrossval, resAttrNPatternCrossval⟩
  | .bcv _ => ⟨resCvMethodCv, resPassedNRdmCv, resPassedNPatternCv, resAttrNRdmCv,
      resAttrNPatternCv⟩
  | .dual => ⟨resCvMethodDual, resPassedNRdmDual, resPassedNPatternDual, resAttrNRdmDual,
      resAttrNPatternDual⟩
  | .random _ => ⟨resCvMethodRandom, resPassedNRdmRandom, resPassedNPatternRandom,
      resAttrNRdmRandom, resAttrNPatternRandom⟩

/-- the boot type an evaluator was called with (`both` where there is no such argument) -/
def Evaluator.bt : Evaluator → BootType
  | .bootstrap bt => bt
  | .bcv bt => bt
  | .random bt => bt
  | _ => .both

open Rsa.Gen.C04 in
/-- shape of the stored `evaluations` -/
def evalShape (e : Evaluator) (s : Sizes) : List Nat :=
  match e with
  | .fixed => shapeOf ndimEvalsFixed (fun i => shapeEvalsFixed i s.nModels s.nRdm 0)
  | .bootstrap _ =>
    if inputCheck2d s.N = 1 then
      shapeOf ndimEvalsInputCheck (fun i => shapeEvalsInputCheck i s.N s.nModels 0 0 0)
    else [s.nModels]
  | .crossval => shapeOf ndimEvalsCrossval (fun i => shapeEvalsCrossval i s.nModels 0 s.nFolds)
  | .bcv _ => shapeOf ndimEvalsCv (fun i => shapeEvalsCv i s.N s.nModels s.kp s.kr s.nCv)
  | .dual => shapeOf ndimEvalsDual (fun i => shapeEvalsDual i s.N s.nModels s.kp s.kr s.nCv)
  | .random _ => shapeOf ndimEvalsRandom (fun i => shapeEvalsRandom i s.N s.nModels s.kp s.kr s.nCv)

open Rsa.Gen.C04 in
/-- shape of the stored `noise_ceiling` -/
def ncShape (e : Evaluator) (s : Sizes) : List Nat :=
  match e with
  | .fixed => [2]
  | .bootstrap _ => if s.bootNc then [2, s.N] else [2]
  | .crossval =>
    if !s.calcNc then [2]
    else if s.hasCeil then [2]
    else if s.nOkFolds = 0 then [0] else [2, s.nOkFolds]
  | .bcv _ => shapeOf ndimNcCv (fun i => shapeNcCv i s.N s.nModels s.kp s.kr s.nCv)
  | .dual => shapeOf ndimNcDual (fun i => shapeNcDual i s.N s.nModels s.kp s.kr s.nCv)
  | .random _ => shapeOf ndimNcRandom (fun i => shapeNcRandom i s.N s.nModels s.kp s.kr s.nCv)

/-- the `Result` object an evaluator assembles -/
def resultMeta (e : Evaluator) (s : Sizes) : ResultMeta :=
  let l := resLeaves e
  let b := btCode e.bt
  { cvMethod := cvMethodName (l.cv b)
    evalShape := evalShape e s
    ncShape := ncShape e s
    hasVariances := match e with
      | .fixed => fixedCovDefined s.nRdm
      | .crossval => false
      | _ => true
    passedNRdm := decCount (l.pR b s.nRdm s.nCond)
    passedNPattern := decCount (l.pP b s.nRdm s.nCond)
    attrNRdm := decCount (l.aR b s.nRdm s.nCond)
    attrNPattern := decCount (l.aP b s.nRdm s.nCond) }

/-- which factor an evaluator resamples (for `eval_fixed`: the RDMs are the sampled units) -/
inductive Factor where
  | rdm | pattern | both
deriving DecidableEq, Repr

def Evaluator.factor : Evaluator → Option Factor
  | .fixed => some .rdm
  | .crossval => none
  | .dual => some .both
  | .bootstrap bt | .bcv bt | .random bt =>
    match bt with
    | .both => some .both
    | .rdm => some .rdm
    | .pattern => some .pattern

/-! ### noise-ceiling call sites

`Rsa.Gen.C04.ncSite*` encode, per evaluator and call of `boot_noise_ceiling` in source order,
`2·object + descriptor`: object 0 = the whole data, 1 = the resample, 2 = the data restricted to a
fold's test conditions; descriptor 0 = `'index'` (every RDM its own unit), 1 = the caller's
`rdm_descriptor`; 9 = no such call. -/

/-- the ceiling call groups the RDMs by `index` -/
def ncSiteByIndex (code : Nat) : Bool := code % 2 == 0

/-- the ceiling call is made on the resample (not on the whole data) -/
def ncSiteOnSample (code : Nat) : Bool := code / 2 == 1

/-! ### loop bounds -/

open Rsa.Gen.C04 in
/-- number of passes of the bootstrap loop for a requested `N` -/
def sampleCount (e : Evaluator) (N : Nat) : Nat :=
  match e with
  | .bootstrap .both => samplesBootstrap N
  | .bootstrap .pattern => samplesBootstrapPattern N
  | .bootstrap .rdm => samplesBootstrapRdm N
  | .bcv _ => samplesCv N
  | .dual => samplesDual N
  | .random _ => samplesRandom N
  | _ => 1

/-! ### default numbers of folds -/

section defaults
variable {α : Type} [Add α] [Sub α] [Mul α] [Div α] [Neg α] [Zero α] [One α] [NatCast α]
  [LT α] [DecidableLT α] [LE α] [DecidableLE α] [Max α] [Min α]

open Rsa.Gen.C04 Rsa.Gen.C05 in
/-- `bootstrap_crossval(k_pattern=None, k_rdm=None)`: the defaults of `inference_util` at the
    expected number of distinct groups in a bootstrap sample, `(1 − 1/e)·n`; a single RDM group is
    never split.  `e` is Euler's number as the caller has it. -/
def bcvDefaultK (e : α) (gr gp : Nat) (kr kp : Option Nat) : Nat × Nat :=
  (match kr with
   | some k => k
   | none => if kRdmSingle gr = 1 then 1 else (defaultKRdmReal (kArgRdmCv e gr)).toNat,
   match kp with
   | some k => k
   | none => (defaultKPatternReal (kArgPatternCv e gp)).toNat)

open Rsa.Gen.C04 Rsa.Gen.C05 in
/-- `eval_dual_bootstrap(k_pattern=None, k_rdm=None)` (no single-group exception there) -/
def dualDefaultK (e : α) (gr gp : Nat) (kr kp : Option Nat) : Nat × Nat :=
  (match kr with
   | some k => k
   | none => (defaultKRdmReal (kArgRdmDual e gr)).toNat,
   match kp with
   | some k => k
   | none => (defaultKPatternReal (kArgPatternDual e gp)).toNat)

open Rsa.Gen.C04 Rsa.Gen.C05 in
/-- `eval_dual_bootstrap_random(n_pattern=None, n_rdm=None)`: `⌊n / k_default⌋` -/
def randomDefaultN (e : α) (gr gp : Nat) (nr np : Option Nat) : Nat × Nat :=
  (match nr with
   | some n => n
   | none => Rsa.Gen.C04.randomNRdm gr (defaultKRdmReal (kArgRdmRandom e gr)).toNat,
   match np with
   | some n => n
   | none => Rsa.Gen.C04.randomNPattern gp (defaultKPatternReal (kArgPatternRandom e gp)).toNat)

end defaults

/-! ### explicit outcomes -/

section outcomes
variable {α : Type} [Add α] [Sub α] [Mul α] [Div α] [Neg α] [Zero α] [One α] [NatCast α]
  [LT α] [DecidableLT α] [LE α] [DecidableLE α] [Max α] [Min α] {Θ : Type}

/-- a request to one of the `sets_k_fold*` generators on the data itself -/
inductive SetsReq where
  | kFold (rsel : List Nat) (kr : Nat) (psels : List (List Nat)) (kp : Nat)
  | kFoldPattern (psel : List Nat) (kp : Nat)
  | kFoldRdm (rsel : List Nat) (kr : Nat)

/-- the generator's answer: its folds, or the exception it raises (`AssertionError` for more
    groups than items, `ZeroDivisionError` for `k = 0`) -/
def SetsReq.run (o : Rsa.Folds.Obj) (nPat : Nat) : SetsReq → Except Rsa.Folds.Err (List Rsa.Folds.Fold × Bool)
  | .kFold rsel kr psels kp =>
    (Rsa.Folds.setsKFold o rsel (some kr) psels nPat (some kp)).map (fun f => (f, true))
  | .kFoldPattern psel kp => (Rsa.Folds.setsKFoldPattern o psel (some kp)).map (fun f => (f, false))
  | .kFoldRdm rsel kr => (Rsa.Folds.setsKFoldRdm o rsel (some kr)).map (fun f => (f, true))

/-- `crossval` on the sets of a generator call: the generator's exception, or the evaluation -/
def crossvalOn (m : List α → List α → α) (fit : Nat → Piece α → Θ) (predict : Nat → Θ → List α)
    (ncf : NcReq α → α × α) (d : Data α) (nModels : Nat) (req : SetsReq) (calcNc : Bool) :
    Except Rsa.Folds.Err (CvResult α) :=
  (req.run (objOf d (fullView d)) (groupsP d).length).map (fun fc =>
    crossval m fit predict ncf d nModels fc.1 fc.2 calcNc)

/-- the same call with the generator's `ceil_set` forwarded (`fwd = true`) or left out
    (`crossval(..., ceil_set=None)`, the default of the public routine; round 5) -/
def crossvalOnCeil (m : List α → List α → α) (fit : Nat → Piece α → Θ) (predict : Nat → Θ → List α)
    (ncf : NcReq α → α × α) (d : Data α) (nModels : Nat) (req : SetsReq) (fwd calcNc : Bool) :
    Except Rsa.Folds.Err (CvResult α) :=
  (req.run (objOf d (fullView d)) (groupsP d).length).map (fun fc =>
    crossval m fit predict ncf d nModels fc.1 (fc.2 && fwd) calcNc)

/-- what a covariance over `n` usable resamples is -/
inductive CovOutcome (α : Type) where
  /-- at least two usable resamples: the sample covariance -/
  | defined (c : List (List (Option α)))
  /-- fewer than two: `0/0` in every entry (`np.cov` of one observation; NaN) -/
  | undefined
deriving Repr

/-- `np.cov` over the usable resamples, with the undefined case made explicit -/
def covOutcome (k : Nat) (obs : List (List (Option α))) : CovOutcome α :=
  if 2 ≤ obs.length then .defined (sampleCov k obs) else .undefined

end outcomes

/-! ## Sessions (round 4): ONE data object, ONE list of models analysed by several successive calls

  Every evaluation routine receives the caller's objects (`data`, `models`, `theta`).  What could survive a
  call is what the call writes into them; `Rsa.Gen.C04.evalInputWrites` is the number of statements on the
  paths of all public routines of `inference/evaluate.py` / `inference/boot_testset.py` (helpers, the noise
  ceilings, `input_check_model`, the models' `predict` / `predict_rdm` followed) that write in place into an
  object that may alias one of them — a syntactic may-alias analysis of the current source
  (`harness/leaves/_C04_writes.py`), regenerated on every run.  `testsetIndexDefaults` counts, apart, the
  statements of `bootstrap_testset*` that re-create the default `index` descriptor in the caller's object.

  A session threads an explicit state `σ` (the content of the objects) through its steps: a `call` returns a
  result computed from the state it finds and leaves `eff` of it behind; an `edit` is an in-place operation
  of the *user* between two calls. -/

section session

/-- one step of a session -/
inductive SessStep (κ σ : Type) where
  /-- a call of an evaluation routine with arguments / options / seed / draws `c` -/
  | call (c : κ)
  /-- the user changes the objects in place (new numbers in a data row, in a parameter array, in a
      descriptor) -/
  | edit (f : σ → σ)

/-- what a call leaves in the caller's objects when `w` statements on its path write in place: with none
    the objects are untouched; otherwise *something else* `dmg s` (the theorems quantify over every `dmg`) -/
def callEffectW {σ : Type} (w : Nat) (dmg : σ → σ) (s : σ) : σ :=
  if w = 0 then s else dmg s

/-- the effect of a call as coded: the write count is read off the source -/
def callEffect {σ : Type} (dmg : σ → σ) (s : σ) : σ :=
  callEffectW Rsa.Gen.C04.evalInputWrites dmg s

/-- a session as it runs: call `k` sees the state the steps before it left behind; returns per call its
    result and the state after it -/
def runSession {κ σ ρ : Type} (eff : κ → σ → σ) (result : κ → σ → ρ) :
    List (SessStep κ σ) → σ → List (ρ × σ)
  | [], _ => []
  | .call c :: rest, s => (result c s, eff c s) :: runSession eff result rest (eff c s)
  | .edit f :: rest, s => runSession eff result rest (f s)

/-- the state at the end of a session as it runs -/
def finalState {κ σ : Type} (eff : κ → σ → σ) : List (SessStep κ σ) → σ → σ
  | [], s => s
  | .call c :: rest, s => finalState eff rest (eff c s)
  | .edit f :: rest, s => finalState eff rest (f s)

/-- the content the user's edits alone produce -/
def applyEdits {κ σ : Type} : List (SessStep κ σ) → σ → σ
  | [], s => s
  | .call _ :: rest, s => applyEdits rest s
  | .edit f :: rest, s => applyEdits rest (f s)

/-- the specification of a session: every call is the stand-alone call on the content of that moment
    (the original content with the user's edits so far) and leaves that content as it is -/
def sessionSpec {κ σ ρ : Type} (result : κ → σ → ρ) : List (SessStep κ σ) → σ → List (ρ × σ)
  | [], _ => []
  | .call c :: rest, s => (result c s, s) :: sessionSpec result rest s
  | .edit f :: rest, s => sessionSpec result rest (f s)

/-- number of calls among the steps -/
def nCalls {κ σ : Type} : List (SessStep κ σ) → Nat
  | [] => 0
  | .call _ :: rest => nCalls rest + 1
  | .edit _ :: rest => nCalls rest

/-- the state the driver threads: the dissimilarities of the data and of every model -/
structure SessState (α : Type) where
  vecs : List (List α)
  models : List (List (List α))
deriving Repr

variable {α : Type} [Add α] [Sub α] [Div α] [Zero α] [NatCast α]

/-- a row with its mean removed (what an in-place `rdm_vec -= mean` leaves in the caller's array) -/
def centreRow (v : List α) : List α :=
  let mu := v.foldl (· + ·) 0 / (v.length : α)
  v.map (fun x => x - mu)

/-- the damage the driver applies when the write count is not zero: every row centred in place -/
def centreDamage (s : SessState α) : SessState α :=
  { vecs := s.vecs.map centreRow, models := s.models.map (fun m => m.map centreRow) }

end session

end Rsa.Eval
