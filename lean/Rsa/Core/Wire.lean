/-
  Rsa.Core.Wire — JSON line protocol helpers for the driver (no Mathlib).

  Numbers travel as
    * JSON integers or strings "p/q"           → `Rat`   (exact mode)
    * strings of 16 hex digits (IEEE-754 bits) → `Float` (float mode)
    * `null`                                   → `none`  (a missing value / NaN)
-/
import Lean.Data.Json
import Rsa.Core.Num

open Lean

namespace Rsa.Wire

abbrev R := Except String

def fld (j : Json) (k : String) : R Json :=
  match j.getObjVal? k with
  | .ok v => pure v
  | .error _ => throw s!"missing field {k}"

def fldD (j : Json) (k : String) (d : Json) : Json :=
  match j.getObjVal? k with
  | .ok v => v
  | .error _ => d

def asNat (j : Json) : R Nat :=
  match j.getNat? with
  | .ok v => pure v
  | .error e => throw e

def asInt (j : Json) : R Int :=
  match j.getInt? with
  | .ok v => pure v
  | .error e => throw e

def asStr (j : Json) : R String :=
  match j.getStr? with
  | .ok v => pure v
  | .error e => throw e

def asBool (j : Json) : R Bool :=
  match j.getBool? with
  | .ok v => pure v
  | .error e => throw e

def asArr (j : Json) : R (List Json) :=
  match j.getArr? with
  | .ok v => pure v.toList
  | .error e => throw e

def asList {β} (f : Json → R β) (j : Json) : R (List β) := do
  (← asArr j).mapM f

def asOpt {β} (f : Json → R β) (j : Json) : R (Option β) :=
  if j.isNull then pure none else some <$> f j

def asRat (j : Json) : R Rat :=
  match j with
  | .str s => match parseRat? s with
    | some r => pure r
    | none => throw s!"bad rational {s}"
  | _ => do let i ← asInt j; pure (i : Rat)

def asFloat (j : Json) : R Float :=
  match j with
  | .str s => match parseFloatBits? s with
    | some r => pure r
    | none => throw s!"bad float bits {s}"
  | _ => do let i ← asInt j; pure (Float.ofInt i)

def ofRat (r : Rat) : Json :=
  if r.den = 1 then Json.num (JsonNumber.fromInt r.num) else Json.str (showRat r)

def ofFloat (f : Float) : Json :=
  if f.isNaN then Json.null else Json.str (showFloatBits f)

def ofOpt {β} (f : β → Json) : Option β → Json
  | none => Json.null
  | some b => f b

def ofList {β} (f : β → Json) (l : List β) : Json := Json.arr (l.map f).toArray

def ofNat (n : Nat) : Json := Json.num (JsonNumber.fromNat n)
def ofInt (n : Int) : Json := Json.num (JsonNumber.fromInt n)

def obj (kvs : List (String × Json)) : Json := Json.mkObj kvs

/-- A handler answers the ops it knows and returns `none` for the others. -/
abbrev Handler := String → Json → Option (R Json)

end Rsa.Wire
