/-
  Rsa.Core.C10Meas — the `dissimilarity_measure` attribute of RDMs objects and the flexible
  index forms of `RDMs.__getitem__` (property C10, round 3).  Core Lean only.

  Part 1.  `dissimilarity_measure` is a per-object string (or `None`).  It is kept *beside* the
  store of `Rsa.Core.Rdm` (a parallel list `MStore`) so that the container model and its
  invariant proofs are untouched: `stepME` performs the container step (`stepE`) and the
  measure step (`measStep`) together; either one rejecting rejects the operation.  As coded:
    * indexing, subset / subsample (RDMs or conditions), copy, dict round trip pass the measure on;
    * in-place operations (`reorder`, `sort_by`) do not touch it;
    * `append` and `concat` assert that all measures are equal (AssertionError otherwise);
    * `from_partials` takes the measure of the *last* argument, without comparing;
    * `permute_rdms` / `inverse_permute_rdms` do not pass it on (the result has `None`) —
      parameter `pk` ("permute keeps"), probed from the tree like `cm`.

  Part 2.  `resolveIdx`: what `rdms[idx]` selects for an int (negative allowed), a list / tuple /
  integer array (negative entries allowed), a slice, a boolean mask — the row positions, in
  order, or `none` when numpy raises (out of range, mask of the wrong length).
-/
import Rsa.Core.Rdm

namespace Rsa.Rdm

/-! ## Part 1: dissimilarity_measure -/

abbrev MStore := List (Option String)

/-- the measures named by a list of store positions -/
def measOf (m : MStore) (is : List Nat) : Option (List (Option String)) := is.mapM (fun i => m[i]?)

def measStep (pk : Bool) (m : MStore) : Op → Option MStore
  | .getitem i _ => do let x ← m[i]?; pure (m ++ [x])
  | .subset i _ _ => do let x ← m[i]?; pure (m ++ [x])
  | .subsample i _ _ => do let x ← m[i]?; pure (m ++ [x])
  | .subsetPattern i _ _ => do let x ← m[i]?; pure (m ++ [x])
  | .subsamplePattern i _ _ => do let x ← m[i]?; pure (m ++ [x])
  | .copy i => do let x ← m[i]?; pure (m ++ [x])
  | .reorder i _ => do let _ ← m[i]?; pure m
  | .sortAlpha i _ _ => do let _ ← m[i]?; pure m
  | .sortList i _ _ _ => do let _ ← m[i]?; pure m
  | .append i j => do
      let a ← m[i]?; let b ← m[j]?
      if a = b then pure m else Option.none
  | .concat is _ => do
      let ms ← measOf m is
      match ms with
      | [] => Option.none
      | a :: rest => if rest.all (fun b => b == a) then pure (m ++ [a]) else Option.none
  | .fromPartials is _ _ => do
      let ms ← measOf m is
      match ms.getLast? with
      | some a => pure (m ++ [a])
      | Option.none => Option.none
  | .permute i _ => do let x ← m[i]?; pure (m ++ [if pk then x else Option.none])
  | .inversePermute i => do let x ← m[i]?; pure (m ++ [if pk then x else Option.none])

section
variable {α : Type} [Zero α]

/-- container step and measure step together; `none` = the library raises -/
def stepME (pk cm : Bool) (sm : Store α × MStore) (op : Op) : Option (Store α × MStore) := do
  let s' ← stepE cm sm.1 op
  let m' ← measStep pk sm.2 op
  pure (s', m')

def stepM (pk cm : Bool) (sm : Store α × MStore) (op : Op) : Store α × MStore :=
  (stepME pk cm sm op).getD sm

def runM (pk cm : Bool) (sm : Store α × MStore) (ops : List Op) : Store α × MStore :=
  ops.foldl (stepM pk cm) sm

end

/-! ## Part 2: index forms of `__getitem__` -/

/-- the argument of `rdms[idx]` -/
inductive Idx where
  | int (i : Int)
  | list (l : List Int)
  | slice (start stop : Option Int) (step : Int)
  | mask (l : List Bool)
  deriving Repr

/-- a possibly negative position among `n` rows (`None` = IndexError) -/
def normIdx (n : Nat) (i : Int) : Option Nat :=
  if 0 ≤ i then (if i.toNat < n then some i.toNat else Option.none)
  else (if (-i).toNat ≤ n then some (n - (-i).toNat) else Option.none)

/-- clamp of a slice bound for a positive step (`slice.indices`) -/
def clampPos (n : Nat) (b : Int) : Nat :=
  if 0 ≤ b then min b.toNat n else n - min (-b).toNat n

/-- positions `start, start+step, …` below `stop` (`fuel` bounds the count) -/
def upFrom (start stop step : Nat) : Nat → List Nat
  | 0 => []
  | fuel + 1 => if start < stop then start :: upFrom (start + step) stop step fuel else []

/-- positions `start, start-step, …` above `stop` (`stop = none`: down to row 0 inclusive) -/
def downFrom (start : Nat) (stop : Option Nat) (step : Nat) : Nat → List Nat
  | 0 => []
  | fuel + 1 =>
    if (match stop with
        | some b => decide (b < start)
        | Option.none => true) then
      start :: (if step ≤ start then downFrom (start - step) stop step fuel else [])
    else []

/-- clamp of a slice bound for a negative step (`slice.indices`): a position, or `none` =
    "before the first row" -/
def clampNeg (n : Nat) (b : Int) : Option Nat :=
  if 0 ≤ b then some (min b.toNat (n - 1))
  else if (-b).toNat ≤ n then some (n - (-b).toNat) else Option.none

/-- the row positions `rdms[idx]` selects, in order (`none` = numpy raises) -/
def resolveIdx (n : Nat) : Idx → Option (List Nat)
  | .int i => (normIdx n i).map (fun a => [a])
  | .list l => l.mapM (normIdx n)
  | .mask l => if l.length = n then some (idxWhere id l) else Option.none
  | .slice start stop step =>
    if step = 0 then Option.none
    else if 0 < step then
      let a := match start with
        | some b => clampPos n b
        | Option.none => 0
      let z := match stop with
        | some b => clampPos n b
        | Option.none => n
      some (upFrom a z step.toNat n)
    else
      if n = 0 then some [] else
      let a : Option Nat := match start with
        | some b => clampNeg n b
        | Option.none => some (n - 1)
      let z : Option Nat := match stop with
        | some b => clampNeg n b
        | Option.none => Option.none
      match a with
      | Option.none => some []          -- starts before the first row: nothing
      | some a => some (downFrom a z (-step).toNat n)

end Rsa.Rdm
