/-
  Rsa.Core.Ceiling — executable model of the noise ceilings (property C07):
  `util/inference_util.py: pool_rdm, _nan_mean, _nan_rank_data`,
  `inference/noise_ceiling.py: boot_noise_ceiling, cv_noise_ceiling`.

  Structure of the code, kept here:
    * `pool_rdm(rdms, method)`: every RDM vector is normalised *with its own non-missing
      entries* (cosine: divided by the root mean square; corr: mean removed, divided by
      `nanstd`; rank measures: tie-averaged ranks of the non-missing entries), the
      normalised vectors are averaged entry-wise by `_nan_mean` (a NaN in any RDM makes the
      pooled entry NaN), and for the correlation measures the minimum is subtracted.
      A normaliser is a function `f : present entries → entry → entry` (`cosF`, `corrF`,
      `rankF`, `shiftF`), applied as `x.map (f x)` to a vector without missing values and as
      `v.map (Option.map (f (present v)))` to a vector with missing values (`none` = NaN).
    * `boot_noise_ceiling`: the leave-one-group-out sets of `sets_leave_one_out_rdm`
      (model: `Rsa.Folds.setsLooRdm`, property C05), prediction for a fold = pool of the
      RDMs of the *other* groups, upper prediction = pool of all RDMs; per fold the mean of
      `compare(prediction, left-out RDMs)`; both bounds = mean over folds (`bootTerms`,
      `bounds`; generic in the pooling rule and the similarity so that one parametricity
      lemma serves every method).
    * `cv_noise_ceiling`: per fold, pool of the ceiling-set RDMs (training RDMs at the test
      conditions) restricted to the test pattern values, and pool of *all* RDMs restricted to
      the test pattern values, both compared with the test RDMs (`cvTerms`).
    * `compare` removes the (common) missing entries; the whitened measures use the matrix
      `V` of the kept entries.  `boot/cv_noise_ceiling` never pass `sigma_k`, so `V = getV n none`.
  Parameters / contracts: the linear solve inside the whitened measures (`Compare.solve`
  stands in for the library's linear-CKA shortcut, which equals `r₁ᵀV⁻¹r₂/√…` on the kept
  entries); `scipy.stats.rankdata` = `Compare.avgRank`.
  No Mathlib.
-/
import Rsa.Core.Num
import Rsa.Core.Tri
import Rsa.Core.Compare
import Rsa.Core.Folds
import Rsa.Gen.C07

namespace Rsa.Ceiling
open Rsa.Compare

inductive Method where
  | cosine | corr | rhoA | spearman | cosineCov | corrCov
deriving Repr, DecidableEq, Inhabited

def Method.ofString? : String → Option Method
  | "cosine" => some .cosine
  | "corr" => some .corr
  | "rho-a" => some .rhoA
  | "spearman" => some .spearman
  | "cosine_cov" => some .cosineCov
  | "corr_cov" => some .corrCov
  | _ => none

/-- the code under which the generated dispatch leaves (`Gen.C07.normKind`, `hasShift`, …) know a method -/
def Method.code : Method → Nat
  | .cosine => 0 | .corr => 1 | .rhoA => 2 | .spearman => 3 | .cosineCov => 4 | .corrCov => 5

/-- the measures that need the covariance `V` of the RDM entries -/
def Method.needsV : Method → Bool
  | .cosineCov | .corrCov => true
  | _ => false

/-! ## 1. the loops of `boot_noise_ceiling` / `cv_noise_ceiling`, generic in pooling rule and similarity -/

section skeleton
universe u v w
variable {β : Type u} {π : Type v} {α : Type}

/-- the RDMs at the given positions (`rdms.subset(...)`, positions from `Rsa.Folds`) -/
def selectRows (rows : List β) (idx : List Nat) : List β := idx.filterMap (fun i => rows[i]?)

variable [Add α] [Zero α] [Div α] [NatCast α]

/-- `np.mean(compare(pred, test, method))`: mean similarity of a prediction to the test RDMs -/
def meanSim (sim : π → β → α) (pred : π) (test : List β) : α := mean (test.map (sim pred))

/-- per fold `(noise_min term, noise_max term)` of `boot_noise_ceiling`:
    `pred_train = pool_rdm(ceil_set[i][0])` with `ceil_set = train_set`, `pred_test = pool_rdm(rdms)` -/
def bootTerms (pool : List β → π) (sim : π → β → α) (rows : List β) (folds : List Folds.Fold) :
    List (α × α) :=
  folds.map fun f =>
    let test := selectRows rows f.test.rows
    (meanSim sim (pool (selectRows rows f.train.rows)) test, meanSim sim (pool rows) test)

/-- `np.mean(np.array(noise_min)), np.mean(np.array(noise_max))` -/
def bounds (t : List (α × α)) : α × α := (mean (t.map Prod.fst), mean (t.map Prod.snd))

/-- `sets_leave_one_out_rdm(rdms, rdm_descriptor)` -/
def looFolds (o : Folds.Obj) : List Folds.Fold :=
  Folds.setsLooRdm o (Folds.uniq (Folds.descList o.nR o.rdesc))

/-- `boot_noise_ceiling`, generic -/
def bootNoiseCeilingG (pool : List β → π) (sim : π → β → α) (rows : List β) (o : Folds.Obj) : α × α :=
  bounds (bootTerms pool sim rows (looFolds o))

/-- the score the same loop gives to an arbitrary candidate prediction `c` (the upper
    bound is `candidateScore (pool rows)`) -/
def candidateScore (sim : π → β → α) (rows : List β) (o : Folds.Obj) (c : π) : α :=
  mean ((looFolds o).map fun f => meanSim sim c (selectRows rows f.test.rows))

/-- the prediction `boot_noise_ceiling` uses for one leave-one-out fold -/
def bootPrediction (pool : List β → π) (rows : List β) (f : Folds.Fold) : π :=
  pool (selectRows rows f.train.rows)

end skeleton

section cv
variable {ε α : Type}

/-- `subset_pattern` on a full RDM vector of `nC` conditions: keep the pairs of kept conditions -/
def restrict (nC : Nat) (keep : Nat → Bool) (v : List ε) : List ε := Folds.maskVec nC keep v

/-- `pred.subsample_pattern(by, value)` on an RDM that holds the conditions `conds` (positions
    in the full RDM): keep those whose descriptor value is requested -/
def subsampleAt (conds : List Nat) (keep : Nat → Bool) (v : List ε) : List ε :=
  Folds.maskVec conds.length (fun a => match conds[a]? with | some c => keep c | none => false) v

/-- one entry of `ceil_set` / `test_set` each -/
structure CvFold where
  ceil : Folds.Part
  test : Folds.Part
deriving Repr, Inhabited

variable [Add α] [Zero α] [Div α] [NatCast α]

/-- the data of a part: its RDMs at its conditions -/
def partData (nC : Nat) (rows : List (List ε)) (p : Folds.Part) : List (List ε) :=
  (selectRows rows p.rows).map (restrict nC (fun i => p.conds.contains i))

/-- `pred_train` of `cv_noise_ceiling`: pool of the ceiling set, at the test pattern values -/
def cvPredTrain (pool : List (List ε) → List ε) (o : Folds.Obj) (rows : List (List ε)) (f : CvFold) :
    List ε :=
  subsampleAt f.ceil.conds (fun i => f.test.pidx.contains (o.pdesc i)) (pool (partData o.nC rows f.ceil))

/-- `pred_test`: pool of all RDMs, at the test pattern values -/
def cvPredTest (pool : List (List ε) → List ε) (o : Folds.Obj) (rows : List (List ε)) (f : CvFold) :
    List ε :=
  restrict o.nC (fun i => f.test.pidx.contains (o.pdesc i)) (pool rows)

/-- per fold `(noise_min term, noise_max term)` of `cv_noise_ceiling`; `sim k td` compares RDMs
    of `k` conditions (`td` = the test RDMs, from which `compare` takes the missing entries) -/
def cvTerms (pool : List (List ε) → List ε) (sim : Nat → List (List ε) → List ε → List ε → α)
    (o : Folds.Obj) (rows : List (List ε)) (folds : List CvFold) : List (α × α) :=
  folds.map fun f =>
    let testData := partData o.nC rows f.test
    let k := f.test.conds.length
    (meanSim (sim k testData) (cvPredTrain pool o rows f) testData,
     meanSim (sim k testData) (cvPredTest pool o rows f) testData)

def cvNoiseCeilingG (pool : List (List ε) → List ε) (sim : Nat → List (List ε) → List ε → List ε → α)
    (o : Folds.Obj) (rows : List (List ε)) (folds : List CvFold) : α × α :=
  bounds (cvTerms pool sim o rows folds)

/-- shapes agree in every comparison (otherwise `compare` raises `ValueError`) -/
def cvShapesOk (pool : List (List ε) → List ε) (o : Folds.Obj) (rows : List (List ε))
    (folds : List CvFold) : Bool :=
  folds.all fun f =>
    let k := f.test.conds.length
    (cvPredTrain pool o rows f).length == triLen k && (cvPredTest pool o rows f).length == triLen k

end cv

/-! ## 2. pooling rules and similarities on vectors without missing values -/

section dense
variable {α : Type} [Add α] [Sub α] [Mul α] [Div α] [Zero α] [One α] [NatCast α]

/-- entry-wise sum of vectors of length `p` -/
def vsumP (p : Nat) (rows : List (List α)) : List α := rows.foldr vadd (List.replicate p 0)

/-- `np.mean(rows, axis=0)` -/
def meanRows (rows : List (List α)) : List α :=
  (vsumP (rows.headD []).length rows).map (· / (rows.length : α))

variable [LT α] [DecidableLT α] [HasSqrt α] [Neg α] [LE α] [DecidableLE α] [Max α] [Min α]

/-- root mean square, `np.sqrt(np.nanmean(x ** 2))` -/
def rms (x : List α) : α := HasSqrt.sqrt (mean (x.map fun a => a * a))

/-- `_nonzero(norm)`: a zero norm (norms are never negative) is replaced by 1, so that an all-zero
    or constant RDM stays the zero vector while pooling (its similarity to every RDM is 0 by the
    guard of `_cosine`, it must not contribute to the pool).  Exact comparison: an RDM of tiny but
    non-zero scale is normalised like any other. -/
def nonzero (s : α) : α := Rsa.Gen.C07.nonzeroGuard s

/-- the twin of `_nonzero` in `util/pooling.py` (its own generated leaf) -/
def nonzeroP (s : α) : α := Rsa.Gen.C07.poolingNonzeroGuard s

/-- cosine normaliser: `x / _nonzero(sqrt(nanmean(x**2)))`; the division is the generated leaf -/
def cosF (x : List α) (a : α) : α := Rsa.Gen.C07.cosScale a (nonzero (rms x))

/-- correlation normaliser: `c = x - nanmean(x)`, then `c / _nonzero(nanstd(c))`; `nanstd` removes
    the mean (again) before taking the root mean square; both steps are generated leaves -/
def corrF (x : List α) (a : α) : α :=
  Rsa.Gen.C07.corrScale (Rsa.Gen.C07.corrCenter a (mean x)) (nonzero (rms (center (center x))))

/-- rank normaliser (`_nan_rank_data`): the tie-averaged rank among the non-missing entries -/
def rankF (x : List α) (a : α) : α := rankOf x a

/-- `np.nanmin` of the non-missing entries -/
def minL : List α → α
  | [] => 0
  | a :: as => as.foldl min a

/-- `x - np.nanmin(x)` (generated leaf) -/
def shiftF (x : List α) (a : α) : α := Rsa.Gen.C07.corrShift a (minL x)

/-- the per-RDM normaliser of `pool_rdm` -/
def normF (m : Method) : List α → α → α :=
  match Rsa.Gen.C07.normKind m.code with
  | 1 => cosF
  | 2 => corrF
  | 3 => rankF
  | _ => fun _ a => a

/-- apply a normaliser to a vector without missing values -/
def applyD (f : List α → α → α) (x : List α) : List α := x.map (f x)

/-- `pool_rdm` on vectors without missing values -/
def poolD (m : Method) (rows : List (List α)) : List α :=
  let avg := meanRows (rows.map (applyD (normF m)))
  if Rsa.Gen.C07.hasShift m.code = 1 then applyD shiftF avg else avg

/-- whitened cosine for `sigma_k = None`: `r₁ᵀV⁻¹r₂/√(r₁ᵀV⁻¹r₁ r₂ᵀV⁻¹r₂)`; a vector of zero
    length in the whitened space gives 0 (the `_cosine` guard of the library's shortcut) -/
def wsim (V : List (List α)) (x y : List α) : α :=
  match whitenedCos V x y with
  | some s => s
  | none => 0

/-- `compare(x, y, method)` for one pair of vectors without missing values; `V` is only used
    by the whitened measures -/
def simV : Method → List (List α) → List α → List α → α
  | .cosine, _, x, y => cosine x y
  | .corr, _, x, y => corr x y
  | .rhoA, _, x, y => rhoA x y
  | .spearman, _, x, y => spearman x y
  | .cosineCov, V, x, y => wsim V x y
  | .corrCov, V, x, y => wsim V (center x) (center y)

/-- `util/pooling.pool_rdm` for the whitened measures (the pooling the fitters use): every RDM is
    divided by its *whitened* norm `√(rᵀV⁻¹r)` (after mean removal for `corr_cov`), averaged, and
    for `corr_cov` shifted by the minimum plus 0.01 (generated leaves) -/
def poolW (m : Method) (V : List (List α)) (rows : List (List α)) : List α :=
  match Rsa.Gen.C07.poolingNormKind m.code with
  | 5 =>
    let avg := meanRows (rows.map fun r =>
      let c := r.map (fun a => Rsa.Gen.C07.poolingCorrCenter a (mean r))
      c.map (fun a => Rsa.Gen.C07.poolingCorrCovScale a (nonzeroP (HasSqrt.sqrt (dot c (solve V c))))))
    if Rsa.Gen.C07.poolingHasShift m.code = 1 then
      avg.map (fun a => Rsa.Gen.C07.poolingCorrCovShift a (minL avg))
    else avg
  | _ =>
    meanRows (rows.map fun r =>
      r.map (fun a => Rsa.Gen.C07.poolingCosCovScale a (nonzeroP (HasSqrt.sqrt (dot r (solve V r))))))

end dense

/-! ## 3. the same with missing values (`none` = NaN), as coded -/

section opt
variable {α : Type}

/-- the non-missing entries, `v[~np.isnan(v)]` -/
def present (v : List (Option α)) : List α := v.filterMap id

def maskOf (v : List (Option α)) : List Bool := v.map Option.isSome

/-- keep the members of `l` whose flag is set -/
def keepBy {γ : Type} (mask : List Bool) (l : List γ) : List γ :=
  (mask.zip l).filterMap (fun bx => if bx.1 then some bx.2 else none)

/-- `v[nan_idx][:, nan_idx]` -/
def restrictV (mask : List Bool) (V : List (List α)) : List (List α) :=
  (keepBy mask V).map (keepBy mask)

/-- put the entries of a vector without missing values back at the positions flagged in `mask` -/
def expand : List Bool → List α → List (Option α)
  | [], _ => []
  | true :: bs, x :: xs => some x :: expand bs xs
  | true :: bs, [] => none :: expand bs []
  | false :: bs, xs => none :: expand bs xs

/-- apply a normaliser computed from the non-missing entries (`np.nanmean`, `np.nanstd`,
    `np.nanmin`, `_nan_rank_data`) -/
def applyO (f : List α → α → α) (v : List (Option α)) : List (Option α) :=
  v.map (Option.map (f (present v)))

/-- NaN-propagating addition -/
def optAdd [Add α] : Option α → Option α → Option α
  | some a, some b => some (a + b)
  | _, _ => none

variable [Add α] [Sub α] [Mul α] [Div α] [Zero α] [One α] [NatCast α]

def osumP (p : Nat) (rows : List (List (Option α))) : List (Option α) :=
  rows.foldr (List.zipWith optAdd) (List.replicate p (some 0))

/-- `_nan_mean`: `np.mean` over the RDMs at the entries present in the first RDM, NaN
    elsewhere; `np.mean` propagates a NaN of any other RDM, so the result is the
    NaN-propagating entry-wise mean -/
def nanMeanRows (rows : List (List (Option α))) : List (Option α) :=
  (osumP (rows.headD []).length rows).map (Option.map (· / (rows.length : α)))

variable [LT α] [DecidableLT α] [HasSqrt α] [Neg α] [LE α] [DecidableLE α] [Max α] [Min α]

/-- `pool_rdm(rdms, method)` as coded -/
def poolO (m : Method) (rows : List (List (Option α))) : List (Option α) :=
  let avg := nanMeanRows (rows.map (applyO (normF m)))
  if Rsa.Gen.C07.hasShift m.code = 1 then applyO shiftF avg else avg

/-- `compare(a, b, method)` for one pair once `_parse_input_rdms` has removed the common
    missing entries -/
def simO (m : Method) (V : List (List α)) (a b : List (Option α)) : α :=
  simV m V (present a) (present b)

/-- every RDM misses the same entries (otherwise `compare` raises `ValueError`) -/
def commonMask (rows : List (List (Option α))) : Bool :=
  match rows with
  | [] => true
  | r :: rs => rs.all (fun r' => maskOf r' == maskOf r)

/-- `V` of the kept entries of RDMs with `nC` conditions -/
def vFor (m : Method) (nC : Nat) (mask : List Bool) : List (List α) :=
  if m.needsV then restrictV mask (getV nC SigmaK.none) else []

/-- `boot_noise_ceiling(rdms, method, rdm_descriptor)`; `none` = `ValueError` -/
def bootNoiseCeilingO (m : Method) (o : Folds.Obj) (rows : List (List (Option α))) : Option (α × α) :=
  if commonMask rows then
    -- `for i in range(len(ceil_set))`: the folds the loop visits (generated leaf `bootLoopLen`)
    let folds := (looFolds o).take (Rsa.Gen.C07.bootLoopLen (looFolds o).length)
    some (bounds (bootTerms (poolO m) (simO m (vFor m o.nC (maskOf (rows.headD [])))) rows folds))
  else none

/-- `cv_noise_ceiling(rdms, ceil_set, test_set, method, pattern_descriptor)`; `none` = `ValueError` -/
def cvNoiseCeilingO (m : Method) (o : Folds.Obj) (rows : List (List (Option α)))
    (folds0 : List CvFold) : Option (α × α) :=
  -- `for i in range(len(ceil_set))` (generated leaf `cvLoopLen`)
  let folds := folds0.take (Rsa.Gen.C07.cvLoopLen folds0.length)
  if commonMask rows && cvShapesOk (poolO m) o rows folds then
    some (cvNoiseCeilingG (poolO m) (fun k td => simO m (vFor m k (maskOf (td.headD [])))) o rows folds)
  else none

end opt

/-! ## 4. (round 3) the coded linear-CKA shortcut, group weights, pooling from the present entries -/

section round3
variable {α : Type} [Add α] [Sub α] [Mul α] [Div α] [Zero α] [One α] [NatCast α]
  [LT α] [DecidableLT α] [HasSqrt α] [Neg α] [LE α] [DecidableLE α] [Max α] [Min α]

/-- `compare(x, y, method)` for one pair of *complete* RDM vectors of `n` conditions **as coded**:
    with `sigma_k=None` (the noise ceilings never pass one) the whitened measures do not solve
    `V s = r` but take the linear-CKA shortcut `_cov_weighting` + `_cosine` (C03's
    `whitenedCosFastCoded`, grand mean through C03's leaf); `corr_cov` removes the means first -/
def simFast (n : Nat) : Method → List α → List α → α
  | .cosineCov, x, y => whitenedCosFastCoded n x y
  | .corrCov, x, y => whitenedCosFastCoded n (center x) (center y)
  | m, x, y => simV m [] x y

/-- number of RDMs that share the `rdm_descriptor` value of RDM `j` -/
def groupSize (o : Folds.Obj) (j : Nat) : Nat :=
  ((List.range o.nR).filter (fun i => o.rdesc i == o.rdesc j)).length

/-- number of groups (`len(np.unique(rdm_descriptor))`) -/
def nGroups (o : Folds.Obj) : Nat := (Folds.uniq (Folds.descList o.nR o.rdesc)).length

/-- the weight RDM `j` has in both bounds of `boot_noise_ceiling` (mean within the group, then mean
    over groups): `1 / (#groups · size of its group)` -/
def groupWeight (o : Folds.Obj) (j : Nat) : α := 1 / ((nGroups o : α) * (groupSize o j : α))

/-- specification object for unequal groups: the *weighted* pool `Σ_j w_j · normalised(r_j)` -/
def poolWeighted (f : List α → α → α) (w : Nat → α) (rows : List (List α)) : List α :=
  vsumP (rows.headD []).length
    ((List.range rows.length).map fun j => (applyD f (rows.getD j [])).map (· * w j))

/-- specification object for missing entries: pool the non-missing entries (no NaN anywhere), then
    put the result back at the positions the first RDM has -/
def poolDense (m : Method) (l : List (List (Option α))) : List (Option α) :=
  expand (maskOf (l.headD [])) (poolD m (l.map present))

end round3

/-! ## 5. (round 4) sessions: several successive analyses of ONE RDMs object -/

section round4

/-- the public functions of the anchored files that take the caller's RDMs object -/
inductive Fn where
  | boot | cv | pool | pooling | evalFixed
deriving Repr, DecidableEq, Inhabited

def Fn.ofString? : String → Option Fn
  | "boot" => some .boot
  | "cv" => some .cv
  | "pool" => some .pool
  | "pooling" => some .pooling
  | "evalfixed" => some .evalFixed
  | _ => none

/-- one call of a session: which function, which method -/
structure Call where
  fn : Fn
  m : Method
deriving Repr, DecidableEq, Inhabited

/-- number of statements on the path of the call that write *in place* into an array aliasing the
    caller's data (`rdm_vec -= …`, `rdm_vec[...] = …`, `out=rdm_vec`, …): generated leaves, a syntactic
    may-alias analysis of the current source of both `pool_rdm`s (with the module-level helpers they hand
    their data to) and of the two ceilings.  Both ceilings and `eval_fixed` pool the caller's object with
    `util/inference_util.pool_rdm`; `util/pooling.pool_rdm` is the fitters' copy. -/
def writesOf : Fn → Nat
  | .pooling => Rsa.Gen.C07.poolingInputWrites
  | .pool => Rsa.Gen.C07.poolInputWrites
  | _ => Rsa.Gen.C07.poolInputWrites + Rsa.Gen.C07.ceilingInputWrites

variable {α : Type} [Add α] [Sub α] [Mul α] [Div α] [Zero α] [One α] [NatCast α]
  [LT α] [DecidableLT α] [HasSqrt α] [Neg α] [LE α] [DecidableLE α] [Max α] [Min α]

/-- what a call leaves in the caller's object when `w` statements write in place: with none the data
    are untouched; otherwise every data RDM is overwritten by its normalised version (what an in-place
    variant of the normalisation steps of `pool_rdm` does to `rdms.dissimilarities`) -/
def callEffectW (w : Nat) (c : Call) (rows : List (List (Option α))) : List (List (Option α)) :=
  if w = 0 then rows else rows.map (applyO (normF c.m))

/-- the effect of a call as coded (the write counts are read off the source) -/
def callEffect (c : Call) (rows : List (List (Option α))) : List (List (Option α)) :=
  callEffectW (writesOf c.fn) c rows

end round4

/-- a session: the calls are executed one after the other on one object; call `k` sees the state the
    calls before it left behind.  Returns per call its result and the state after it.  Generic in the
    call type `κ` (the driver attaches the call's arguments), the state `σ` and the result `ρ`. -/
def runSessionG {κ σ ρ : Type} (eff : κ → σ → σ) (result : κ → σ → ρ) : List κ → σ → List (ρ × σ)
  | [], _ => []
  | c :: cs, s => (result c s, eff c s) :: runSessionG eff result cs (eff c s)

end Rsa.Ceiling
