/-
  Rsa.Core.Compare — executable model of `rsatoolbox.rdm.compare` (property C03).

  One generic definition per measure, written over a type `α` that only has the syntactic
  operation classes; proved about over `ℝ` / an ordered field in `Rsa/Props/C03.lean`,
  executed at `Float` (measures with a square root) or `Rat` (tau-a, rho-a) by the driver.

  An RDM is its condensed vector (`List α`, order of `Rsa.pairs n`); a stack of RDMs is a
  list of vectors.  What is modelled *as coded*:
    * `_cosine` (zero-norm guard → 0), mean removal, rank transform then cosine,
      rho-a's constant `12/(n³-n)`, the tau-a formula from pair counts (generated leaves
      `Rsa.Gen.C03.*`), scipy's tau-b formula, `_get_v` (contrast-matrix products, three
      ways of passing `sigma_k`), `_cosine_cov_weighted_slow` (solve `V s = r`, then the
      three inner products), the linear-CKA fast path `_cov_weighting` for `sigma_k=None`,
      double centring of `-D/2`, the Bures expressions on top of an `eigh` routine.
  What is a parameter / contract:
    * the linear solve (`scipy.sparse.linalg.cg`): the whitened measures are stated from
      any `s` with `V s = r` (`wcosFrom`); the driver uses `solve` (Gaussian elimination);
    * `eigh` for Bures (the driver uses `jacobiEigh`);
    * `scipy.stats.rankdata` = `avgRank` (count form of tie-averaged ranks);
    * `_kendall_dis` = `nDis` (number of discordant pairs; the preceding sort/rank steps of
      `_tau_a` only prepare its input and do not change any pair count).
  No Mathlib here.
-/
import Rsa.Core.Num
import Rsa.Core.Tri
import Rsa.Gen.C03

namespace Rsa.Compare

/-! ## 1. vectors, cosine, correlation -/

section basic
variable {α : Type} [Add α] [Sub α] [Mul α] [Div α] [Zero α] [NatCast α]

/-- subtract the mean (`v - np.mean(v, 1, keepdims=True)`) -/
def center (x : List α) : List α := x.map (fun a => a - mean x)

variable [LT α] [DecidableLT α] [HasSqrt α]

/-- `_cosine` for one pair of vectors: inner product divided by both norms, `0` when a
    norm is not positive (the `sel_1/sel_2` bookkeeping of the code). -/
def cosine (x y : List α) : α :=
  let n1 := HasSqrt.sqrt (dot x x)
  let n2 := HasSqrt.sqrt (dot y y)
  if 0 < n1 ∧ 0 < n2 then dot x y / n1 / n2 else 0

/-- `compare_correlation`: cosine of the mean-removed vectors (Pearson) -/
def corr (x y : List α) : α := cosine (center x) (center y)

end basic

/-! ## 2. ranks (`scipy.stats.rankdata`, method 'average'), Spearman, rho-a -/

section ranks
variable {α : Type} [LT α] [DecidableLT α]

/-- number of entries strictly below `a` -/
def cntLt (x : List α) (a : α) : Nat := x.countP (fun b => decide (b < a))

/-- number of entries tied with `a` (neither below nor above) -/
def cntEq (x : List α) (a : α) : Nat := x.countP (fun b => !decide (b < a) && !decide (a < b))

variable [Add α] [Sub α] [Mul α] [Div α] [Zero α] [One α] [NatCast α]

/-- tie-averaged rank of value `a` within `x`: the mean of the ordinal positions
    `cntLt+1 … cntLt+cntEq` its tie group occupies. -/
def rankOf (x : List α) (a : α) : α :=
  (cntLt x a : α) + ((cntEq x a : α) + 1) / ((2 : Nat) : α)

/-- `scipy.stats.rankdata(x)` -/
def avgRank (x : List α) : List α := x.map (rankOf x)

/-- `compare_rho_a`: inner product of the centred tie-averaged ranks times `12/(n³-n)` -/
def rhoA (x y : List α) : α :=
  let n : α := (x.length : α)
  dot (center (avgRank x)) (center (avgRank y)) / (n * n * n - n) * ((12 : Nat) : α)

variable [HasSqrt α]

/-- `compare_spearman` -/
def spearman (x y : List α) : α := corr (avgRank x) (avgRank y)

end ranks

/-! ## 3. Kendall tau-a / tau-b from pair counts -/

section kendall
variable {α : Type} [LT α] [DecidableLT α]

def tiedB (a b : α) : Bool := !decide (a < b) && !decide (b < a)

/-- the two entries `p q` (each an `(x, y)` value pair) are ordered the same way in x and y -/
def concordant (p q : α × α) : Bool :=
  (decide (p.1 < q.1) && decide (p.2 < q.2)) || (decide (q.1 < p.1) && decide (q.2 < p.2))

def discordant (p q : α × α) : Bool :=
  (decide (p.1 < q.1) && decide (q.2 < p.2)) || (decide (q.1 < p.1) && decide (p.2 < q.2))

def tieX (p q : α × α) : Bool := tiedB p.1 q.1
def tieY (p q : α × α) : Bool := tiedB p.2 q.2
def tieXY (p q : α × α) : Bool := tiedB p.1 q.1 && tiedB p.2 q.2

/-- number of unordered pairs of entries satisfying `r` -/
def countPairs {β : Type} (r : β → β → Bool) (l : List β) : Nat :=
  (pairsOf l).countP (fun pq => r pq.1 pq.2)

def nCon (x y : List α) : Nat := countPairs concordant (x.zip y)
def nDis (x y : List α) : Nat := countPairs discordant (x.zip y)
def nTieX (x y : List α) : Nat := countPairs tieX (x.zip y)
def nTieY (x y : List α) : Nat := countPairs tieY (x.zip y)
def nTieXY (x y : List α) : Nat := countPairs tieXY (x.zip y)

/-- an integer as an element of `α` -/
def castInt {α : Type} [NatCast α] [Neg α] : Int → α
  | .ofNat n => (n : α)
  | .negSucc n => -((n + 1 : Nat) : α)

/-- `con_minus_dis` of `_tau_a` / `scipy.stats.kendalltau`, from the counts, via the
    generated leaf -/
def conMinusDis (x y : List α) : Int :=
  Rsa.Gen.C03.conMinusDis (Rsa.Gen.C03.tauTot x.length : Nat) (nTieX x y) (nTieY x y)
    (nTieXY x y) (nDis x y)

variable [Add α] [Sub α] [Mul α] [Div α] [Neg α] [Zero α] [One α] [NatCast α]
  [LE α] [DecidableLE α] [Max α] [Min α]

/-- `_tau_a` as coded: total pairs, tie counts, discordant count, the leaf formulas, clamp -/
def tauA (x y : List α) : α :=
  Rsa.Gen.C03.tauClamp
    (Rsa.Gen.C03.tauRatio (castInt (conMinusDis x y)) ((Rsa.Gen.C03.tauTot x.length : Nat) : α))

/-- Kendall tau-a as *defined*: (concordant − discordant) / C(n,2) over all pairs -/
def tauASpec (x y : List α) : α :=
  ((nCon x y : α) - (nDis x y : α)) / ((triLen x.length : Nat) : α)

variable [HasSqrt α]

/-- `scipy.stats.kendalltau(...).correlation` (variant 'b'): NaN (`none`) when one vector
    is constant, else `con_minus_dis / √(tot-xtie) / √(tot-ytie)`, clamped. -/
def tauB (x y : List α) : Option α :=
  let tot := Rsa.Gen.C03.tauTot x.length
  if nTieX x y = tot ∨ nTieY x y = tot then none
  else some (Rsa.Gen.C03.tauClamp
    (castInt (conMinusDis x y) / HasSqrt.sqrt ((tot - nTieX x y : Nat) : α)
      / HasSqrt.sqrt ((tot - nTieY x y : Nat) : α)))

/-- tau-b as *defined*: (con − dis) / √((con+dis+ytie-only)·(con+dis+xtie-only)) -/
def tauBSpec (x y : List α) : α :=
  ((nCon x y : α) - (nDis x y : α)) /
    HasSqrt.sqrt (((triLen x.length - nTieX x y : Nat) : α) * ((triLen x.length - nTieY x y : Nat) : α))

end kendall

/-! ## 4. the covariance `V` of RDM entries (`_get_v`) -/

/-- the three ways `sigma_k` can be passed -/
inductive SigmaK (α : Type) where
  | none : SigmaK α
  | vec : List α → SigmaK α
  | mat : List (List α) → SigmaK α

section getv
variable {α : Type} [Add α] [Sub α] [Mul α] [Zero α] [One α]

/-- entry `(p, k)` of `pairwise_contrast_sparse(np.arange(n))`: row of pair `p = (i,j)` is
    `e_i − e_j` -/
def contrast (p : Nat × Nat) (k : Nat) : α :=
  (if k = p.1 then 1 else 0) - (if k = p.2 then 1 else 0)

/-- `Ξ = C Σ Cᵀ` as coded, entry `(p, q)`:
    `c_mat @ c_mat.T`, `c_mat @ diags(σ) @ c_mat.T`, `c_mat @ Σ @ c_mat.T` -/
def xi (n : Nat) : SigmaK α → Nat × Nat → Nat × Nat → α
  | .none, p, q => ((List.range n).map (fun k => contrast p k * contrast q k)).sum
  | .vec v, p, q => ((List.range n).map (fun k => contrast p k * v.getD k 0 * contrast q k)).sum
  | .mat m, p, q => ((List.range n).map (fun k =>
      ((List.range n).map (fun l => contrast p k * (m.getD k []).getD l 0 * contrast q l)).sum)).sum

/-- `_get_v`: `V = Ξ ∘ Ξ` (element-wise square), rows/columns in the order of `pairs n` -/
def getV (n : Nat) (s : SigmaK α) : List (List α) :=
  (pairs n).map (fun p => (pairs n).map (fun q => xi n s p q * xi n s p q))

/-- the pattern covariance a `sigma_k` argument stands for -/
def SigmaK.entry : SigmaK α → Nat → Nat → α
  | .none, i, j => if i = j then 1 else 0
  | .vec v, i, j => if i = j then v.getD i 0 else 0
  | .mat m, i, j => (m.getD i []).getD j 0

/-- `Ξ` as *defined*: covariance of the differences `b_i − b_j`, `b_k − b_l` -/
def xiSpec (s : Nat → Nat → α) (p q : Nat × Nat) : α :=
  s p.1 q.1 - s p.1 q.2 - s p.2 q.1 + s p.2 q.2

/-- `V` as *defined* -/
def vSpec (n : Nat) (s : Nat → Nat → α) : List (List α) :=
  (pairs n).map (fun p => (pairs n).map (fun q => xiSpec s p q * xiSpec s p q))

end getv

/-! ## 5. linear solve (stand-in for `scipy.sparse.linalg.cg`) and whitened measures -/

section solve
variable {α : Type} [Add α] [Sub α] [Mul α] [Div α] [Zero α]

/-- one Gauss–Jordan step on the augmented rows: normalise row `k`, eliminate column `k`
    from the others.  No pivot search: `V` is symmetric positive definite. -/
def elimStep (k : Nat) (rows : List (List α)) : List (List α) :=
  let rk := rows.getD k []
  let piv := rk.getD k 0
  let rk' := rk.map (fun a => a / piv)
  (List.range rows.length).map (fun i =>
    if i = k then rk'
    else
      let ri := rows.getD i []
      let f := ri.getD k 0
      List.zipWith (fun a b => a - f * b) ri rk')

/-- solution of `A s = b` by Gauss–Jordan elimination (`A` square, non-singular leading
    minors) -/
def solve (A : List (List α)) (b : List α) : List α :=
  let aug := List.zipWith (fun r bi => r ++ [bi]) A b
  let red := (List.range A.length).foldl (fun rows k => elimStep k rows) aug
  red.map (fun r => r.getD A.length 0)

end solve

section whitened
variable {α : Type} [Add α] [Sub α] [Mul α] [Div α] [Zero α] [One α] [NatCast α]
  [LT α] [DecidableLT α] [HasSqrt α]

/-- `_cosine_cov_weighted_slow` given the two solves `V s₁ = r₁`, `V s₂ = r₂`:
    `r₁ᵀs₂ / √(r₁ᵀs₁) / √(r₂ᵀs₂)`; `none` (the code gives NaN or 0) when a quadratic
    form is not positive. -/
def wcosFrom (r1 r2 s1 s2 : List α) : Option α :=
  let q1 := dot r1 s1
  let q2 := dot r2 s2
  if 0 < q1 ∧ 0 < q2 then some (dot r1 s2 / HasSqrt.sqrt q1 / HasSqrt.sqrt q2) else none

/-- whitened cosine `r₁ᵀV⁻¹r₂ / √(r₁ᵀV⁻¹r₁ · r₂ᵀV⁻¹r₂)` -/
def whitenedCos (V : List (List α)) (r1 r2 : List α) : Option α :=
  wcosFrom r1 r2 (solve V r1) (solve V r2)

/-- whitened correlation: the same on mean-removed vectors -/
def whitenedCorr (V : List (List α)) (r1 r2 : List α) : Option α :=
  whitenedCos V (center r1) (center r2)

end whitened

/-! ## 6. kernels: `G = −½ H D H`, the linear-CKA fast path -/

section kernel
variable {α : Type} [Add α] [Sub α] [Mul α] [Div α] [Neg α] [Zero α] [One α] [NatCast α]

/-- `-D/2` as a square matrix with zero diagonal (`batch_to_matrices(-vector / 2)`) -/
def halfNeg (n : Nat) (r : List α) : Nat → Nat → α :=
  vecToMat n 0 0 (r.map (fun d => -d / ((2 : Nat) : α)))

/-- column means, `np.mean(G, 1, keepdims=True)` (= row means, G symmetric) -/
def colMean (n : Nat) (g : Nat → Nat → α) (j : Nat) : α :=
  ((List.range n).map (fun i => g i j)).sum / (n : α)

/-- `G - s - sᵀ + mean(s)`: double centring -/
def centreKernel (n : Nat) (g : Nat → Nat → α) : Nat → Nat → α :=
  let s := colMean n g
  let mm := ((List.range n).map s).sum / (n : α)
  fun i j => g i j - s j - s i + mm

/-- centred kernel of an RDM vector as a list of rows -/
def kernelRows (n : Nat) (r : List α) : List (List α) :=
  let g := centreKernel n (halfNeg n r)
  (List.range n).map (fun i => (List.range n).map (fun j => g i j))

variable [LT α] [DecidableLT α] [HasSqrt α]

/-- `_cov_weighting(vector, all-true, sigma_k=None)`: the centred kernel stretched out,
    off-diagonal entries (each present once) times `√2`, then the diagonal -/
def covWeighting (n : Nat) (r : List α) : List α :=
  let g := centreKernel n (halfNeg n r)
  (pairs n).map (fun p => g p.1 p.2 * HasSqrt.sqrt ((2 : Nat) : α)) ++
    (List.range n).map (fun k => g k k)

/-- fast path of `_cosine_cov_weighted` for `sigma_k=None` (linear CKA) -/
def whitenedCosFast (n : Nat) (r1 r2 : List α) : α :=
  cosine (covWeighting n r1) (covWeighting n r2)

end kernel

/-! ## 7. Bures similarity / squared Bures metric on top of an `eigh` routine -/

section bures
variable {α : Type} [Add α] [Sub α] [Mul α] [Div α] [Neg α] [Zero α] [One α] [NatCast α]
  [LT α] [DecidableLT α] [HasSqrt α]

def matMul (A B : List (List α)) : List (List α) :=
  A.map (fun r => (List.range (B.headD []).length).map (fun j =>
    dot r (B.map (fun br => br.getD j 0))))

def matT (A : List (List α)) : List (List α) :=
  (List.range (A.headD []).length).map (fun j => A.map (fun r => r.getD j 0))

def trace (A : List (List α)) : α :=
  ((List.range A.length).map (fun i => (A.getD i []).getD i 0)).sum

def clamp0 (a : α) : α := if 0 < a then a else 0

/-- `Asq = ua @ (sqrt(max(va,0))[:,None] * ua.T)` from `va, ua = eigh(A)`
    (`ua` holds the eigenvectors as columns) -/
def psdSqrt (eigh : List (List α) → List α × List (List α)) (A : List (List α)) : List (List α) :=
  let (va, ua) := eigh A
  let uat := matT ua
  matMul ua (List.zipWith (fun v row => row.map (fun a => HasSqrt.sqrt (clamp0 v) * a)) va uat)

/-- `np.sum(np.sqrt(np.maximum(eigvalsh(Asq @ B @ Asq), 0)))` : the fidelity `tr √(√A B √A)` -/
def fidelity (eigh : List (List α) → List α × List (List α)) (A B : List (List α)) : α :=
  let asq := psdSqrt eigh A
  let m := matMul (matMul asq B) asq
  (((eigh m).1).map (fun v => HasSqrt.sqrt (clamp0 v))).sum

/-- `_bures_similarity_first_way` -/
def buresSim (eigh : List (List α) → List α × List (List α)) (A B : List (List α)) : α :=
  fidelity eigh A B / HasSqrt.sqrt (trace A * trace B)

/-- `_sq_bures_metric_first_way` -/
def sqBuresMetric (eigh : List (List α) → List α × List (List α)) (A B : List (List α)) : α :=
  trace A + trace B - ((2 : Nat) : α) * fidelity eigh A B

/-! cyclic Jacobi eigen-decomposition of a symmetric matrix (driver's `eigh`) -/

def identMat (n : Nat) : List (List α) :=
  (List.range n).map (fun i => (List.range n).map (fun j => if i = j then 1 else 0))

def absv (a : α) : α := if a < 0 then -a else a

/-- Givens rotation matrix `J(p,q,c,s)` -/
def givens (n p q : Nat) (c s : α) : List (List α) :=
  (List.range n).map (fun i => (List.range n).map (fun j =>
    if i = p ∧ j = p then c else if i = q ∧ j = q then c
    else if i = p ∧ j = q then s else if i = q ∧ j = p then -s
    else if i = j then 1 else 0))

/-- one Jacobi rotation annihilating entry `(p,q)`; state = (A, U) with `A₀ = U A Uᵀ` -/
def jacobiRot (n : Nat) (st : List (List α) × List (List α)) (pq : Nat × Nat) :
    List (List α) × List (List α) :=
  let (A, U) := st
  let apq := (A.getD pq.1 []).getD pq.2 0
  if apq < 0 ∨ 0 < apq then
    let app := (A.getD pq.1 []).getD pq.1 0
    let aqq := (A.getD pq.2 []).getD pq.2 0
    let theta := (aqq - app) / (((2 : Nat) : α) * apq)
    let t := (if theta < 0 then -(1 : α) else 1) / (absv theta + HasSqrt.sqrt (theta * theta + 1))
    let c := 1 / HasSqrt.sqrt (t * t + 1)
    let s := t * c
    let J := givens n pq.1 pq.2 c s
    (matMul (matMul (matT J) A) J, matMul U J)
  else st

/-- `sweeps` cyclic sweeps; returns eigenvalues (diagonal) and eigenvectors (columns) -/
def jacobiEigh (sweeps : Nat) (A : List (List α)) : List α × List (List α) :=
  let n := A.length
  let st := (List.range sweeps).foldl
    (fun st _ => (pairs n).foldl (jacobiRot n) st) (A, identMat n)
  ((List.range n).map (fun i => (st.1.getD i []).getD i 0), st.2)

end bures

/-! ## 8. all combinations of two stacks -/

/-- `_all_combinations` / the `einsum('ij,kj->ik')` layout: entry `(i, j)` is the measure
    of RDM `i` of the first and RDM `j` of the second stack -/
def compareAll {β γ : Type} (f : β → β → γ) (xs ys : List β) : List (List γ) :=
  xs.map (fun x => ys.map (fun y => f x y))

/-! ## 9. (round 2) variants that call the regenerated leaves; argument checks -/

section coded
variable {α : Type} [Add α] [Sub α] [Mul α] [Div α] [Neg α] [Zero α] [One α] [NatCast α]
  [LT α] [DecidableLT α] [LE α] [DecidableLE α] [Max α] [Min α]

/-- `compare_rho_a` with the constant taken from the source text (`Gen.C03.rhoAScale`) -/
def rhoACoded (x y : List α) : α :=
  Rsa.Gen.C03.rhoAScale (dot (center (avgRank x)) (center (avgRank y))) (x.length : α)

/-- double centring as `_cov_weighting` does it: the grand mean is
    `np.sum(vector_w * 2) / (n_cond * n_cond)` over the stretched vector (off-diagonal
    entries once, zero diagonal), through the leaf `Gen.C03.ckaGrandMean` -/
def centreKernelCoded (n : Nat) (g : Nat → Nat → α) : Nat → Nat → α :=
  let s := colMean n g
  let total2 := ((pairs n).map (fun p => g p.1 p.2 * ((2 : Nat) : α))).sum
  let mm := Rsa.Gen.C03.ckaGrandMean total2 (n : α)
  fun i j => g i j - s j - s i + mm

variable [HasSqrt α]

def covWeightingCoded (n : Nat) (r : List α) : List α :=
  let g := centreKernelCoded n (halfNeg n r)
  (pairs n).map (fun p => g p.1 p.2 * HasSqrt.sqrt ((2 : Nat) : α)) ++
    (List.range n).map (fun k => g k k)

/-- fast path of `_cosine_cov_weighted` for `sigma_k=None`, leaf-dependent form -/
def whitenedCosFastCoded (n : Nat) (r1 r2 : List α) : α :=
  cosine (covWeightingCoded n r1) (covWeightingCoded n r2)

end coded

/-- the method names `compare` dispatches on (anything else raises `ValueError`) -/
def methodNames : List String :=
  ["cosine", "spearman", "corr", "kendall", "tau-b", "tau-a", "rho-a", "corr_cov", "cosine_cov",
   "neg_riem_dist", "bures", "bures_metric"]

/-- `compare` accepts a call iff the method is known and both stacks have vectors of one
    common length (`_parse_input_rdms`: "rdm1 and rdm2 must be RDMs of equal shape") -/
def accepts (method : String) (lx ly : Nat) : Bool := methodNames.contains method && lx == ly

end Rsa.Compare
