/-
  Rsa.Core.CrossVal — executable model for property C02
  (cross-validated distances: `calc_rdm_crossnobis`, `calc_rdm_poisson_cv`,
   `_calc_rdm_crossnobis_single`, `_gen_default_cv_descriptor`, `Dataset.sort_by`,
   `average_dataset_by`).

  Two layers, kept apart:

  * the *algorithm as coded*: deep copy, default fold descriptor, stable sort by condition,
    leave-one-fold-out loop (train = rows of the other folds averaged by condition,
    test = this fold averaged by condition, rows aligned **by position**, kernel
    `train · N · testᵀ`, `k_aa + k_bb − k_ab − k_ba`, division by the channel count, mean
    over folds), the per-fold-precision branch (loop over fold positions `i < j` with
    `inv((inv N_i + inv N_j)/2)`), the Poisson variant (prior-regularised rates, kernel
    `train · log(test)ᵀ`) — `lofoAlgo`, `crossnobisAlgo`, `foldPrecAlgo`, `poissonCvAlgo`;
  * the *specification* the property states: the average over all ordered pairs of
    distinct folds of products of fold-wise condition-mean differences — `cvSpec`,
    `crossnobisSpec`, `foldPrecSpec`, `poissonCvSpec`.

  Everything is generic in the number type `α` (proved over an ordered field, executed
  at `Rat` / `Float`), in the condition label type `L` and the fold label type `F`.
  A pattern is a function `Nat → α` (channel ↦ value) together with the channel count `P`.
  `log`, matrix inversion are parameters (matrices that are inverted are data, `List (List α)`).  Core Lean only.
-/
import Rsa.Core.Num
import Rsa.Core.Tri
import Rsa.Gen.C02

namespace Rsa.CrossVal

/-- one observation (row of the dataset): condition label, fold label, pattern -/
structure Obs (L F α : Type) where
  cond : L
  fold : F
  x : Nat → α

/-! ### small generic pieces -/

section num
variable {α : Type} [Add α] [Sub α] [Mul α] [Div α] [Neg α] [Zero α] [One α] [NatCast α]
  [LT α] [DecidableLT α] [LE α] [DecidableLE α] [Max α] [Min α]

/-- `Σ_{k<P} f k` -/
def sumR (P : Nat) (f : Nat → α) : α := ((List.range P).map f).sum

/-- mean pattern of a list of patterns (`np.mean(measurements, axis=0)`) -/
def meanVec (vs : List (Nat → α)) : Nat → α :=
  fun k => (vs.map (fun v => v k)).sum / ((vs.length : Nat) : α)

/-- `m − m.mean(axis=1)`: remove the mean over the `P` channels from a pattern -/
def centre (P : Nat) (x : Nat → α) : Nat → α :=
  -- generated from `measurements_train -= measurements_train.mean(axis=1, keepdims=True)`
  fun k => Rsa.Gen.C02.centreTrain (x k) (sumR P x / ((P : Nat) : α))

/-- prior regularisation of a rate pattern: `(m + λ₀·w) / (1 + w)` -/
def reg (lam0 w : α) (x : Nat → α) : Nat → α :=
  fun k => Rsa.Gen.C02.regTrain (x k) lam0 w   -- generated from calc_rdm_poisson_cv

/-- identity precision (`np.eye`) -/
def eye : Nat → Nat → α := fun k l => if k = l then 1 else 0

/-- `u @ N @ vᵀ` for row vectors `u`, `v` (evaluated as `(u @ N) @ vᵀ`) -/
def kern (P : Nat) (N : Nat → Nat → α) (u v : Nat → α) : α :=
  sumR P (fun l => sumR P (fun k => u k * N k l) * v l)

/-- `u @ log(v)ᵀ` -/
def pkern (lg : α → α) (P : Nat) (u v : Nat → α) : α :=
  -- summand generated from `kernel = measurements_train @ np.log(measurements_test).T`
  sumR P (fun k => Rsa.Gen.C02.poissonKernel (u k) (lg (v k)))

/-- plain dot product over `P` channels -/
def dotP (P : Nat) (u v : Nat → α) : α := sumR P (fun k => u k * v k)

/-- pattern difference -/
def vsubF (u v : Nat → α) : Nat → α := fun k => u k - v k

/-- a matrix given as data (list of rows) viewed as a function of two indices -/
def matFn (m : List (List α)) : Nat → Nat → α := fun k l => (m.getD k []).getD l 0

/-- `_check_noise` on one matrix: shape `P × P` (the code's `assert`) -/
def noiseShapeOk (P : Nat) (m : List (List α)) : Bool :=
  m.length = P && m.all (fun r => r.length = P)

/-- `(A + B) / 2` entrywise, on matrices given as data -/
def matAvg (A B : List (List α)) : List (List α) :=
  -- entry generated from `(variances[i_fold] + variances[j_fold]) / 2`
  List.zipWith (List.zipWith (fun a b => Rsa.Gen.C02.pairCov a b)) A B

/-- `k_aa + k_bb − k_ab − k_ba` written on the four patterns involved:
    `κ` applied to (left pattern of a, right pattern of a) etc. -/
def kdiff (κ : (Nat → α) → (Nat → α) → α) (ua ub va vb : Nat → α) : α :=
  -- generated from `_calc_rdm_crossnobis_single`: k_bb + k_aa − k_ab − k_ba
  Rsa.Gen.C02.crossEntry (κ ub vb) (κ ua va) (κ ua vb) (κ ub va)

/-- `np.einsum('ij->j', rdms) / rdms.shape[0]`: column-wise mean of a list of vectors -/
def colMean (rows : List (List α)) : List α :=
  match rows with
  | [] => []
  | r :: rs => (rs.foldl (fun acc v => List.zipWith (· + ·) acc v) r).map
      (fun s => Rsa.Gen.C02.foldAverage s ((rows.length : Nat) : α))   -- generated leaf

end num

/-! ### labels: unique values, sorting -/

section labels
variable {β : Type}

/-- `¬ b < a` as the Boolean "a ≤ b" used for the stable sort -/
def leB [LT β] [DecidableLT β] (a b : β) : Bool := !decide (b < a)

/-- distinct values in order of first appearance (`get_unique_inverse`) -/
def uniqueFirst [DecidableEq β] : List β → List β
  | [] => []
  | a :: l => a :: (uniqueFirst l).filter (fun b => b ≠ a)

/-- `np.unique`: sorted distinct values -/
def sortedDistinct [DecidableEq β] [LT β] [DecidableLT β] (l : List β) : List β :=
  uniqueFirst (l.mergeSort leB)

/-- occurrence counter behind `_gen_default_cv_descriptor`: the entry for the k-th
    occurrence of a value is k (counting the occurrences in `seen` too) -/
def occFrom [DecidableEq β] (seen : List β) : List β → List Nat
  | [] => []
  | c :: cs => seen.count c :: occFrom (c :: seen) cs

/-- `_gen_default_cv_descriptor`: rejected (`none`, the code's `assert`) unless every
    condition occurs equally often; otherwise the k-th occurrence of a condition is fold k -/
def defaultCv [DecidableEq β] (l : List β) : Option (List Nat) :=
  match l with
  | [] => some []
  | c0 :: _ =>
    -- test generated from `assert np.all(counts == counts[0])`
    if l.all (fun c => Rsa.Gen.C02.countsOk (l.count c) (l.count c0) = 1) then some (occFrom [] l)
    else none

/-- the positions visited by `for i in range(start(n), stop(n))` applied to a list of length n -/
def loopOver (start stop : Nat → Nat) (l : List β) : List β :=
  (l.drop (start l.length)).take (stop l.length - start l.length)

/-- the index pairs visited by the fold-pair loops of the per-fold-precision branch, built from
    the generated loop headers: `for i in range(o₀, o₁): for j in range(s(i), t(i)): if g(i, j):` -/
def loopPairs (n : Nat) : List (Nat × Nat) :=
  (List.range' (Rsa.Gen.C02.pairOuterStart n)
      (Rsa.Gen.C02.pairOuterStop n - Rsa.Gen.C02.pairOuterStart n)).flatMap (fun i =>
    ((List.range' (Rsa.Gen.C02.pairInnerStart i n)
        (Rsa.Gen.C02.pairInnerStop i n - Rsa.Gen.C02.pairInnerStart i n)).filter
      (fun j => Rsa.Gen.C02.pairGuard i j = 1)).map (fun j => (i, j)))

end labels

/-! ### the algorithm as coded -/

section algo
variable {L F α : Type} [DecidableEq L] [LT L] [DecidableLT L]
  [DecidableEq F] [LT F] [DecidableLT F]
  [Add α] [Sub α] [Mul α] [Div α] [Neg α] [Zero α] [One α] [NatCast α]
  [LT α] [DecidableLT α] [LE α] [DecidableLE α] [Max α] [Min α]

/-- `Dataset.sort_by(descriptor)`: stable sort of the rows by condition label -/
def sortByCond (D : List (Obs L F α)) : List (Obs L F α) :=
  D.mergeSort (fun r s => leB r.cond s.cond)

/-- `average_dataset_by(ds, descriptor)`: (label, mean pattern) per distinct label, labels
    in order of first appearance -/
def averageBy (rows : List (Obs L F α)) : List (L × (Nat → α)) :=
  (uniqueFirst (rows.map (·.cond))).map
    (fun c => (c, meanVec ((rows.filter (fun r => r.cond = c)).map (·.x))))

/-- `np.unique(obs_descriptors[cv_descriptor])` -/
def foldsOf (D : List (Obs L F α)) : List F := sortedDistinct (D.map (·.fold))

/-- `_calc_rdm_crossnobis_single` / the body of the Poisson loop: the two mean matrices
    are aligned by row position; entry for rows a<b is `k_bb + k_aa − k_ab − k_ba`,
    divided by the channel count -/
def single (κ : (Nat → α) → (Nat → α) → α) (P : Nat)
    (m1 m2 : List (Nat → α)) : List α :=
  (pairsOf (m1.zip m2)).map
    -- normaliser generated from `return _extract_triu_(rdm) / meas1.shape[1]`
    (fun pq => Rsa.Gen.C02.singleNorm (kdiff κ pq.1.1 pq.2.1 pq.1.2 pq.2.2) ((P : Nat) : α))

/-- one iteration of the leave-one-fold-out loop for test fold `f` -/
def lofoFold (T : (Nat → α) → (Nat → α)) (κ : (Nat → α) → (Nat → α) → α) (P : Nat)
    (Ds : List (Obs L F α)) (folds : List F) (f : F) : List α :=
  let others := folds.filter (fun g => g ≠ f)            -- np.setdiff1d(cv_folds, fold)
  let test := Ds.filter (fun r => r.fold = f)             -- subset_obs(cv_descriptor, fold)
  let train := Ds.filter (fun r => r.fold ∈ others)       -- subset_obs(cv_descriptor, others)
  let mtr := (averageBy train).map (fun p => T p.2)
  let mte := (averageBy test).map (fun p => T p.2)
  single κ P mtr mte

/-- labels of the result: `average_dataset_by(sorted dataset)` unique values, as pairs -/
def pairLabels (Ds : List (Obs L F α)) : List (L × L) :=
  pairsOf ((averageBy Ds).map (·.1))

/-- generic leave-one-fold-out estimator: `T` is the per-pattern transform applied after
    averaging (identity, centring, prior regularisation), `κ` the kernel.
    Result: the condensed RDM vector as a list of ((label a, label b), value). -/
def lofoAlgo (T : (Nat → α) → (Nat → α)) (κ : (Nat → α) → (Nat → α) → α) (P : Nat)
    (D : List (Obs L F α)) : List ((L × L) × α) :=
  let Ds := sortByCond D
  let folds := foldsOf Ds
  let rdms := folds.map (lofoFold T κ P Ds folds)
  (pairLabels Ds).zip (colMean rdms)

/-- pattern transform of `calc_rdm_crossnobis` -/
def xT (removeMean : Bool) (P : Nat) : (Nat → α) → (Nat → α) :=
  if removeMean then centre P else id

/-- `calc_rdm_crossnobis` with one precision matrix (`eye` when none is given) -/
def crossnobisAlgo (removeMean : Bool) (P : Nat) (N : Nat → Nat → α)
    (D : List (Obs L F α)) : List ((L × L) × α) :=
  lofoAlgo (xT removeMean P) (kern P N) P D

/-- `calc_rdm_poisson_cv` as the property demands it (loop over folds, averaged) -/
def poissonCvAlgo (lg : α → α) (lam0 w : α) (P : Nat)
    (D : List (Obs L F α)) : List ((L × L) × α) :=
  lofoAlgo (reg lam0 w) (pkern lg P) P D

/-- `calc_rdm_poisson_cv` *as it is on the pinned tree*: `rdm` is overwritten in the
    loop, so only the last fold's estimate survives (kept to document the defect) -/
def poissonCvLastFold (lg : α → α) (lam0 w : α) (P : Nat)
    (D : List (Obs L F α)) : List ((L × L) × α) :=
  let Ds := sortByCond D
  let folds := foldsOf Ds
  match (folds.map (lofoFold (reg lam0 w) (pkern lg P) P Ds folds)).getLast? with
  | none => []
  | some r => (pairLabels Ds).zip r

/-- `calc_rdm_crossnobis` with a list of precisions, `Ns[i]` belonging to the i-th fold in
    sorted fold order: fold-wise means, `variances[i] = inv Ns[i]`, loop over positions
    `i < j` with precision `inv((variances[i] + variances[j]) / 2)`, mean over the pairs -/
def foldPrecAlgo (inv : List (List α) → List (List α)) (removeMean : Bool) (P : Nat)
    (Ns : List (List (List α))) (D : List (Obs L F α)) : List ((L × L) × α) :=
  let Ds := sortByCond D
  let folds := foldsOf Ds
  let meas := folds.map (fun f =>
    (averageBy (Ds.filter (fun r => r.fold = f))).map (fun p => xT removeMean P p.2))
  let vars := Ns.map inv
  let rdms := (pairsOf (meas.zip vars)).map
    (fun ij => single (kern P (matFn (inv (matAvg ij.1.2 ij.2.2)))) P ij.1.1 ij.2.1)
  (pairLabels Ds).zip (colMean rdms)

end algo

/-! ### `np.linalg.inv` by certificate

The per-fold-precision branch inverts matrices.  Above, `inv` is an arbitrary function.  Here
it is made concrete *without* modelling LAPACK: any candidate `cand A` is accepted only together
with the exact check `A · cand A = I` on the `P × P` block (and shape `P × P`); a failed check
is the code's `LinAlgError`.  A matrix that passes the check *is* the inverse (uniqueness), so
everything provable about the true inverse (symmetry, commuting with a simultaneous row /
column permutation) holds for whatever the candidate function is. -/

section cert
variable {L F α : Type} [DecidableEq L] [LT L] [DecidableLT L]
  [DecidableEq F] [LT F] [DecidableLT F]
  [Add α] [Sub α] [Mul α] [Div α] [Neg α] [Zero α] [One α] [NatCast α]
  [LT α] [DecidableLT α] [LE α] [DecidableLE α] [Max α] [Min α] [DecidableEq α]

/-- `(A · B)[j, k]` on the `P × P` block -/
def mmulP (P : Nat) (A B : Nat → Nat → α) (j k : Nat) : α := sumR P (fun l => A j l * B l k)

/-- exact certificate: `B` has shape `P × P` and `A · B = I` on the `P × P` block -/
def isInvCert (P : Nat) (A B : List (List α)) : Bool :=
  noiseShapeOk P B &&
  (List.range P).all (fun j => (List.range P).all (fun k =>
    decide (mmulP P (matFn A) (matFn B) j k = eye j k)))

/-- the model's `np.linalg.inv`: the candidate, returned only with its certificate
    (`none` = singular / `LinAlgError`) -/
def certInv (cand : List (List α) → List (List α)) (P : Nat) (A : List (List α)) :
    Option (List (List α)) :=
  if isInvCert P A (cand A) then some (cand A) else none

/-- total version handed to `foldPrecAlgo` (only used where the certificate holds) -/
def invOr (cand : List (List α) → List (List α)) (P : Nat) (A : List (List α)) : List (List α) :=
  (certInv cand P A).getD []

/-- all inversions of the per-fold branch carry their certificate: the `M` precisions and the
    `M(M−1)/2` averaged covariances -/
def foldPrecCertsOk (cand : List (List α) → List (List α)) (P : Nat)
    (Ns : List (List (List α))) : Bool :=
  Ns.all (fun N => (certInv cand P N).isSome) &&
  (pairsOf (Ns.map (invOr cand P))).all (fun vw => (certInv cand P (matAvg vw.1 vw.2)).isSome)

/-- `calc_rdm_crossnobis` with one precision per fold and the certified inverse;
    `none` = some matrix was singular (`LinAlgError`) -/
def foldPrecCert (cand : List (List α) → List (List α)) (removeMean : Bool) (P : Nat)
    (Ns : List (List (List α))) (D : List (Obs L F α)) : Option (List ((L × L) × α)) :=
  if foldPrecCertsOk cand P Ns then some (foldPrecAlgo (invOr cand P) removeMean P Ns D) else none

end cert

/-! ### reuse sessions: one dataset object, several successive calls (round 4)

What the caller holds between calls — the dataset object (rows with two condition descriptors and a
fold descriptor) and the precision objects — is threaded explicitly through the calls.  The effect
of one call on it is modelled *as the source performs it*:

* `noise = _check_noise(noise, …)` stores every entry of a list / dict precision back into the
  caller's container (`noise[i] = _check_noise(noise[i], …)`): `checkNoiseRestore`, the identity iff
  the generated leaf `checkNoiseIdentity` says that `_check_noise` returns its argument itself;
* the default fold descriptor is stored into, and `sort_by(descriptor)` reorders, the *working
  object*: the caller's own object unless the generated leaves `crossWorkIsCopy` /
  `poissonWorkIsCopy` say that it is an unconditional `deepcopy(dataset)`;
* any other statement of the anchored functions that can leave something behind (store into a
  parameter, module-level memo, decorator … counted by the generated leaf `inputWrites`) makes the
  content unknown (`none`): the model fails closed.

`Props.C02.session_calls_independent` proves, by induction over the step list, that a session
returns at every call the value of the stand-alone call on the content of that moment, and that the
content is changed by the caller's own `sort_by` steps only. -/

section session
variable {L F α : Type} [DecidableEq L] [LT L] [DecidableLT L]
  [DecidableEq F] [LT F] [DecidableLT F]
  [Add α] [Sub α] [Mul α] [Div α] [Neg α] [Zero α] [One α] [NatCast α]
  [LT α] [DecidableLT α] [LE α] [DecidableLE α] [Max α] [Min α] [DecidableEq α]

/-- one observation of a session dataset: two condition descriptors, a fold descriptor, a pattern -/
structure SRow (L F α : Type) where
  c1 : L
  c2 : L
  fold : F
  x : Nat → α

/-- what the caller holds: the dataset object's rows and the precision objects -/
structure Mem (L F α : Type) where
  rows : List (SRow L F α)
  precs : List (List (List α))

/-- which precision a call passes -/
inductive NoiseSel where
  | none
  | matrix (i : Nat)      -- the i-th precision object
  | perFold               -- the whole list: one precision per fold
  deriving DecidableEq

/-- the options of one `calc_rdm(method='crossnobis'|'poisson_cv')` call -/
structure Call (α : Type) where
  poisson : Bool
  useC2 : Bool
  defaultFolds : Bool
  removeMean : Bool
  noise : NoiseSel
  lam0 : α
  w : α

def SRow.label (useC2 : Bool) (r : SRow L F α) : L := if useC2 then r.c2 else r.c1

/-- the estimator a call dispatches to, on a dataset with fold labels of any type `G` -/
def estimate {G : Type} [DecidableEq G] [LT G] [DecidableLT G]
    (cand : List (List α) → List (List α)) (lg : α → α) (P : Nat) (c : Call α)
    (precs : List (List (List α))) (D : List (Obs L G α)) : Option (List ((L × L) × α)) :=
  if c.poisson then some (poissonCvAlgo lg c.lam0 c.w P D)
  else match c.noise with
    | .none => some (crossnobisAlgo c.removeMean P eye D)
    | .matrix i =>
      match precs[i]? with
      | some N => if noiseShapeOk P N then some (crossnobisAlgo c.removeMean P (matFn N) D) else none
      | none => none
    | .perFold => foldPrecCert cand c.removeMean P precs D

/-- the value of a stand-alone call on content `m` (`none` = the call raises) -/
def Call.value (cand : List (List α) → List (List α)) (lg : α → α) (P : Nat) (c : Call α)
    (m : Mem L F α) : Option (List ((L × L) × α)) :=
  if c.defaultFolds then
    match defaultCv (m.rows.map (SRow.label c.useC2)) with
    | none => none
    | some fs => estimate cand lg P c m.precs
        ((m.rows.zip fs).map (fun rf => (⟨rf.1.label c.useC2, rf.2, rf.1.x⟩ : Obs L Nat α)))
  else
    estimate cand lg P c m.precs
      (m.rows.map (fun r => (⟨r.label c.useC2, r.fold, r.x⟩ : Obs L F α)))

/-- `noise[i] = _check_noise(noise[i], n_channel)`: what is stored back into the caller's container -/
def checkNoiseRestore (N : List (List α)) : List (List α) :=
  if Rsa.Gen.C02.checkNoiseIdentity = 1 then N else []

/-- `Dataset.sort_by` on session rows: stable sort by the chosen descriptor (0: `c1`, 1: `c2`,
    otherwise the fold descriptor) -/
def sortRows (key : Nat) (rows : List (SRow L F α)) : List (SRow L F α) :=
  if key = 0 then rows.mergeSort (fun r s => leB r.c1 s.c1)
  else if key = 1 then rows.mergeSort (fun r s => leB r.c2 s.c2)
  else rows.mergeSort (fun r s => leB r.fold s.fold)

/-- what the caller holds after the call, as the source performs it (`none` = unknown) -/
def Call.after (c : Call α) (m : Mem L F α) : Option (Mem L F α) :=
  if Rsa.Gen.C02.inputWrites = 0 then
    some
      { rows :=
          if (if c.poisson then Rsa.Gen.C02.poissonWorkIsCopy else Rsa.Gen.C02.crossWorkIsCopy) = 1
          then m.rows                                    -- sort_by hits the deep copy
          else sortRows (if c.useC2 then 1 else 0) m.rows  -- sort_by hits the caller's object
        precs :=
          if c.poisson then m.precs
          else match c.noise with
            | .perFold => m.precs.map checkNoiseRestore
            | _ => m.precs }
  else none

/-- a step of a session: a call, or the caller's own `ds.sort_by(key)` -/
inductive Step (α : Type) where
  | call (c : Call α)
  | sort (key : Nat)

/-- the session as executed: the content is threaded through the calls; `none` as soon as the
    content is unknown -/
def runSession (cand : List (List α) → List (List α)) (lg : α → α) (P : Nat) :
    List (Step α) → Mem L F α → Option (List (Option (List ((L × L) × α))) × Mem L F α)
  | [], m => some ([], m)
  | .call c :: ss, m =>
    match c.after m with
    | none => none
    | some m' =>
      match runSession cand lg P ss m' with
      | none => none
      | some (vs, mf) => some (c.value cand lg P m :: vs, mf)
  | .sort key :: ss, m => runSession cand lg P ss { m with rows := sortRows key m.rows }

/-- the content after the caller's own sorts alone -/
def sortsOnly : List (Step α) → Mem L F α → Mem L F α
  | [], m => m
  | .call _ :: ss, m => sortsOnly ss m
  | .sort key :: ss, m => sortsOnly ss { m with rows := sortRows key m.rows }

/-- the stand-alone value of every call on the content of its moment (sorts applied, calls ignored) -/
def valuesAlong (cand : List (List α) → List (List α)) (lg : α → α) (P : Nat) :
    List (Step α) → Mem L F α → List (Option (List ((L × L) × α)))
  | [], _ => []
  | .call c :: ss, m => c.value cand lg P m :: valuesAlong cand lg P ss m
  | .sort key :: ss, m => valuesAlong cand lg P ss { m with rows := sortRows key m.rows }

/-! several dataset objects held by the caller; a step addresses one of them (a step that names an
    object that does not exist is skipped and yields no value) -/

/-- the caller's own `sort_by` on one object -/
def sortMem (key : Nat) (m : Mem L F α) : Mem L F α := { m with rows := sortRows key m.rows }

def runStore (cand : List (List α) → List (List α)) (lg : α → α) (P : Nat) :
    List (Nat × Step α) → List (Mem L F α) →
      Option (List (Option (List ((L × L) × α))) × List (Mem L F α))
  | [], ms => some ([], ms)
  | (k, .call c) :: ss, ms =>
    match ms[k]? with
    | none => (runStore cand lg P ss ms).map (fun r => (none :: r.1, r.2))
    | some m =>
      match c.after m with
      | none => none
      | some m' =>
        (runStore cand lg P ss (ms.set k m')).map (fun r => (c.value cand lg P m :: r.1, r.2))
  | (k, .sort key) :: ss, ms =>
    match ms[k]? with
    | none => runStore cand lg P ss ms
    | some m => runStore cand lg P ss (ms.set k (sortMem key m))

/-- the objects after the caller's own sorts alone -/
def sortsStore : List (Nat × Step α) → List (Mem L F α) → List (Mem L F α)
  | [], ms => ms
  | (_, .call _) :: ss, ms => sortsStore ss ms
  | (k, .sort key) :: ss, ms =>
    match ms[k]? with
    | none => sortsStore ss ms
    | some m => sortsStore ss (ms.set k (sortMem key m))

/-- the stand-alone value of every call on the content its object has at that moment -/
def valuesStore (cand : List (List α) → List (List α)) (lg : α → α) (P : Nat) :
    List (Nat × Step α) → List (Mem L F α) → List (Option (List ((L × L) × α)))
  | [], _ => []
  | (k, .call c) :: ss, ms =>
    (match ms[k]? with
     | none => none
     | some m => c.value cand lg P m) :: valuesStore cand lg P ss ms
  | (k, .sort key) :: ss, ms =>
    match ms[k]? with
    | none => valuesStore cand lg P ss ms
    | some m => valuesStore cand lg P ss (ms.set k (sortMem key m))

end session

/-! ### the specification -/

section spec
variable {L F α : Type} [DecidableEq L] [DecidableEq F]
  [Add α] [Sub α] [Mul α] [Div α] [Neg α] [Zero α] [One α] [NatCast α]
  [LT α] [DecidableLT α] [LE α] [DecidableLE α] [Max α] [Min α]

/-- patterns observed for condition `c` in fold `f` -/
def cell (D : List (Obs L F α)) (c : L) (f : F) : List (Nat → α) :=
  (D.filter (fun r => r.cond = c ∧ r.fold = f)).map (·.x)

/-- fold-wise condition mean, transformed (`x_{c,f}` resp. `λ_{c,f}` of the statement) -/
def foldMean (T : (Nat → α) → (Nat → α)) (D : List (Obs L F α)) (c : L) (f : F) : Nat → α :=
  T (meanVec (cell D c f))

/-- `Σ_{m ∈ S} Σ_{n ∈ S, n ≠ m} g m n` — ordered pairs of distinct folds only -/
def offDiagSum (S : List F) (g : F → F → α) : α :=
  (S.map (fun m => ((S.filter (fun n => n ≠ m)).map (fun n => g m n)).sum)).sum

/-- the average over all ordered pairs of distinct folds -/
def pairAverage (S : List F) (g : F → F → α) : α :=
  offDiagSum S g / (((S.length : Nat) : α) * (((S.length : Nat) : α) - 1))

/-- generic statement-level value for conditions `a`, `b`: average over ordered pairs
    (m, n), m ≠ n, of the `κ`-product of the fold-m difference with the fold-n difference -/
def cvSpec (T : (Nat → α) → (Nat → α)) (κ : (Nat → α) → (Nat → α) → α) (P : Nat)
    (D : List (Obs L F α)) (S : List F) (a b : L) : α :=
  pairAverage S (fun m n =>
    kdiff κ (foldMean T D a m) (foldMean T D b m) (foldMean T D a n) (foldMean T D b n)
      / ((P : Nat) : α))

/-- crossnobis as the property words it: `(x_am − x_bm) · N · (x_an − x_bn)ᵀ / P`
    averaged over ordered pairs of distinct folds -/
def crossnobisSpec (T : (Nat → α) → (Nat → α)) (P : Nat) (N : Nat → Nat → α)
    (D : List (Obs L F α)) (S : List F) (a b : L) : α :=
  pairAverage S (fun m n =>
    kern P N (vsubF (foldMean T D a m) (foldMean T D b m))
             (vsubF (foldMean T D a n) (foldMean T D b n)) / ((P : Nat) : α))

/-- per-fold precisions: `Nmn m n` is the precision of the two folds' averaged covariance -/
def foldPrecSpec (T : (Nat → α) → (Nat → α)) (P : Nat) (Nmn : F → F → Nat → Nat → α)
    (D : List (Obs L F α)) (S : List F) (a b : L) : α :=
  pairAverage S (fun m n =>
    kern P (Nmn m n) (vsubF (foldMean T D a m) (foldMean T D b m))
                     (vsubF (foldMean T D a n) (foldMean T D b n)) / ((P : Nat) : α))

/-- Poisson: `(λ_am − λ_bm) · (log λ_an − log λ_bn) / P` averaged over ordered pairs -/
def poissonCvSpec (lg : α → α) (lam0 w : α) (P : Nat)
    (D : List (Obs L F α)) (S : List F) (a b : L) : α :=
  pairAverage S (fun m n =>
    sumR P (fun k =>
      (foldMean (reg lam0 w) D a m k - foldMean (reg lam0 w) D b m k) *
      (lg (foldMean (reg lam0 w) D a n k) - lg (foldMean (reg lam0 w) D b n k)))
      / ((P : Nat) : α))

end spec

end Rsa.CrossVal
