/-
  Rsa.Core.Label — condition labels, "unique in order of first appearance", stable argsort.

  * `Lbl`            a descriptor value as rsatoolbox sees it: an integer or a string
                     (ordered as numpy orders a homogeneous array of them)
  * `uniqueFirst`    = first component of `util/data_utils.py:get_unique_inverse`
                     (and `get_unique_unsorted`): distinct values, order of first occurrence
  * `inverse`        = second component: position of every element in `uniqueFirst`
  * `argsortBy`      = `np.argsort(labels, kind='stable')` for a given order `le`
  * `reorderList`    = `[descriptors[idx] for idx in new_order]`

  Core Lean only (no Mathlib).
-/
namespace Rsa

/-- a descriptor value: integer or string -/
inductive Lbl where
  | int (i : Int)
  | str (s : String)
  deriving DecidableEq, Repr, Inhabited

/-- numpy's order on a homogeneous label array: integers numerically, strings by code
    point, lexicographically.  (Mixed arrays do not occur: numpy would coerce them to
    strings; for totality integers are put before strings.) -/
def Lbl.le : Lbl → Lbl → Bool
  | .int a, .int b => decide (a ≤ b)
  | .int _, .str _ => true
  | .str _, .int _ => false
  | .str a, .str b => decide (a ≤ b)

section
variable {L : Type} [DecidableEq L]

/-- distinct elements in order of first occurrence -/
def uniqueFirst : List L → List L
  | [] => []
  | x :: xs => x :: (uniqueFirst xs).filter (fun y => decide (y ≠ x))

/-- for every element its position in `uniqueFirst` -/
def inverse (l : List L) : List Nat := l.map (fun x => (uniqueFirst l).idxOf x)

/-- indices that sort `l` (stable merge sort on `(value, index)` pairs, compared by value) -/
def argsortBy (le : L → L → Bool) (l : List L) : List Nat :=
  (l.zipIdx.mergeSort (fun a b => le a.1 b.1)).map (fun p => p.2)

end

/-- `[l[i] for i in ord]`; an index outside `l` contributes nothing (Python would raise;
    the theorems show it does not happen). -/
def reorderList {β : Type} (ord : List Nat) (l : List β) : List β :=
  ord.filterMap (fun i => l[i]?)

end Rsa
