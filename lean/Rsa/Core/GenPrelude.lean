/- helpers that generated leaf definitions (Rsa/Gen) may refer to; core Lean only -/
namespace Rsa

/-- `⌈√n⌉` computed exactly on naturals (the code computes `int(np.ceil(np.sqrt(n)))` in
    doubles; both agree while `n < 2^52`, which is the trusted range). -/
def ceilSqrt (n : Nat) : Nat :=
  let s := Nat.sqrt n
  if s * s = n then s else s + 1

end Rsa
