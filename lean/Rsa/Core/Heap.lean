/-
  Rsa.Core.Heap — a store of mutable cells with explicit sharing (property C12).

  The Python heap of rsatoolbox objects, reduced to what the documented in-place operations
  can touch:

    * `Cell.val v`   one array *element* (cells are elements, not arrays, so every numpy
                     view / slice / reshape relation is "two arrays listing the same cells");
    * `Cell.dict d`  one descriptor dictionary object (key ↦ list of values);
    * `Cell.obj fs`  one RDMs / Dataset instance: its attribute bindings, each an array
                     (shape + element cells) or a reference to a dictionary cell.

  In-place operations are compiled to four instructions that state *exactly the writes the
  Python code performs*:

    `newArr`   bind an attribute to a freshly allocated array    (`self.dissimilarities = …`)
    `newDict`  bind an attribute to a freshly allocated dict     (`self.obs_descriptors = subset_descriptor(…)`)
    `setDict`  assign into the *existing* dictionary object      (`self.pattern_descriptors[k] = …`,
                                                                  `append_descriptor(self.rdm_descriptors, …)`)
    `setEls`   write elements of the *existing* array            (`a[...] = …`)

  Two *write disciplines* of `RDMs.reorder / sort_by / append` are modelled (`Disc`):
    `assignInto`  the code up to commit 886ec151/453f6048: `self.pattern_descriptors[k] = …`,
                  `append_descriptor(self.rdm_descriptors, …)` write into the existing dictionaries;
    `rebind`      the current code: `self.pattern_descriptors = {…}`,
                  `self.rdm_descriptors = append_descriptor(dict(self.rdm_descriptors), …)` bind new ones.
  The footprint `wr` and the separation predicate depend on the discipline: under `rebind`
  no dictionary object is ever written, so sharing one is harmless.

  No Mathlib.  Values are opaque tags (`String`); the model only moves them.
-/
import Rsa.Core.Tri

namespace Rsa.Heap

/-- locations are natural numbers (a notation, not a definition, so that `omega` sees `Nat`) -/
scoped notation "Loc" => Nat
abbrev Val := String
/-- content of a descriptor dictionary -/
abbrev Desc := List (String × List Val)

inductive Field where
  | arr (shape : List Nat) (els : List Loc)
  | dict (l : Loc)
  deriving Repr, DecidableEq, Inhabited

inductive Cell where
  | free
  | val (v : Val)
  | dict (d : Desc)
  | obj (fs : List (String × Field))
  deriving Repr, DecidableEq, Inhabited

structure Heap where
  cells : Loc → Cell
  /-- every location `≥ next` is unallocated -/
  next : Nat

/-- the two dictionaries the documented in-place operations of `RDMs` assign into -/
inductive DictField where
  | pattern
  | rdm
  deriving Repr, DecidableEq, Inhabited

def DictField.name : DictField → String
  | .pattern => "pattern_descriptors"
  | .rdm => "rdm_descriptors"

/-! ### reading -/

def fieldsOf : Cell → List (String × Field)
  | .obj fs => fs
  | _ => []

def fieldLocs : Field → List Loc
  | .arr _ els => els
  | .dict l => [l]

def writableDict (name : String) : Bool :=
  name == DictField.pattern.name || name == DictField.rdm.name

/-- attributes named `dict[key]` are float arrays *held inside* a descriptor dictionary (e.g. the
    noise matrix in `descriptors['noise']`): readable through their holder, but the operation
    alphabet has no write to them through it -/
def heldInDict (name : String) : Bool := name.toList.contains '['

/-- how `RDMs.reorder / sort_by / append` update descriptor dictionaries -/
inductive Disc where
  /-- assign into the existing dictionary object (the tree before 886ec151 / 453f6048) -/
  | assignInto
  /-- bind a freshly built dictionary (the current tree) -/
  | rebind
  deriving Repr, DecidableEq, Inhabited

/-- locations of one attribute that some documented in-place operation may write -/
def fieldWr (d : Disc) (p : String × Field) : List Loc :=
  match p.2 with
  | .arr _ els => if heldInDict p.1 then [] else els
  | .dict l => if d == Disc.assignInto && writableDict p.1 then [l] else []

def cellReach (c : Cell) : List Loc := (fieldsOf c).flatMap (fun p => fieldLocs p.2)
def cellWr (d : Disc) (c : Cell) : List Loc := (fieldsOf c).flatMap (fieldWr d)

/-- everything readable through the object at `r` -/
def reach (h : Heap) (r : Loc) : List Loc := r :: cellReach (h.cells r)
/-- the part of `reach` that an in-place operation on `r` may write (its footprint) -/
def wr (d : Disc) (h : Heap) (r : Loc) : List Loc := r :: cellWr d (h.cells r)

def reachSide (h : Heap) (rs : List Loc) : List Loc := rs.flatMap (reach h)
def wrSide (d : Disc) (h : Heap) (rs : List Loc) : List Loc := rs.flatMap (wr d h)

def lookupField (fs : List (String × Field)) (name : String) : Option Field :=
  (fs.find? (fun p => p.1 == name)).map (·.2)

def valOf : Cell → Val
  | .val v => v
  | _ => "?"

def descOf : Cell → Desc
  | .dict d => d
  | _ => []

/-- what a reader sees in one attribute -/
inductive Content where
  | arr (shape : List Nat) (vals : List Val)
  | dict (d : Desc)
  deriving Repr, DecidableEq, Inhabited

def readField (h : Heap) : Field → Content
  | .arr shape els => .arr shape (els.map (fun l => valOf (h.cells l)))
  | .dict l => .dict (descOf (h.cells l))

/-- the labelled content of the object at `r`: every attribute with what it currently holds -/
def content (h : Heap) (r : Loc) : List (String × Content) :=
  (fieldsOf (h.cells r)).map (fun p => (p.1, readField h p.2))

def contentSide (h : Heap) (rs : List Loc) : List (List (String × Content)) :=
  rs.map (content h)

def readArr (h : Heap) (r : Loc) (name : String) : List Nat × List Val :=
  match lookupField (fieldsOf (h.cells r)) name with
  | some (.arr shape els) => (shape, els.map (fun l => valOf (h.cells l)))
  | _ => ([], [])

def readDict (h : Heap) (r : Loc) (name : String) : Desc :=
  match lookupField (fieldsOf (h.cells r)) name with
  | some (.dict l) => descOf (h.cells l)
  | _ => []

/-! ### writing -/

def upd (f : Loc → Cell) (l : Loc) (c : Cell) : Loc → Cell :=
  fun x => if x = l then c else f x

/-- sequential element writes (as a numpy assignment walks the view) -/
def writeVals (f : Loc → Cell) : List Loc → List Val → Loc → Cell
  | l :: ls, v :: vs => writeVals (upd f l (.val v)) ls vs
  | _, _ => f

def setField (fs : List (String × Field)) (name : String) (f : Field) : List (String × Field) :=
  if fs.any (fun p => p.1 == name) then fs.map (fun p => if p.1 == name then (name, f) else p)
  else fs ++ [(name, f)]

inductive Instr where
  | newArr (field : String) (shape : List Nat) (vals : List Val)
  | newDict (field : String) (d : Desc)
  | setDict (field : DictField) (d : Desc)
  | setEls (field : String) (vals : List Val)
  deriving Repr, Inhabited

/-- `setDict` (assignment into an existing dictionary) exists only in the `assignInto` discipline -/
def Instr.ok (d : Disc) : Instr → Bool
  | .setDict _ _ => d == Disc.assignInto
  | _ => true

/-- one instruction executed on the object at `a` -/
def exec (h : Heap) (a : Loc) : Instr → Heap
  | .newArr field shape vals =>
      let locs := List.range' h.next vals.length
      let c1 := writeVals h.cells locs vals
      { cells := upd c1 a (.obj (setField (fieldsOf (h.cells a)) field (.arr shape locs))),
        next := h.next + vals.length }
  | .newDict field d =>
      let c1 := upd h.cells h.next (.dict d)
      { cells := upd c1 a (.obj (setField (fieldsOf (h.cells a)) field (.dict h.next))),
        next := h.next + 1 }
  | .setDict field d =>
      match lookupField (fieldsOf (h.cells a)) field.name with
      | some (.dict l) => { h with cells := upd h.cells l (.dict d) }
      | _ => h
  | .setEls field vals =>
      match lookupField (fieldsOf (h.cells a)) field with
      | some (.arr _ els) =>
          if heldInDict field then h else { h with cells := writeVals h.cells els vals }
      | _ => h

def execAll (h : Heap) (a : Loc) (is : List Instr) : Heap := is.foldl (fun h i => exec h a i) h

/-! ### the documented in-place operations, as coded -/

inductive Op where
  /-- array write: every element of the named array attribute gets a new value -/
  | fill (field : String) (vals : List Val)
  /-- `RDMs.reorder(new_order)` -/
  | reorder (perm : List Nat)
  /-- `RDMs.sort_by(key=[…explicit order…], reindex=…)` -/
  | sortBy (key : String) (order : List Val) (reindex : Bool)
  /-- `RDMs.append(other)`; `other` (`n` RDMs) is given by value (it is only read) -/
  | append (n : Nat) (rows : List Val) (desc : Desc)
  /-- `Dataset.sort_by(by)` / `TemporalDataset.sort_by(by)` -/
  | dsSortBy (by_ : String)
  deriving Repr, Inhabited

def permList {β : Type} [Inhabited β] (perm : List Nat) (l : List β) : List β :=
  perm.map (fun i => l.getD i default)

def rowsOf {β : Type} (nrow k : Nat) (l : List β) : List (List β) :=
  (List.range nrow).map (fun r => (l.drop (r * k)).take k)

/-- one RDM vector with conditions re-indexed by `perm` (`matrices[perm][:, perm]` → vector) -/
def reorderVec (perm : List Nat) (n : Nat) (v : List Val) : List Val :=
  Rsa.matToVec perm.length
    (fun i j => Rsa.vecToMat n "0.0" "?" v (perm.getD i 0) (perm.getD j 0))

def lookupDesc (d : Desc) (k : String) : List Val :=
  ((d.find? (fun p => p.1 == k)).map (·.2)).getD []

def setDesc (d : Desc) (k : String) (v : List Val) : Desc :=
  if d.any (fun p => p.1 == k) then d.map (fun p => if p.1 == k then (k, v) else p)
  else d ++ [(k, v)]

def indexVals (n : Nat) : List Val := (List.range n).map toString

def findIdx (l : List Val) (x : Val) : Nat := (l.findIdx? (· == x)).getD l.length

/-- stable argsort of tags (`np.argsort(desc, kind='stable')`) -/
def argsortStable (keys : List Val) : List Nat :=
  (List.range keys.length).mergeSort (fun i j => !(keys.getD j "" < keys.getD i ""))

/-- `[list(descriptor).index(x) for x in new_order]` (old) /
    `[idx for x in dict.fromkeys(new_order) for idx, d in enumerate(descriptor) if d == x]` (current) -/
def sortPerm (d : Disc) (desc : List Val) (order : List Val) : List Nat :=
  match d with
  | .assignInto => order.map (findIdx desc)
  | .rebind => order.eraseDups.flatMap (fun x =>
      (List.range desc.length).filter (fun i => desc.getD i "" == x))

/-- number of conditions of an RDM vector of length `k` (`batch_to_matrices` infers it from the
    vector length; the library-managed `index` descriptor can be absent, e.g. on the RDMs that
    `calc_rdm(..., descriptor=None)` builds) -/
def condCount (k : Nat) : Nat :=
  ((List.range (k + 2)).find? (fun n => Rsa.triLen n == k)).getD 0

def reorderInstrs (d : Disc) (h : Heap) (a : Loc) (perm : List Nat) (reindex : Bool) : List Instr :=
  let (shape, vals) := readArr h a "dissimilarities"
  let nrdm := shape.getD 0 0
  let k := shape.getD 1 0
  let pd := readDict h a DictField.pattern.name
  let n := condCount k
  let rows := (rowsOf nrdm k vals).map (reorderVec perm n)
  let pd' : Desc := pd.map (fun p => (p.1, permList perm p.2))
  let pd'' := if reindex then setDesc pd' "index" (indexVals perm.length) else pd'
  [ .newArr "dissimilarities" [nrdm, Rsa.triLen perm.length] rows.flatten,
    match d with
    | .assignInto => .setDict .pattern pd''
    | .rebind => .newDict DictField.pattern.name pd'' ]

/-- the instruction list an operation on the object at `a` executes; all reads happen first -/
def compile (d : Disc) (h : Heap) (a : Loc) : Op → List Instr
  | .fill field vals => [.setEls field vals]
  | .reorder perm => reorderInstrs d h a perm false
  | .sortBy key order reindex =>
      let pd := readDict h a DictField.pattern.name
      reorderInstrs d h a (sortPerm d (lookupDesc pd key) order) reindex
  | .append n rows desc =>
      let (shape, vals) := readArr h a "dissimilarities"
      let k := shape.getD 1 0
      let rd := readDict h a DictField.rdm.name
      let rd' : Desc := rd.map (fun p => (p.1, p.2 ++ lookupDesc desc p.1))
      let rd'' := setDesc rd' "index" (indexVals (lookupDesc rd' "index").length)
      match d with
      | .assignInto =>
          [ .newArr "dissimilarities" [shape.getD 0 0 + n, k] (vals ++ rows),
            .setDict .rdm rd'' ]
      | .rebind =>
          [ .newDict DictField.rdm.name rd'',
            .newArr "dissimilarities" [shape.getD 0 0 + n, k] (vals ++ rows) ]
  | .dsSortBy by_ =>
      let (shape, vals) := readArr h a "measurements"
      let nobs := shape.getD 0 0
      let k := (shape.drop 1).foldl (· * ·) 1
      let od := readDict h a "obs_descriptors"
      let order := argsortStable (lookupDesc od by_)
      [ .newArr "measurements" shape (permList order (rowsOf nobs k vals)).flatten,
        .newDict "obs_descriptors" (od.map (fun p => (p.1, permList order p.2))) ]

def step (d : Disc) (h : Heap) (a : Loc) (op : Op) : Heap := execAll h a (compile d h a op)

/-- a history: which object is operated on, with which operation -/
def run (d : Disc) (h : Heap) : List (Loc × Op) → Heap
  | [] => h
  | (a, op) :: rest => run d (step d h a op) rest

/-! ### separation (decidable, evaluated by the driver on the observed heap) -/

def disjointL (xs ys : List Loc) : Bool := xs.all (fun l => !ys.contains l)

/-- no location that an operation on one side may write is readable from the other side -/
def sepB (d : Disc) (h : Heap) (as bs : List Loc) : Bool :=
  disjointL (wrSide d h as) (reachSide h bs) && disjointL (wrSide d h bs) (reachSide h as)

/-! ### producers (for the theorems and witnesses): a new object built from a source -/

inductive FieldSpec where
  /-- a freshly allocated array with this content -/
  | freshArr (shape : List Nat) (vals : List Val)
  /-- a freshly allocated dictionary with this content -/
  | freshDict (d : Desc)
  /-- the very attribute value of the source (same array elements / same dictionary object) -/
  | share (srcField : String)
  deriving Repr, Inhabited

/-- allocate the attributes of a new object one after the other -/
def buildFields (src : List (String × Field)) :
    (Loc → Cell) → Nat → List (String × FieldSpec) → (Loc → Cell) × Nat × List (String × Field)
  | c, n, [] => (c, n, [])
  | c, n, (name, .freshArr shape vals) :: rest =>
      let locs := List.range' n vals.length
      let (c', n', fs) := buildFields src (writeVals c locs vals) (n + vals.length) rest
      (c', n', (name, .arr shape locs) :: fs)
  | c, n, (name, .freshDict d) :: rest =>
      let (c', n', fs) := buildFields src (upd c n (.dict d)) (n + 1) rest
      (c', n', (name, .dict n) :: fs)
  | c, n, (name, .share sf) :: rest =>
      let (c', n', fs) := buildFields src c n rest
      match lookupField src sf with
      | some f => (c', n', (name, f) :: fs)
      | none => (c', n', fs)

/-- a producer: instructions it executes on its *source* first, then the new object -/
structure Producer where
  srcWrites : List Instr
  fields : List (String × FieldSpec)

/-- run a producer on the source object at `a`; returns the heap and the new object's location -/
def produce (h : Heap) (a : Loc) (p : Producer) : Heap × Loc :=
  let h1 := execAll h a p.srcWrites
  let (c, n, fs) := buildFields (fieldsOf (h1.cells a)) h1.cells h1.next p.fields
  ({ cells := upd c n (.obj fs), next := n + 1 }, n)

def FieldSpec.isFresh : FieldSpec → Bool
  | .share _ => false
  | _ => true

/-- the syntactic criterion the property demands of every value-returning operation -/
def Producer.fresh (p : Producer) : Bool := p.srcWrites.isEmpty && p.fields.all (fun q => q.2.isFresh)

/-! ### derived-object constructors of `RDMs`, as heap programs

`RDMs.__getitem__ / subset / subsample / subset_pattern / subsample_pattern / copy` and `concat`
are *compiled* to producers: for the source object found in the heap, which attributes the new
object gets and how each is obtained.  On the current tree every attribute is a new array (fancy
indexing, `np.concatenate`, a new matrix stack) or a new dictionary (`deepcopy`, `extract_dict`,
`subset_descriptor`), so the sharing graph between the new object and its sources is *derived*
here (empty), not merely observed; the content is computed as the code computes it, so the driver
can predict the real result. -/

/-- `num_index(desc, values)`: ascending positions whose value is one of `values` -/
def numIndex (desc values : List Val) : List Nat :=
  (List.range desc.length).filter (fun i => values.contains (desc.getD i ""))

/-- `subsample`: for every requested value, in request order, every position holding it -/
def sampleIndex (desc values : List Val) : List Nat :=
  values.flatMap (fun v => (List.range desc.length).filter (fun i => desc.getD i "" == v))

def insertNat (x : Nat) : List Nat → List Nat
  | [] => [x]
  | y :: ys => if x ≤ y then x :: y :: ys else y :: insertNat x ys

/-- `subsample_pattern` sorts the positions (`np.sort`); insertion sort, structural -/
def sampleIndexSorted (desc values : List Val) : List Nat :=
  (sampleIndex desc values).foldr insertNat []

/-- condensed vector of `matrix[sel][:, sel]`, the matrix having `diag` on its diagonal -/
def reorderVecD (diag : Val) (sel : List Nat) (n : Nat) (v : List Val) : List Val :=
  Rsa.matToVec sel.length
    (fun i j => Rsa.vecToMat n diag "?" v (sel.getD i 0) (sel.getD j 0))

inductive Ctor where
  /-- `rdms[idx]` (`idx` already through `np.atleast_1d`) -/
  | getitem (idx : List Nat)
  /-- `rdms.subset(by, values)` -/
  | subset (by_ : String) (values : List Val)
  /-- `rdms.subsample(by, values)` -/
  | subsample (by_ : String) (values : List Val)
  /-- `rdms.subset_pattern(by, values)` -/
  | subsetPattern (by_ : String) (values : List Val)
  /-- `rdms.subsample_pattern(by, values)` -/
  | subsamplePattern (by_ : String) (values : List Val)
  /-- `rdms.copy()` -/
  | copy
  /-- `concat(self, *others, target_pdesc)`; the merged `descriptors` / `rdm_descriptors`
      (`_merged_rdm_descriptors`) are parameters: only their freshness is modelled -/
  | concat (others : List Loc) (target : Option String) (descriptors rdmDescriptors : Desc)
  deriving Repr, Inhabited

/-- copies of the float arrays held in the `descriptors` dictionary (`deepcopy(self.descriptors)`) -/
def heldCopies (h : Heap) (a : Loc) : List (String × FieldSpec) :=
  (fieldsOf (h.cells a)).filterMap (fun p =>
    match p.2 with
    | .arr shape els => if heldInDict p.1 then
        some (p.1, FieldSpec.freshArr shape (els.map (fun l => valOf (h.cells l)))) else none
    | .dict _ => none)

/-- rows of RDM vectors selected by position (a fancy index: always a new array) -/
def rowSelect (h : Heap) (a : Loc) (sel : List Nat) : List (String × FieldSpec) :=
  let shape := (readArr h a "dissimilarities").1
  let vals := (readArr h a "dissimilarities").2
  let k := shape.getD 1 0
  let rows := rowsOf (shape.getD 0 0) k vals
  let rd := readDict h a DictField.rdm.name
  [ ("dissimilarities", .freshArr [sel.length, k] (permList sel rows).flatten),
    ("descriptors", .freshDict (readDict h a "descriptors")),
    (DictField.rdm.name, .freshDict (rd.map (fun p => (p.1, permList sel p.2)))),
    (DictField.pattern.name, .freshDict (readDict h a DictField.pattern.name)) ]

/-- patterns selected by position, diagonal value `diag` (`subset_pattern`: never read) -/
def patSelect (h : Heap) (a : Loc) (diag : Val) (sel : List Nat) : List (String × FieldSpec) :=
  let shape := (readArr h a "dissimilarities").1
  let vals := (readArr h a "dissimilarities").2
  let nrdm := shape.getD 0 0
  let rows := rowsOf nrdm (shape.getD 1 0) vals
  let pd := readDict h a DictField.pattern.name
  let n := condCount (shape.getD 1 0)
  [ ("dissimilarities", .freshArr [nrdm, Rsa.triLen sel.length] (rows.map (reorderVecD diag sel n)).flatten),
    ("descriptors", .freshDict (readDict h a "descriptors")),
    (DictField.rdm.name, .freshDict (readDict h a DictField.rdm.name)),
    (DictField.pattern.name, .freshDict (pd.map (fun p => (p.1, permList sel p.2)))) ]

/-- the pattern descriptor `concat` aligns by: the first one other than `index` without repeats -/
def authDesc (pd : Desc) (target : Option String) : Option String :=
  match target with
  | some t => some t
  | none => (pd.find? (fun p => p.1 != "index" && p.2.eraseDups.length == p.2.length)).map (·.1)

/-- the vectors of one further argument of `concat`, brought into the first argument's order -/
def alignedRows (h : Heap) (auth : Option (String × List Val)) (b : Loc) : List Val :=
  let shape := (readArr h b "dissimilarities").1
  let vals := (readArr h b "dissimilarities").2
  let rows := rowsOf (shape.getD 0 0) (shape.getD 1 0) vals
  match auth with
  | none => vals
  | some (key, order) =>
      let pdb := readDict h b DictField.pattern.name
      let other := lookupDesc pdb key
      let perm := order.map (findIdx other)
      (rows.map (reorderVec perm (condCount (shape.getD 1 0)))).flatten

def ctorFields (h : Heap) (a : Loc) : Ctor → List (String × FieldSpec)
  | .getitem idx => rowSelect h a idx ++ heldCopies h a
  | .subset by_ values =>
      rowSelect h a (numIndex (lookupDesc (readDict h a DictField.rdm.name) by_) values) ++ heldCopies h a
  | .subsample by_ values =>
      rowSelect h a (sampleIndex (lookupDesc (readDict h a DictField.rdm.name) by_) values) ++ heldCopies h a
  | .subsetPattern by_ values =>
      patSelect h a "0.0" (numIndex (lookupDesc (readDict h a DictField.pattern.name) by_) values)
        ++ heldCopies h a
  | .subsamplePattern by_ values =>
      patSelect h a "nan" (sampleIndexSorted (lookupDesc (readDict h a DictField.pattern.name) by_) values)
        ++ heldCopies h a
  | .copy =>
      let shape := (readArr h a "dissimilarities").1
      let vals := (readArr h a "dissimilarities").2
      [ ("dissimilarities", .freshArr shape vals),
        ("descriptors", .freshDict (readDict h a "descriptors")),
        (DictField.rdm.name, .freshDict (readDict h a DictField.rdm.name)),
        (DictField.pattern.name, .freshDict (readDict h a DictField.pattern.name)) ] ++ heldCopies h a
  | .concat others target dd rd =>
      let shape := (readArr h a "dissimilarities").1
      let vals := (readArr h a "dissimilarities").2
      let pd := readDict h a DictField.pattern.name
      let auth := (authDesc pd target).map (fun k => (k, lookupDesc pd k))
      let nOther := (others.map (fun b => (readArr h b "dissimilarities").1.getD 0 0)).foldl (· + ·) 0
      [ ("dissimilarities", .freshArr [shape.getD 0 0 + nOther, shape.getD 1 0]
            (vals ++ (others.map (alignedRows h auth)).flatten)),
        ("descriptors", .freshDict dd),
        (DictField.rdm.name, .freshDict rd),
        (DictField.pattern.name, .freshDict pd) ]

/-- the producer a constructor call compiles to: no write to any source, then the new object -/
def ctorProducer (h : Heap) (a : Loc) (c : Ctor) : Producer :=
  { srcWrites := [], fields := ctorFields h a c }

/-- what a spec says about where an attribute's storage comes from (for the source-text tie) -/
def FieldSpec.kindName : FieldSpec → String
  | .freshArr _ _ => "fresh"
  | .freshDict _ => "fresh"
  | .share f => "share:" ++ f

end Rsa.Heap
