/-
  Rsa.Core.C03Passes — round-3 additions to the executable model of `rsatoolbox.rdm.compare`
  (property C03).  Mathlib-free.  Everything here is *as coded*; the specifications it is proved
  equal to live in `Rsa.Core.Compare` (`tauASpec`, `cosine`, `getV`, `buresSim`, …).

    1. the two `_sort_and_rank` passes of `_tau_a` (stable merge sort of the zipped vectors,
       dense ranks by the running count of changes), the run-length count of joint ties
       (`obs` / `np.diff(np.nonzero(obs))`), the `np.bincount` count of ties per vector
       (`_count_rank_tie`), and `_tau_a` on top of them with `_kendall_dis` as a parameter;
    2. variants of `_cosine`, `_get_v`, the `sigma_k` routing of `_cosine_cov_weighted`, the
       recovery of `n_cond`, the Bures expressions and the linear-CKA centring that *call the
       leaves regenerated from the source text* (`Rsa.Gen.C03.*`);
    3. `compare_neg_riemannian_distance`: the reference-condition Gram transform `vector @ T.T`,
       `sigma_k_hat = P Σ Pᵀ`, the matrix `G = diag + squareform`, and `_riemannian_distance` with
       the generalised eigenvalues and the Nelder–Mead search as parameters.
-/
import Rsa.Core.Compare

namespace Rsa.Compare

/-! ## 1. `_tau_a`: the two sort-and-rank passes and the tie counts -/

section hetero
variable {α β : Type} [LT α] [DecidableLT α] [LT β] [DecidableLT β]

/-- pair relations for entries whose two coordinates have different types (after a pass one
    coordinate holds integer ranks); at `β = α` these are `concordant`, `discordant`, … -/
def concordantH (p q : α × β) : Bool :=
  (decide (p.1 < q.1) && decide (p.2 < q.2)) || (decide (q.1 < p.1) && decide (q.2 < p.2))

def discordantH (p q : α × β) : Bool :=
  (decide (p.1 < q.1) && decide (q.2 < p.2)) || (decide (q.1 < p.1) && decide (p.2 < q.2))

def tieXH (p q : α × β) : Bool := tiedB p.1 q.1
def tieYH (p q : α × β) : Bool := tiedB p.2 q.2
def tieXYH (p q : α × β) : Bool := tiedB p.1 q.1 && tiedB p.2 q.2

end hetero

section passes
variable {α β : Type} [LT β] [DecidableLT β]

/-- running count of changes: `k` is the rank of `prev` -/
def denseFrom (k : Nat) (prev : β) : List β → List Nat
  | [] => []
  | a :: t => (if tiedB prev a then k else k + 1) :: denseFrom (if tiedB prev a then k else k + 1) a t

/-- `np.r_[True, v[1:] != v[:-1]].cumsum()`: 1-based dense ranks of a sorted vector -/
def denseRanks : List β → List Nat
  | [] => []
  | a :: t => 1 :: denseFrom 1 a t

/-- `np.argsort(vector2, kind='mergesort')` applied to both vectors: the zipped entries stably
    sorted by their second coordinate -/
def sortBySnd (v1 : List α) (v2 : List β) : List (α × β) :=
  (v1.zip v2).mergeSort (fun p q => !decide (q.2 < p.2))

/-- `_sort_and_rank(vector1, vector2)` -/
def sortAndRank (v1 : List α) (v2 : List β) : List α × List Nat :=
  ((sortBySnd v1 v2).map Prod.fst, denseRanks ((sortBySnd v1 v2).map Prod.snd))

end passes

/-- lengths of the maximal runs of adjacent equal entries
    (`np.diff(np.nonzero(np.r_[True, changed, True])[0])`) -/
def runLengths {γ : Type} (eq : γ → γ → Bool) : List γ → List Nat
  | [] => []
  | [_] => [1]
  | a :: b :: t =>
    if eq a b then
      match runLengths eq (b :: t) with
      | [] => [1]
      | c :: rest => (c + 1) :: rest
    else 1 :: runLengths eq (b :: t)

/-- joint ties of `_tau_a`: `(cnt * (cnt - 1) // 2).sum()` over the runs of equal rank pairs -/
def runTies (l : List (Nat × Nat)) : Nat :=
  ((runLengths (fun p q => p.1 == q.1 && p.2 == q.2) l).map Rsa.Gen.C03.runTie).sum

/-- `_count_rank_tie(ranks)[0]`: `np.bincount`, keep the counts above 1, sum `cnt(cnt-1)//2` -/
def bincountTies (r : List Nat) : Nat :=
  let cnt := (List.range (r.foldl max 0 + 1)).map (fun v => r.count v)
  ((cnt.filter (fun c => Rsa.Gen.C03.rankTieKeep c == 1)).map Rsa.Gen.C03.rankTie).sum

section twopass
variable {α : Type} [LT α] [DecidableLT α]

/-- the two passes of `_tau_a`:
    `vector1, vector2 = _sort_and_rank(vector1, vector2)`; `vector2, vector1 = _sort_and_rank(vector2, vector1)`.
    Result: (x as dense ranks, y as dense ranks), sorted by x, ties in x by y. -/
def tauAPasses (x y : List α) : List Nat × List Nat :=
  let p1 := sortAndRank x y
  let p2 := sortAndRank p1.2 p1.1
  (p2.2, p2.1)

variable [Add α] [Sub α] [Mul α] [Div α] [Neg α] [Zero α] [One α] [NatCast α]
  [LE α] [DecidableLE α] [Max α] [Min α]

/-- `_tau_a` as coded, with `_kendall_dis` a parameter -/
def tauATwoPass (kdis : List Nat → List Nat → Nat) (x y : List α) : α :=
  let xy := tauAPasses x y
  let tot : Nat := Rsa.Gen.C03.tauTot x.length
  Rsa.Gen.C03.tauClamp
    (Rsa.Gen.C03.tauRatio
      (castInt (Rsa.Gen.C03.conMinusDis tot (bincountTies xy.1) (bincountTies xy.2)
        (runTies (xy.1.zip xy.2)) (kdis xy.1 xy.2)))
      ((tot : Nat) : α))

end twopass

/-- the discordance count the driver uses for `_kendall_dis` (all pairs) -/
def kendallDisRef (x y : List Nat) : Nat := countPairs discordantH (x.zip y)

/-! ## 2. variants that call the regenerated leaves -/

section coded3
variable {α : Type} [Add α] [Sub α] [Mul α] [Div α] [Neg α] [Zero α] [One α] [NatCast α]
  [LT α] [DecidableLT α] [LE α] [DecidableLE α] [Max α] [Min α]

def SigmaK.ndim : SigmaK α → Nat
  | .none => 0
  | .vec _ => 1
  | .mat _ => 2

def SigmaK.asVec : SigmaK α → List α
  | .vec v => v
  | _ => []

def SigmaK.asMat : SigmaK α → List (List α)
  | .mat m => m
  | _ => []

/-- which product `_get_v` forms (0: `C Cᵀ`, 1: `C diag(σ) Cᵀ`, 2: `C Σ Cᵀ`), from the
    regenerated `if sigma_k is None / elif sigma_k.ndim == 1 / else` -/
def getVCode (s : SigmaK α) : Nat :=
  match s with
  | .none => Rsa.Gen.C03.getVBranchNone 0
  | s => Rsa.Gen.C03.getVBranch 0 s.ndim

def xiByCode (n code : Nat) (s : SigmaK α) (p q : Nat × Nat) : α :=
  if code = 0 then xi n (SigmaK.none : SigmaK α) p q
  else if code = 1 then xi n (SigmaK.vec s.asVec) p q
  else xi n (SigmaK.mat s.asMat) p q

/-- `_get_v` with the dispatch taken from the source text -/
def getVCoded (n : Nat) (s : SigmaK α) : List (List α) :=
  (pairs n).map (fun p => (pairs n).map (fun q =>
    xiByCode n (getVCode s) s p q * xiByCode n (getVCode s) s p q))

/-- `_cosine_cov_weighted`: 1 = solve with `V`, 0 = linear-CKA path -/
def covRouteOf (s : SigmaK α) : Nat :=
  match s with
  | .none => Rsa.Gen.C03.covRouteNone 0
  | s => Rsa.Gen.C03.covRoute 0 s.ndim

/-- double centring with every scalar step taken from `_cov_weighting`'s text:
    `-0.5 * d`, `m = (row + column sums) / n_cond`, `w - (m_i + m_j) + mm` -/
def ckaKernel (n : Nat) (r : List α) : Nat → Nat → α :=
  let g := vecToMat n 0 0 (r.map Rsa.Gen.C03.ckaHalfNeg)
  let m := fun k => Rsa.Gen.C03.ckaMean ((List.range n).map (fun i => g i k)).sum (n : α)
  let total2 := ((pairs n).map (fun p => g p.1 p.2 * ((2 : Nat) : α))).sum
  let mm := Rsa.Gen.C03.ckaGrandMean total2 (n : α)
  fun i j => Rsa.Gen.C03.ckaCentre (g i j) (m i + m j) mm

/-- centred kernel of the Bures measures with the scalar steps of `compare_bures_*`'s text -/
def buresKernelRows (n : Nat) (r : List α) : List (List α) :=
  let g := vecToMat n 0 0 (r.map Rsa.Gen.C03.halfNeg)
  let s := colMean n g
  let mm := ((List.range n).map s).sum / (n : α)
  (List.range n).map (fun i => (List.range n).map (fun j =>
    Rsa.Gen.C03.centreEntry (g i j) (s j) (s i) mm))

variable [HasSqrt α]

/-- `_cosine` for one pair with the guard and the normalisation taken from the source text -/
def cosineCoded (x y : List α) : α :=
  let n1 := HasSqrt.sqrt (dot x x)
  let n2 := HasSqrt.sqrt (dot y y)
  if Rsa.Gen.C03.cosineSel n1 = 1 ∧ Rsa.Gen.C03.cosineSel n2 = 1
  then Rsa.Gen.C03.cosineEntry (dot x y) n1 n2 else 0

def corrCoded (x y : List α) : α := cosineCoded (center x) (center y)
def spearmanCoded (x y : List α) : α := corrCoded (avgRank x) (avgRank y)

def covWeighting3 (n : Nat) (r : List α) : List α :=
  let g := ckaKernel n r
  (pairs n).map (fun p => g p.1 p.2 * HasSqrt.sqrt ((2 : Nat) : α)) ++
    (List.range n).map (fun k => g k k)

/-- `compare(.., 'cosine_cov', sigma_k)` as dispatched: the number of conditions is recovered
    from the vector length, the route and the form of `V` come from the source text -/
def whitenedCosDispatch (s : SigmaK α) (r1 r2 : List α) : Option α :=
  if covRouteOf s = 1 then
    whitenedCos (getVCoded (Rsa.Gen.C03.nFromReduced r1.length) s) r1 r2
  else
    some (cosineCoded (covWeighting3 (Rsa.Gen.C03.nFromLength r1.length) r1)
      (covWeighting3 (Rsa.Gen.C03.nFromLength r1.length) r2))

/-- `Asq` with an arbitrary clamp of the eigenvalues -/
def psdSqrtWith (cl : α → α) (eigh : List (List α) → List α × List (List α)) (A : List (List α)) :
    List (List α) :=
  let (va, ua) := eigh A
  let uat := matT ua
  matMul ua (List.zipWith (fun v row => row.map (fun a => HasSqrt.sqrt (cl v) * a)) va uat)

def fidelityWith (cl : α → α) (eigh : List (List α) → List α × List (List α)) (A B : List (List α)) : α :=
  let asq := psdSqrtWith cl eigh A
  let m := matMul (matMul asq B) asq
  (((eigh m).1).map (fun v => HasSqrt.sqrt (cl v))).sum

/-- `_bures_similarity_first_way` with clamp, denominator and ratio from the source text -/
def buresSimCoded (eigh : List (List α) → List α × List (List α)) (A B : List (List α)) : α :=
  Rsa.Gen.C03.buresRatio (fidelityWith Rsa.Gen.C03.buresClamp eigh A B)
    (HasSqrt.sqrt (Rsa.Gen.C03.buresDenomSq (trace A) (trace B)))

/-- `_sq_bures_metric_first_way` likewise -/
def sqBuresMetricCoded (eigh : List (List α) → List α × List (List α)) (A B : List (List α)) : α :=
  Rsa.Gen.C03.sqBures (trace A) (trace B) (fidelityWith Rsa.Gen.C03.buresClamp eigh A B)

end coded3

/-! ## 3. `compare_neg_riemannian_distance` -/

section riem
variable {α : Type} [Add α] [Sub α] [Mul α] [Div α] [Neg α] [Zero α] [One α] [NatCast α]
  [LT α] [DecidableLT α] [LE α] [DecidableLE α] [Max α] [Min α]

/-- `sigma_k_hat = P @ sigma_k @ P.T` with `P = [-1 | I]`: row `a` of `P` is the contrast
    `e_{a+1} − e_0`, so this is the `xi` product of `_get_v` for the pairs `(a+1, 0)`, `(b+1, 0)` -/
def sigmaHat (n : Nat) (s : SigmaK α) : List (List α) :=
  (List.range (n - 1)).map (fun a => (List.range (n - 1)).map (fun b =>
    match s with
    | .none => xi n (SigmaK.none : SigmaK α) (a + 1, 0) (b + 1, 0)
    | s => xi n (SigmaK.mat s.asMat) (a + 1, 0) (b + 1, 0)))

/-- `vector @ T.T`: the first `n−1` entries are the distances to condition 0, the others
    `0.5·(d_0i + d_0j) − 0.5·d_ij` (coefficients and the sign flip of `pairs` from the source) -/
def riemVecG (n : Nat) (r : List α) : List α :=
  (List.range (n - 1)).map (fun i => r.getD i 0) ++
    ((pairs (n - 1)).zipIdx).map (fun pk =>
      Rsa.Gen.C03.riemGram (r.getD pk.1.1 0) (r.getD pk.1.2 0) (r.getD (n - 1 + pk.2) 0))

/-- `np.diag(vec_G[0:n-1]) + squareform(vec_G[n-1:])` -/
def riemG (n : Nat) (vg : List α) : Nat → Nat → α :=
  fun a b => if a = b then vg.getD a 0 else vecToMat (n - 1) 0 0 (vg.drop (n - 1)) a b

def riemGRows (n : Nat) (r : List α) : List (List α) :=
  (List.range (n - 1)).map (fun a => (List.range (n - 1)).map (fun b => riemG n (riemVecG n r) a b))

/-- the second-moment matrix relative to condition 0, as *defined*:
    `G_ab = (d_{0,a+1} + d_{0,b+1} − d_{a+1,b+1}) / 2` -/
def riemGSpec (n : Nat) (r : List α) : List (List α) :=
  let d := vecToMat n 0 0 r
  (List.range (n - 1)).map (fun a => (List.range (n - 1)).map (fun b =>
    (d 0 (a + 1) + d 0 (b + 1) - d (a + 1) (b + 1)) / ((2 : Nat) : α)))

variable [HasSqrt α] [HasLog α]

/-- the objective of `_riemannian_distance`: `sqrt(sum(log(eigvalsh(e^θ0 G1 + e^θ1 Σ, G2))**2))`
    with the generalised eigenvalues a parameter -/
def riemObjective (geig : α × α → List α) (theta : α × α) : α :=
  HasSqrt.sqrt (((geig theta).map (fun l => HasLog.log l * HasLog.log l)).sum)

/-- `_riemannian_distance`: minus the objective at the point the search returns from `(0, 0)` -/
def negRiem (geig : α × α → List α) (search : (α × α → α) → α × α → α × α) : α :=
  Rsa.Gen.C03.riemNeg (riemObjective geig (search (riemObjective geig) (0, 0)))

end riem

/-! ## 4. Reuse sessions (round 4): the same two stacks handed to several successive `compare()` calls

A tiny heap: cell `i` of a `Store` holds one 2-D array (a stack = list of rows).  A call of
`compare(rdm1, rdm2, method)` on the cells `a`, `b`

  * parses both arguments (`_parse_input_rdms`): either a *fresh copy* is allocated (boolean-mask
    indexing `v[nan_idx]`) or, if the parser hands the caller's array on, the *same cell* is used;
  * pre-processes the parsed stacks (`pre` = row centring for `corr` / `corr_cov`, identity for
    the others — ranks and kernels are built in fresh arrays): either rebinding the name to a
    new array (`v = v - mean`) or writing in place (`v -= mean`);
  * evaluates the measure on every pair of rows.

Whether the parser aliases and whether a method writes in place are read from the *source text*
(`Rsa.Gen.C03.parseAlias`, `Rsa.Gen.C03.inplaceWrites`). -/

section session
variable {β γ : Type}

abbrev Store (β : Type) := List (List β)

/-- one call of `compare`: aliasing behaviour, pre-processing of a row, measure of two rows -/
structure Call (β γ : Type) where
  alias : Bool
  inplace : Bool
  pre : β → β
  f : β → β → γ

/-- `_parse_input_rdms` for one argument: the cell the parsed stack lives in -/
def parseCell (alias : Bool) (st : Store β) (a : Nat) : Store β × Nat :=
  if alias then (st, a) else (st ++ [st.getD a []], st.length)

/-- the pre-processing statement: in place, or rebinding the name to a new array -/
def preCell (inplace : Bool) (pre : β → β) (st : Store β) (v : Nat) : Store β × Nat :=
  if inplace then (st.set v ((st.getD v []).map pre), v)
  else (st ++ [(st.getD v []).map pre], st.length)

/-- one `compare()` call on the cells `a`, `b`: the store afterwards and the result matrix -/
def callStep (c : Call β γ) (st : Store β) (a b : Nat) : Store β × List (List γ) :=
  let p1 := parseCell c.alias st a
  let p2 := parseCell c.alias p1.1 b
  let q1 := preCell c.inplace c.pre p2.1 p1.2
  let q2 := preCell c.inplace c.pre q1.1 p2.2
  (q2.1, compareAll c.f (q2.1.getD q1.2 []) (q2.1.getD q2.2 []))

/-- a session: successive calls on the same two cells -/
def sessionRun : List (Call β γ) → Store β → Nat → Nat → Store β × List (List (List γ))
  | [], st, _, _ => (st, [])
  | c :: cs, st, a, b =>
    let r := callStep c st a b
    let rest := sessionRun cs r.1 a b
    (rest.1, r.2 :: rest.2)

/-- what the property demands of a session: every call is judged on the *original* stacks -/
def sessionSpec (cs : List (Call β γ)) (x y : List β) : List (List (List γ)) :=
  cs.map (fun c => compareAll c.f (x.map c.pre) (y.map c.pre))

/-- a call cannot touch the caller's arrays if the parser copies or nothing is written in place -/
def Call.safe (c : Call β γ) : Bool := !c.alias || !c.inplace

/-- position of a method in the list the `inplace_writes` leaf is indexed by -/
def methodCode (m : String) : Nat :=
  (["cosine", "corr", "spearman", "kendall", "tau-b", "tau-a", "rho-a", "corr_cov", "cosine_cov",
    "bures", "bures_metric", "neg_riem_dist"].idxOf m)

/-- the call `compare(.., method)` as coded: aliasing and in-place flags from the source text -/
def codedCall (m : String) (nRdm : Nat) (pre : β → β) (f : β → β → γ) : Call β γ :=
  { alias := decide (0 < Rsa.Gen.C03.parseAlias nRdm),
    inplace := decide (0 < Rsa.Gen.C03.inplaceWrites (methodCode m)),
    pre := pre, f := f }

end session

end Rsa.Compare
