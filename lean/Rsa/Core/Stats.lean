/-
  Rsa.Core.Stats — executable model for property C06
  (variances, standard errors, t statistics, p-values, means of a `Result`).

  Mirrors `util/inference_util.py` (extract_variances, t_tests, t_test_0, t_test_nc,
  bootstrap_pair_tests, …), `util/matrix.py:pairwise_contrast`, `inference/result.py`
  (get_means, get_sem, test_*) and the covariance of `inference/evaluate.py:eval_fixed`.

  Conventions
    * a covariance input is a function `V : Nat → Nat → α` together with the number `m` of
      models; with noise-ceiling rows the indices `m` (lower) and `m+1` (upper) are used too;
    * an evaluation array is `E : Nat → Nat → List Nat → Option α`
      (bootstrap row, model, multi-index of the trailing axes; `none` = NaN) with the number
      of rows `nB`, of models `m` and the `shape : List Nat` of the trailing axes;
    * the small arithmetic leaves (`n/(n-1)` correction, dual-bootstrap clamp, the
      two-sided doubling and `(N-1)/N·p + 1/N` shrinkage of the bootstrap test) are the
      definitions regenerated from the Python text in `Rsa.Gen.C06`;
    * the Student-t CDF and the Wilcoxon test are *parameters* (`F`, `w`).
  Imports core Lean only.
-/
import Rsa.Core.Num
import Rsa.Core.Tri
import Rsa.Core.Compare
import Rsa.Gen.C06

namespace Rsa.Stats

open Rsa.Gen.C06

section generic
variable {α : Type} [Add α] [Sub α] [Mul α] [Div α] [Neg α] [Zero α] [One α] [NatCast α]
  [LT α] [DecidableLT α] [LE α] [DecidableLE α] [Max α] [Min α]

/-! ### sums -/

/-- left-to-right sum from 0 (the order numpy uses for short axes) -/
def fsum (l : List α) : α := l.foldl (· + ·) 0

/-- `Σ_{k<n} f k` -/
def sumRange (n : Nat) (f : Nat → α) : α := fsum ((List.range n).map f)

/-! ### pairwise contrasts (`util/matrix.py:pairwise_contrast(np.arange(m))`) -/

/-- entry `k` of the contrast row of pair `p = (i, j)`: `+1` at `i`, `-1` at `j` -/
def contrastEntry (p : Nat × Nat) (k : Nat) : α :=
  if k = p.1 then 1 else if k = p.2 then -1 else 0

/-- the contrast matrix: one row per pair, rows in `pairs m` (`triu`) order -/
def pairwiseContrast (m : Nat) : List (List α) :=
  (pairs m).map (fun p => (List.range m).map (contrastEntry p))

/-- entry `(p,p)` of `C V Cᵀ` as the code evaluates it: `Σ_l (Σ_k C_pk V_kl) C_pl` -/
def quadForm (m : Nat) (c : Nat → α) (V : Nat → Nat → α) : α :=
  sumRange m (fun l => sumRange m (fun k => c k * V k l) * c l)

/-! ### the documented small-sample factors (generated leaves) -/

/-- `_correct_1d(variance, n_pattern, n_rdm)` -/
def correct (np nr : Option α) (v : α) : α :=
  match np, nr with
  | some np, some nr => correct1dBoth v np nr
  | some np, none => correct1dPattern v np
  | none, some nr => correct1dRdm v nr
  | none, none => correct1dNone v

/-- `_dual_bootstrap(variances, n_rdm, n_pattern)` on one triple -/
def dual (nr np : Option α) (v0 v1 v2 : α) : α :=
  match nr, np with
  | some nr, some np => dualBootstrapN v0 v1 v2 nr np
  | some nr, none => dualBootstrapR v0 v1 v2 nr
  | none, some np => dualBootstrapP v0 v1 v2 np
  | none, none => dualBootstrap v0 v1 v2

/-! ### `extract_variances` -/

/-- uncorrected contrasts of one covariance matrix (the first half of each branch) -/
def rawModel (V : Nat → Nat → α) (i : Nat) : α := V i i

/-- `np.diag(C @ V[:m,:m] @ C.T)[p]` -/
def rawDiff (m : Nat) (V : Nat → Nat → α) (p : Nat × Nat) : α := quadForm m (contrastEntry p) V

/-- `model_var_i - 2 V[i, nc] + V[nc, nc]` for the noise-ceiling row `m + c` (`c = 0` lower,
    `c = 1` upper); without ceiling rows the model variance itself -/
def rawNc (m : Nat) (nc : Bool) (V : Nat → Nat → α) (i c : Nat) : α :=
  if nc then V i i - ((2 : Nat) : α) * V i (m + c) + V (m + c) (m + c) else V i i

/-- a 1-D input is read as a diagonal covariance -/
def diagMat (v : Nat → α) : Nat → Nat → α := fun k l => if k = l then v k else 0

/-- 1-D branch: `nc_variances = model_variances[:,None] + variance[-2:][None,:]` -/
def rawNc1 (m : Nat) (nc : Bool) (v : Nat → α) (i c : Nat) : α :=
  if nc then v i + v (m + c) else v i

structure Vars (α : Type) where
  model : List α
  diff : List α
  nc : List (α × α)

/-- 2-D input (one covariance matrix) -/
def extract2 (m : Nat) (nc : Bool) (V : Nat → Nat → α) (np nr : Option α) : Vars α :=
  { model := (List.range m).map (fun i => correct np nr (rawModel V i))
    diff := (pairs m).map (fun p => correct np nr (rawDiff m V p))
    nc := (List.range m).map (fun i =>
      (correct np nr (rawNc m nc V i 0), correct np nr (rawNc m nc V i 1))) }

/-- 1-D input (vector of variances; a scalar is the vector of length 1) -/
def extract1 (m : Nat) (nc : Bool) (v : Nat → α) (np nr : Option α) : Vars α :=
  { model := (List.range m).map (fun i => correct np nr (v i))
    diff := (pairs m).map (fun p => correct np nr (rawDiff m (diagMat v) p))
    nc := (List.range m).map (fun i =>
      (correct np nr (rawNc1 m nc v i 0), correct np nr (rawNc1 m nc v i 1))) }

/-- 3-D input: three covariance matrices (both factors, rdm only, pattern only) -/
def extract3 (m : Nat) (nc : Bool) (V0 V1 V2 : Nat → Nat → α) (nr np : Option α) : Vars α :=
  let d := dual nr np
  { model := (List.range m).map (fun i => d (rawModel V0 i) (rawModel V1 i) (rawModel V2 i))
    diff := (pairs m).map (fun p => d (rawDiff m V0 p) (rawDiff m V1 p) (rawDiff m V2 p))
    nc := (List.range m).map (fun i =>
      (d (rawNc m nc V0 i 0) (rawNc m nc V1 i 0) (rawNc m nc V2 i 0),
       d (rawNc m nc V0 i 1) (rawNc m nc V1 i 1) (rawNc m nc V2 i 1))) }

/-- `Result.__init__`: the stored covariance carries the two noise-ceiling rows iff its last
    axis is not as long as the model list (a 0-d input never does) -/
def ncIncluded (ndim lastDim m : Nat) : Bool := if ndim = 0 then false else lastDim != m

/-- the factors an evaluation function resamples -/
inductive Resampled where
  | rdm | pattern | both
  deriving DecidableEq, Repr

/-- which factor(s) each `cv_method` of `inference/evaluate.py` resamples (`fixed` treats the
    subjects = RDMs as the random factor) -/
def resampledOf (cv : String) : Option Resampled :=
  if cv = "fixed" ∨ cv = "bootstrap_rdm" ∨ cv = "bootstrap_crossval_rdm" then some .rdm
  else if cv = "bootstrap_pattern" ∨ cv = "bootstrap_crossval_pattern" then some .pattern
  else if cv = "bootstrap" ∨ cv = "bootstrap_crossval" ∨ cv = "dual_bootstrap" then some .both
  else none

/-- the counts `(n_rdm, n_pattern)` an evaluator hands to `Result` for the variance extraction:
    only those of the resampled factor(s) ("If you bootstrapped only one factor only pass the N
    for that factor!") -/
def evaluatorNs (f : Resampled) (nRdm nCond : α) : Option α × Option α :=
  match f with
  | .rdm => (some nRdm, none)
  | .pattern => (none, some nCond)
  | .both => (some nRdm, some nCond)

/-! ### specification side of the contrasts -/

/-- `var_i + var_j - cov_ij - cov_ji` -/
def specDiff (V : Nat → Nat → α) (p : Nat × Nat) : α :=
  V p.1 p.1 + V p.2 p.2 - V p.1 p.2 - V p.2 p.1

/-! ### fixed evaluation: `np.cov(x, ddof=0) / n` -/

/-- mean of `x 0 … x (n-1)` -/
def meanN (n : Nat) (x : Nat → α) : α := sumRange n x / (n : α)

/-- `np.cov(X, ddof=0)[i, j] / n` for `X[i] = x i`, `n` subjects -/
def fixedCov (n : Nat) (x : Nat → Nat → α) (i j : Nat) : α :=
  sumRange n (fun s => (x i s - meanN n (x i)) * (x j s - meanN n (x j))) / (n : α) / (n : α)

/-- the variances `eval_fixed` hands to `Result`: `np.cov` of a single model is 0-d and goes
    through the 1-D branch, otherwise the 2-D branch; `n_rdm = n`, `n_pattern = None`, no
    noise-ceiling rows -/
def fixedVars (m n : Nat) (x : Nat → Nat → α) : Vars α :=
  if m = 1 then extract1 1 false (fun _ => fixedCov n x 0 0) none (some (n : α))
  else extract2 m false (fixedCov n x) none (some (n : α))

/-- unbiased sample variance -/
def sampleVar (n : Nat) (x : Nat → α) : α :=
  sumRange n (fun s => (x s - meanN n x) * (x s - meanN n x)) / ((n : α) - 1)

/-! ### NaN-aware means -/

/-- the present values of a list -/
def present (l : List (Option α)) : List α := l.filterMap id

/-- `np.nanmean` of a vector: NaN entries skipped; all-NaN (or empty) gives NaN -/
def nanMean (l : List (Option α)) : Option α :=
  let xs := present l
  if xs.isEmpty then none else some (fsum xs / (xs.length : α))

/-- `np.mean` of a vector: NaN if any entry is NaN (or the vector is empty) -/
def strictMean (l : List (Option α)) : Option α :=
  if l.isEmpty || l.any Option.isNone then none else some (fsum (present l) / (l.length : α))

/-- `while x.ndim > …: x = np.nanmean(x, axis=-1)` on one cell with trailing `shape` -/
def reduceTrailing : List Nat → (List Nat → Option α) → Option α
  | [], g => g []
  | d :: ds, g => nanMean ((List.range d).map (fun i => reduceTrailing ds (fun idx => g (i :: idx))))

abbrev Evals (α : Type) := Nat → Nat → List Nat → Option α

/-- value of cell (row `r`, model `j`) after collapsing the trailing axes -/
def cell (shape : List Nat) (E : Evals α) (r j : Nat) : Option α := reduceTrailing shape (E r j)

/-- effect used by the t-tests: `np.nanmean(evaluations, 0)`, then the trailing axes -/
def effect (nB : Nat) (shape : List Nat) (E : Evals α) (j : Nat) : Option α :=
  reduceTrailing shape (fun idx => nanMean ((List.range nB).map (fun r => E r j idx)))

/-- rows that are kept by `get_means` (`perf[~np.isnan(perf[:, 0])]`) -/
def validRows (nB : Nat) (shape : List Nat) (E : Evals α) : List Nat :=
  (List.range nB).filter (fun r => (cell shape E r 0).isSome)

/-- `Result.get_means` for the bootstrap-type `cv_method`s -/
def getMeansBoot (nB m : Nat) (shape : List Nat) (E : Evals α) : List (Option α) :=
  (List.range m).map (fun j => strictMean ((validRows nB shape E).map (fun r => cell shape E r j)))

/-- *Specification* of `Result.get_means` (round 7): per model, the NaN-aware average over the
    samples of that model's own per-sample values (trailing axes collapsed NaN-aware).  A model
    without any value has mean NaN; the other models are not affected by it.  For results whose
    failed samples are whole rows this is what the coded bootstrap path computes
    (`means_boot_eq_spec_of_whole_rows`); the coded path decides which samples to keep from the
    FIRST model only, so a first model without values wipes out every mean — the defect
    `nan-first-model-means` (the driver reports this specification for every `cv_method`). -/
def getMeansSpec (nB m : Nat) (shape : List Nat) (E : Evals α) : List (Option α) :=
  (List.range m).map (fun j => nanMean ((List.range nB).map (fun r => cell shape E r j)))

/-- `Result.get_means` for `cv_method` `fixed` / `crossvalidation` (3-D evaluations):
    `np.nanmean(np.mean(evaluations, axis=0), axis=-1)` -/
def getMeansFixed (nB m n : Nat) (E : Evals α) : List (Option α) :=
  (List.range m).map (fun j =>
    nanMean ((List.range n).map (fun s => strictMean ((List.range nB).map (fun r => E r j [s])))))

/-! ### t statistics and p-values -/

/-- `|x|` from `max` and negation -/
def absG (x : α) : α := max x (-x)

/-- two-sided p-value of `t_tests`: `2 * (1 - stats.t.cdf(np.abs(t), dof))` for a CDF `F`
    (generated leaf around the opaque CDF call) -/
def pTwo (F : α → α) (t : α) : α := pTwoSidedPair (F (absG t))

/-- two-sided p-value of `t_test_nc` (its own generated leaf) -/
def pTwoNc (F : α → α) (t : α) : α := pTwoSidedNc (F (absG t))

/-- one-sided p-value of `t_test_0`: `1 - stats.t.cdf(t, dof)` (generated leaf) -/
def pOne (F : α → α) (t : α) : α := pOneSided (F t)

variable [HasSqrt α]

/-- `t_test_0`: `evaluations / np.sqrt(np.maximum(variances, eps))` — quotient and clamp are the
    generated leaves `tQuotZero`, `tClampZero`; `eps = np.finfo(float).eps` in the code -/
def tStat (eps eff var : α) : α := tQuotZero eff (HasSqrt.sqrt (tClampZero var eps))

/-- `t_tests`: `diffs / np.sqrt(np.maximum(variances, eps))` (leaves `tQuotPair`, `tClampPair`) -/
def tStatPair (eps diff var : α) : α := tQuotPair diff (HasSqrt.sqrt (tClampPair var eps))

/-- `t_test_nc`: `(eval_i - noise_ceil) / np.sqrt(np.maximum(variances[i], eps))`
    (leaves `tQuotNc`, `tClampNc`) -/
def tStatNc (eps ev c var : α) : α := tQuotNc ev c (HasSqrt.sqrt (tClampNc var eps))

/-- `Result.get_sem`: `sqrt(max(model_var, 0))` (clamp = generated leaf `semClamp`) -/
def getSem (v : α) : α := HasSqrt.sqrt (semClamp v)

/-- `util.inference_util.get_errorbars(.., 'sem')`: both limits `sqrt(max(model_var, 0))` -/
def utilEbSem (v : α) : α × α := (HasSqrt.sqrt (utilSemClampLow v), HasSqrt.sqrt (utilSemClampHigh v))

/-- `Result.get_ci(ci_percent, 't-test')` for one model: `q = tdist.ppf(prop_cut, dof)` is the
    (opaque) Student-t quantile at `prop_cut = ciPropCut ci_percent` -/
def resultCi (mean sem q : α) : α × α := (ciLow mean sem q, ciHigh mean sem q)

/-- `Result.get_errorbars('ci..')`: distances of the two limits from the mean -/
def resultEbCi (mean sem q : α) : α × α :=
  (ebLow mean (resultCi mean sem q).1, ebHigh mean (resultCi mean sem q).2)

/-- `util.inference_util.get_errorbars(.., 'ci..', 't-test')` as coded: both limits
    `std_eval * tdist.ppf(prop_cut, dof)` with `std_eval = sqrt(max(model_var, 0))` -/
def utilEbCi (v q : α) : α × α :=
  (utilEbLow (HasSqrt.sqrt (utilStdClamp v)) q, utilEbHigh (HasSqrt.sqrt (utilStdClamp v)) q)

/-- `t_tests`: the vector of pair statistics `(C @ e)[p] / sqrt(max(diff_var[p], eps))` -/
def tPairVec (eps : α) (m : Nat) (e : Nat → α) (diffVar : List α) : List α :=
  List.zipWith (fun p v => tStatPair eps (sumRange m (fun k => contrastEntry p k * e k)) v)
    (pairs m) diffVar

/-- `t_tests`: `squareform(t)` -/
def tPairMat (eps : α) (m : Nat) (e : Nat → α) (diffVar : List α) (i j : Nat) : α :=
  vecToMat m 0 0 (tPairVec eps m e diffVar) i j

/-- `t_tests`: `2 (1 - F |squareform(t)|)` entry-wise -/
def pPairT (F : α → α) (eps : α) (m : Nat) (e : Nat → α) (diffVar : List α) (i j : Nat) : α :=
  pTwo F (tPairMat eps m e diffVar i j)

/-- `t_test_0` -/
def tZero (eps : α) (e : Nat → α) (modelVar : Nat → α) (i : Nat) : α :=
  tStat eps (e i) (modelVar i)

/-- `t_test_nc` against the value `c` -/
def tNc (eps : α) (e : Nat → α) (ncVar : Nat → α) (c : α) (i : Nat) : α :=
  tStatNc eps (e i) c (ncVar i)

end generic

/-! ### bootstrap tests (counting; the comparisons need decidable `<` and `=`) -/

section boot
variable {α : Type} [Add α] [Sub α] [Mul α] [Div α] [Neg α] [Zero α] [One α] [NatCast α]
  [LT α] [DecidableLT α] [LE α] [DecidableLE α] [Max α] [Min α]

/-- number of rows satisfying `q` -/
def countRows (rows : List β) (q : β → Bool) : Nat := (rows.filter q).length

/-- the p-value of one pair from the counts: `lt` rows with `x_i < x_j`, `eq` ties,
    `N` rows; `prop = lt / (N - eq)`, doubled smaller side, shrunk by `(N-1)/N`, plus `1/N` -/
def bootPairP (N lt eq : Nat) : α :=
  bootShrink (bootTwoSided (bootProp (lt : α) (eq : α) (N : α))) (N : α)

/-- rows of a bootstrap evaluation in which every model has a value (a failed bootstrap
    sample is a row of NaN and carries no information about any pair) -/
def completeRows (nB m : Nat) (c : Nat → Nat → Option α) : List Nat :=
  (List.range nB).filter (fun r => (List.range m).all (fun j => (c r j).isSome))

/-- `f` applied to the values of models `i` and `j` in row `r`; a missing value compares false
    (as every comparison with NaN does) -/
def both (c : Nat → Nat → Option α) (i j : Nat) (f : α → α → Bool) (r : Nat) : Bool :=
  match c r i, c r j with
  | some a, some b => f a b
  | _, _ => false

/-- `bootstrap_pair_tests` for `i ≠ j` on cell values `c r j` (rows × models), comparing with
    a strict order `ltb` and equality `eqb` on present values -/
def bootPair (ltb eqb : α → α → Bool) (nB m : Nat) (c : Nat → Nat → Option α) (i j : Nat) : α :=
  let rows := completeRows nB m c
  bootPairP rows.length (countRows rows (both c i j ltb)) (countRows rows (both c i j eqb))

/-- the matrix as the code fills it: upper triangle computed, mirrored, unit diagonal -/
def bootPairMat (ltb eqb : α → α → Bool) (nB m : Nat) (c : Nat → Nat → Option α) (i j : Nat) : α :=
  if i = j then 1 else if i < j then bootPair ltb eqb nB m c i j else bootPair ltb eqb nB m c j i

/-- one-sided bootstrap p-value against a per-row reference: `x r ≤ ref r` is counted
    (`x = evaluation, ref = 0` for the test against zero; `x = lower noise ceiling of the same
    bootstrap sample, ref = evaluation` for the test against the ceiling); a NaN on either
    side is not counted.  `(count + 1) / N`, which the property caps at 1. -/
def bootOneSided (leb : α → α → Bool) (nB : Nat) (x ref : Nat → Option α) : α :=
  let cnt := countRows (List.range nB) (fun r =>
    match x r, ref r with
    | some a, some b => leb a b
    | _, _ => false)
  bootZeroSingle (cnt : α) (nB : α)

/-- one-sided bootstrap p-values of a > 2-D evaluation array (cross-validated results): the test
    is made on one value per bootstrap sample, the NaN-aware mean over all further axes (folds,
    repetitions) — as the pair test does.  `j` the model. -/
def bootZeroNd (leb : α → α → Bool) (nB : Nat) (shape : List Nat) (E : Evals α) (j : Nat) : α :=
  bootOneSided leb nB (fun r => cell shape E r j) (fun _ => some 0)

/-- against the lower noise ceiling `nc r idx` of the same bootstrap sample (trailing axes
    `ncShape` collapsed likewise) -/
def bootNcNd (leb : α → α → Bool) (nB : Nat) (shape ncShape : List Nat) (E : Evals α)
    (nc : Nat → List Nat → Option α) (j : Nat) : α :=
  bootOneSided leb nB (fun r => reduceTrailing ncShape (nc r)) (fun r => cell shape E r j)

end boot

/-! ### rank-sum tests: the data reduction around the external `wilcoxon` -/

section ranksum
variable {α : Type} [Add α] [Sub α] [Mul α] [Div α] [Neg α] [Zero α] [One α] [NatCast α]
  [LT α] [DecidableLT α] [LE α] [DecidableLE α] [Max α] [Min α]

/-- `np.nanmean(evaluations, 0)` of a 3-D array: per model the vector over subjects -/
def ranksumData (nB n : Nat) (E : Evals α) (j : Nat) : List (Option α) :=
  (List.range n).map (fun s => nanMean ((List.range nB).map (fun r => E r j [s])))

/-- `ranksum_pair_test` with the external two-sample test `w` as a parameter -/
def ranksumPairMat {β : Type} [One β] (w : List (Option α) → List (Option α) → β)
    (nB n : Nat) (E : Evals α) (i j : Nat) : β :=
  if i = j then 1
  else if i < j then w (ranksumData nB n E i) (ranksumData nB n E j)
  else w (ranksumData nB n E j) (ranksumData nB n E i)

/-! ### the Wilcoxon signed-rank statistic (`scipy.stats.wilcoxon`, `zero_method='wilcox'`)

  What `ranksum_pair_test` / `ranksum_value_test` hand to scipy is modelled up to the null
  distribution: paired differences, zero differences discarded, tie-averaged ranks of `|d|`,
  `W⁺` / `W⁻` (rank sums of the positive / negative differences), the two-sided statistic
  `min W⁺ W⁻`.  Only the map (W⁺, W⁻, ranks) ↦ p-value remains a parameter `g`. -/

/-- paired differences `x - y` -/
def srDiffs (x y : List α) : List α := List.zipWith (fun a b => a - b) x y

/-- differences against a fixed value (`ranksum_value_test`: `evaluations[i] - comp_value`) -/
def srDiffsValue (x : List α) (c : α) : List α := x.map (fun a => a - c)

/-- `zero_method='wilcox'`: zero differences are discarded -/
def srNonzero (d : List α) : List α := d.filter (fun v => decide (v < 0) || decide (0 < v))

/-- `|d|` of the remaining differences -/
def srAbs (d : List α) : List α := (srNonzero d).map absG

/-- tie-averaged rank (`rankdata(.., 'average')`) of `|v|` among the non-zero `|d|` -/
def srRank (d : List α) (v : α) : α := Rsa.Compare.rankOf (srAbs d) (absG v)

/-- the ranks, in the order of the remaining differences -/
def srRanks (d : List α) : List α := (srNonzero d).map (srRank d)

/-- `W⁺`: sum of the ranks of the positive differences -/
def srPlus (d : List α) : α := fsum ((srNonzero d).map (fun v => if 0 < v then srRank d v else 0))

/-- `W⁻`: sum of the ranks of the negative differences -/
def srMinus (d : List α) : α := fsum ((srNonzero d).map (fun v => if v < 0 then srRank d v else 0))

/-- the two-sided statistic scipy reports: the smaller rank sum -/
def srStat (d : List α) : α := min (srPlus d) (srMinus d)

/-- the p-value as a function `g` (the null distribution: contract) of `W⁺`, `W⁻` and the ranks -/
def srP {β : Type} (g : α → α → List α → β) (d : List α) : β := g (srPlus d) (srMinus d) (srRanks d)

/-- all values present, or `none` (scipy propagates NaN: the p-value is NaN) -/
def allPresent (l : List (Option α)) : Option (List α) :=
  if l.all Option.isSome then some (present l) else none

/-- `wilcoxon(a, b).pvalue` on data with missing values -/
def wilcoxonPair {β : Type} (g : α → α → List α → β) (a b : List (Option α)) : Option β :=
  match allPresent a, allPresent b with
  | some x, some y => some (srP g (srDiffs x y))
  | _, _ => none

/-- `wilcoxon(a - c).pvalue` -/
def wilcoxonValue {β : Type} (g : α → α → List α → β) (a : List (Option α)) (c : α) : Option β :=
  match allPresent a with
  | some x => some (srP g (srDiffsValue x c))
  | none => none

/-- `ranksum_pair_test` with the modelled statistic: upper triangle computed, mirrored,
    unit diagonal -/
def ranksumPairMatSR {β : Type} [One β] (g : α → α → List α → β) (nB n : Nat) (E : Evals α)
    (i j : Nat) : Option β :=
  if i = j then some 1
  else if i < j then wilcoxonPair g (ranksumData nB n E i) (ranksumData nB n E j)
  else wilcoxonPair g (ranksumData nB n E j) (ranksumData nB n E i)

/-- `ranksum_value_test` -/
def ranksumValueSR {β : Type} (g : α → α → List α → β) (nB n : Nat) (E : Evals α) (c : α)
    (i : Nat) : Option β :=
  wilcoxonValue g (ranksumData nB n E i) c

end ranksum

/-! ## Round 4 — sessions: one `Result` queried repeatedly through every public route

The statistics above are functions of the *content* of a `Result` (evaluations, stored covariance with the
variances derived from it, noise ceiling).  A session executes a list of calls one after the other on one
object; call `k` sees whatever the calls before it left behind — in the object (`content`) and outside it
(`memo`: a module-level or per-object cache).  Two generated counts decide what a call leaves behind:
the number of in-place statements on its path (`writesOf`, leaves `*InputWrites`) and the number of places
where a value can survive a call (`stateCells`, leaves `moduleStateCells`, `resultExtraAttrs`). -/
section sessions

/-- the public routes of a session -/
inductive Route where
  | testAll | testPairwise | testZero | testNoise
  | getMeans | getSem | getCi | getErrorbars | getModelVar | getNoiseCeil
  | utilAll | utilPair | utilZero | utilNc | utilErrorbars
  | extract
  | reload
  | rebuild
deriving Repr, DecidableEq, Inhabited

def Route.ofString? : String → Option Route
  | "test_all" => some .testAll
  | "test_pairwise" => some .testPairwise
  | "test_zero" => some .testZero
  | "test_noise" => some .testNoise
  | "get_means" => some .getMeans
  | "get_sem" => some .getSem
  | "get_ci" => some .getCi
  | "get_errorbars" => some .getErrorbars
  | "get_model_var" => some .getModelVar
  | "get_noise_ceil" => some .getNoiseCeil
  | "util.all_tests" => some .utilAll
  | "util.pair_tests" => some .utilPair
  | "util.zero_tests" => some .utilZero
  | "util.nc_tests" => some .utilNc
  | "util.get_errorbars" => some .utilErrorbars
  | "extract" => some .extract
  | "reload" => some .reload
  | "rebuild" => some .rebuild
  | _ => none

/-- number of statements on the path of a route that write *in place* into an array aliasing the caller's
    data (generated leaves: a syntactic may-alias analysis of the current source).  The `Result` methods
    run the wrappers of `inference_util`; `reload` runs `to_dict`, `result_from_dict`, `Result.__init__`
    and `extract_variances`; `rebuild` constructs a second `Result` from the arrays the first was built from. -/
def writesOf : Route → Nat
  | .extract => extractInputWrites
  | .utilAll | .utilPair | .utilZero | .utilNc => testInputWrites
  | .utilErrorbars => errorbarInputWrites
  | .reload | .rebuild => resultInputWrites + extractInputWrites
  | _ => resultInputWrites + testInputWrites

/-- places where a value could survive a call outside the arguments (generated leaves) -/
def stateCells : Nat := moduleStateCells + resultExtraAttrs

/-- the content of a `Result` (flattened): what the routes read -/
structure Content (α : Type) where
  evals : List (Option α)
  vars : List α
  ceil : List (Option α)
deriving Repr, DecidableEq

/-- one call of a session: the route, its full argument (test type, confidence level, kind of covariance
    input …) and what a memo with a *coarse* key would look at (model count, dof, …) -/
structure Call where
  route : Route
  arg : Nat
  key : Nat
deriving Repr, DecidableEq, Inhabited

/-- state of a session: the object's content and the cache(s) outside the arguments -/
structure SState (α ρ : Type) where
  content : Content α
  memo : List (Nat × ρ)

def memoLookup {ρ : Type} (k : Nat) : List (Nat × ρ) → Option ρ
  | [] => none
  | (k', v) :: rest => if k' = k then some v else memoLookup k rest

/-- what a single in-place statement does to the content (the shape of an in-place centring of
    `result.evaluations`); any change would serve -/
def corrupt {α : Type} [Add α] [One α] (c : Content α) : Content α :=
  { c with evals := c.evals.map (Option.map (· + 1)) }

/-- value a call returns when there are `cells` hidden state cells: with none it is the stand-alone value
    on the content it finds; otherwise a value cached under the call's coarse key is handed out -/
def resultW {α ρ : Type} (cells : Nat) (pure : Call → Content α → ρ) (c : Call) (s : SState α ρ) : ρ :=
  if cells = 0 then pure c s.content else (memoLookup c.key s.memo).getD (pure c s.content)

/-- state a call leaves behind with `w` in-place statements and `cells` hidden state cells -/
def effW {α ρ : Type} [Add α] [One α] (w cells : Nat) (pure : Call → Content α → ρ) (c : Call)
    (s : SState α ρ) : SState α ρ :=
  { content := if w = 0 then s.content else corrupt s.content,
    memo := if cells = 0 then s.memo
            else if (memoLookup c.key s.memo).isSome then s.memo else (c.key, pure c s.content) :: s.memo }

/-- as coded: the counts are read off the source -/
def callResult {α ρ : Type} (pure : Call → Content α → ρ) (c : Call) (s : SState α ρ) : ρ :=
  resultW stateCells pure c s

def callEffect {α ρ : Type} [Add α] [One α] (pure : Call → Content α → ρ) (c : Call) (s : SState α ρ) :
    SState α ρ :=
  effW (writesOf c.route) stateCells pure c s

/-- a session: the calls are executed one after the other; call `k` sees the state the calls before it
    left behind.  Returns per call its result and the state after it. -/
def runSession {κ σ ρ : Type} (eff : κ → σ → σ) (result : κ → σ → ρ) : List κ → σ → List (ρ × σ)
  | [], _ => []
  | c :: cs, s => (result c s, eff c s) :: runSession eff result cs (eff c s)

end sessions

end Rsa.Stats
