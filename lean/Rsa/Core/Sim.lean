/-
  Rsa.Core.Sim — executable model of `rsatoolbox.simulation.sim` (property C18), the two
  matrices of `util/matrix.py` it uses (`centering`, `indicator`) and the squared-Euclidean
  RDM by condition of `rdm/calc.py` (`average_dataset_by` + Gram form).

  Matrices are functions `Nat → Nat → α` with the sizes passed explicitly (sums run over
  `List.range n`), so every definition is total, structural and generic in the number type:
  proved about over an ordered field, executed at `Rat` / `Float` by the driver.

  *As coded*:  `centering`, `gramOfRdm` (G = -0.5·(H D H)), `condVec`/`partVec`
  (make_design), `indicator` (one column per sorted unique value), `noiseTerm`,
  `dataOf` (Z U √s + ε), `makeDatasets` (which call of `make_signal` / which noise draw feeds
  which dataset, descriptors), `makeSignal` (row centring, optional whitening, optional
  channel factor, multiplication by the factor of G, truncation), `condMean`
  (average_dataset_by), `euclidRdm` (ss + ssᵀ − 2 M Mᵀ, divided by the channel count).
  The scalar entry formulas are the *generated* leaves `Rsa.Gen.C18.*`.

  *Parameters (external results / draws, quantified over in the theorems)*:
  the standard-normal draws `z` (= `ss.norm.ppf` of the uniform draws), the results of
  `np.linalg.eigh(G)` and `np.linalg.qr(Uᵀ)` (`cholEigh`, `whitenQR` are the coded steps built
  on them; `makeSignal` itself takes any factor / whitening map), the Cholesky factors of the
  covariance arguments, `sqrt`.
  `cholPiv` (Cholesky with diagonal pivoting) and `gramSchmidtCompleteRows` (Gram–Schmidt with
  basis completion) are the driver's own executable instances of the two factor contracts, also
  for rank-deficient `G` and `n_channel = n_cond` (not used by the theorems, which hold for every
  factor meeting the contract); `cholPSD`, `gramSchmidt` are the round-1 instances, kept for reference.
  `designRdmSpec` / `designRdmSpecD`: specification for general design matrices.
  Every `@` of `sim.py` goes through `mmulBy <regenerated summand>` (operand order from the text).
  Round 4: `SimArgs` / `SimCall` / `runSession` — sessions of calls on the same objects with an explicit
  state (content of the arguments, arbitrary module state), gated by the leaves `inputWrites`,
  `moduleState`; `specSession` = the stand-alone calls.
-/
import Rsa.Core.Num
import Rsa.Core.Tri
import Rsa.Gen.C18
import Rsa.Gen.C01

namespace Rsa.Sim

/-- a matrix with implicit (externally known) shape -/
abbrev Mat (α : Type) := Nat → Nat → α

section generic
variable {α : Type} [Add α] [Sub α] [Mul α] [Div α] [Neg α] [Zero α] [One α] [NatCast α]
  [LT α] [DecidableLT α] [LE α] [DecidableLE α] [Max α] [Min α]

/-- `∑_{l<n} f l` -/
def sumTo (n : Nat) (f : Nat → α) : α := ((List.range n).map f).sum

/-- matrix product with inner dimension `k` -/
def mmul (k : Nat) (A B : Mat α) : Mat α := fun i j => sumTo k (fun l => A i l * B l j)

def transpose (A : Mat α) : Mat α := fun i j => A j i

/-- matrix product whose summand `A[i,l] · B[l,j]` is a regenerated leaf (the operand order of
    the `@` in the source text is part of the leaf's anchor) -/
def mmulBy (f : α → α → α) (k : Nat) (A B : Mat α) : Mat α :=
  fun i j => sumTo k (fun l => f (A i l) (B l j))

/-- `A Aᵀ` for an `· × k` matrix -/
def gramRows (k : Nat) (A : Mat α) : Mat α := fun i j => sumTo k (fun l => A i l * A j l)

/-- matrix from nested lists (out of range = 0) and back -/
def ofLists (rows : List (List α)) : Mat α := fun i j => (rows.getD i []).getD j 0
def toLists (r c : Nat) (M : Mat α) : List (List α) :=
  (List.range r).map (fun i => (List.range c).map (fun j => M i j))

/-! ### util/matrix.py -/

/-- `centering(size)`: `np.identity(size) - np.ones(size) / size` (entry from the source text) -/
def centering (n : Nat) : Mat α :=
  fun i j => Rsa.Gen.C18.centeringEntry (if i = j then (1 : α) else 0) (n : α)

/-- `np.unique` of a vector of natural-number labels: sorted, without repetition -/
def uniqueSorted (l : List Nat) : List Nat :=
  (List.range (l.foldr max 0 + 1)).filter (fun v => l.contains v)

/-- `indicator(index_vector)` on functions: column `i` marks the observations whose label
    is the `i`-th unique value -/
def indicatorF (cv uniq : Nat → Nat) : Mat α := fun o i => Rsa.Gen.C18.indicatorEntry (cv o) (uniq i)

/-- `indicator(index_vector)` on a list of labels (rows/columns out of range are 0) -/
def indicator (cv : List Nat) : Mat α :=
  fun o i => match cv[o]?, (uniqueSorted cv)[i]? with
    | some a, some b => Rsa.Gen.C18.indicatorEntry a b
    | _, _ => 0

/-! ### make_design -/

/-- `cond_vec` of `make_design(n_cond, n_part)` -/
def condVec (nCond nPart : Nat) : List Nat :=
  (List.range (nPart * nCond)).map (fun k => Rsa.Gen.C18.condIndex k nCond nPart)

/-- `part_vec` of `make_design(n_cond, n_part)` -/
def partVec (nCond nPart : Nat) : List Nat :=
  (List.range (nPart * nCond)).map (fun k => Rsa.Gen.C18.partIndex k nCond nPart)

/-! ### second moment from the model RDM -/

/-- `squareform(RDM)`: symmetric, zero diagonal -/
def squareform (n : Nat) (v : List α) : Mat α := Rsa.vecToMat n 0 0 v

/-- `G = -0.5 * (H @ D @ H)` -/
def gramOfRdm (n : Nat) (D : Mat α) : Mat α :=
  fun i j => Rsa.Gen.C18.gScale (mmul n (mmul n (centering n) D) (centering n) i j)

/-- specification: the squared Euclidean distances of a configuration with second moment `G` -/
def distOfGram (G : Mat α) : Mat α := fun a b => G a a + G b b - (2 : Nat) * G a b

/-! ### make_signal -/

/-- number of channels the signal is generated with (`n_channel = n_cond` if smaller) -/
def genWidth (nCond nCh : Nat) : Nat := Rsa.Gen.C18.genWidth nCond nCh

/-- `true_U - np.mean(true_U, axis=1, keepdims=True)` -/
def rowCenter (w : Nat) (U : Mat α) : Mat α :=
  fun i c => Rsa.Gen.C18.rowCenterEntry (U i c) (sumTo w (fun l => U i l) / (w : α))

/-- `make_signal(G, n_channel, make_exact, chol_channel)`; `z` the standard-normal draw
    (`n_cond × genWidth`), `whiten` the orthonormalisation step, `cholG` the factor of
    `G` (see `makeSignalCoded` for the coded QR / eigh instances).  Columns `≥ nCh` of the result are cut off by the caller's shape. -/
def makeSignal (nCond nCh : Nat) (exact : Bool) (z : Mat α) (whiten : Mat α → Mat α)
    (cholG : Mat α) (cholS : Option (Mat α)) : Mat α :=
  let w := genWidth nCond nCh
  let u0 := rowCenter w z
  let u1 := if exact then whiten u0 else u0
  let u2 := match cholS with
    | none => u1
    | some c => mmulBy Rsa.Gen.C18.signalChanTerm w u1 c
  mmulBy Rsa.Gen.C18.signalMixTerm nCond cholG u2

/-! #### the two factor steps of `make_signal` as coded (after the repair: QR and eigh) -/

section factors
variable [HasSqrt α]

/-- `chol_G = eigvec * np.sqrt(eigval)` after `eigval[eigval < 1e-15] = 0`; `eigval`, `eigvec`
    are the results of `np.linalg.eigh(G)` (external) -/
def cholEigh (eigval : Nat → α) (eigvec : Mat α) : Mat α :=
  fun i j => Rsa.Gen.C18.cholEntry (eigvec i j) (HasSqrt.sqrt (Rsa.Gen.C18.eigClamp (eigval j)))

/-- `true_U = Q.transpose() * np.sqrt(n_channel)`; `q` (`w × n_cond`) is the orthonormal
    factor of `np.linalg.qr(true_U.transpose())` (external) -/
def whitenQR (w : Nat) (q : Mat α) : Mat α :=
  fun i c => Rsa.Gen.C18.exactScale (q c i) (HasSqrt.sqrt (w : α))

/-- `make_signal` with the coded factor steps -/
def makeSignalCoded (nCond nCh : Nat) (exact : Bool) (z q : Mat α) (eigval : Nat → α)
    (eigvec : Mat α) (cholS : Option (Mat α)) : Mat α :=
  makeSignal nCond nCh exact z (fun _ => whitenQR (genWidth nCond nCh) q)
    (cholEigh eigval eigvec) cholS

end factors

/-! ### request validation of `make_dataset` (what is rejected with `ValueError`) -/

/-- a covariance argument is absent or has shape `(n, n)` -/
def shapeOk (sh : Option (Nat × Nat)) (n : Nat) : Bool :=
  match sh with
  | none => true
  | some s => s.1 == n && s.2 == n

/-- `make_dataset` proceeds iff `cond_vec` is 1-D or 2-D and every given covariance has the
    shape the code compares it with (`n_channel × n_channel`, as coded also for the trial
    covariance — see notes/C18.md) -/
def acceptsRequest (condNdim nCh : Nat) (scc ncc nct : Option (Nat × Nat)) : Bool :=
  (condNdim == 1 || condNdim == 2) && shapeOk scc nCh && shapeOk ncc nCh && shapeOk nct nCh

/-! ### make_dataset -/

/-- the noise term: `z * sqrt(noise)`, then `· @ chol_channel`, then `chol_trial @ ·` -/
def noiseTerm (nObs nCh : Nat) (z : Mat α) (sqrtNoise : α) (cholC cholT : Option (Mat α)) : Mat α :=
  let e0 : Mat α := fun o c => Rsa.Gen.C18.noiseScale (z o c) sqrtNoise
  let e1 : Mat α := match cholC with
    | none => e0
    | some c => mmulBy Rsa.Gen.C18.noiseChanTerm nCh e0 c
  match cholT with
  | none => e1
  | some t => mmulBy Rsa.Gen.C18.noiseTrialTerm nObs t e1

/-- `data = Zcond @ true_U * np.sqrt(signal) + epsilon` -/
def dataOf (nCond : Nat) (Z U : Mat α) (sqrtSignal : α) (eps : Mat α) : Mat α :=
  fun o c => Rsa.Gen.C18.dataEntry (mmulBy Rsa.Gen.C18.designTerm nCond Z U o c) sqrtSignal (eps o c)

/-- the `cond_vec` argument: a vector of condition labels or an explicit design matrix -/
inductive CondInput (α : Type) where
  | vec (cv : List Nat)
  | design (rows : List (List α))

def CondInput.nObs : CondInput α → Nat
  | .vec cv => cv.length
  | .design rows => rows.length

/-- `Zcond` -/
def CondInput.Z : CondInput α → Mat α
  | .vec cv => indicator cv
  | .design rows => ofLists rows

/-- number of columns of `Zcond` -/
def CondInput.nCols : CondInput α → Nat
  | .vec cv => (uniqueSorted cv).length
  | .design rows => (rows.headD []).length

/-- simulation parameters (also what is stored as dataset descriptors) -/
structure Params (α : Type) where
  nCond : Nat
  nCh : Nat
  nSim : Nat
  signal : α
  noise : α
  cholC : Option (Mat α) := none
  cholT : Option (Mat α) := none
  same : Bool := false
  modelName : String := ""
  theta : Option (List α) := none

/-- one simulated dataset with its descriptors -/
structure SimDataset (α : Type) where
  data : Mat α
  nObs : Nat
  nCh : Nat
  /-- obs descriptor `cond_vec` -/
  condVec : CondInput α
  /-- dataset descriptors `signal`, `noise`, `model`, `theta` -/
  signal : α
  noise : α
  modelName : String
  theta : Option (List α)

/-- which call of `make_signal` provides the signal of simulation `k` -/
def signalIndex (same : Bool) (k : Nat) : Nat := if same then 0 else k

/-- how often `make_signal` is called -/
def nSignalCalls (same : Bool) (nSim : Nat) : Nat := if same then 1 else nSim

/-- shape of the uniform draw behind the noise of one simulation (`size=(n_obs, n_channel)`) and
    behind one signal (`size=(n_cond, n_channel)` with the raised channel count) -/
def noiseDrawShape (nObs nCh : Nat) : Nat × Nat :=
  (Rsa.Gen.C18.noiseDrawRows nObs nCh, Rsa.Gen.C18.noiseDrawCols nObs nCh)
def signalDrawShape (nCond nCh : Nat) : Nat × Nat :=
  (Rsa.Gen.C18.signalDrawRows nCond (genWidth nCond nCh), Rsa.Gen.C18.signalDrawCols nCond (genWidth nCond nCh))

/-- order of the random draws of one `make_dataset` call: `(true, i)` = the `i`-th signal
    draw, `(false, k)` = the noise draw of simulation `k` -/
def drawPlan (same : Bool) (nSim : Nat) : List (Bool × Nat) :=
  if same then (true, 0) :: (List.range nSim).map (fun k => (false, k))
  else (List.range nSim).flatMap (fun k => [(true, k), (false, k)])

/-- how many uniform draw blocks one call of `make_signal` consumes on the exact / on the random
    branch, read off today's source text (leaves `exactDraws`, `randomDraws`: the
    `np.random.uniform` statement lies on the branch's path and its result reaches the returned
    signal — on the exact branch through the argument of `np.linalg.qr`) -/
def signalDrawCount (exact : Bool) : Nat :=
  if exact then Rsa.Gen.C18.exactDraws else Rsa.Gen.C18.randomDraws

/-- the draw plan of a call on the branch taken: a signal entry is there only if that branch of
    `make_signal` consumes a draw -/
def drawPlanFor (exact same : Bool) (nSim : Nat) : List (Bool × Nat) :=
  (drawPlan same nSim).filter (fun d => !d.1 || signalDrawCount exact != 0)

/-- what `make_signal` starts from: its own draw block if the branch consumes one, else something
    that does not depend on the draws (`fixed`: a constant frame, arbitrary) -/
def signalInput (exact : Bool) (z fixed : Mat α) : Mat α :=
  if signalDrawCount exact = 0 then fixed else z

variable [HasSqrt α]

/-- simulation `k` of `make_dataset`: `signals i` is the result of the `i`-th call of
    `make_signal`, `noises k` the standard-normal draw of simulation `k` -/
def simDataset (p : Params α) (cond : CondInput α) (signals noises : Nat → Mat α) (k : Nat) :
    SimDataset α :=
  { data := dataOf p.nCond cond.Z (signals (signalIndex p.same k)) (HasSqrt.sqrt p.signal)
              (noiseTerm cond.nObs p.nCh (noises k) (HasSqrt.sqrt p.noise) p.cholC p.cholT)
    nObs := cond.nObs
    nCh := p.nCh
    condVec := cond
    signal := Rsa.Gen.C18.descSignal p.signal p.noise
    noise := Rsa.Gen.C18.descNoise p.signal p.noise
    modelName := p.modelName
    theta := p.theta }

/-- `make_dataset`: the list of the `n_sim` simulated datasets -/
def makeDatasets (p : Params α) (cond : CondInput α) (signals noises : Nat → Mat α) :
    List (SimDataset α) :=
  (List.range p.nSim).map (simDataset p cond signals noises)

/-! ### reuse sessions (round 4): what survives a call

`make_dataset` is handed *objects* — a model (whose `rdm` array, for a `ModelFixed` built from a
vector, is the caller's own array), a parameter vector, a condition vector / design matrix,
covariance matrices — and lives in a module that could keep things between calls.  A *session* is
a sequence of calls (and of edits the caller makes to its own objects between them) in one
process.  The state below is the content of those objects plus whatever the module keeps
(`σ`, arbitrary).  Whether the code has a statement that writes into an argument, or a place to
keep something between calls, is read off today's source text: leaves `inputWrites`,
`moduleState` (both counts; see `harness/leaves/C18.py`). -/

/-- content of the objects handed to `make_dataset` -/
structure SimArgs (α : Type) where
  /-- `model.predict(theta)` as a condensed vector (content of the model object) -/
  rdm : List α
  theta : Option (List α)
  cond : CondInput α
  /-- factors of `noise_cov_channel`, `noise_cov_trial`, `signal_cov_channel` -/
  cholC : Option (Mat α)
  cholT : Option (Mat α)
  cholS : Option (Mat α)

/-- the scalars and switches of one call, its random draws and the external routines
    (orthonormalisation per signal, factorisation of `G`) -/
structure SimCall (α : Type) where
  nCond : Nat
  nCh : Nat
  nSim : Nat
  signal : α
  noise : α
  exact : Bool
  same : Bool
  modelName : String
  zs : Nat → Mat α
  noises : Nat → Mat α
  whiten : Nat → Mat α → Mat α
  factor : Mat α → Mat α

/-- the stand-alone call: `make_dataset` on objects with content `a` — the second-moment matrix
    from the model RDM, its factor, one `make_signal` per needed signal, the datasets -/
def SimCall.value (c : SimCall α) (a : SimArgs α) : List (SimDataset α) :=
  makeDatasets
    { nCond := c.nCond, nCh := c.nCh, nSim := c.nSim, signal := c.signal, noise := c.noise,
      cholC := a.cholC, cholT := a.cholT, same := c.same, modelName := c.modelName,
      theta := a.theta }
    a.cond
    (fun i => makeSignal c.nCond c.nCh c.exact (c.zs i) (c.whiten i)
      (c.factor (gramOfRdm c.nCond (squareform c.nCond a.rdm))) a.cholS)
    c.noises

/-- the call as the code under check performs it with respect to the draws: the `i`-th call of
    `make_signal` starts from draw block `i` iff its branch consumes a draw (`signalInput`); a branch
    that draws nothing would start every signal from the same draw-free `fixed` -/
def SimCall.valueDrawn (c : SimCall α) (a : SimArgs α) (fixed : Mat α) : List (SimDataset α) :=
  makeDatasets
    { nCond := c.nCond, nCh := c.nCh, nSim := c.nSim, signal := c.signal, noise := c.noise,
      cholC := a.cholC, cholT := a.cholT, same := c.same, modelName := c.modelName,
      theta := a.theta }
    a.cond
    (fun i => makeSignal c.nCond c.nCh c.exact (signalInput c.exact (c.zs i) fixed) (c.whiten i)
      (c.factor (gramOfRdm c.nCond (squareform c.nCond a.rdm))) a.cholS)
    c.noises

/-- one step of a session: a call, or the caller changing its own objects (writing a new RDM
    into the model, editing theta, …) -/
inductive SimStep (α : Type) where
  | call (c : SimCall α)
  | edit (f : SimArgs α → SimArgs α)

/-- everything a tree *with* write statements / module state could do: `stale` = the content a
    call actually computes from (e.g. a memoised second moment of an earlier model), `remember` =
    how the module state moves on, `scribble` = what the write statements leave in the arguments.
    All three are arbitrary. -/
structure Hidden (σ α : Type) where
  stale : σ → SimArgs α → SimArgs α
  remember : σ → SimArgs α → σ
  scribble : SimArgs α → SimArgs α

/-- one call as the code under check performs it: module state is consulted and updated iff the
    source has a place to keep it (`moduleState ≠ 0`), the arguments are written iff the source
    has a statement that stores into them (`inputWrites ≠ 0`) -/
def stepCall {σ : Type} (h : Hidden σ α) (c : SimCall α) (st : σ × SimArgs α) :
    List (SimDataset α) × (σ × SimArgs α) :=
  let seen := if Rsa.Gen.C18.moduleState = 0 then st.2 else h.stale st.1 st.2
  (c.value seen,
    (if Rsa.Gen.C18.moduleState = 0 then st.1 else h.remember st.1 st.2,
     if Rsa.Gen.C18.inputWrites = 0 then st.2 else h.scribble st.2))

/-- a session in one process: every step sees what the earlier ones left -/
def runSession {σ : Type} (h : Hidden σ α) :
    List (SimStep α) → σ × SimArgs α → List (List (SimDataset α)) × (σ × SimArgs α)
  | [], st => ([], st)
  | .call c :: rest, st =>
    let r := stepCall h c st
    let t := runSession h rest r.2
    (r.1 :: t.1, t.2)
  | .edit f :: rest, st => runSession h rest (st.1, f st.2)

/-- specification: every call stand-alone on the content the *caller* has established so far -/
def specSession : List (SimStep α) → SimArgs α → List (List (SimDataset α)) × SimArgs α
  | [], a => ([], a)
  | .call c :: rest, a =>
    let t := specSession rest a
    (c.value a :: t.1, t.2)
  | .edit f :: rest, a => specSession rest (f a)

/-! ### squared Euclidean RDM by condition (`calc_rdm(ds, 'euclidean', descriptor)`) -/

/-- `average_dataset_by`: mean of the rows whose label is the `i`-th unique value -/
def condMean (nObs : Nat) (cv uniq : Nat → Nat) (data : Mat α) : Mat α :=
  fun i c => sumTo nObs (fun o => if cv o = uniq i then data o c else 0)
             / sumTo nObs (fun o => if cv o = uniq i then (1 : α) else 0)

/-- `calc_rdm_euclidean` on the averaged patterns: Gram form, divided by the channel count
    (both scalar formulas are C01's leaves, regenerated from `rdm/calc.py`) -/
def euclidRdm (nCh : Nat) (M : Mat α) : Mat α :=
  fun a b => Rsa.Gen.C01.euclidNorm
    (Rsa.Gen.C01.euclidEntry (sumTo nCh (fun c => M a c * M a c)) (sumTo nCh (fun c => M b c * M b c))
      (sumTo nCh (fun c => M a c * M b c))) nCh

/-- specification: mean squared difference of two patterns -/
def euclidSpec (nCh : Nat) (M : Mat α) : Mat α :=
  fun a b => sumTo nCh (fun c => (M a c - M b c) * (M a c - M b c)) / (nCh : α)

/-- specification for a *general* design matrix (regressor heights, all-zero rest rows, compound
    rows): the squared distance between the noise-free patterns of two observations is the
    quadratic form of the difference of their design rows in the second-moment matrix,
    `signal · (z_o − z_o')ᵀ G (z_o − z_o')` -/
def designRdmSpec (nCond : Nat) (Z G : Mat α) (s : α) : Mat α :=
  fun o o' => s * sumTo nCond (fun a => sumTo nCond (fun b =>
    (Z o a - Z o' a) * (Z o b - Z o' b) * G a b))

/-- the same in terms of the model RDM itself (design rows with equal sums):
    `−½ · signal · (z_o − z_o')ᵀ D (z_o − z_o')` -/
def designRdmSpecD (nCond : Nat) (Z D : Mat α) (s : α) : Mat α :=
  fun o o' => s * Rsa.Gen.C18.gScale (sumTo nCond (fun a => sumTo nCond (fun b =>
    (Z o a - Z o' a) * (Z o b - Z o' b) * D a b)))

/-- the RDM by condition of a simulated dataset with a condition vector, as a condensed
    vector in `np.triu_indices` order over the sorted unique labels -/
def rdmByCondition (nObs nCh : Nat) (cv : List Nat) (data : Mat α) : List α :=
  let u := uniqueSorted cv
  let m := condMean nObs (fun o => cv.getD o 0) (fun i => u.getD i 0) data
  Rsa.matToVec u.length (euclidRdm nCh m)

/-! ### the driver's own instances of the two factor contracts -/

/-- Cholesky factor of a positive *semi*-definite matrix (columns with a pivot below `tol`
    are zero, as the `D[D < 1e-15] = 0` of the code); returned as a list of columns -/
def cholCols (n : Nat) (G : Mat α) (tol : α) : List (List α) :=
  (List.range n).foldl (fun (cols : List (List α)) j =>
    let d := G j j - (cols.map (fun col => col.getD j 0 * col.getD j 0)).sum
    let newcol : List α :=
      if d < tol then List.replicate n 0
      else
        let r := HasSqrt.sqrt d
        (List.range n).map (fun i =>
          if i < j then 0
          else if i = j then r
          else (G i j - (cols.map (fun col => col.getD i 0 * col.getD j 0)).sum) / r)
    cols ++ [newcol]) []

def cholPSD (n : Nat) (G : Mat α) (tol : α) : Mat α :=
  let cols := cholCols n G tol
  fun i j => (cols.getD j []).getD i 0

/-- rows made orthogonal with squared norm `w` (classical Gram–Schmidt, twice for stability);
    returned as a list of rows -/
def gramSchmidtRows (nRows w : Nat) (U : Mat α) : List (List α) :=
  (List.range nRows).foldl (fun (qs : List (List α)) i =>
    let v0 : List α := (List.range w).map (fun c => U i c)
    let proj (v : List α) : List α :=
      qs.foldl (fun acc q => Rsa.vsub acc (Rsa.vscale (Rsa.dot acc q / (w : α)) q)) v
    let v := proj (proj v0)
    let nrm := HasSqrt.sqrt (Rsa.dot v v / (w : α))
    qs ++ [v.map (fun x => x / nrm)]) []

def gramSchmidt (nRows w : Nat) (U : Mat α) : Mat α := ofLists (gramSchmidtRows nRows w U)

/-- Cholesky factor of a positive semi-definite matrix with *diagonal pivoting* (outer-product
    form: the largest remaining diagonal entry is eliminated next; the factorisation stops when it
    falls below `tol`, so rank-deficient `G` — identical or collinear conditions — need no special
    case).  Returned as a list of `n` columns in elimination order (`F Fᵀ = G` whatever the order). -/
def cholPivCols (n : Nat) (G : Mat α) (tol : α) : List (List α) :=
  let entry (A : List (List α)) (i j : Nat) : α := (A.getD i []).getD j 0
  let step := fun (st : List (List α) × List (List α)) (_ : Nat) =>
    let A := st.1
    let p := (List.range n).foldl (fun best i => if entry A best best < entry A i i then i else best) 0
    let d := entry A p p
    if d < tol then (A, st.2 ++ [List.replicate n 0])
    else
      let r := HasSqrt.sqrt d
      let col := (List.range n).map (fun i => entry A i p / r)
      let A' := (List.range n).map (fun i => (List.range n).map (fun j =>
        entry A i j - col.getD i 0 * col.getD j 0))
      (A', st.2 ++ [col])
  ((List.range n).foldl step (toLists n n G, [])).2

def cholPiv (n : Nat) (G : Mat α) (tol : α) : Mat α :=
  let cols := cholPivCols n G tol
  fun i j => (cols.getD j []).getD i 0

/-- Gram–Schmidt (twice iterated) *with completion*: a row that lies in the span of the previous
    ones (squared residual ≤ `tol` · squared norm — always the case for the last row when
    `n_channel = n_cond`, because the centred rows span only `n_channel − 1` dimensions) is replaced
    by the standard basis vector with the largest residual.  Rows orthogonal, squared norm `w`, for
    every input with `nRows ≤ w` (what Householder QR delivers in the code). -/
def gramSchmidtCompleteRows (nRows w : Nat) (U : Mat α) (tol : α) : List (List α) :=
  (List.range nRows).foldl (fun (qs : List (List α)) i =>
    let v0 : List α := (List.range w).map (fun c => U i c)
    let proj (v : List α) : List α :=
      qs.foldl (fun acc q => Rsa.vsub acc (Rsa.vscale (Rsa.dot acc q / (w : α)) q)) v
    let v := proj (proj v0)
    let v' : List α :=
      if tol * Rsa.dot v0 v0 < Rsa.dot v v then v
      else
        ((List.range w).map (fun k =>
            proj (proj ((List.range w).map (fun c => if c = k then (1 : α) else 0))))).foldl
          (fun best c => if Rsa.dot best best < Rsa.dot c c then c else best) (List.replicate w 0)
    let nrm := HasSqrt.sqrt (Rsa.dot v' v' / (w : α))
    qs ++ [v'.map (fun x => x / nrm)]) []

end generic

end Rsa.Sim
