/-
  Rsa.Core.BootC09 — round-3 additions to the bootstrap model of property C09 (Mathlib-free).

  * source-tied pieces: the `randint` requests of the four call sites of inference/bootstrap.py and
    the NaN-diagonal rule of `RDMs.subsample_pattern`, both *regenerated from the source text* on
    every run (`Rsa.Gen.C09.req…`, `entryIsNan`, see harness/leaves/C09.py);
  * numpy's coercion of mixed int / str descriptors (`np.unique`, `np.array` of a python list) and
    the three entry points *exactly as coded* (`…Np`): `np.unique` and `subsample_pattern` compare
    coerced values, `RDMs.subsample` compares the raw python values with the coerced draws;
  * cross-object sessions: the same returned indices applied to several model predictions;
  * `boot_testset.py`: the test set of the groups that were not drawn (`np.setdiff1d`).
-/
import Rsa.Core.Boot
import Rsa.Gen.C09

namespace Rsa.Boot

/-! ### the `np.random.randint(low, high, size=…)` requests, from the source text -/

/-- the four call sites of `np.random.randint` in inference/bootstrap.py -/
inductive Site where
  | bothR   -- bootstrap_sample, RDM axis
  | bothP   -- bootstrap_sample, pattern axis
  | rdm     -- bootstrap_sample_rdm
  | pat     -- bootstrap_sample_pattern
  deriving DecidableEq, Repr

/-- `(low, high, size)` of the request of a call site, as written in the source, for an axis with
    `nUnique` distinct descriptor values on `nItems` items (generated leaves) -/
def Site.request (s : Site) (nUnique nItems : Nat) : Nat × Nat × Nat :=
  match s with
  | .bothR => (Rsa.Gen.C09.reqBothRLow nUnique nItems, Rsa.Gen.C09.reqBothRHigh nUnique nItems,
               Rsa.Gen.C09.reqBothRSize nUnique nItems)
  | .bothP => (Rsa.Gen.C09.reqBothPLow nUnique nItems, Rsa.Gen.C09.reqBothPHigh nUnique nItems,
               Rsa.Gen.C09.reqBothPSize nUnique nItems)
  | .rdm => (Rsa.Gen.C09.reqRdmLow nUnique nItems, Rsa.Gen.C09.reqRdmHigh nUnique nItems,
             Rsa.Gen.C09.reqRdmSize nUnique nItems)
  | .pat => (Rsa.Gen.C09.reqPatLow nUnique nItems, Rsa.Gen.C09.reqPatHigh nUnique nItems,
             Rsa.Gen.C09.reqPatSize nUnique nItems)

section generic
variable {L α : Type} [DecidableEq L]

/-- the request the code makes at `site` for the grouping descriptor `desc` -/
def drawRequest (site : Site) (le : L → L → Bool) (desc : List L) : Nat × Nat × Nat :=
  site.request (uniq le desc).length desc.length

/-! ### the NaN rule of `subsample_pattern`, from the source text -/

/-- one RDM of `subsample_pattern`, with the decision "this entry is NaN" taken by the generated
    leaf `entryIsNan` (derived from `np.fill_diagonal(…, np.nan)` standing before the selection) -/
def subVecTied (n : Nat) (sel : List Nat) (v : List (Option α)) : List (Option α) :=
  matToVec sel.length (fun i j =>
    if Rsa.Gen.C09.entryIsNan (if sel.getD i 0 = sel.getD j 0 then 1 else 0) = 1 then none
    else vecToMat n none none v (sel.getD i 0) (sel.getD j 0))

/-! ### cross-object sessions and bootstrap test sets -/

/-- the same returned pattern indices applied to every model prediction
    (`pred.subsample_pattern(pattern_descriptor, pattern_idx)` for each model) -/
def resampleAll (ms : List (Stack L α)) (by_ : String) (value : List L) :
    List (Option (Stack L α)) :=
  ms.map (fun m => m.subsamplePattern by_ value)

/-- `np.setdiff1d(desc, idx)`: the sorted distinct descriptor values that were not drawn -/
def testIdx (le : L → L → Bool) (desc idx : List L) : List L :=
  (uniq le desc).filter (fun g => !(idx.contains g))

end generic

/-! ### round 4: in-place operations on one object, multi-step sessions

An `RDMs` object is mutable: `reorder` / `sort_by`, assignments to `pattern_descriptors[key]` and
writes to `.dissimilarities` change it in place between two bootstrap draws.  The model has no
state but the labelled content; a session is a fold over that content. -/

section inplace
variable {L α : Type} [DecidableEq L]

/-- the stack made of the source conditions at positions `sel`, in that (arbitrary) order: square
    form with NaN diagonal, `m[:, sel][:, :, sel]`, condensed again; every pattern descriptor
    re-indexed.  `subsample_pattern` is `gather` of the sorted selection. -/
def Stack.gather (s : Stack L α) (sel : List Nat) : Stack L α :=
  { nCond := sel.length
    vecs := s.vecs.map (subVec s.nCond sel)
    rdmDesc := s.rdmDesc
    patDesc := extract s.patDesc sel }

/-- `RDMs.reorder(new_order)` (and so `sort_by`): `get_matrices()[:, ix_(p, p)]` → vectors, every
    pattern descriptor re-indexed.  (The diagonal — 0 in the code, NaN here — is never read when
    `new_order` has no repeated entry.) -/
def Stack.reorder (s : Stack L α) (p : List Nat) : Stack L α := s.gather p

/-- `d[key] = vals` on a descriptor dict -/
def setKey (d : Desc L) (key : String) (vals : List L) : Desc L :=
  if (d.lookup key).isSome then d.map (fun kv => if kv.1 = key then (key, vals) else kv)
  else d ++ [(key, vals)]

/-- the in-place operations of a session -/
inductive InPlace (L α : Type) where
  /-- `rdms.reorder(p)` / `rdms.sort_by(...)` with resulting order `p` -/
  | reorder (p : List Nat)
  /-- `rdms.pattern_descriptors[key] = vals` -/
  | setPat (key : String) (vals : List L)
  /-- `rdms.dissimilarities[r, k] = x` -/
  | write (r k : Nat) (x : Option α)

def Stack.apply (s : Stack L α) : InPlace L α → Stack L α
  | .reorder p => s.reorder p
  | .setPat key vals => { s with patDesc := setKey s.patDesc key vals }
  | .write r k x => { s with vecs := s.vecs.set r ((s.vecs.getD r []).set k x) }

/-- one step of a session on one object -/
inductive Step (L α : Type) where
  | op (o : InPlace L α)
  | draw (patBy : String) (draws : List Nat)

/-- the results of the draws of a session, in order: every draw samples the content the object
    has at that moment; a draw itself leaves the object unchanged -/
def runSession (le : L → L → Bool) (s : Stack L α) : List (Step L α) →
    List (Option (Stack L α × List L))
  | [] => []
  | .op o :: rest => runSession le (s.apply o) rest
  | .draw patBy draws :: rest => bootstrapSamplePattern le s patBy draws :: runSession le s rest

end inplace

/-! ### numpy's coercion of mixed descriptors; the entry points exactly as coded -/

def Lbl.isStr : Lbl → Bool
  | .str _ => true
  | .int _ => false

/-- `str(x)` -/
def Lbl.toStr : Lbl → Lbl
  | .int i => .str (toString i)
  | .str s => .str s

/-- `np.array(l)` / `np.unique(l)` on a python list of ints and strs: everything becomes a
    string as soon as one value is a string -/
def npCoerce (l : List Lbl) : List Lbl :=
  if l.any Lbl.isStr then l.map Lbl.toStr else l

variable {α : Type}

/-- `RDMs.subsample_pattern` as coded: comparison on `np.array(desc)`, descriptors extracted raw,
    NaN decision by the generated leaf -/
def Stack.subsamplePatternNp (s : Stack Lbl α) (by_ : String) (value : List Lbl) :
    Option (Stack Lbl α) :=
  match s.patDesc.lookup by_ with
  | none => none
  | some desc =>
    let sel := patSelection (npCoerce desc) value
    some { nCond := sel.length
           vecs := s.vecs.map (subVecTied s.nCond sel)
           rdmDesc := s.rdmDesc
           patDesc := extract s.patDesc sel }

/-- `bootstrap_sample_rdm` as coded: `np.unique` coerces, `RDMs.subsample` compares the raw
    python values of the descriptor with the (coerced) drawn values.  `fixed = true` is the
    repaired `subsample` (comparison on `np.array(desc)`, as `subsample_pattern` does). -/
def bootstrapSampleRdmNp (fixed : Bool) (s : Stack Lbl α) (rdmBy : String) (draws : List Nat) :
    Option (Stack Lbl α × List Lbl) :=
  match s.rdmDesc.lookup rdmBy with
  | none => none
  | some desc =>
    let idx := bootIdx (uniq Lbl.le (npCoerce desc)) draws
    let sel := rdmSelection (if fixed then npCoerce desc else desc) idx
    some ({ s with vecs := pick s.vecs sel, rdmDesc := extract s.rdmDesc sel }, idx)

def bootstrapSamplePatternNp (s : Stack Lbl α) (patBy : String) (draws : List Nat) :
    Option (Stack Lbl α × List Lbl) :=
  match s.patDesc.lookup patBy with
  | none => none
  | some desc =>
    let idx := bootIdx (uniq Lbl.le (npCoerce desc)) draws
    (s.subsamplePatternNp patBy idx).map (fun r => (r, idx))

def bootstrapSampleNp (fixed : Bool) (s : Stack Lbl α) (rdmBy patBy : String)
    (drawsR drawsP : List Nat) : Option (Stack Lbl α × List Lbl × List Lbl) :=
  match bootstrapSampleRdmNp fixed s rdmBy drawsR, s.patDesc.lookup patBy with
  | some (s1, rdmIdx), some pdesc =>
    let patIdx := bootIdx (uniq Lbl.le (npCoerce pdesc)) drawsP
    (s1.subsamplePatternNp patBy patIdx).map (fun r => (r, rdmIdx, patIdx))
  | _, _ => none

/-! ### `boot_testset.py`: sample, left-out groups, test set -/

/-- which of the three functions of inference/boot_testset.py -/
inductive TestFn where
  | both | pattern | rdm
  deriving DecidableEq, Repr

/-- "is there a test set" — the `if len(pattern_idx_test) >= 3 and len(rdm_idx_test) >= 1` tests,
    generated from the source text -/
def TestFn.hasTest (f : TestFn) (nPatTest nRdmTest : Nat) : Bool :=
  match f with
  | .both => Rsa.Gen.C09.hasTestBoth nPatTest nRdmTest = 1
  | .pattern => Rsa.Gen.C09.hasTestPattern nPatTest nRdmTest = 1
  | .rdm => Rsa.Gen.C09.hasTestRdm nPatTest nRdmTest = 1

/-- result of one iteration of `bootstrap_testset*` -/
structure TestsetResult (α : Type) where
  sample : Stack Lbl α
  rdmIdx : Option (List Lbl)
  patIdx : Option (List Lbl)
  testR : Option (List Lbl)
  testP : Option (List Lbl)
  test : Option (Stack Lbl α)

/-- one iteration of `bootstrap_testset` / `_pattern` / `_rdm`: the bootstrap sample, the groups
    that were not drawn (`np.setdiff1d`), and — if enough groups are left out — the test set
    `data.subsample_pattern(test groups).subsample(test groups)` -/
def bootTestset (f : TestFn) (s : Stack Lbl α) (rdmBy patBy : String) (drawsR drawsP : List Nat) :
    Option (TestsetResult α) :=
  match f with
  | .both =>
    match bootstrapSampleNp false s rdmBy patBy drawsR drawsP, s.rdmDesc.lookup rdmBy,
        s.patDesc.lookup patBy with
    | some (r, ri, pi), some rdesc, some pdesc =>
      let tr := testIdx Lbl.le rdesc ri
      let tp := testIdx Lbl.le pdesc pi
      let test := if f.hasTest tp.length tr.length then
          (s.subsamplePatternNp patBy tp).bind (fun s1 => s1.subsample rdmBy tr) else none
      some ⟨r, some ri, some pi, some tr, some tp, test⟩
    | _, _, _ => none
  | .pattern =>
    match bootstrapSamplePatternNp s patBy drawsP, s.patDesc.lookup patBy with
    | some (r, pi), some pdesc =>
      let tp := testIdx Lbl.le pdesc pi
      let test := if f.hasTest tp.length 0 then s.subsamplePatternNp patBy tp else none
      some ⟨r, none, some pi, none, some tp, test⟩
    | _, _ => none
  | .rdm =>
    match bootstrapSampleRdmNp false s rdmBy drawsR, s.rdmDesc.lookup rdmBy with
    | some (r, ri), some rdesc =>
      let tr := testIdx Lbl.le rdesc ri
      let test := if f.hasTest 0 tr.length then s.subsample rdmBy tr else none
      some ⟨r, some ri, none, some tr, none, test⟩
    | _, _ => none

/-! ### round 6: large stacks — restriction to some RDMs, block-wise evaluation -/

/-- the stack made of the RDMs at positions `rows` (all conditions kept) -/
def Stack.restrictRdm {L α : Type} (s : Stack L α) (rows : List Nat) : Stack L α :=
  { s with vecs := pick s.vecs rows, rdmDesc := extract s.rdmDesc rows }

/-- `l` cut into consecutive blocks of `b` items, the last one shorter (`fuel` ≥ number of blocks) -/
def chunksAux {β : Type} (b : Nat) : Nat → List β → List (List β)
  | 0, _ => []
  | fuel + 1, l => if l.isEmpty then [] else l.take b :: chunksAux b fuel (l.drop b)

def chunks {β : Type} (b : Nat) (l : List β) : List (List β) := chunksAux b l.length l

/-- `subsample_pattern` evaluated block by block: the RDMs are converted / NaN-diagonalised /
    selected `b` at a time and the blocks concatenated (a memory-saving implementation) -/
def Stack.subsamplePatternBlocked {L α : Type} [DecidableEq L] (b : Nat) (s : Stack L α)
    (by_ : String) (value : List L) : Option (Stack L α) :=
  match s.patDesc.lookup by_ with
  | none => none
  | some desc =>
    let sel := patSelection desc value
    some { nCond := sel.length
           vecs := (chunks b s.vecs).flatMap (fun blk => blk.map (subVec s.nCond sel))
           rdmDesc := s.rdmDesc
           patDesc := extract s.patDesc sel }

/-- one bootstrap draw on a (restricted) stack `s` where the drawn values come from the grouping
    descriptors of the *whole* source (`full`) and the recorded draws: what the driver op
    `c09.large` runs.  With `full` = the stack's own descriptor this is `bootstrapSample…Np`. -/
def largeSample (s : Stack Lbl α) (rdm : Option (String × List Lbl × List Nat))
    (pat : Option (String × List Lbl × List Nat)) :
    Option (Stack Lbl α × List Lbl × List Lbl) :=
  let s1 : Option (Stack Lbl α × List Lbl) :=
    match rdm with
    | none => some (s, [])
    | some (rdmBy, full, draws) =>
      let idx := bootIdx (uniq Lbl.le (npCoerce full)) draws
      (s.subsample rdmBy idx).map (fun r => (r, idx))
  match s1, pat with
  | none, _ => none
  | some (r, ri), none => some (r, ri, [])
  | some (r, ri), some (patBy, full, draws) =>
    let idx := bootIdx (uniq Lbl.le (npCoerce full)) draws
    (r.subsamplePatternNp patBy idx).map (fun q => (q, ri, idx))

/-- the request of a call site with numpy's coercion in `np.unique` -/
def drawRequestNp (site : Site) (desc : List Lbl) : Nat × Nat × Nat :=
  drawRequest site Lbl.le (npCoerce desc)

end Rsa.Boot
