/-
  Rsa.Core.C01Top — the *call layer* of `calc_rdm` / `calc_rdm_movie` around `Rsa.Core.Calc`
  (property C01, round 3):

    * input forms      `RawData` (int64 / float64 measurements), `RawDesc` (list / array
                       descriptor containers), `Input` (`ds` vs `[ds₀, ds₁, …]`)
    * dispatch         method-name dispatch, the `remove_mean` flag `_parse_input` receives,
                       noise / prior forwarding, signature defaults, per-dataset noise
                       selection of the list branches — every decision is a leaf derived from
                       today's source text (`Rsa.Gen.C01.*`, see harness/leaves/C01.py)
    * descriptors      `_build_rdms` (dataset descriptors → rdm descriptors of the one RDM,
                       `_averaging_occurred` shortcut for the pattern descriptors),
                       `_merged_rdm_descriptors` for stacks of several RDMs (`mergeStacks`),
                       `from_partials` (only the label descriptor survives), the movie's time
                       descriptor (one value per frame)

  Core Lean only (no Mathlib).
-/
import Rsa.Core.Calc

namespace Rsa.Calc

open Rsa

/-! ### input forms -/

/-- `dataset.measurements` as stored: an int64 or a float64 array -/
inductive RawData (α : Type) where
  | ints (rows : List (List Int))
  | floats (rows : List (List α))

/-- a descriptor column as handed to `Dataset(...)`: a Python list or a numpy array -/
inductive RawDesc (β : Type) where
  | list (l : List β)
  | array (l : List β)

/-- both containers denote the same column -/
def RawDesc.parse {β : Type} : RawDesc β → List β
  | .list l => l
  | .array l => l

/-- `dataset` argument: one dataset or an iterable of datasets -/
inductive Input (δ : Type) where
  | one (d : δ)
  | many (ds : List δ)

def b2n (b : Bool) : Nat := if b then 1 else 0

section parse
variable {α : Type} [Add α] [Sub α] [Mul α] [Div α] [Neg α] [Zero α] [One α] [NatCast α]
  [LT α] [DecidableLT α] [LE α] [DecidableLE α] [Max α] [Min α] [IntCast α]

/-- the rows the estimators compute with (every arithmetic step of numpy promotes int64
    to float64 first) -/
def RawData.rows : RawData α → List (Row α)
  | .ints rows => rows.map (fun r => rowOfList (r.map (fun i => (Int.cast i : α))))
  | .floats rows => rows.map rowOfList

/-- integer rows as functions (indices past the end read as 0, as `rowOfList`) -/
def intRow (r : List Int) : Nat → Int :=
  let a := r.toArray
  fun c => a.getD c 0

variable {L : Type} [DecidableEq L]

/-- `average_dataset_by` on int64 data, as coded: `np.mean` of the selected rows is a float
    row; it is *stored* into the buffer `average`, whose dtype is decided by the allocation
    (leaf `meanBufferFloat`: 1 = float64 buffer; 0 = a buffer in the data's dtype, which
    truncates every mean towards zero on assignment) -/
def condMeansInt (lab : List L) (rows : List (List Int)) : List (Row α) :=
  let irows := rows.map intRow
  let inv := inverse lab
  (List.range (uniqueFirst lab).length).map (fun i =>
    let sel := (irows.zip inv).filterMap (fun p => if p.2 = i then some p.1 else none)
    if Rsa.Gen.C01.meanBufferFloat = 1 then
      colMean (sel.map (fun r => (fun c => (Int.cast (r c) : α))))
    else
      fun c => (Int.cast (Int.tdiv ((sel.map (fun r => r c)).sum) (sel.length : Int)) : α))

end parse

/-! ### dispatch and option forwarding -/

section dispatch
variable {α : Type} [Add α] [Sub α] [Mul α] [Div α] [Neg α] [Zero α] [One α] [NatCast α]
  [LT α] [DecidableLT α] [LE α] [DecidableLE α] [Max α] [Min α]

/-- `ma /= sqrt(einsum('ij,ij->i', ma, ma))` on rows that `_parse_input` has already centred -/
def unitRowRaw (P : Nat) (sqrt : α → α) (x : Row α) : Row α :=
  let nrm := sqrt (dotP P x x)
  fun c => Rsa.Gen.C01.corrUnit (x c) nrm

/-- `calc_rdm_correlation` after `_parse_input(…, remove_mean=True)` -/
def corrMatRaw (P : Nat) (sqrt : α → α) (M : List (Row α)) : List (List α) :=
  let U := M.map (unitRowRaw P sqrt)
  U.map (fun a => U.map (fun b => Rsa.Gen.C01.corrEntry (dotP P a b)))

/-- code of a method name / of an estimator function:
    euclidean 0, correlation 1, mahalanobis 2, poisson 3 -/
def Method.code : Method α → Nat
  | .euclidean => 0
  | .correlation => 1
  | .mahalanobis _ => 2
  | .poisson _ _ => 3

/-- the estimator function number `est`, receiving the `remove_mean` flag `flag` (0/1) that it
    hands to `_parse_input`; `none` = no such estimator (`NotImplementedError`) -/
def distVecF (P : Nat) (sqrt lg : α → α) (est : Nat) (noise : Option (Nat → Nat → α))
    (pl pw : α) (flag : Nat) (M : List (Row α)) : Option (List α) :=
  match est with
  | 0 => some ((extractTriu (euclidMat P (prep P (flag == 1) M))).map
           (fun x => Rsa.Gen.C01.euclidNorm x P))
  | 1 => some (extractTriu (corrMatRaw P sqrt (prep P (flag == 1) M)))
  | 2 =>
    match noise with
    | none => some ((extractTriu (euclidMat P
          (prep P (Rsa.Gen.C01.mahalNoneFlag flag == 1) M))).map
          (fun x => Rsa.Gen.C01.euclidNorm x P))
    | some N => some ((extractTriu (mahalMat P N (prep P (flag == 1) M))).map
          (fun x => Rsa.Gen.C01.mahalNorm x P))
  | 3 => some ((extractTriu (poissonMat P lg ((prep P (flag == 1) M).map (rate pl pw)))).map
           (fun x => Rsa.Gen.C01.poissonNorm x P))
  | _ => none

/-- the options of one `calc_rdm` call as the user passes them (`none` = not passed) -/
structure Opts (α : Type) where
  method : Nat
  noise : Option (Nat → Nat → α)
  pl : Option α
  pw : Option α
  removeMean : Bool

/-- SPEC: what the options mean (method with its options, `remove_mean`); the documented
    defaults of the priors are 1 and 0.1 -/
def Opts.spec (o : Opts α) : Method α × Bool :=
  let pl := o.pl.getD ((1 : Nat) : α)
  let pw := o.pw.getD (((1 : Nat) : α) / ((10 : Nat) : α))
  match o.method with
  | 0 => (.euclidean, o.removeMean)
  | 1 => (.correlation, o.removeMean)
  | 2 => (.mahalanobis o.noise, o.removeMean)
  | _ => (.poisson pl pw, o.removeMean)

/-- `calc_rdm` (single-dataset branch) as coded: method-name dispatch, forwarding of noise,
    priors (with the signature defaults) and of `remove_mean` — all through derived leaves -/
def topVec (P : Nat) (sqrt lg : α → α) (o : Opts α) (M : List (Row α)) : Option (List α) :=
  let pl := o.pl.getD Rsa.Gen.C01.defaultPriorLambda
  let pw := o.pw.getD Rsa.Gen.C01.defaultPriorWeight
  let fp := Rsa.Gen.C01.fwdPrior o.method = 1
  distVecF P sqrt lg (Rsa.Gen.C01.dispatch o.method)
    (if Rsa.Gen.C01.fwdNoise o.method = 1 then o.noise else none)
    (if fp then pl else Rsa.Gen.C01.poissonDefaultPriorLambda)
    (if fp then pw else Rsa.Gen.C01.poissonDefaultPriorWeight)
    (Rsa.Gen.C01.parseFlag o.method (b2n o.removeMean)) M

/-- the `noise` argument of a list call: nothing, one matrix, or one entry per dataset -/
inductive NoiseArg (α : Type) where
  | none
  | one (N : Nat → Nat → α)
  | per (Ns : List (Option (Nat → Nat → α)))

/-- options of a `calc_rdm([…])` call -/
structure ListOpts (α : Type) where
  method : Nat
  noise : NoiseArg α
  pl : Option α
  pw : Option α
  removeMean : Bool

/-- SPEC: dataset `k` of a list is computed with the call's options and *its own* noise -/
def ListOpts.specFor (o : ListOpts α) (k : Nat) : Opts α :=
  { method := o.method
    noise := match o.noise with
      | .none => none
      | .one N => some N
      | .per Ns => (Ns[k]?).getD none
    pl := o.pl, pw := o.pw, removeMean := o.removeMean }

/-- list branch of `calc_rdm` as coded: the recursive call for dataset `k` -/
def ListOpts.optsFor (o : ListOpts α) (k : Nat) : Opts α :=
  { method := Rsa.Gen.C01.listMethod o.method
    noise := match o.noise with
      | .none => none
      | .one N => some N
      | .per Ns => (Ns[Rsa.Gen.C01.listNoiseIndex k]?).getD none
    pl := some (Rsa.Gen.C01.listPriorLambda (o.pl.getD Rsa.Gen.C01.defaultPriorLambda))
    pw := some (Rsa.Gen.C01.listPriorWeight (o.pw.getD Rsa.Gen.C01.defaultPriorWeight))
    removeMean := Rsa.Gen.C01.listRemoveMean (b2n o.removeMean) == 1 }

end dispatch

/-! ### descriptors -/

/-- the value of a dataset descriptor: a scalar or a vector (list / tuple / array) -/
inductive DVal (S : Type) where
  | scalar (s : S)
  | vec (l : List S)

/-- `_build_rdms` + `RDMs.__init__`: the entry list (one entry per RDM; there is one RDM) that
    a dataset descriptor becomes.  Scalars are wrapped by `RDMs.__init__`; a vector is wrapped
    as a whole iff the derived condition `wrapVector` holds, otherwise it *is* the entry list. -/
def rdmEntries {S : Type} : DVal S → List (DVal S)
  | .scalar s => [.scalar s]
  | .vec l => if Rsa.Gen.C01.wrapVector 1 1 l.length = 1 then [.vec l] else l.map .scalar

/-- an rdm-descriptor value: a dataset descriptor (left) or a time value (right) -/
abbrev RVal (S τ : Type) := Sum (DVal S) τ

/-- rdm descriptors of the single RDM `_build_rdms` creates -/
def singleRdesc {S τ : Type} (ddesc : List (String × DVal S)) :
    List (String × List (Option (RVal S τ))) :=
  ddesc.map (fun p => (p.1, (rdmEntries p.2).map (fun v => some (Sum.inl v))))

/-- `_merged_rdm_descriptors` for the rdm descriptors: the stacks are given as
    (number of RDMs, columns); every name occurring anywhere gets a column; a stack without that
    name contributes `None` for each of its RDMs -/
def mergeStacks {V : Type} (st : List (Nat × List (String × List (Option V)))) :
    List (String × List (Option V)) :=
  (uniqueFirst (st.flatMap (fun s => s.2.map (fun p => p.1)))).map
    (fun n => (n, st.flatMap (fun s => (s.2.lookup n).getD (List.replicate s.1 none))))

/-- `d[name] = col` on an association list -/
def setCol {V : Type} (d : List (String × V)) (name : String) (col : V) : List (String × V) :=
  (name, col) :: d.filter (fun p => p.1 != name)

/-- the full result of a call: conditions, one (partial) vector per RDM, rdm descriptors
    (one entry per RDM), further pattern descriptors (`none` = dropped) -/
structure Stack (α L D S τ : Type) where
  labels : List L
  vecs : List (List (Option α))
  rdesc : List (String × List (Option (RVal S τ)))
  pdesc : List (String × Option (List D))

/-- a dataset with a condition descriptor, further obs descriptors and dataset descriptors -/
structure DSet (α L D S : Type) where
  obs : List (L × Row α)
  odesc : List (String × List D)
  ddesc : List (String × DVal S)

/-- a temporal dataset -/
structure TSet (α L S τ : Type) where
  obs : List (L × TRow α)
  ddesc : List (String × DVal S)
  times : List τ

section full
variable {α : Type} [Add α] [Sub α] [Mul α] [Div α] [Neg α] [Zero α] [One α] [NatCast α]
  [LT α] [DecidableLT α] [LE α] [DecidableLE α] [Max α] [Min α]
variable {L : Type} [DecidableEq L] {D : Type} [DecidableEq D] {S : Type}

/-- `_build_rdms`, pattern descriptors: without averaging the obs descriptors are copied,
    with averaging each is kept iff constant within every condition -/
def buildPat (lab : List L) (dv : List D) : Option (List D) :=
  if Rsa.Gen.C01.averagingOccurred (uniqueFirst lab).length lab.length = 1 then propagate lab dv
  else some dv

/-- `calc_rdm(ds, …, descriptor)` for one dataset, as coded at the call layer -/
def topRdm (P : Nat) (sqrt lg : α → α) (le : L → L → Bool) (o : Opts α)
    (obs : List (L × Row α)) (descs : List (List D)) : Option (Rdm α L D) :=
  let lab := obs.map (fun p => p.1)
  (topVec P sqrt lg o (condMeans obs)).map (fun v =>
    ({ labels := uniqueFirst lab, vec := v, descs := descs.map (buildPat lab) } :
      Rdm α L D).sortAlpha le)

variable {τ : Type}

/-- one dataset → its RDM and the rdm descriptors `_build_rdms` attaches -/
def topSingle (P : Nat) (sqrt lg : α → α) (le : L → L → Bool) (o : Opts α)
    (d : DSet α L D S) : Option (Rdm α L D × List (String × List (Option (RVal S τ)))) :=
  (topRdm P sqrt lg le o d.obs (d.odesc.map (fun p => p.2))).map
    (fun r => (r, singleRdesc d.ddesc))

def stackOfSingle (d : DSet α L D S)
    (r : Rdm α L D × List (String × List (Option (RVal S τ)))) : Stack α L D S τ :=
  { labels := r.1.labels, vecs := [r.1.vec.map some], rdesc := r.2,
    pdesc := (d.odesc.map (fun p => p.1)).zip r.1.descs }

/-- `calc_rdm` on either input form -/
def calcTop (P : Nat) (sqrt lg : α → α) (le : L → L → Bool) (o : ListOpts α)
    (inp : Input (DSet α L D S)) : Option (Stack α L D S τ) :=
  match inp with
  | .one d => (topSingle P sqrt lg le (o.specFor 0) d).map (stackOfSingle d)
  | .many ds =>
    (allSome (ds.zipIdx.map (fun dk => topSingle (τ := τ) P sqrt lg le (o.optsFor dk.2) dk.1))).map
      (fun ss =>
        let fp := fromPartials (ss.map (fun s => s.1))
        { labels := fp.1, vecs := fp.2,
          rdesc := mergeStacks (ss.map (fun s => (1, s.2))),
          pdesc := [] })

/-! ### movies -/

variable [DecidableEq τ] [Add τ] [Zero τ] [Div τ] [NatCast τ]

/-- options of a `calc_rdm_movie` call (no `remove_mean`) -/
structure MovieOpts (α τ : Type) where
  method : Nat
  noise : NoiseArg α
  pl : Option α
  pw : Option α
  tname : String
  bins : Option (List (List τ))

/-- options with which `calc_rdm_movie` calls `calc_rdm` on every frame -/
def MovieOpts.frameOpts (o : MovieOpts α τ) (noise : Option (Nat → Nat → α)) : Opts α :=
  { method := Rsa.Gen.C01.movieFrameMethod o.method
    noise := noise
    pl := some (Rsa.Gen.C01.movieFramePriorLambda
      (o.pl.getD Rsa.Gen.C01.movieDefaultPriorLambda))
    pw := some (Rsa.Gen.C01.movieFramePriorWeight
      (o.pw.getD Rsa.Gen.C01.movieDefaultPriorWeight))
    removeMean := Rsa.Gen.C01.movieFrameRemoveMean == 1 }

/-- SPEC of the same -/
def MovieOpts.frameSpec (o : MovieOpts α τ) (noise : Option (Nat → Nat → α)) : Opts α :=
  { method := o.method, noise := noise, pl := o.pl, pw := o.pw, removeMean := false }

/-- the time values `calc_rdm_movie` writes into `rdm_descriptors[time_descriptor]` -/
def movieTimeCol (binned : Bool) (rawTimes binnedTimes : List τ) : List τ :=
  let src := if Rsa.Gen.C01.movieTimeSource (b2n binned) = 1 then binnedTimes else rawTimes
  if Rsa.Gen.C01.movieTimeRule = 1 then uniqueFirst src else src

/-- `calc_rdm_movie` for one temporal dataset, single-dataset branch, as coded:
    bin, split, per frame `calc_rdm`, `concat`, time descriptor -/
def topMovie (P : Nat) (sqrt lg : α → α) (le : L → L → Bool) (o : MovieOpts α τ)
    (noise : Option (Nat → Nat → α)) (d : TSet α L S τ) : Option (Stack α L Unit S τ) :=
  let binned := o.bins.isSome
  let bt := match o.bins with
    | none => (d.obs, d.times)
    | some bs => binTime d.obs d.times bs
  let src := if Rsa.Gen.C01.movieSplitSource (b2n binned) = 1 then bt else (d.obs, d.times)
  let fr := frames src.1 src.2
  (allSome (fr.map (fun f => topSingle (D := Unit) (τ := τ) P sqrt lg le (o.frameOpts noise)
      { obs := f.2, odesc := [], ddesc := d.ddesc }))).map (fun ss =>
    { labels := ((ss.map (fun s => s.1.labels)).head?).getD []
      vecs := ss.map (fun s => s.1.vec.map some)
      rdesc := setCol (mergeStacks (ss.map (fun s => (1, s.2)))) o.tname
        ((movieTimeCol binned d.times bt.2).map (fun t => some (Sum.inr t)))
      pdesc := [] })

/-- list branch of `calc_rdm_movie`: per-dataset noise, everything else forwarded; `concat` -/
def MovieOpts.optsFor (o : MovieOpts α τ) (k : Nat) :
    MovieOpts α τ × Option (Nat → Nat → α) :=
  ({ method := Rsa.Gen.C01.movieListMethod o.method
     noise := o.noise
     pl := some (Rsa.Gen.C01.movieListPriorLambda
       (o.pl.getD Rsa.Gen.C01.movieDefaultPriorLambda))
     pw := some (Rsa.Gen.C01.movieListPriorWeight
       (o.pw.getD Rsa.Gen.C01.movieDefaultPriorWeight))
     tname := if Rsa.Gen.C01.movieListTdesc 1 = 1 then o.tname else "time"
     bins := if Rsa.Gen.C01.movieListBins 1 = 1 then o.bins else none },
   match o.noise with
   | .none => none
   | .one N => some N
   | .per Ns => (Ns[Rsa.Gen.C01.movieListNoiseIndex k]?).getD none)

def MovieOpts.noiseFor (o : MovieOpts α τ) (k : Nat) : Option (Nat → Nat → α) :=
  match o.noise with
  | .none => none
  | .one N => some N
  | .per Ns => (Ns[k]?).getD none

/-- `calc_rdm_movie` on either input form -/
def movieTop (P : Nat) (sqrt lg : α → α) (le : L → L → Bool) (o : MovieOpts α τ)
    (inp : Input (TSet α L S τ)) : Option (Stack α L Unit S τ) :=
  match inp with
  | .one d => topMovie P sqrt lg le o (o.noiseFor 0) d
  | .many ds =>
    (allSome (ds.zipIdx.map (fun dk =>
        topMovie P sqrt lg le (o.optsFor dk.2).1 (o.optsFor dk.2).2 dk.1))).map (fun ms =>
      { labels := ((ms.map (fun m => m.labels)).head?).getD []
        vecs := ms.flatMap (fun m => m.vecs)
        rdesc := mergeStacks (ms.map (fun m => (m.vecs.length, m.rdesc)))
        pdesc := [] })

end full

/-! ### memory: which array a call writes to (round 4)

`calc_rdm` is handed a `Dataset` *object*; an estimator that centres or normalises its working
array in place modifies the caller's data iff that array is the dataset's own `measurements`.
The state below is the content of `dataset.measurements` (labels / descriptors are never
written by the modelled code); a *session* is a sequence of calls on the same object. -/

section memory
variable {α : Type} [Add α] [Sub α] [Mul α] [Div α] [Neg α] [Zero α] [One α] [NatCast α]
  [LT α] [DecidableLT α] [LE α] [DecidableLE α] [Max α] [Min α]
variable {L : Type} [DecidableEq L]

/-- the working array of an estimator: its rows, and whether it *is* the dataset's own array -/
structure Work (α : Type) where
  rows : List (Row α)
  shared : Bool

/-- `_parse_input` with respect to memory, as coded.  `data` = `dataset.measurements`, `means` =
    the buffer `average_dataset_by` allocates.  Leaves: `parseShares` (is the working array of
    the branch the dataset's own array?), `centreInPlace` (does the centring statement write into
    the working array, or bind a new one?).  Result: working array, `dataset.measurements`
    afterwards. -/
def parseMem (P : Nat) (hasDesc flag : Bool) (data means : List (Row α)) :
    Work α × List (Row α) :=
  let w : Work α := if hasDesc then ⟨means, Rsa.Gen.C01.parseShares 1 = 1⟩
    else ⟨data, Rsa.Gen.C01.parseShares 0 = 1⟩
  if flag then
    if Rsa.Gen.C01.centreInPlace = 1 then
      (⟨prep P true w.rows, w.shared⟩, if w.shared then prep P true w.rows else data)
    else (⟨prep P true w.rows, false⟩, data)
  else (w, data)

/-- what estimator `est` leaves in its working array when it writes to it in place (leaf
    `estWrites`); only `calc_rdm_correlation` has such a statement: `ma /= norm` -/
def estWritten (P : Nat) (sqrt : α → α) (est : Nat) (rows : List (Row α)) : List (Row α) :=
  match est with
  | 1 => rows.map (unitRowRaw P sqrt)
  | _ => rows

/-- `dataset.measurements` after one estimator call -/
def callMem (P : Nat) (sqrt : α → α) (est : Nat) (hasDesc : Bool) (flag : Nat)
    (data means : List (Row α)) : List (Row α) :=
  let pm := parseMem P hasDesc (flag == 1) data means
  if Rsa.Gen.C01.estWrites est = 1 ∧ pm.1.shared = true then estWritten P sqrt est pm.1.rows
  else pm.2

/-- one call of a session: the options and whether a condition descriptor is passed -/
structure Call (α : Type) where
  opts : Opts α
  hasDesc : Bool

/-- the condensed vector a call returns when the object's array currently holds `rows` -/
def Call.result (P : Nat) (sqrt lg : α → α) (lab : List L) (c : Call α) (rows : List (Row α)) :
    Option (List α) :=
  topVec P sqrt lg c.opts (if c.hasDesc then condMeans (lab.zip rows) else rows)

/-- the object's array after the call -/
def Call.after (P : Nat) (sqrt : α → α) (lab : List L) (c : Call α) (rows : List (Row α)) :
    List (Row α) :=
  callMem P sqrt (Rsa.Gen.C01.dispatch c.opts.method) c.hasDesc
    (Rsa.Gen.C01.parseFlag c.opts.method (b2n c.opts.removeMean)) rows (condMeans (lab.zip rows))

/-- successive calls on ONE dataset object: every call sees what the earlier ones left -/
def runSession (P : Nat) (sqrt lg : α → α) (lab : List L) :
    List (Call α) → List (Row α) → List (Option (List α)) × List (Row α)
  | [], rows => ([], rows)
  | c :: cs, rows =>
    let rest := runSession P sqrt lg lab cs (c.after P sqrt lab rows)
    (c.result P sqrt lg lab rows :: rest.1, rest.2)

end memory

end Rsa.Calc
