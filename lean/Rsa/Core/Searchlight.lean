/-
  Rsa.Core.Searchlight — executable model of `rsatoolbox/util/searchlight.py` (property C19).

  As coded:
    * `neighborsAlgo`      `_get_searchlight_neighbors`: per-axis pre-filter `abs(x-cx) < radius`,
                           `np.meshgrid(x, y, z)` grid (default 'xy' indexing: y outermost, then x,
                           then z), distance test `cdist(...) < radius`
    * `goodCenters`, `volumeSearchlight`
                           `get_volume_searchlight`: centres = `np.nonzero(mask)` (C order), accepted
                           when the in-mask fraction of the searchlight is `>= threshold`, then
                           `np.ravel_multi_index`
    * `splitIdx`, `assignRows`, `slTable`, `slRdms`
                           `get_searchlight_RDMs`: one RDM row per centre, computed in one go or, above
                           `Gen.C19.chunked` (1000) centres, chunk-wise into a pre-allocated table
    * `collect`            `evaluate_models_searchlight`: results of tasks that finish in any order,
                           stored by task index (joblib's contract)
    * `getItem`, `iterGet`, `slTasks`, `evalSearchlight`, `parCollect`
                           `evaluate_models_searchlight` as coded: `for x in sl_RDM` (legacy
                           `__getitem__` iteration of `RDMs`) builds one task per row, joblib `par`
                           is a parameter (`parCollect`: slot per task under a completion order)
    * `EvalArgs`, `fwdKw`, `callEvalAt`, `callSite`, `nCallSites`, `callEval`, `evalSearchlightKw`
                           (round 6) the task record `(models, method, theta)` and the keywords every
                           call site of `eval_function` forwards (`Gen.C19.evalCallSites` /
                           `evalFwdMethod` / `evalFwdTheta`), for an arbitrary dispatch of tasks to call sites
    * `linspacePts`, `ptsOkB`
                           the split points as numpy computes them (IEEE doubles, executed only) and
                           the executable admissibility check
  Specification side:
    * `allVoxels`, `neighborsSpec` (every in-volume voxel, tested directly), `unravel`
    * `calcRdm`            the direct RDM of a data matrix with conditions given by the event labels

  Everything (except `linspacePts`, which is `Float` by nature) is generic in the number type `α`
  (executed at `Rat`/`Float`, proved over ordered fields).
  Imports core Lean only.
-/
import Rsa.Core.Num
import Rsa.Core.Tri
import Rsa.Gen.C19

namespace Rsa.Searchlight

/-- a voxel of the volume: array indices `(x, y, z)` -/
abbrev Vox := Nat × Nat × Nat
/-- the shape of the mask -/
abbrev Shape := Nat × Nat × Nat
/-- a searchlight centre (any integer triple; the library only passes mask voxels) -/
abbrev Ctr := Int × Int × Int

def ctrOf (v : Vox) : Ctr := ((v.1 : Int), (v.2.1 : Int), (v.2.2 : Int))

/-! ### geometry -/
section geom
variable {α : Type} [IntCast α] [Add α] [Sub α] [Mul α] [Div α] [Neg α] [Zero α] [One α]
  [NatCast α] [LT α] [DecidableLT α] [LE α] [DecidableLE α] [Max α] [Min α]

/-- `x = np.arange(n); x = x[abs(x - cx) < radius]`; `test` is the comparison of that axis as
    regenerated from the source text (`Rsa.Gen.C19.absLtX/Y/Z`), applied to the coordinate and
    the centre coordinate as numbers -/
def axisPre (test : α → α → α → Bool) (n : Nat) (c : Int) (r : α) : List Nat :=
  (List.range n).filter (fun x => test (((x : Int)) : α) (c : α) r)

/-- squared Euclidean distance between a voxel and the centre (an integer) -/
def sqDist (v : Vox) (c : Ctr) : Int :=
  ((v.1 : Int) - c.1) * ((v.1 : Int) - c.1)
  + ((v.2.1 : Int) - c.2.1) * ((v.2.1 : Int) - c.2.1)
  + ((v.2.2 : Int) - c.2.2) * ((v.2.2 : Int) - c.2.2)

/-- `cdist(v, centre) < radius`, i.e. `√k < r` with `k` the (non-negative, integer) squared
    distance, written without a square root: `0 < r ∧ k < r²`
    (`Rsa.Props.C19.distLt_iff_sqrt` proves the equivalence over `ℝ`).  The comparison itself
    is the one of the source (`distance < radius`, regenerated as `Rsa.Gen.C19.radiusTest`),
    applied to the squares: squaring is strictly monotone on non-negative numbers, so for
    `0 < r` the source's operator relates `√k` and `r` exactly as it relates `k` and `r²`. -/
def distLt (k : Int) (r : α) : Bool :=
  decide ((0 : α) < r) && Rsa.Gen.C19.radiusTest (k : α) (r * r)

/-- `X, Y, Z = np.meshgrid(x, y, z); np.vstack((X.ravel(), Y.ravel(), Z.ravel())).T` -/
def grid (xs ys zs : List Nat) : List Vox :=
  ys.flatMap (fun y => xs.flatMap (fun x => zs.map (fun z => (x, y, z))))

/-- `_get_searchlight_neighbors(mask, center, radius)` as rows `(x, y, z)`, in the order returned -/
def neighborsAlgo (s : Shape) (c : Ctr) (r : α) : List Vox :=
  (grid (axisPre Rsa.Gen.C19.absLtX s.1 c.1 r) (axisPre Rsa.Gen.C19.absLtY s.2.1 c.2.1 r)
    (axisPre Rsa.Gen.C19.absLtZ s.2.2 c.2.2 r)).filter
    (fun v => distLt (sqDist v c) r)

/-- number of voxels of a volume -/
def size (s : Shape) : Nat := s.1 * s.2.1 * s.2.2

/-- `np.ravel_multi_index((x, y, z), shape)` (C order) -/
def ravel (s : Shape) (v : Vox) : Nat := (v.1 * s.2.1 + v.2.1) * s.2.2 + v.2.2

/-- `np.unravel_index(i, shape)` -/
def unravel (s : Shape) (i : Nat) : Vox := (i / (s.2.1 * s.2.2), i / s.2.2 % s.2.1, i % s.2.2)

/-- the voxels of the volume in C order (= ascending linear index) -/
def allVoxels (s : Shape) : List Vox := (List.range (size s)).map (unravel s)

/-- specification: every voxel of the volume, tested directly against the radius -/
def neighborsSpec (s : Shape) (c : Ctr) (r : α) : List Vox :=
  (allVoxels s).filter (fun v => distLt (sqDist v c) r)

/-- `mask[neighbors].mean()` for a mask given by its non-zero predicate -/
def maskFrac (m : Vox → Bool) (nb : List Vox) : α :=
  ((nb.countP m : Nat) : α) / ((nb.length : Nat) : α)

/-- `mask[neighbors].mean() >= threshold`; the mean of an empty selection is NaN and
    compares false -/
def accept (m : Vox → Bool) (nb : List Vox) (thr : α) : Bool :=
  (nb.length != 0) && Rsa.Gen.C19.acceptTest (maskFrac m nb : α) thr

/-- the accepted centres of `get_volume_searchlight`, as voxels, in the order produced -/
def goodCenters (s : Shape) (m : Vox → Bool) (r thr : α) : List Vox :=
  (allVoxels s).filter (fun c => m c && accept m (neighborsAlgo s (ctrOf c) r) thr)

/-- `get_volume_searchlight(mask, radius, threshold)` : (centers, neighbors) as linear indices -/
def volumeSearchlight (s : Shape) (m : Vox → Bool) (r thr : α) : List Nat × List (List Nat) :=
  let gc := goodCenters s m r thr
  (gc.map (ravel s), gc.map (fun c => (neighborsAlgo s (ctrOf c) r).map (ravel s)))

end geom

/-! ### scatter: rows / results written by index -/

/-- a sequence of writes `t[i] = v` -/
def scatter {γ : Type} (init : List γ) (ws : List (Nat × γ)) : List γ :=
  ws.foldl (fun t p => t.set p.1 p.2) init

/-! ### one RDM per centre, chunked or not -/

/-- `np.arange(n)[a:b]` -/
def chunk (a b n : Nat) : List Nat := List.range' a (min b n - a)

/-- `np.split(np.arange(n), pts)` continued from position `a` -/
def splitFrom (n : Nat) : Nat → List Nat → List (List Nat)
  | a, [] => [chunk a n n]
  | a, p :: ps => chunk a p n :: splitFrom n p ps

/-- `np.split(np.arange(n), pts)` -/
def splitIdx (n : Nat) (pts : List Nat) : List (List Nat) := splitFrom n 0 pts

/-- `np.linspace(0, n, 101, dtype=int)[1:-1]` in exact arithmetic (numpy computes the points
    in doubles and truncates, which for some `n` gives a point one lower; the theorems hold
    for *every* non-decreasing list of split points `≤ n`) -/
def floorPts (n : Nat) : List Nat := (List.range 99).map (fun i => (i + 1) * n / 100)

/-- `RDM[chunks, :] = rows` -/
def assignRows {γ : Type} (t : List γ) (idx : List Nat) (rows : List γ) : List γ :=
  scatter t (idx.zip rows)

/-- the table of per-centre rows built by `get_searchlight_RDMs`: `f c` is the row computed
    for centre number `c`; `zero` is the row of the pre-allocated `np.zeros` table -/
def slTable {γ : Type} (zero : γ) (f : Nat → γ) (n : Nat) (pts : List Nat) : List γ :=
  if Rsa.Gen.C19.chunked n then
    (splitIdx n pts).foldl (fun t ch => assignRows t ch (ch.map f)) (List.replicate n zero)
  else (List.range n).map f

/-- element conversion of `RDM[chunks, :] = rows` (round 4).  The pre-allocated table is
    `np.zeros(shape, <further arguments>)`; with no further argument (`Gen.C19.bufferExtraArgs = 0`,
    read off the source) it is numpy's default float64 buffer, which stores every float64 /
    float32 RDM value unchanged; with a `dtype` argument every written value passes through the
    conversion `conv` of that element type (an arbitrary parameter: truncation to an integer,
    rounding to single precision, …) -/
def bufferStore {γ : Type} (conv : γ → γ) : γ → γ :=
  if Rsa.Gen.C19.bufferExtraArgs = 0 then id else conv

/-- `slTable` with the element conversion of the buffer made explicit: only the chunked branch
    writes into a pre-allocated table, the plain branch returns `calc_rdm`'s array itself -/
def slTableStore {γ : Type} (conv : γ → γ) (zero : γ) (f : Nat → γ) (n : Nat) (pts : List Nat) :
    List γ :=
  if Rsa.Gen.C19.chunked n then
    (splitIdx n pts).foldl (fun t ch => assignRows t ch ((ch.map f).map (bufferStore conv)))
      (List.replicate n zero)
  else (List.range n).map f

/-- `data_2d[:, nb]` -/
def selectCols {α : Type} [Zero α] (data : List (List α)) (nb : List Nat) : List (List α) :=
  data.map (fun row => nb.map (fun j => row.getD j 0))

/-- `get_searchlight_RDMs(data_2d, centers, neighbors, events, method)`.dissimilarities, with
    `rdmOf sub` the RDM vector `calc_rdm(Dataset(sub, events), method, 'events')` of a
    sub-matrix and `width` the number of condition pairs -/
def slRdms {α : Type} [Zero α] (rdmOf : List (List α) → List α) (width : Nat)
    (data : List (List α)) (centers : List Nat) (neighbors : List (List Nat))
    (pts : List Nat) : List (List α) :=
  slTable (List.replicate width 0) (fun c => rdmOf (selectCols data (neighbors.getD c [])))
    centers.length pts

/-! ### parallel evaluation -/

/-- results of `n` tasks `f 0 … f (n-1)` that complete in the order `sched`, each stored in
    the slot of its task index -/
def collect {γ : Type} (n : Nat) (f : Nat → γ) (sched : List Nat) : List (Option γ) :=
  scatter (List.replicate n none) (sched.map (fun i => (i, some (f i))))

/-! ### split points as numpy computes them -/

/-- `np.linspace(0, n, 101, dtype=int)[1:-1]` **as numpy computes it**: `step = n / 100` in
    doubles, `y = arange(101) * step`, `floor`, cast to int (the first and last entries are cut
    off, so the `y[-1] = stop` fix-up of `linspace` does not matter).  IEEE doubles, so this
    definition is executed, not reasoned about; the correspondence compares it with numpy for
    every `n` of a wide range and `ptsOkB` validates the hypothesis of `chunks_partition`. -/
def linspacePts (n : Nat) : List Nat :=
  let step : Float := Float.ofNat n / Float.ofNat 100
  (List.range 99).map (fun i => (Float.floor (Float.ofNat (i + 1) * step)).toUInt64.toNat)

/-- executable check of admissibility of split points: non-decreasing and `≤ n`
    (`Rsa.Props.C19.ptsOkB_sound`: equivalent to `PtsOk`) -/
def ptsOkB (n : Nat) : List Nat → Bool
  | [] => true
  | [p] => decide (p ≤ n)
  | p :: q :: ps => decide (p ≤ q) && decide (p ≤ n) && ptsOkB n (q :: ps)

/-! ### `evaluate_models_searchlight`: one task per centre -/

/-- what `get_searchlight_RDMs` returns: the table of RDM vectors and the
    `rdm_descriptors['voxel_index']` list (= the centres handed in) -/
structure SlResult (α : Type) where
  rows : List (List α)
  voxelIndex : List Nat

/-- `get_searchlight_RDMs(...)` as the object handed on to the evaluation -/
def slResult {α : Type} [Zero α] (rdmOf : List (List α) → List α) (width : Nat)
    (data : List (List α)) (centers : List Nat) (neighbors : List (List Nat))
    (pts : List Nat) : SlResult α :=
  { rows := slRdms rdmOf width data centers neighbors pts, voxelIndex := centers }

/-- `RDMs.__getitem__(i)` for an integer `i`: row `i` of the dissimilarities with entry `i`
    of every rdm descriptor; numpy raises `IndexError` (`none`) beyond the last row -/
def getItem {α : Type} (R : SlResult α) (i : Nat) : Option (List α × Nat) :=
  match R.rows[i]?, R.voxelIndex[i]? with
  | some row, some v => some (row, v)
  | _, _ => none

/-- Python's legacy iteration protocol (`for x in obj` on a class with `__getitem__` and no
    `__iter__`): `obj[0], obj[1], …` until `IndexError` -/
def iterGet {β : Type} (get : Nat → Option β) : Nat → Nat → List β
  | 0, _ => []
  | fuel + 1, i =>
    match get i with
    | none => []
    | some x => x :: iterGet get fuel (i + 1)

/-- the task arguments built by `evaluate_models_searchlight`: `for x in sl_RDM` -/
def slTasks {α : Type} (R : SlResult α) : List (List α × Nat) :=
  iterGet (getItem R) (R.rows.length + 1) 0

/-- `evaluate_models_searchlight(sl_RDM, models, eval_function, …)`: `Parallel(n_jobs)(delayed(
    eval_function)(models, x, …) for x in sl_RDM)`; `par` is joblib (a parameter: it gets the
    task list and the function and returns the list of results, of type `γ` or — for the
    slot model `parCollect` — `Option γ`) -/
def evalSearchlight {α γ δ : Type} (par : List (List α × Nat) → (List α × Nat → γ) → List δ)
    (evalF : List α × Nat → γ) (R : SlResult α) : List δ :=
  par (slTasks R) evalF

/-- joblib as slot-per-task collection: the tasks complete in the order `sched`, each result is
    stored in the slot of its task index (`none` = a slot never filled) -/
def parCollect {τ γ : Type} (sched : List Nat) (tasks : List τ) (f : τ → γ) : List (Option γ) :=
  (collect tasks.length (fun i => (tasks[i]?).map f) sched).map Option.join

/-! ### `evaluate_models_searchlight`: the keywords every call site forwards (round 6) -/

/-- the task record: what the caller hands to `evaluate_models_searchlight` besides the RDMs
    (`models`, `method`, `theta`; `Θ` is typically an `Option`, `none` = Python's `None`) -/
structure EvalArgs (M Me Θ : Type) where
  models : M
  method : Me
  theta : Θ

/-- a keyword at a call site: forwarded (`kw=kw`: the caller's value reaches the evaluation
    function) or not mentioned (the evaluation function's own default applies) -/
def fwdKw {κ : Type} (forwarded : Bool) (given dflt : κ) : κ := if forwarded then given else dflt

/-- one call `eval_function(models, x, …)` through a call site that forwards
    `site = (method forwarded, theta forwarded)`; `dMethod`, `dTheta` are the defaults in the
    signature of the evaluation function (arbitrary) -/
def callEvalAt {M Me Θ τ γ : Type} (site : Bool × Bool) (evalFn : M → τ → Me → Θ → γ)
    (dMethod : Me) (dTheta : Θ) (a : EvalArgs M Me Θ) (x : τ) : γ :=
  evalFn a.models x (fwdKw site.1 a.method dMethod) (fwdKw site.2 a.theta dTheta)

/-- number of call sites of `eval_function` in the source of `evaluate_models_searchlight`
    (regenerated; serial / parallel paths, `partial` / `delayed` wrappers resolved) -/
def nCallSites : Nat := Rsa.Gen.C19.evalCallSites

/-- call site number `k` of the source: which of `method=method`, `theta=theta` it forwards
    (regenerated; `false` beyond the last call site: fail closed) -/
def callSite (k : Nat) : Bool × Bool := (Rsa.Gen.C19.evalFwdMethod k, Rsa.Gen.C19.evalFwdTheta k)

/-- one call of the evaluation function through call site `k` of the source -/
def callEval {M Me Θ τ γ : Type} (evalFn : M → τ → Me → Θ → γ) (dMethod : Me) (dTheta : Θ)
    (a : EvalArgs M Me Θ) (k : Nat) (x : τ) : γ :=
  callEvalAt (callSite k) evalFn dMethod dTheta a x

/-- `evaluate_models_searchlight(sl_RDM, models, eval_function, method, theta, n_jobs)` as coded,
    keywords included: one task per `x in sl_RDM`; the task of `x` in a run with `nJobs` jobs goes
    through call site `route nJobs x` (an **arbitrary** dispatch: the source may branch on
    `n_jobs` or on anything else); `par nJobs` is joblib / the serial loop (a parameter) -/
def evalSearchlightKw {α M Me Θ γ δ : Type}
    (par : Nat → List (List α × Nat) → (List α × Nat → γ) → List δ)
    (route : Nat → List α × Nat → Nat) (evalFn : M → List α × Nat → Me → Θ → γ)
    (dMethod : Me) (dTheta : Θ) (a : EvalArgs M Me Θ) (nJobs : Nat) (R : SlResult α) : List δ :=
  par nJobs (slTasks R) (fun x => callEval evalFn dMethod dTheta a (route nJobs x) x)

/-! ### the direct RDM of a data matrix (specification used by the correspondence) -/
section rdm
variable {α : Type} [Add α] [Sub α] [Mul α] [Div α] [Zero α] [One α] [NatCast α]

/-- insert into a sorted list without duplicates -/
def insertUniq (x : Int) : List Int → List Int
  | [] => [x]
  | y :: ys => if x < y then x :: y :: ys else if x = y then y :: ys else y :: insertUniq x ys

/-- `np.unique(events)` -/
def uniq (ev : List Int) : List Int := ev.foldr insertUniq []

/-- column-wise mean of the rows whose event label is `c` -/
def condMean (rows : List (List α)) (ev : List Int) (ncol : Nat) (c : Int) : List α :=
  let rs := ((rows.zip ev).filter (fun p => p.2 == c)).map (·.1)
  (List.range ncol).map (fun j => (rs.map (fun r => r.getD j 0)).sum / ((rs.length : Nat) : α))

/-- squared Euclidean distance divided by the number of channels -/
def dEuclid (a b : List α) : α :=
  (List.zipWith (fun x y => (x - y) * (x - y)) a b).sum / ((a.length : Nat) : α)

/-- correlation distance: patterns centred over channels, scaled to unit norm, `1 - ⟨a, b⟩` -/
def dCorr [HasSqrt α] (a b : List α) : α :=
  let ca := a.map (· - mean a)
  let cb := b.map (· - mean b)
  let na := ca.map (· / HasSqrt.sqrt (dot ca ca))
  let nb := cb.map (· / HasSqrt.sqrt (dot cb cb))
  1 - dot na nb

/-- symmetrised Poisson KL divergence with the library's default prior (λ = 1, weight 0.1) -/
def dPoisson [HasLog α] (a b : List α) : α :=
  let w : α := ((1 : Nat) : α) / ((10 : Nat) : α)
  let pa := a.map (fun x => (x + 1 * w) / (1 + w))
  let pb := b.map (fun x => (x + 1 * w) / (1 + w))
  (List.zipWith (fun x y => (x - y) * (HasLog.log x - HasLog.log y)) pa pb).sum
    / ((a.length : Nat) : α)

/-- RDM vector of a data matrix: condition means in `np.unique(events)` order, all pairs in
    `triu` order -/
def calcRdm (d : List α → List α → α) (ev : List Int) (sub : List (List α)) : List α :=
  let ncol := (sub.headD []).length
  let means := (uniq ev).map (condMean sub ev ncol)
  (pairsOf means).map (fun p => d p.1 p.2)

/-- `_gen_default_cv_descriptor`: the k-th observation of a condition goes to fold k -/
def occIdx (ev : List Int) : List Nat :=
  (List.range ev.length).map (fun i => ((ev.take i).filter (· == ev.getD i 0)).length)

/-- the observations (rows, labels) whose fold number satisfies `p` -/
def rowsWhere (rows : List (List α)) (ev : List Int) (occ : List Nat) (p : Nat → Bool) :
    List (List α) × List Int :=
  let z := (rows.zip (ev.zip occ)).filter (fun t => p t.2.2)
  (z.map (·.1), z.map (·.2.1))

/-- cross-validated pattern distance with identity noise: `(a₁-b₁)·(a₂-b₂) / n_channel`
    (`_calc_rdm_crossnobis_single`) -/
def dCross (tra trb tea teb : List α) : α :=
  (List.zipWith (· * ·) (vsub tra trb) (vsub tea teb)).sum / ((tra.length : Nat) : α)

/-- cross-validated Poisson KL term of `calc_rdm_poisson_cv` (prior λ = 1, weight 0.1) -/
def dPoissonCv [HasLog α] (tra trb tea teb : List α) : α :=
  let w : α := ((1 : Nat) : α) / ((10 : Nat) : α)
  let pr := fun (l : List α) => l.map (fun x => (x + 1 * w) / (1 + w))
  let lg := fun (l : List α) => (pr l).map HasLog.log
  (List.zipWith (· * ·) (vsub (pr tra) (pr trb)) (vsub (lg tea) (lg teb))).sum
    / ((tra.length : Nat) : α)

/-- RDM vector of the leave-one-fold-out estimators (`crossnobis`, `poisson_cv`) as
    `get_searchlight_RDMs` reaches them: no cv descriptor, so folds come from `occIdx`;
    unbalanced designs are rejected (the library asserts), a single fold leaves no training
    data (the library raises).  Mean over folds of the per-fold vectors. -/
def calcRdmCv (d : List α → List α → List α → List α → α) (ev : List Int)
    (sub : List (List α)) : Except String (List α) :=
  let u := uniq ev
  let counts := u.map (fun c => ev.count c)
  let reps := counts.headD 0
  if !(counts.all (· == reps)) then .error "unbalanced"
  else if reps < 2 then .error "single fold"
  else
    let occ := occIdx ev
    let ncol := (sub.headD []).length
    let perFold := (List.range reps).map (fun f =>
      let tr := rowsWhere sub ev occ (· != f)
      let te := rowsWhere sub ev occ (· == f)
      let mtr := u.map (condMean tr.1 tr.2 ncol)
      let mte := u.map (condMean te.1 te.2 ncol)
      (pairsOf (mtr.zip mte)).map (fun p => d p.1.1 p.2.1 p.1.2 p.2.2))
    .ok ((List.range (Rsa.Gen.C19.rdmWidth u.length)).map
      (fun k => (perFold.map (fun v => v.getD k 0)).sum / ((reps : Nat) : α)))

/-- number of condition pairs: `n_conds * (n_conds - 1) // 2` -/
def rdmWidth (ev : List Int) : Nat := Rsa.Gen.C19.rdmWidth (uniq ev).length

end rdm

end Rsa.Searchlight
