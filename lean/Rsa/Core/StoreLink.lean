/-
  Rsa.Core.StoreLink — (C16-specific) the objects of the C10 model (`Rsa.Rdm.Obj`) and of the C11
  model (`Rsa.Dataset.DS`) as the attribute dictionaries `Rsa.Core.Store` saves and loads.

  With these embeddings "an object produced by arbitrary structural operations" is literally an
  object of a store reachable by C10's `stepE` / a workspace reachable by C11's `applyOp`, over
  the operation alphabets of those properties (`Rsa.Rdm.Op`, `Rsa.Dataset.Op`).

  A descriptor column becomes what the library holds: a list numpy can turn into an array when
  all labels are numbers or all are strings, otherwise (labels of mixed kind, `None` entries as
  `concat` creates them for a descriptor only some of its arguments carry) a list that is no
  array — entry by entry behind the list marker (`Store.mkList`).

  No Mathlib.
-/
import Rsa.Core.Store
import Rsa.Core.Rdm
import Rsa.Core.Dataset

namespace Rsa.Store

/-- the entries `vs` keyed `str(j), str(j + 1), …` -/
def chainFrom : Nat → List Val → Val
  | _, [] => .dnil
  | j, v :: r => .dcons (indexKey j) v (chainFrom (j + 1) r)

/-- a descriptor column from its entries as Python values and as array elements -/
def colVal (entries : List Val) (el : List Atom) : Val :=
  if el.all Atom.isNum || el.all Atom.isStr then .tens .list [el.length] el
  else mkList (chainFrom 0 entries)

def ratAtom (q : Rat) : Atom := .num .float (.fin q)
def intAtom (i : Int) : Atom := .num .int (.fin (i : Rat))

/-! ### C11: datasets -/

def dsLblVal : Rsa.Dataset.Lbl → Val
  | .num q => .tens .scalar [] [ratAtom q]
  | .str s => .str s
  | .flt q => .tens .scalar [] [ratAtom q]   -- float-typed label (C11 round 3)
  | .na => .none                              -- missing entry (`None`)

def dsLblAtom : Rsa.Dataset.Lbl → Atom
  | .num q => ratAtom q
  | .str s => .str s
  | .flt q => ratAtom q
  | .na => .num .float .nan                   -- only used when the column is not an array (see `colVal`)

def ofTbl (t : Rsa.Dataset.Tbl) : Val :=
  mkDict (t.map (fun kc => (kc.1, colVal (kc.2.map dsLblVal) (kc.2.map dsLblAtom))))

def ofRow (r : Rsa.Dataset.Row) : Val := mkDict (r.map (fun kv => (kv.1, dsLblVal kv.2)))

/-- the attribute dictionary of a C11 dataset: a flat one is a `Dataset` (obs × channel, its one
    time slice), a temporal one a `TemporalDataset` (obs × channel × time) -/
def ofDS (d : Rsa.Dataset.DS Rat) : Val :=
  if d.temporal then
    mkTemporal (.tens .nd [d.nObs, d.nChan, d.nTime] ((d.meas.flatten.flatten).map ratAtom))
      (ofRow d.desc) (ofTbl d.obs) (ofTbl d.chan) (ofTbl d.time)
  else
    mkDataset (.str "Dataset") (.tens .nd [d.nObs, d.nChan] ((d.meas.flatten.flatten).map ratAtom))
      (ofRow d.desc) (ofTbl d.obs) (ofTbl d.chan)

/-! ### C10: RDMs -/

def rdmLblVal : Rsa.Rdm.Lbl → Val
  | .int i => .tens .scalar [] [intAtom i]
  | .str s => .str s
  | .arr l => .tens .nd [l.length] (l.map intAtom)
  | .none => .none

/-- is the label a scalar numpy can put into an array? (`None` and array-valued labels are not) -/
def rdmScalar : Rsa.Rdm.Lbl → Bool
  | .int _ => true
  | .str _ => true
  | _ => false

/-- the label as an array element (only used for columns of scalars) -/
def rdmLblAtom : Rsa.Rdm.Lbl → Atom
  | .int i => intAtom i
  | .str s => .str s
  | _ => .num .float .nan

def rdmColVal (col : List Rsa.Rdm.Lbl) : Val :=
  if col.all rdmScalar then colVal (col.map rdmLblVal) (col.map rdmLblAtom)
  else mkList (chainFrom 0 (col.map rdmLblVal))

def ofDesc (d : Rsa.Rdm.Desc) : Val := mkDict (d.map (fun kc => (kc.1, rdmColVal kc.2)))

def ofODesc (d : Rsa.Rdm.ODesc) : Val := mkDict (d.map (fun kv => (kv.1, rdmLblVal kv.2)))

def optNum : Option Rat → Atom
  | some q => ratAtom q
  | Option.none => .num .float .nan

/-- the attribute dictionary of a C10 RDMs object (the measure is not part of the C10 model:
    any value `meas`) -/
def ofObj (meas : Val) (o : Rsa.Rdm.Obj Rat) : Val :=
  mkRdms (.tens .nd [o.vecs.length, Rsa.triLen o.nCond] (o.vecs.flatten.map optNum))
    (ofODesc o.odesc) (ofDesc o.rdesc) (ofDesc o.pdesc) meas

end Rsa.Store
