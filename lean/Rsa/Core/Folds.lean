/-
  Rsa.Core.Folds — executable model of the cross-validation set generators
  (`inference/crossvalsets.py`), of the selection primitives they call
  (`RDMs.subset / subsample / subset_pattern`), of `evaluate._concat_sampling`
  and of the data flow of one fold of `evaluate.crossval`.

  Representation.  The input `RDMs` object is an `Obj`: `nR` RDMs and `nC` conditions,
  one grouping descriptor value (a `Nat` code) per RDM (`rdesc`) and per condition
  (`pdesc`).  Every object handed out by a generator is a `Part`: the list of *original*
  RDM positions (`rows`, with multiplicity and in the order the code produces) and of
  original condition positions (`conds`) it contains, plus the advertised `pattern_idx`
  (`pidx`).  The dissimilarities of a part are obtained from the input data by
  `extractCoded` (as coded: boolean mask over the condensed vector) or `extractSpec`
  (specification: `(pairsOf conds).map entry`).

  Generators are written in two layers, as the code is: pure index arithmetic on the
  (shuffled) list of unique descriptor values `sel` producing *value-level* folds
  (`VFold`), and `realize`, which selects RDMs / conditions by descriptor value.
  Shuffle outcomes are explicit arguments (`sel`, `psels`, `draws`).
  No Mathlib.
-/
import Rsa.Core.Tri
import Rsa.Gen.C05

namespace Rsa.Folds

/-! ### `np.unique` on descriptor codes -/

/-- insert into a strictly increasing list, dropping duplicates -/
def insertU (x : Nat) : List Nat → List Nat
  | [] => [x]
  | y :: ys => if x < y then x :: y :: ys else if x = y then y :: ys else y :: insertU x ys

/-- sorted list of the distinct members (`np.unique`) -/
def uniq (l : List Nat) : List Nat := l.foldr insertU []

/-- the descriptor values of positions `0 … n-1` -/
def descList (n : Nat) (desc : Nat → Nat) : List Nat := (List.range n).map desc

/-! ### index arithmetic of the k-fold generators -/

/-- test positions (into the list of unique values) of fold `g`: a block of `s`
    positions, plus one position taken from the end for the first `r` folds -/
def foldTestIdx (n s r g : Nat) : List Nat :=
  List.range' (g * s) s ++ (if g < r then [n - (g + 1)] else [])

/-- training positions: `np.setdiff1d(np.arange(n), test)`; the test positions
    themselves when at most one fold is requested -/
def foldTrainIdx (n k : Nat) (test : List Nat) : List Nat :=
  if k ≤ 1 then test else (List.range n).filter (fun i => !test.contains i)

/-- `[select[int(idx)] for idx in idxs]` -/
def valsAt (sel idx : List Nat) : List Nat := idx.filterMap (fun i => sel[i]?)

/-- (training values, test values) of fold `g` of a `k`-fold split of `sel`, with fold
    size `s` and `r` enlarged folds -/
def splitFold (sel : List Nat) (k s r g : Nat) : List Nat × List Nat :=
  let t := foldTestIdx sel.length s r g
  (valsAt sel (foldTrainIdx sel.length k t), valsAt sel t)

/-! ### value-level folds and their realisation on an object -/

structure Obj where
  nR : Nat
  nC : Nat
  rdesc : Nat → Nat
  pdesc : Nat → Nat

structure Part where
  rows : List Nat
  conds : List Nat
  pidx : List Nat
deriving Repr, DecidableEq, Inhabited

structure Fold where
  train : Part
  test : Part
  ceil : Option Part
deriving Repr, Inhabited

/-- which descriptor values go where; `none` = "not split along this axis" -/
structure VFold where
  rTrain : Option (List Nat)
  rTest : Option (List Nat)
  pTrain : Option (List Nat)
  pTest : Option (List Nat)
  /-- a ceiling set is returned -/
  hasCeil : Bool
  /-- RDMs selected with `subset` (position order) instead of `subsample` (value order) -/
  bySubset : Bool := false
deriving Repr, Inhabited

/-- `RDMs.subset`: positions whose descriptor value is in `value`, in position order -/
def subsetSel (n : Nat) (desc : Nat → Nat) (value : List Nat) : List Nat :=
  (List.range n).filter (fun j => value.contains (desc j))

/-- `RDMs.subsample`: for every requested value, all positions carrying it -/
def subsampleSel (n : Nat) (desc : Nat → Nat) (value : List Nat) : List Nat :=
  value.flatMap (fun v => (List.range n).filter (fun j => desc j == v))

def selRows (o : Obj) (bySubset : Bool) : Option (List Nat) → List Nat
  | none => List.range o.nR
  | some v => if bySubset then subsetSel o.nR o.rdesc v else subsampleSel o.nR o.rdesc v

/-- `RDMs.subset_pattern`: conditions whose descriptor value is in `value` -/
def selConds (o : Obj) : Option (List Nat) → List Nat
  | none => List.range o.nC
  | some v => subsetSel o.nC o.pdesc v

def mkPart (o : Obj) (bySubset : Bool) (rv pv : Option (List Nat)) : Part :=
  { rows := selRows o bySubset rv, conds := selConds o pv,
    pidx := match pv with | none => List.range o.nC | some v => v }

def realize (o : Obj) (vf : VFold) : Fold :=
  { train := mkPart o vf.bySubset vf.rTrain vf.pTrain
    test := mkPart o vf.bySubset vf.rTest vf.pTest
    ceil := if vf.hasCeil then some (mkPart o vf.bySubset vf.rTrain vf.pTest) else none }

/-! ### the generators, value level -/

/-- `sets_k_fold_pattern` -/
def kFoldPatternV (sel : List Nat) (k : Nat) : List VFold :=
  (List.range k).map fun g =>
    let tt := splitFold sel k (Rsa.Gen.C05.groupSizeKFoldPattern sel.length k)
      (Rsa.Gen.C05.additionalKFoldPattern sel.length k) g
    { rTrain := none, rTest := none, pTrain := some tt.1, pTest := some tt.2, hasCeil := false }

/-- `sets_k_fold_rdm` (training positions are always the complement) -/
def kFoldRdmV (sel : List Nat) (k : Nat) : List VFold :=
  (List.range k).map fun g =>
    let t := foldTestIdx sel.length (Rsa.Gen.C05.groupSizeKFoldRdm sel.length k)
      (Rsa.Gen.C05.additionalKFoldRdm sel.length k) g
    { rTrain := some (valsAt sel ((List.range sel.length).filter (fun i => !t.contains i))),
      rTest := some (valsAt sel t), pTrain := none, pTest := none, hasCeil := true }

/-- `sets_k_fold`: for every RDM fold a fresh pattern split (`psels` = one shuffle
    outcome of the unique pattern values per RDM fold) -/
def kFoldV (rsel : List Nat) (kr : Nat) (psels : List (List Nat)) (kp : Nat) : List VFold :=
  ((List.range kr).zip psels).flatMap fun gp =>
    let rr := splitFold rsel kr (Rsa.Gen.C05.groupSizeKFold rsel.length kr)
      (Rsa.Gen.C05.additionalKFold rsel.length kr) gp.1
    (kFoldPatternV gp.2 kp).map fun pf =>
      { pf with rTrain := some rr.1, rTest := some rr.2, hasCeil := true }

/-- `sets_random`: one (rdm shuffle, pattern shuffle) pair per repetition -/
def randomV (draws : List (List Nat × List Nat)) (nr np : Nat) : List VFold :=
  draws.map fun d =>
    { rTrain := some (if nr = 0 then d.1 else d.1.drop nr)
      rTest := some (if nr = 0 then d.1 else d.1.take nr)
      pTrain := some (if np = 0 then d.2 else d.2.drop np)
      pTest := some (if np = 0 then d.2 else d.2.take np)
      hasCeil := true }

/-- `sets_leave_one_out_pattern` -/
def looPatternV (sel : List Nat) : List VFold :=
  sel.map fun v =>
    { rTrain := none, rTest := none, pTrain := some (sel.filter (· != v)), pTest := some [v],
      hasCeil := true }

/-- `sets_leave_one_out_rdm` -/
def looRdmV (sel : List Nat) : List VFold :=
  if 1 < sel.length then
    sel.map fun v =>
      { rTrain := some (sel.filter (· != v)), rTest := some [v], pTrain := none, pTest := none,
        hasCeil := true, bySubset := true }
  else
    [{ rTrain := none, rTest := none, pTrain := none, pTest := none, hasCeil := true }]

/-! ### entry points as called (defaults, assertions) -/

inductive Err where
  | assertion | zeroDivision | index
deriving Repr, DecidableEq

def Err.name : Err → String
  | .assertion => "AssertionError"
  | .zeroDivision => "ZeroDivisionError"
  | .index => "IndexError"

def kOrDefault (k : Option Nat) (dflt : Int) : Nat :=
  match k with
  | some k => k
  | none => dflt.toNat

def setsKFoldPattern (o : Obj) (sel : List Nat) (k : Option Nat) : Except Err (List Fold) :=
  let k := kOrDefault k (Rsa.Gen.C05.defaultKPattern sel.length)
  if sel.length < k then .error .assertion
  else if k = 0 then .error .zeroDivision
  else .ok ((kFoldPatternV sel k).map (realize o))

def setsKFoldRdm (o : Obj) (sel : List Nat) (k : Option Nat) : Except Err (List Fold) :=
  let k := kOrDefault k (Rsa.Gen.C05.defaultKRdm sel.length)
  if sel.length < k then .error .assertion
  else if k = 0 then .error .zeroDivision
  else .ok ((kFoldRdmV sel k).map (realize o))

def setsKFold (o : Obj) (rsel : List Nat) (kr : Option Nat) (psels : List (List Nat))
    (nPat : Nat) (kp : Option Nat) : Except Err (List Fold) :=
  let kr := kOrDefault kr (Rsa.Gen.C05.defaultKRdm rsel.length)
  let kp := kOrDefault kp (Rsa.Gen.C05.defaultKPattern nPat)
  if rsel.length < kr then .error .assertion
  else if kr = 0 then .error .zeroDivision
  else if nPat < kp then .error .assertion
  else if kp = 0 then .error .zeroDivision
  else .ok ((kFoldV rsel kr psels kp).map (realize o))

/-- `sets_of_k_pattern`: `assert k <= len / 2`, then `n_groups` folds -/
def setsOfKPattern (o : Obj) (sel : List Nat) (k : Nat) : Except Err (List Fold) :=
  if sel.length < 2 * k then .error .assertion
  else if k = 0 then .error .zeroDivision
  else setsKFoldPattern o sel (some (Rsa.Gen.C05.nGroupsOfKPattern sel.length k))

/-- `sets_of_k_rdm` (as the property demands: the groups-of-k split over RDMs) -/
def setsOfKRdm (o : Obj) (sel : List Nat) (k : Nat) : Except Err (List Fold) :=
  if sel.length < 2 * k then .error .assertion
  else if k = 0 then .error .zeroDivision
  else setsKFoldRdm o sel (some (Rsa.Gen.C05.nGroupsOfKRdm sel.length k))

def setsRandom (o : Obj) (nRsel nPsel : Nat) (draws : List (List Nat × List Nat))
    (nr np : Option Nat) : Except Err (List Fold) :=
  let nr := match nr with
    | some n => n
    | none => Rsa.Gen.C05.randomNRdm nRsel (Rsa.Gen.C05.defaultKRdm nRsel).toNat
  let np := match np with
    | some n => n
    | none => Rsa.Gen.C05.randomNPattern nPsel (Rsa.Gen.C05.defaultKPattern nPsel).toNat
  if draws ≠ [] ∧ (nRsel < nr ∨ nPsel < np) then .error .index
  else .ok ((randomV draws nr np).map (realize o))

def setsLooPattern (o : Obj) (sel : List Nat) : List Fold := (looPatternV sel).map (realize o)
def setsLooRdm (o : Obj) (sel : List Nat) : List Fold := (looRdmV sel).map (realize o)

/-! ### contents of a handed-out object -/

section data
variable {α : Type}

/-- as coded (`subset_pattern`): keep the entries of the condensed vector both of whose
    conditions are kept -/
def maskVec (nC : Nat) (keep : Nat → Bool) (v : List α) : List α :=
  ((pairs nC).zip v).filterMap (fun pv => if keep pv.1.1 && keep pv.1.2 then some pv.2 else none)

/-- the dissimilarity rows of a part, as the code computes them from the input vectors;
    the kept conditions are those whose descriptor value is advertised in `pidx` (pattern
    generators) or all conditions (`keepAll`, RDM-only generators) -/
def extractCoded (o : Obj) (dis : Nat → List α) (keepAll : Bool) (p : Part) : List (List α) :=
  p.rows.map fun r =>
    if keepAll then dis r else maskVec o.nC (fun i => p.pidx.contains (o.pdesc i)) (dis r)

/-- specification: the part holds entry `(r, i, j)` for its rows and all pairs of its
    conditions, in the condensed order -/
def extractSpec (d : Nat → Nat → Nat → α) (p : Part) : List (List α) :=
  p.rows.map fun r => (pairsOf p.conds).map fun q => d r q.1 q.2

/-! ### one fold of `crossval` -/

/-- θ of a fold: the fitter sees the training object and the training pattern indices -/
def foldTheta {Θ : Type} (fit : List (List α) → List Nat → Θ) (d : Nat → Nat → Nat → α)
    (f : Fold) : Θ :=
  fit (extractSpec d f.train) f.train.pidx

/-- score of a fold for given θ: prediction at the test pattern indices against the test
    object -/
def foldScore {Θ S : Type} (score : Θ → List Nat → List (List α) → S) (θ : Θ)
    (d : Nat → Nat → Nat → α) (f : Fold) : S :=
  score θ f.test.pidx (extractSpec d f.test)

end data

/-- `evaluate._concat_sampling sample1 sample2` -/
def concatSampling (s1 s2 : List Nat) : List Nat :=
  s2.flatMap (fun v => s1.filter (fun x => x == v))

end Rsa.Folds
