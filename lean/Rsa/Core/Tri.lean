/-
  Rsa.Core.Tri — the condensed ("upper-triangular vector") layout of an RDM.

  `pairsOf l` enumerates the unordered pairs of a list in the order of
  `np.triu_indices(n, 1)` / `scipy.spatial.distance.squareform`: (l0,l1), (l0,l2), …, (l1,l2), …
  An RDM vector over conditions `conds` *is* `(pairsOf conds).map entry`.
-/
namespace Rsa

def pairsOf {β : Type} : List β → List (β × β)
  | [] => []
  | x :: xs => xs.map (fun y => (x, y)) ++ pairsOf xs

/-- index pairs `(i, j)`, `i < j < n`, row-major -/
def pairs (n : Nat) : List (Nat × Nat) := pairsOf (List.range n)

/-- position of the pair `(i, j)`, `i < j < n`, in `pairs n` -/
def triIdx (n i j : Nat) : Nat := i * n - i * (i + 1) / 2 + (j - i - 1)

/-- number of entries of the condensed vector -/
def triLen (n : Nat) : Nat := n * (n - 1) / 2

/-- square form of a condensed vector: symmetric, `diag` on the diagonal -/
def vecToMat {α : Type} (n : Nat) (diag : α) (dflt : α) (v : List α) : Nat → Nat → α :=
  fun i j => if i = j then diag
    else if i < j then v.getD (triIdx n i j) dflt
    else v.getD (triIdx n j i) dflt

/-- condensed form of a square matrix (upper triangle) -/
def matToVec {α : Type} (n : Nat) (m : Nat → Nat → α) : List α :=
  (pairs n).map (fun p => m p.1 p.2)

end Rsa
