/-
  Rsa.Core.Store — executable model of saving / loading rsatoolbox objects (property C16).

  What is modelled *as coded* (function by function):
    io/hdf5.py      `_write_to_group`, `_write_list`  → `encodeLeaf`, `encode`
                    `_read_group`                      → `decode`
                    `write_dict_hdf5` (existence guard, append-mode open)  → `writeDict`
    io/pkl.py       `write_dict_pkl` (adds a version key to the dict it is given) → `writeDict`
    util/file_io.py `remove_file`                      → `writeDict` (overwrite branch)
    rdm/rdms.py     `to_dict`, `rdms_from_dict` (+ `dict_to_list`, length checks, `index`)
    data/…          `to_dict`, `dataset_from_dict`
    model/model.py  `to_dict`, `model_from_dict`
    inference/result.py `to_dict`, `result_from_dict`
  What is a contract (trusted): an HDF5 group / a Python dict is a finite map with unique
  names whose listing order is unobservable (the model keeps insertion order); pickle is the
  identity on dictionaries; UTF-8 is `String.toUTF8` / `String.fromUTF8?`.

  Representation.  A Python value is a `Val`.  A dictionary is a chain `dcons k v rest` ending
  in `dnil` (this keeps `Val` an ordinary inductive type: plain structural recursion and
  induction).  An *object* (RDMs, Dataset, …) is the dictionary of its attributes, so that
  one notion of equality (`canon`) serves every kind.  Numbers are exact (`Rat`) or an IEEE
  special; they are never computed with, only moved.

  Repairs built into the model (the behaviour the property demands; the pinned tree differs,
  see notes/C16.md): string arrays are stored UTF-8 (`Codec.utf8`; `Codec.ascii` is the pinned
  `.astype('S')`), numeric tuples are stored like lists, `overwrite=True` empties any
  target (path, named handle, memory handle), a Result stores its derived variances.

  No Mathlib; imports only the generated leaves.
-/
import Rsa.Gen.C16

namespace Rsa.Store

/-! ### values -/

/-- a stored number: an exact finite value or an IEEE special -/
inductive Num where
  | fin (q : Rat) | nan | pinf | ninf | nzero
  deriving DecidableEq, Repr

/-- numpy dtype class of a number (erased by `canon`: `1 == 1.0 == True`) -/
inductive NTag where
  | int | float | bool
  deriving DecidableEq, Repr

inductive Atom where
  | num (t : NTag) (x : Num)
  | str (s : String)
  deriving DecidableEq, Repr

/-- container kind of an array-like value (erased by `canon`) -/
inductive Cont where
  | scalar | nd | list | tuple
  deriving DecidableEq, Repr

inductive Val where
  | none
  | str (s : String)
  | tens (c : Cont) (shape : List Nat) (elems : List Atom)
  | dnil
  | dcons (k : String) (v : Val) (rest : Val)
  deriving DecidableEq, Repr

inductive Err where
  | fileExists      -- ValueError('File already exists!')
  | unicode         -- UnicodeEncodeError (pinned ASCII codec only)
  | unstorable      -- value outside the storable class (mixed list, …)
  | notDict
  | keyError        -- a required key is missing
  | attrError       -- descriptor length / measurement dimension mismatch
  | badShape
  | typeError
  | valueError      -- unknown dataset type, file type not understood
  | unbound         -- model_from_dict: unknown model type / missing rdm
  | assertion       -- Result: #models ≠ evaluations.shape[1]
  | notFound        -- load from a target that holds nothing
  | badFile         -- load with the wrong file type / partially written file
  | nameExists      -- h5py: a link of that name is already in the (open, non-empty) file
  | unspecified     -- the model makes no claim (a handle that holds a file of the other type)
  deriving DecidableEq, Repr

def Atom.isNum : Atom → Bool
  | .num _ _ => true
  | .str _ => false

def Atom.isStr : Atom → Bool
  | .num _ _ => false
  | .str _ => true

def strsOf : List Atom → List String
  | [] => []
  | .str s :: r => s :: strsOf r
  | .num _ _ :: r => strsOf r

namespace Val

def isDict : Val → Bool
  | dnil => true
  | dcons _ _ _ => true
  | _ => false

/-- dictionary lookup (first match; keys of a well-formed dict are unique) -/
def get? : Val → String → Option Val
  | dcons k v r, key => if k = key then some v else r.get? key
  | _, _ => Option.none

def keys : Val → List String
  | dcons k _ r => k :: r.keys
  | _ => []

/-- `d[key] = x` : replace in place, or append at the end (Python insertion order) -/
def set : Val → String → Val → Val
  | dcons k v r, key, x => if k = key then dcons k x r else dcons k v (r.set key x)
  | dnil, key, x => dcons key x dnil
  | other, _, _ => other

def mapVals (f : Val → Val) : Val → Val
  | dcons k v r => dcons k (f v) (mapVals f r)
  | other => other

def mapValsM (f : Val → Except Err Val) : Val → Except Err Val
  | dcons k v r => do
      let v' ← f v
      let r' ← mapValsM f r
      pure (dcons k v' r')
  | other => pure other

def size : Val → Nat
  | dcons _ _ r => r.size + 1
  | _ => 0

end Val

def canonAtom : Atom → Atom
  | .num _ x => .num .float x
  | .str s => .str s

/-- canonical form: what "equal" means in the property — same keys, element-wise equal
    values, irrespective of list / array / tuple / scalar wrapping and of numeric dtype -/
def canon : Val → Val
  | .none => .none
  | .str s => .tens .nd [] [.str s]
  | .tens _ sh el => .tens .nd sh (el.map canonAtom)
  | .dnil => .dnil
  | .dcons k v r => .dcons k (canon v) (canon r)

/-- finer normal form used between writer and reader: as `canon`, but a Python `str` stays a
    `str` (both file formats return strings as strings) -/
def norm : Val → Val
  | .none => .none
  | .str s => .str s
  | .tens _ sh el => .tens .nd sh (el.map canonAtom)
  | .dnil => .dnil
  | .dcons k v r => .dcons k (norm v) (norm r)

/-! ### HDF5 side -/

inductive Codec where
  | ascii   -- pinned tree: `value.astype('S')`
  | utf8    -- repaired: `np.char.encode(value, 'utf-8')`
  deriving DecidableEq, Repr

def isAscii (s : String) : Bool := s.toList.all (fun c => c.toNat < 128)

def encStr : Codec → String → Except Err ByteArray
  | .utf8, s => .ok s.toUTF8
  | .ascii, s => if isAscii s then .ok s.toUTF8 else .error .unicode

def decStr (b : ByteArray) : Except Err String :=
  match String.fromUTF8? b with
  | some s => .ok s
  | Option.none => .error .badFile

def encStrs (c : Codec) : List String → Except Err (List ByteArray)
  | [] => .ok []
  | s :: r => do
      let b ← encStr c s
      let bs ← encStrs c r
      pure (b :: bs)

def decStrs : List ByteArray → Except Err (List String)
  | [] => .ok []
  | b :: r => do
      let s ← decStr b
      let ss ← decStrs r
      pure (s :: ss)

/-- content of an HDF5 group; attributes and links share one ordered list -/
inductive H5 where
  | empty                                          -- `Empty("f")`
  | attrStr (s : String)                           -- string attribute
  | attrArr (shape : List Nat) (l : List String)   -- attribute holding a string sequence
  | dset (shape : List Nat) (elems : List Atom)    -- numeric dataset (dtype kept)
  | dsetS (shape : List Nat) (elems : List ByteArray)  -- fixed-width bytes dataset
  | gnil
  | gcons (k : String) (item : H5) (rest : H5)

/-- `_write_to_group` / `_write_list` on one non-dict value -/
def encodeLeaf (c : Codec) : Val → Except Err H5
  | .none => .ok .empty
  | .str s => .ok (.attrStr s)
  | .tens cont sh el =>
      if el.all Atom.isNum then .ok (.dset sh el)
      else if el.all Atom.isStr then
        if cont = .tuple then .ok (.attrArr sh (strsOf el))
        else do
          let bs ← encStrs c (strsOf el)
          pure (.dsetS sh bs)
      else .error .unstorable
  | _ => .error .notDict

/-- `_write_to_group` into a fresh group -/
def encode (c : Codec) : Val → Except Err H5
  | .dnil => .ok .gnil
  | .dcons k v r => do
      let item ← (if v.isDict then encode c v else encodeLeaf c v)
      let rest ← encode c r
      pure (.gcons k item rest)
  | _ => .error .notDict

def H5.isGroup : H5 → Bool
  | .gnil => true
  | .gcons _ _ _ => true
  | _ => false

/-- `_read_group` on one non-group item -/
def decodeLeaf : H5 → Except Err Val
  | .empty => .ok .none
  | .attrStr s => .ok (.str s)
  | .attrArr sh l => .ok (.tens .nd sh (l.map Atom.str))
  | .dset sh el => .ok (.tens .nd sh el)
  | .dsetS sh bs => do
      let ss ← decStrs bs
      pure (.tens .nd sh (ss.map Atom.str))
  | _ => .error .badFile

def decode : H5 → Except Err Val
  | .gnil => .ok .dnil
  | .gcons k item rest => do
      let v ← (if item.isGroup then decode item else decodeLeaf item)
      let r ← decode rest
      pure (.dcons k v r)
  | _ => .error .badFile

/-! ### storability: exactly what `encode` accepts -/

def storableLeaf (c : Codec) : Val → Bool
  | .none => true
  | .str _ => true
  | .tens cont _ el =>
      el.all Atom.isNum ||
        (el.all Atom.isStr && (cont = .tuple || c = .utf8 || (strsOf el).all isAscii))
  | _ => false

def storable (c : Codec) : Val → Bool
  | .dnil => true
  | .dcons _ v r => (if v.isDict then storable c v else storableLeaf c v) && storable c r
  | _ => false

/-! ### the writer as coded: type dispatch through the generated leaves

`Rsa.Gen.C16.writeDispatch` is the if / elif chain of `_write_to_group` in source order over the
flags "`isinstance(value, T)` holds"; `listDispatch` is the try / except of `_write_list`.
`encodeC` follows them; `Rsa.Props.C16.encodeC_eq_encode` shows it is `encode` (so a reordered
chain, a dropped branch or a narrower `except` breaks a proof). -/

/-- name of the marker entry of a list group (see "Python lists" below) -/
def listKey : String := "rsatoolbox_list"

inductive PyType where
  | str | ndarray | list | tuple | dict | none | scalar
  deriving DecidableEq, Repr

/-- the Python type a value has when `_write_to_group` meets it -/
def pyTypeOf : Val → PyType
  | .none => .none
  | .str _ => .str
  | .tens .nd _ _ => .ndarray
  | .tens .list _ _ => .list
  | .tens .tuple _ _ => .tuple
  | .tens .scalar _ _ => .scalar
  | .dnil => .dict
  | .dcons k _ _ => if k = listKey then .list else .dict

def b2n (b : Bool) : Nat := if b then 1 else 0

/-- the branch of `_write_to_group` a value of that type takes (numbers: see harness/leaves/C16.py):
    str ⊂ Iterable, ndarray ⊂ Iterable, list ⊂ Iterable, tuple ⊂ Iterable, dict ⊂ Iterable -/
def writeBranch (t : PyType) : Nat :=
  Rsa.Gen.C16.writeDispatch (b2n (t == .str)) (b2n (t == .ndarray)) (b2n (t == .list))
    (b2n (t == .tuple)) (b2n (t == .dict)) (b2n (t == .none))
    (b2n (t == .str || t == .ndarray || t == .list || t == .tuple || t == .dict))

/-- numbers / strings of an array-like: raw dataset, or UTF-8 encoded bytes -/
def writeArray (c : Codec) (sh : List Nat) (el : List Atom) : Except Err H5 :=
  if el.all Atom.isNum then .ok (.dset sh el)
  else if el.all Atom.isStr then do
    let bs ← encStrs c (strsOf el)
    pure (.dsetS sh bs)
  else .error .unstorable

/-- `_write_list` on a list `np.array` accepts -/
def writeListC (c : Codec) (sh : List Nat) (el : List Atom) : Except Err H5 :=
  match Rsa.Gen.C16.listDispatch 0 0 0 (b2n (!el.all Atom.isNum && el.all Atom.isStr)) with
  | 1 => writeArray c sh el      -- `<U`: np.char.encode
  | 2 => writeArray c sh el      -- raw
  | _ => .error .typeError

def encodeLeafC (c : Codec) (v : Val) : Except Err H5 :=
  match writeBranch (pyTypeOf v), v with
  | 1, .str s => .ok (.attrStr s)
  | 2, .tens _ sh el => writeArray c sh el
  | 3, .tens _ sh el => writeListC c sh el
  | 5, .none => .ok .empty
  | 6, .tens _ sh el =>       -- tuple, range, …: a str sequence becomes an attribute
      if el.all Atom.isNum then writeListC c sh el
      else if el.all Atom.isStr then .ok (.attrArr sh (strsOf el))
      else .error .unstorable
  | 7, .tens _ sh el => writeArray c sh el
  | _, .dnil => .error .notDict
  | _, .dcons _ _ _ => .error .notDict
  | _, _ => .error .typeError

/-- one value of the dictionary, as coded; `sub` = the recursive call on the value -/
def itemC (c : Codec) (v : Val) (sub : Except Err H5) : Except Err H5 :=
  match writeBranch (pyTypeOf v) with
  | 4 => if v.isDict then sub else .error .typeError          -- dict: sub-group
  | 3 =>
      if v.isDict then
        -- a list that is no array: h5py's TypeError for an object array (entries that are
        -- None), numpy's ValueError for a ragged one, or an object-dtype array numpy built without
        -- complaint (entries that are equal-length object arrays): all three must reach the
        -- except clause for the per-element group to be written
        (if Rsa.Gen.C16.listDispatch 1 0 0 0 == 3 && Rsa.Gen.C16.listDispatch 0 1 0 0 == 3
            && Rsa.Gen.C16.listDispatch 0 0 1 0 == 3
         then sub else .error .unstorable)
      else encodeLeafC c v
  | _ => if v.isDict then .error .typeError else encodeLeafC c v

/-- `_write_to_group` into a fresh group, as coded -/
def encodeC (c : Codec) : Val → Except Err H5
  | .dnil => .ok .gnil
  | .dcons k v r => do
      let item ← itemC c v (encodeC c v)
      let rest ← encodeC c r
      pure (.gcons k item rest)
  | _ => .error .notDict

/-! ### writing into a group that already has members (`File(handle, 'a')` on a used handle) -/

def H5.isAttr : H5 → Bool
  | .attrStr _ => true
  | .attrArr _ _ => true
  | _ => false

/-- is there a link (dataset / sub-group) of that name? (attributes live in another name space) -/
def H5.hasLink : H5 → String → Bool
  | .gcons k item r, key => (k == key && !item.isAttr) || r.hasLink key
  | _, _ => false

def H5.hasName : H5 → String → Bool
  | .gcons k _ r, key => k == key || r.hasName key
  | _, _ => false

/-- `group.attrs[key] = x`: replaces an attribute of that name, else adds it -/
def H5.setAttr : H5 → String → H5 → H5
  | .gcons k item r, key, x =>
      if k = key ∧ item.isAttr = true then .gcons k x r else .gcons k item (r.setAttr key x)
  | .gnil, key, x => .gcons key x .gnil
  | other, _, _ => other

def H5.addLink : H5 → String → H5 → H5
  | .gcons k item r, key, x => .gcons k item (r.addLink key x)
  | .gnil, key, x => .gcons key x .gnil
  | other, _, _ => other

/-- `_write_to_group(file, dictionary)` key by key: an attribute replaces one of the same name;
    a dataset / group whose name is taken makes h5py raise — the keys written before stay -/
def writeInto (item : Val → Except Err H5) : H5 → Val → H5 × Option Err
  | g, .dnil => (g, Option.none)
  | g, .dcons k v r =>
      match item v with
      | .error e => (g, some e)
      | .ok it =>
          if it.isAttr then writeInto item (g.setAttr k it) r
          else if g.hasLink k then (g, some .nameExists)
          else writeInto item (g.addLink k it) r
  | g, _ => (g, some .notDict)

def encodeItem (c : Codec) (v : Val) : Except Err H5 :=
  if v.isDict then encode c v else encodeLeaf c v

def encodeItemC (c : Codec) (v : Val) : Except Err H5 :=
  match encodeC c (.dcons "" v .dnil) with
  | .ok (.gcons _ it _) => .ok it
  | .ok _ => .error .notDict
  | .error e => .error e

/-! ### objects ↔ dictionaries -/

def req (d : Val) (k : String) : Except Err Val :=
  match d.get? k with
  | some v => .ok v
  | Option.none => .error .keyError

/-- build a dictionary from a key/value list -/
def mkDict : List (String × Val) → Val
  | [] => .dnil
  | (k, v) :: r => .dcons k v (mkDict r)

def arange (c : Cont) (n : Nat) : Val :=
  .tens c [n] ((List.range n).map (fun (i : Nat) => Atom.num .int (.fin ((i : Int) : Rat))))

/-- `[d[key 0], d[key 1], …, d[key (len d − 1)]]`: an index-keyed dictionary (HDF5 lists its
    members alphabetically, `'10'` before `'2'`) is read by *constructed key*, never in storage
    order.  The result is the chain keyed `key 0, key 1, …` in numeric order. -/
def byIndexAux (key : Nat → String) (d : Val) : Nat → Nat → Except Err Val
  | _, 0 => .ok .dnil
  | i, n + 1 => do
      let v ← req d (key i)
      let r ← byIndexAux key d (i + 1) n
      pure (.dcons (key i) v r)

def byIndex (key : Nat → String) (d : Val) : Except Err Val := byIndexAux key d 0 d.size

/-- `str(i)` -/
def indexKey (i : Nat) : String := Nat.repr i

/-- `'model_%d' % i` -/
def modelKey (i : Nat) : String := "model_" ++ Nat.repr i

/-! A Python list that numpy cannot turn into an array (ragged, or holding `None`) is
    represented as the dictionary of its entries keyed `"0", "1", …` that *starts with a marker
    entry* `listKey ↦ length` — exactly the layout the (repaired) list fall-back of `_write_list`
    gives its group (`l_group.attrs['rsatoolbox_list'] = len(value)`), which `_read_group` turns
    back into a list.  A dictionary without the marker is a dictionary. -/

def natVal (n : Nat) : Val := .tens .scalar [] [.num .int (.fin ((n : Int) : Rat))]

def Val.isList : Val → Bool
  | .dcons k _ _ => k == listKey
  | _ => false

/-- the list with the entries `items` (keyed `"0", "1", …`) -/
def mkList (items : Val) : Val := .dcons listKey (natVal items.size) items

/-- `dict_to_list` on one value: `list(v)`; a list stays a list; an index-keyed group *without*
    the marker (written by an older version) becomes the list of its entries in numeric order -/
def toListVal : Val → Except Err Val
  | .tens _ (n :: sh) el => .ok (.tens .list (n :: sh) el)
  | .dnil => .ok (.tens .list [0] [])
  | .dcons k v r =>
      if k = listKey then .ok (.dcons k v r)
      else (byIndex indexKey (.dcons k v r)).map mkList
  | _ => .error .typeError

def dictToList (d : Val) : Except Err Val := d.mapValsM toListVal

/-- `check_descriptor_length` on one value against `n` -/
def lenOk (n : Nat) : Val → Bool
  | .tens _ (m :: _) _ => m == n
  | .tens _ [] _ => true          -- a scalar is not Iterable: accepted
  | .str _ => n == 1
  | .none => true
  | d => if d.isList then d.size == n + 1 else d.size == n   -- `len(list)` / `len(dict)`

def checkLens (n : Nat) : Val → Bool
  | .dcons _ v r => lenOk n v && checkLens n r
  | _ => true

/-- the RDMs constructor adds an `index` descriptor when there is none -/
def withIndex (n : Nat) (d : Val) : Val :=
  match d.get? "index" with
  | some _ => d
  | Option.none => d.set "index" (arange .list n)

/-- the attribute dictionary of an RDMs object -/
def mkRdms (dis desc rd pd meas : Val) : Val :=
  mkDict [("dissimilarities", dis), ("descriptors", desc), ("rdm_descriptors", rd),
          ("pattern_descriptors", pd), ("dissimilarity_measure", meas)]

/-- every value of a per-element descriptor dictionary is an array-like of length `n`, or a
    list of `n` entries that is no array (ragged, or holding `None`) -/
def elemOk (n : Nat) : Val → Bool
  | .dnil => true
  | .dcons _ (.tens _ (m :: _) _) r => m == n && elemOk n r
  | .dcons _ (.dcons k _ items) r => k == listKey && items.size == n && elemOk n r
  | _ => false

/-- what `RDMs.__init__` establishes: 2-d dissimilarities, descriptors of matching lengths,
    an `index` descriptor on both axes -/
def rdmsWF (dis rd pd : Val) : Bool :=
  match dis with
  | .tens _ [nr, np] _ =>
      elemOk nr rd && (rd.get? "index").isSome &&
      elemOk (Rsa.Gen.C16.nFromReduced np) pd && (pd.get? "index").isSome
  | _ => false

def rdmsToDict (o : Val) : Except Err Val := do
  let dis ← req o "dissimilarities"
  let desc ← req o "descriptors"
  let rd ← req o "rdm_descriptors"
  let pd ← req o "pattern_descriptors"
  let meas ← req o "dissimilarity_measure"
  pure (mkRdms dis desc rd pd meas)

/-- `rdms_from_dict` followed by `RDMs.__init__` on 2-d dissimilarities -/
def rdmsFromDict (d : Val) : Except Err Val := do
  let dis ← req d "dissimilarities"
  let desc ← req d "descriptors"
  let rd0 ← req d "rdm_descriptors"
  let rd ← dictToList rd0
  let pd0 ← req d "pattern_descriptors"
  let pd ← dictToList pd0
  let meas ← req d "dissimilarity_measure"
  match dis with
  | .tens _ [nr, np] _ =>
      let nc := Rsa.Gen.C16.nFromReduced np
      if !(checkLens nr rd) then .error .attrError
      else if !(checkLens nc pd) then .error .attrError
      else pure (mkRdms dis desc (withIndex nr rd) (withIndex nc pd) meas)
  | _ => .error .badShape

/-- the attribute dictionaries of Dataset / TemporalDataset objects (with the class name) -/
def mkDataset (ty m desc od cd : Val) : Val :=
  mkDict [("type", ty), ("measurements", m), ("descriptors", desc), ("obs_descriptors", od),
          ("channel_descriptors", cd)]

def mkTemporal (m desc od cd td : Val) : Val :=
  mkDict [("type", .str "TemporalDataset"), ("measurements", m), ("descriptors", desc),
          ("obs_descriptors", od), ("channel_descriptors", cd), ("time_descriptors", td)]

/-- what the Dataset constructors establish -/
def datasetWF (m od cd : Val) : Bool :=
  match m with
  | .tens _ [no, nch] _ => checkLens no od && checkLens nch cd
  | _ => false

def temporalWF (m od cd td : Val) : Bool :=
  match m with
  | .tens _ [no, nch, nt] _ =>
      checkLens no od && checkLens nch cd && checkLens nt td && (td.get? "time").isSome
  | _ => false

/-- `DatasetBase.to_dict` / `TemporalDataset.to_dict`; the object carries its class name -/
def datasetToDict (o : Val) : Except Err Val := do
  let ty ← req o "type"
  let m ← req o "measurements"
  let desc ← req o "descriptors"
  let od ← req o "obs_descriptors"
  let cd ← req o "channel_descriptors"
  if ty = .str "TemporalDataset" then do
    let td ← req o "time_descriptors"
    pure (mkDict [("measurements", m), ("descriptors", desc), ("obs_descriptors", od),
                  ("channel_descriptors", cd), ("time_descriptors", td), ("type", ty)])
  else
    pure (mkDict [("measurements", m), ("descriptors", desc), ("obs_descriptors", od),
                  ("channel_descriptors", cd), ("type", ty)])

/-- the class name as read back: a Python `str` or (never from these writers) a 0-d array -/
def asName : Val → Option String
  | .str s => some s
  | _ => Option.none

def datasetFromDict (d : Val) : Except Err Val := do
  let ty ← req d "type"
  match asName ty with
  | some "TemporalDataset" =>
      let m ← req d "measurements"
      let desc ← req d "descriptors"
      let od ← req d "obs_descriptors"
      let cd ← req d "channel_descriptors"
      let td ← req d "time_descriptors"
      match m with
      | .tens _ [no, nch, nt] _ =>
          if (td.get? "time").isNone then .error .valueError   -- `raise Warning`
          else if !(checkLens no od) then .error .attrError
          else if !(checkLens nch cd) then .error .attrError
          else if !(checkLens nt td) then .error .attrError
          else pure (mkTemporal m desc od cd td)
      | _ => .error .attrError
  | some tyname =>
      if tyname = "Dataset" || tyname = "DatasetBase" then do
        let m ← req d "measurements"
        let desc ← req d "descriptors"
        let od ← req d "obs_descriptors"
        let cd ← req d "channel_descriptors"
        match m with
        | .tens _ [no, nch] _ =>
            if !(checkLens no od) then .error .attrError
            else if !(checkLens nch cd) then .error .attrError
            else pure (mkDataset (.str tyname) m desc od cd)
        | _ => .error .attrError
      else .error .valueError
  | Option.none => .error .valueError

/-- the attribute dictionary of a model object -/
def mkModel (ty name rdm : Val) : Val := mkDict [("type", ty), ("name", name), ("rdm", rdm)]

/-- Python truthiness of `model_dict['rdm']` -/
def truthy : Val → Bool
  | .dcons _ _ _ => true
  | _ => false

/-- `Model.to_dict`: a model object is `{type, name, rdm}` with `rdm` an RDMs object or None -/
def modelToDict (o : Val) : Except Err Val := do
  let ty ← req o "type"
  let name ← req o "name"
  let rdm ← req o "rdm"
  let rd ← (if truthy rdm then rdmsToDict rdm else pure .none)
  pure (mkDict [("rdm", rd), ("name", name), ("type", ty)])

def modelFromDict (d : Val) : Except Err Val := do
  let rdmD ← req d "rdm"
  let rdm ← (if truthy rdmD then rdmsFromDict rdmD else pure .none)
  let ty ← req d "type"
  let name ← req d "name"
  match asName ty with
  | some "Model" => pure (mkModel ty name .none)
  | some tyname =>
      -- (`ModelFixed.__init__` keeps the RDMs object it is given as it is, `index` included,
      --  since /repo 2a099633; it used to overwrite the pattern index with `arange`)
      if tyname = "ModelFixed" || tyname = "ModelSelect" || tyname = "ModelWeighted"
          || tyname = "ModelInterpolate" then
        if !(truthy rdm) then .error .unbound
        else pure (mkModel ty name rdm)
      else .error .unbound
  | Option.none => .error .unbound

/-- the attribute dictionary of a Result object -/
def mkResult (ev dof va nc me cv nr np ms mv dv ncv : Val) : Val :=
  mkDict [("evaluations", ev), ("dof", dof), ("variances", va), ("noise_ceiling", nc),
          ("method", me), ("cv_method", cv), ("n_rdm", nr), ("n_pattern", np),
          ("models", ms), ("model_var", mv), ("diff_var", dv), ("noise_ceil_var", ncv)]

/-- `Result.to_dict` (repaired: the derived variances travel with the object).
    A result object is `{evaluations, dof, variances, noise_ceiling, method, cv_method,
    n_rdm, n_pattern, models = {model_0: …}, model_var, diff_var, noise_ceil_var}` -/
def resultToDict (o : Val) : Except Err Val := do
  let ev ← req o "evaluations"
  let dof ← req o "dof"
  let va ← req o "variances"
  let nc ← req o "noise_ceiling"
  let me ← req o "method"
  let cv ← req o "cv_method"
  let nr ← req o "n_rdm"
  let np ← req o "n_pattern"
  let ms ← req o "models"
  let msD ← ms.mapValsM modelToDict
  let mv ← req o "model_var"
  let dv ← req o "diff_var"
  let ncv ← req o "noise_ceil_var"
  pure (mkResult ev dof va nc me cv nr np msD mv dv ncv)

/-- `evaluations.shape[1]` -/
def secondDim : Val → Option Nat
  | .tens _ (_ :: m :: _) _ => some m
  | _ => Option.none

/-- `result_from_dict` (repaired).  `recompute variances n_rdm n_pattern n_model` stands for
    `extract_variances` in the constructor and is only consulted for files written without
    the derived variances. -/
def resultFromDict (recompute : Val → Val → Val → Nat → Val × Val × Val) (d : Val) :
    Except Err Val := do
  let va := (d.get? "variances").getD .none
  let dof := (d.get? "dof").getD .none
  let ev ← req d "evaluations"
  let me ← req d "method"
  let cv ← req d "cv_method"
  let nc ← req d "noise_ceiling"
  let msD ← req d "models"
  let msL ← byIndex modelKey msD          -- `result_dict['models']['model_%d' % i]`, i < len
  let ms ← msL.mapValsM modelFromDict
  let nr ← req d "n_rdm"
  let np ← req d "n_pattern"
  if secondDim ev ≠ some ms.size then .error .assertion
  else
    let (mv0, dv0, ncv0) := recompute va nr np ms.size
    let mv := (d.get? "model_var").getD mv0
    let dv := (d.get? "diff_var").getD dv0
    let ncv := (d.get? "noise_ceil_var").getD ncv0
    pure (mkResult ev dof va nc me cv nr np ms mv dv ncv)

inductive Kind where
  | rdms | dataset | model | result
  deriving DecidableEq, Repr

def noRecompute : Val → Val → Val → Nat → Val × Val × Val := fun _ _ _ _ => (.none, .none, .none)

def toDict : Kind → Val → Except Err Val
  | .rdms => rdmsToDict
  | .dataset => datasetToDict
  | .model => modelToDict
  | .result => resultToDict

def fromDict : Kind → Val → Except Err Val
  | .rdms => rdmsFromDict
  | .dataset => datasetFromDict
  | .model => modelFromDict
  | .result => resultFromDict noRecompute

/-! ### how `*_from_dict` reads the fields of the stored dictionary (as coded)

Every `*_from_dict` picks the fields out of the dictionary one by one: `d['k']` (required),
`'k' in d.keys()` / `d.get('k')` (optional, `None` when absent).  A field read through a *truth
value* (`d.get('k') or default`, `if d['k']: …`) would replace a stored `0`, `0.0`, `''`, `[]`,
`False`, 0-d `array(0)` by the default.  The generated leaves `fromDict{Result,Rdms,Dataset,Model}
field present truthy` say, per field, what the source does: `1` the stored value is used, `0` `None`,
`2` another value, `3` `KeyError`.  `fromDictC` reads the fields that way and then proceeds like
`fromDict`; `Lemmas/C16Coded` proves the two equal from the table of the leaves. -/

/-- Python truth value of a stored value (`bool(v)`): `None`, `''`, `0`, `0.0`, `-0.0`, `False`, 0-d
    `array(0)`, empty list / tuple / dict / array are false; NaN, every non-empty string, every
    non-empty list are true (an array with more than one element has no truth value: taken as true) -/
def pyTruthy : Val → Bool
  | .none => false
  | .str s => s != ""
  | .tens _ [] [.num _ (.fin q)] => q != 0
  | .tens _ [] [.num _ .nzero] => false
  | .tens _ [] [.str s] => s != ""
  | .tens _ _ [] => false
  | .tens _ _ _ => true
  | .dnil => false
  | .dcons k v r => !(k == listKey && v == natVal 0 && r == .dnil)    -- `[]` of the list form

/-- the fields `*_from_dict` reads, in the order of the generated leaves -/
def fieldNames : Kind → List String
  | .result => ["evaluations", "dof", "variances", "noise_ceiling", "method", "cv_method", "n_rdm",
                "n_pattern", "models", "model_var", "diff_var", "noise_ceil_var"]
  | .rdms => ["dissimilarities", "descriptors", "rdm_descriptors", "pattern_descriptors",
              "dissimilarity_measure"]
  | .dataset => ["type", "measurements", "descriptors", "obs_descriptors", "channel_descriptors",
                 "time_descriptors"]
  | .model => ["name", "type"]      -- (`rdm` is read by truth value on purpose: `modelFromDict`)

/-- the generated reading rule of field number `i` of kind `k` -/
def fieldRule : Kind → Nat → Nat → Nat → Nat
  | .result, i => Rsa.Gen.C16.fromDictResult i
  | .rdms, i => Rsa.Gen.C16.fromDictRdms i
  | .dataset, i => Rsa.Gen.C16.fromDictDataset i
  | .model, i => Rsa.Gen.C16.fromDictModel (i + 1)

/-- one field read as coded: the dictionary as the rest of `*_from_dict` sees it -/
def readField (rule : Nat → Nat → Nat) (d : Val) (k : String) : Except Err Val :=
  match d.get? k with
  | some v =>
      match rule 1 (b2n (pyTruthy v)) with
      | 1 => .ok d                       -- the stored value
      | 0 => .ok (d.set k .none)         -- left out
      | _ => .error .unspecified         -- replaced by a default: no longer the stored object
  | Option.none =>
      match rule 0 0 with
      | 0 => .ok d                       -- optional: `None` (the specification's reading)
      | 3 => .ok d                       -- required: the KeyError is the specification's
      | _ => .error .unspecified

def readFields (rule : Nat → Nat → Nat → Nat) : List String → Nat → Val → Except Err Val
  | [], _, d => .ok d
  | k :: ks, i, d => do
      let d' ← readField (rule i) d k
      readFields rule ks (i + 1) d'

/-- `*_from_dict` with the field accesses as coded (generated leaves) -/
def fromDictC (k : Kind) (d : Val) : Except Err Val := do
  let d' ← readFields (fieldRule k) (fieldNames k) 0 d
  fromDict k d'

/-! ### the file system -/

inductive FType where
  | hdf5 | pkl
  deriving DecidableEq, Repr

structure Target where
  isPath : Bool
  id : Nat
  name : String := ""       -- the file name of a path target (only its ending matters)
  /-- how a path target is handed over: `true` a `str`, `false` any other path object
      (`pathlib.Path`, another `os.PathLike`, a `bytes` path).  Not part of the file's identity:
      `FS.lookup` goes by `id` / `isPath` only, so the same file can be addressed either way. -/
  asStr : Bool := true
  deriving DecidableEq, Repr

/-- `isinstance(filename, str)`: what the suffix rules of the loaders test (no auto-detection of
    the file type for a path that is no `str`), and the first alternative of the existence guard
    of `write_dict_hdf5` -/
def Target.isStr (t : Target) : Bool := t.isPath && t.asStr

/-- `isinstance(fhandle, (bytes, os.PathLike))`: the other alternatives of the guard -/
def Target.isOtherPath (t : Target) : Bool := t.isPath && !t.asStr

inductive Content where
  | h5 (t : H5)
  | pkl (ds : List Val)    -- the pickles in the file, in order
  | dirty                  -- partially written: nothing is claimed about it

abbrev FS := List (Nat × Bool × Content)   -- (id, isPath, content)

def FS.lookup : FS → Target → Option Content
  | [], _ => Option.none
  | (i, p, c) :: r, t => if i = t.id ∧ p = t.isPath then some c else FS.lookup r t

def FS.erase : FS → Target → FS
  | [], _ => []
  | (i, p, c) :: r, t => if i = t.id ∧ p = t.isPath then FS.erase r t else (i, p, c) :: FS.erase r t

def FS.put (fs : FS) (t : Target) (c : Content) : FS := (t.id, t.isPath, c) :: FS.erase fs t

def versionKey : String := "rsatoolbox_version"
def versionVal : Val := .str "version"

/-- the dictionary as the writer leaves it: the pickle writer adds a version key to the
    dictionary it is handed, the HDF5 writer puts the version into a file attribute -/
def dictAfter (ft : FType) (d : Val) : Val :=
  match ft with
  | .hdf5 => d
  | .pkl => d.set versionKey versionVal

/-- `remove_file` if requested, then `write_dict_hdf5` / `write_dict_pkl`.  Parameters: `enc` the
    writer into a fresh group, `item` the writer of one value (for a group that already has
    members), `guard isStr isOtherPath exists` the existence test of `write_dict_hdf5`.
    Returns the new file system and the error if any.

    A save into an open handle that already holds something, without `overwrite`:
    * HDF5 into an HDF5 file: `File(handle, 'a')` re-opens it and `_write_to_group` *merges*
      (`writeInto`): attributes are replaced, the first dataset / group whose name is taken
      raises and what was written before stays;
    * pickle behind pickles: `pickle.dump` writes at the cursor, which is behind the first
      pickle (after a save: the end; after a load from the start: the end of the first
      pickle), so the first pickle — what every loader reads — stays;
    * a file of the other type: no claim (`unspecified`).

    Every *path* — a `str`, or a `pathlib.Path` / `os.PathLike` / `bytes` object — that exists is
    refused by the guard before the file is opened (since /repo "hdf5-guard-pathlike"; the guard
    used to test `str` only and other path objects took the route of a used handle).  Pickle:
    every path is opened `'wb'`. -/
def writeDictWith (enc item : Val → Except Err H5) (guard : Bool → Bool → Bool → Bool)
    (fs : FS) (t : Target) (ft : FType) (remove : Bool) (d : Val) : FS × Option Err :=
  let fs1 := if remove then FS.erase fs t else fs
  match ft with
  | .hdf5 =>
      match FS.lookup fs1 t with
      | some old =>
          if guard t.isStr t.isOtherPath true then (fs1, some .fileExists)   -- nothing is touched
          else match old with
            | .h5 g =>
                match writeInto item g d with
                | (g', Option.none) => (FS.put fs1 t (.h5 g'), Option.none)
                | (g', some .nameExists) => (FS.put fs1 t (.h5 g'), some .nameExists)
                | (_, some e) => (FS.put fs1 t .dirty, some e)
            | .pkl _ =>
                -- `File(path, 'a')` on an existing file that is no HDF5 file: h5py refuses to open
                -- it, nothing is touched (a handle holding pickles: no claim)
                if t.isPath then (fs1, some .badFile) else (FS.put fs1 t .dirty, some .unspecified)
            | .dirty => (FS.put fs1 t .dirty, some .unspecified)
      | Option.none =>
          match enc d with
          | .ok tree => (FS.put fs1 t (.h5 tree), Option.none)
          | .error e => (FS.put fs1 t .dirty, some e)
  | .pkl =>
      let d' := dictAfter .pkl d
      if t.isPath then (FS.put fs1 t (.pkl [d']), Option.none)   -- open(…, 'wb') truncates
      else match FS.lookup fs1 t with
        | Option.none => (FS.put fs1 t (.pkl [d']), Option.none)
        | some (.pkl (d0 :: rest)) => (FS.put fs1 t (.pkl (d0 :: (rest ++ [d']))), Option.none)
        | some _ => (FS.put fs1 t .dirty, some .unspecified)

/-- the specification: guard = "a path that exists", however the path is handed over -/
def writeDict (c : Codec) (fs : FS) (t : Target) (ft : FType) (overwrite : Bool) (d : Val) :
    FS × Option Err :=
  writeDictWith (encode c) (encodeItem c) (fun isStr isOther ex => (isStr || isOther) && ex) fs t ft overwrite d

/-- as coded: the generated dispatch and the generated guard of `write_dict_hdf5` -/
def writeDictC (c : Codec) (fs : FS) (t : Target) (ft : FType) (remove : Bool) (d : Val) :
    FS × Option Err :=
  writeDictWith (encodeC c) (encodeItemC c)
    (fun isStr isOther ex => Rsa.Gen.C16.guard (b2n isStr) (b2n isOther) (b2n ex) == 1) fs t ft remove d

/-- `load_*` without `file_type`: the suffix tests of the loader of that kind (generated);
    models have no loader of their own, the harness uses the RDMs rule -/
def detectCode (k : Kind) (name : String) : Nat :=
  let a := b2n (name.endsWith ".pkl")
  let b := b2n (name.endsWith ".h5")
  let c := b2n (name.endsWith "hdf5")
  match k with
  | .rdms => Rsa.Gen.C16.detectRdm a b c
  | .dataset => Rsa.Gen.C16.detectDataset a b c
  | .result => Rsa.Gen.C16.detectResults a b c
  | .model => Rsa.Gen.C16.detectRdm a b c

def detectType (k : Kind) (t : Target) (ft : Option FType) : Except Err FType :=
  match ft with
  | some f => .ok f
  | Option.none =>
      if t.isStr then
        match detectCode k t.name with
        | 1 => .ok .pkl
        | 2 => .ok .hdf5
        | _ => .error .valueError
      else .error .valueError

/-- `read_dict_hdf5` / `read_dict_pkl` from the start of the file -/
def readDict (k : Kind) (fs : FS) (t : Target) (ft : Option FType) : Except Err Val := do
  let f ← detectType k t ft
  match FS.lookup fs t with
  | Option.none => .error .notFound
  | some (.h5 tree) => if f = .hdf5 then decode tree else .error .badFile
  | some (.pkl (d :: _)) => if f = .pkl then .ok d else .error .badFile
  | some .dirty => .error .unspecified
  | some _ => .error .badFile

/-- the object after the writer ran: an attribute whose value is the very value the
    dictionary holds under the same name (an alias) now has whatever the writer left there -/
def viewBack (o d d' : Val) : Val :=
  match o with
  | .dcons k v r =>
      .dcons k (if d.get? k = some v then (d'.get? k).getD v else v) (viewBack r d d')
  | other => other

/-- `obj.save(target, file_type, overwrite)`; also returns the object as it is afterwards:
    `to_dict` hands the writer a fresh dictionary whose *values* are the object's own
    attribute values, so the object afterwards is read back through those aliases. -/
def save (c : Codec) (k : Kind) (fs : FS) (t : Target) (ft : FType) (overwrite : Bool) (o : Val) :
    FS × Option Err × Val :=
  match toDict k o with
  | .error e => (fs, some e, o)
  | .ok d =>
      let (fs', err) := writeDict c fs t ft overwrite d
      (fs', err, viewBack o d (dictAfter ft d))

def load (k : Kind) (fs : FS) (t : Target) (ft : Option FType) : Except Err Val := do
  let d ← readDict k fs t ft
  fromDict k d

/-- which steps `save` of that kind runs (generated from its current text): writer (2 hdf5,
    4 pkl, 0 none) + 1 if `remove_file` ran first; models have no `save`, the harness runs
    `remove_file` (if asked) and then the writer -/
def planOf (k : Kind) (ft : FType) (ov : Bool) : Nat :=
  let h := b2n (ft == .hdf5)
  let p := b2n (ft == .pkl)
  let o := b2n ov
  match k with
  | .rdms => Rsa.Gen.C16.savePlanRdms h p o
  | .dataset => Rsa.Gen.C16.savePlanDataset h p o
  | .result => Rsa.Gen.C16.savePlanResult h p o
  | .model => (if ft == .hdf5 then 2 else 4) + o

/-- `obj.save(target, file_type, overwrite)` as coded -/
def saveC (c : Codec) (k : Kind) (fs : FS) (t : Target) (ft : FType) (overwrite : Bool) (o : Val) :
    FS × Option Err × Val :=
  match toDict k o with
  | .error e => (fs, some e, o)
  | .ok d =>
      let p := planOf k ft overwrite
      let remove := p % 2 == 1
      match p / 2 with
      | 1 =>
          let (fs', err) := writeDictC c fs t .hdf5 remove d
          (fs', err, viewBack o d (dictAfter .hdf5 d))
      | 2 =>
          let (fs', err) := writeDictC c fs t .pkl remove d
          (fs', err, viewBack o d (dictAfter .pkl d))
      | _ => ((if remove then FS.erase fs t else fs), Option.none, o)

/-- the default `file_type` / `overwrite` of `save` (generated): writer code + overwrite -/
def saveDefault (k : Kind) : FType × Bool :=
  let code := match k with
    | .rdms => Rsa.Gen.C16.saveDefaultRdms
    | .dataset => Rsa.Gen.C16.saveDefaultDataset
    | .result => Rsa.Gen.C16.saveDefaultResult
    | .model => 2
  (if code / 2 == 2 then .pkl else .hdf5, code % 2 == 1)

/-! ### structural operations (the histories of C10 / C11 as far as storability goes) -/

/-- gather along the first axis of a flattened row-major array -/
def gather0 (sh : List Nat) (el : List Atom) (idx : List Nat) : List Atom :=
  let row := (sh.drop 1).foldl (· * ·) 1
  idx.flatMap (fun i => (el.drop (i * row)).take row)

/-- the value of the `i`-th entry of a chain (`None` beyond its end) -/
def Val.nth : Val → Nat → Val
  | .dcons _ v _, 0 => v
  | .dcons _ _ r, i + 1 => r.nth i
  | _, _ => .none

/-- the entries `items[idx[0]], items[idx[1]], …`, keyed `str(j), str(j + 1), …` -/
def takeItems (items : Val) : Nat → List Nat → Val
  | _, [] => .dnil
  | j, i :: r => .dcons (indexKey j) (items.nth i) (takeItems items (j + 1) r)

def takeVal (idx : List Nat) : Val → Val
  | .tens c (_ :: sh) el => .tens c (idx.length :: sh) (gather0 (0 :: sh) el idx)
  | .dcons k x items =>
      if k = listKey then mkList (takeItems items 0 idx)     -- `[v[i] for i in idx]`
      else .dcons k x items
  | v => v

/-- operations on an RDMs object that keep it an RDMs object: selection / repetition /
    reordering of RDMs (subset, subsample, sort_by, append of its own rows …), setting or
    removing a descriptor -/
inductive RdmOp where
  | takeRdms (idx : List Nat)
  | setDesc (key : String) (v : Val)
  | setMeasure (m : Val)

def applyRdmOp : RdmOp → Val → Val
  | .takeRdms idx, o =>
      match o.get? "dissimilarities", o.get? "rdm_descriptors" with
      | some (.tens c [_, np] el), some rd =>
          (o.set "dissimilarities" (.tens c [idx.length, np] (gather0 [0, np] el idx))).set
            "rdm_descriptors" (rd.mapVals (takeVal idx))
      | _, _ => o
  | .setDesc key v, o =>
      match o.get? "descriptors" with
      | some d => o.set "descriptors" (d.set key v)
      | Option.none => o
  | .setMeasure m, o => o.set "dissimilarity_measure" m

def applyRdmOps : List RdmOp → Val → Val
  | [], o => o
  | op :: r, o => applyRdmOps r (applyRdmOp op o)

end Rsa.Store
