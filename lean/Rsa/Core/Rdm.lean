/-
  Rsa.Core.Rdm — executable model of the `rsatoolbox.rdm.RDMs` container (property C10).

  Part 1 (model, "as coded"): an RDMs object is a stack of condensed vectors
  (`Option α`, `none` = NaN) with three descriptor tables.  Every structural operation is
  written with the algorithmic structure of the Python: boolean masks over the pair
  enumeration (`subset_pattern`), square-form fancy indexing followed by `squareform`
  (`reorder`, `subsample_pattern`, `permute_rdms`), scatter into a NaN matrix
  (`from_partials`), size recovery through the *generated* leaf `Gen.C10.nFromReduced`.
  Where the pinned tree has a defect the model states the repaired behaviour the property
  demands (see notes/C10.md).

  Part 2 (specification): the *provenance* view.  A symbolic object records, for every RDM
  row, which initial RDM it is and, for every condition position, which initial condition it
  holds (`none` for a padded position).  `render` turns a symbolic object into the vectors the
  property demands: the initial entry at the provenance pair, NaN when the two positions
  hold the same / an absent initial condition.

  Core Lean only (no Mathlib).
-/
import Rsa.Core.Tri
import Rsa.Gen.C10

namespace Rsa.Rdm

/-! ## labels and descriptor tables -/

/-- a descriptor value: numpy int / str, an integer array (`p_inv`), or `None` -/
inductive Lbl where
  | int (i : Int)
  | str (s : String)
  | arr (l : List Int)
  | none
  deriving DecidableEq, Repr, Inhabited

/-- the order `np.argsort` uses inside one kind (int: numeric, str: code points) -/
def Lbl.le : Lbl → Lbl → Bool
  | .int a, .int b => decide (a ≤ b)
  | .str a, .str b => decide (a ≤ b)
  | _, _ => true

/-- `astype(np.str_)` of an index value (`permute_rdms`) -/
def Lbl.toStr : Lbl → Lbl
  | .int i => .str (toString i)
  | l => l

/-- an ordered dict `name ↦ one value per row` -/
abbrev Desc := List (String × List Lbl)
/-- object-level descriptors -/
abbrev ODesc := List (String × Lbl)

def Desc.get (d : Desc) (k : String) : Option (List Lbl) := d.lookup k
def Desc.keys (d : Desc) : List String := d.map (·.1)
def Desc.has (d : Desc) (k : String) : Bool := d.keys.contains k

/-- distinct members in order of first appearance (`dict.fromkeys`, `np.unique` unsorted) -/
def uniq {β : Type} [BEq β] : List β → List β
  | [] => []
  | x :: xs => x :: (uniq xs).filter (fun y => !(y == x))

/-- replace (or append) a column, keeping the key's position (dict assignment) -/
def Desc.set (d : Desc) (k : String) (col : List Lbl) : Desc :=
  if d.has k then d.map (fun kv => if kv.1 = k then (k, col) else kv) else d ++ [(k, col)]

def ODesc.set (d : ODesc) (k : String) (v : Lbl) : ODesc :=
  if (d.map (·.1)).contains k then d.map (fun kv => if kv.1 = k then (k, v) else kv)
  else d ++ [(k, v)]

/-- `[v[i] for i in sel]` (callers check `sel` is in range first) -/
def pick {β : Type} (dflt : β) (l : List β) (sel : List Nat) : List β :=
  sel.map (fun i => l.getD i dflt)

/-- `extract_dict` / `subset_descriptor`: every column re-indexed by `sel` -/
def Desc.pick (d : Desc) (sel : List Nat) : Desc :=
  d.map (fun kv => (kv.1, Rdm.pick Lbl.none kv.2 sel))

def rangeLbl (n : Nat) : List Lbl := (List.range n).map (fun i => Lbl.int (Int.ofNat i))

/-- constructor: add the `index` descriptor if missing -/
def Desc.addIndex (d : Desc) (n : Nat) : Desc :=
  if d.has "index" then d else d ++ [("index", rangeLbl n)]

def Desc.wellShaped (d : Desc) (n : Nat) : Bool := d.all (fun kv => kv.2.length == n)

/-- positions (counted from `k`) where `p` holds, ascending -/
def idxWhereFrom {β : Type} (p : β → Bool) : Nat → List β → List Nat
  | _, [] => []
  | k, x :: xs => if p x then k :: idxWhereFrom p (k + 1) xs else idxWhereFrom p (k + 1) xs

/-- positions where `p` holds, ascending (`np.where(mask)[0]`) -/
def idxWhere {β : Type} (p : β → Bool) (l : List β) : List Nat := idxWhereFrom p 0 l

/-- `num_index(descriptor, values)`: set semantics, original order -/
def selSubset (col : List Lbl) (vals : List Lbl) : List Nat := idxWhere (fun x => vals.contains x) col

/-- `subsample`: for each requested value in turn, every position holding it -/
def selSubsample (col : List Lbl) (vals : List Lbl) : List Nat :=
  vals.flatMap (fun v => idxWhere (fun x => x == v) col)

/-- `np.sort` of an index list -/
def sortNat (l : List Nat) : List Nat := l.mergeSort (fun a b => decide (a ≤ b))

/-- `np.argsort(col, kind='stable')` -/
def argsortStable (col : List Lbl) : List Nat :=
  (col.zipIdx.mergeSort (fun a b => Lbl.le a.1 b.1)).map (·.2)

/-- repaired `sort_by(desc=[...])`: for each listed value in turn (first mention), every
    position holding it, in stable order -/
def selSortList (col : List Lbl) (method : List Lbl) : List Nat :=
  selSubsample col (uniq method)

def isPermOfRange (p : List Nat) (n : Nat) : Bool :=
  p.length == n && (List.range n).all (fun i => p.contains i)

/-- inverse permutation (`np.argsort(p)`) -/
def invPerm (p : List Nat) : List Nat := (List.range p.length).map (fun i => p.idxOf i)

/-! ## vectors and matrices of one RDM -/

section vec
variable {α : Type}

/-- `squareform(v)` with the given diagonal (`get_matrices` has 0, `subsample_pattern` NaN) -/
def matOf (n : Nat) (diag : Option α) (v : List (Option α)) : Nat → Nat → Option α :=
  vecToMat n diag none v

/-- `squareform(M[np.ix_(ord, ord)])` -/
def reindexVec (n : Nat) (diag : Option α) (ord : List Nat) (v : List (Option α)) :
    List (Option α) :=
  matToVec ord.length (fun a b => matOf n diag v (ord.getD a 0) (ord.getD b 0))

/-- `v[mask[ix] & mask[iy]]` with `ix, iy = np.triu_indices(n, 1)`: `(mask[ix], mask[iy])` is
    the pair enumeration of the mask; the combination of the two mask bits is the *generated*
    leaf `Gen.C10.pairSelected` (derived from the source's `selection_xy = … & …`) -/
def maskVec (mask : List Bool) (v : List (Option α)) : List (Option α) :=
  ((pairsOf mask).zip v).filterMap (fun mv =>
    if Rsa.Gen.C10.pairSelected mv.1.1.toNat mv.1.2.toNat == 1 then some mv.2 else Option.none)

/-- `from_partials`: `big = full(NaN); big[np.ix_(pidx, pidx)] = squareform(v); squareform(big)` -/
def scatterVec [Zero α] (n bigN : Nat) (pidx : List Nat) (v : List (Option α)) :
    List (Option α) :=
  matToVec bigN (fun a b =>
    match pidx.idxOf? a, pidx.idxOf? b with
    | some x, some y => matOf n (some 0) v x y
    | _, _ => Option.none)

end vec

/-! ## the container -/

structure Obj (α : Type) where
  nCond : Nat
  vecs : List (List (Option α))
  odesc : ODesc
  rdesc : Desc
  pdesc : Desc
  deriving Repr

section obj
variable {α : Type} [Zero α]

def Obj.nRdm (o : Obj α) : Nat := o.vecs.length

/-- `RDMs.__init__` on a 2-D array: the number of conditions is recovered from the vector
    length by the generated leaf; descriptor lengths are checked; `index` is added.
    Empty stacks are rejected (size recovery needs a row). -/
def mk2d (vecs : List (List (Option α))) (od : ODesc) (rd pd : Desc) : Option (Obj α) :=
  match vecs with
  | [] => Option.none
  | v :: _ =>
    let n := Rsa.Gen.C10.nFromReduced v.length
    if vecs.all (fun w => w.length == v.length) && rd.wellShaped vecs.length && pd.wellShaped n
    then some { nCond := n, vecs := vecs, odesc := od,
                rdesc := rd.addIndex vecs.length, pdesc := pd.addIndex n }
    else Option.none

/-- `RDMs.__init__` on a 3-D array with `n` conditions (`n_cond = x.shape[1]`), rows already
    condensed by `squareform` and written into a buffer of `Gen.C10.b2vLen n` entries (the
    *generated* leaf: `v = np.ndarray((n_rdm, int(n_cond * (n_cond - 1) / 2)))`) -/
def mk3d (n : Nat) (vecs : List (List (Option α))) (od : ODesc) (rd pd : Desc) :
    Option (Obj α) :=
  if n ≥ 1 && vecs.length ≥ 1 && vecs.all (fun w => w.length == Rsa.Gen.C10.b2vLen n)
      && rd.wellShaped vecs.length && pd.wellShaped n
  then some { nCond := n, vecs := vecs, odesc := od,
              rdesc := rd.addIndex vecs.length, pdesc := pd.addIndex n }
  else Option.none

/-- `get_matrices()` of one RDM: symmetric, zero diagonal -/
def Obj.matrix (o : Obj α) (r : Nat) : Nat → Nat → Option α :=
  matOf o.nCond (some 0) (o.vecs.getD r [])

def inRange (sel : List Nat) (n : Nat) : Bool := sel.all (fun i => decide (i < n))

/-- `rdms[idx]` for a list of row indices (an int is a one-element list) -/
def Obj.getitem (o : Obj α) (sel : List Nat) : Option (Obj α) :=
  if inRange sel o.nRdm then
    mk2d (pick [] o.vecs sel) o.odesc (o.rdesc.pick sel) o.pdesc
  else Option.none

def Obj.subset (o : Obj α) (by_ : String) (vals : List Lbl) : Option (Obj α) := do
  let col ← o.rdesc.get by_
  o.getitem (selSubset col vals)

def Obj.subsample (o : Obj α) (by_ : String) (vals : List Lbl) : Option (Obj α) := do
  let col ← o.rdesc.get by_
  o.getitem (selSubsample col vals)

/-- `subset_pattern`: mask over the pair enumeration -/
def Obj.subsetPattern (o : Obj α) (by_ : String) (vals : List Lbl) : Option (Obj α) := do
  let col ← o.pdesc.get by_
  let mask := col.map (fun x => vals.contains x)
  let sel := selSubset col vals
  if sel.isEmpty then Option.none else
  mk2d (o.vecs.map (maskVec mask)) o.odesc o.rdesc (o.pdesc.pick sel)

/-- `subsample_pattern`: NaN diagonal, sorted selection with repetitions, fancy indexing -/
def Obj.subsamplePattern (o : Obj α) (by_ : String) (vals : List Lbl) : Option (Obj α) := do
  let col ← o.pdesc.get by_
  let sel := sortNat (selSubsample col vals)
  mk3d sel.length (o.vecs.map (reindexVec o.nCond Option.none sel)) o.odesc o.rdesc
    (o.pdesc.pick sel)

/-- `reorder(new_order)` (in place); admissible orders are permutations of the positions -/
def Obj.reorder (o : Obj α) (ord : List Nat) : Option (Obj α) :=
  if isPermOfRange ord o.nCond then
    some { o with vecs := o.vecs.map (reindexVec o.nCond (some 0) ord), pdesc := o.pdesc.pick ord }
  else Option.none

def Obj.reindex (o : Obj α) (re : Bool) : Obj α :=
  if re then { o with pdesc := o.pdesc.set "index" (rangeLbl o.nCond) } else o

/-- `sort_by(desc='alpha')` -/
def Obj.sortAlpha (o : Obj α) (by_ : String) (re : Bool) : Option (Obj α) := do
  let col ← o.pdesc.get by_
  let o' ← o.reorder (argsortStable col)
  pure (o'.reindex re)

/-- `sort_by(desc=[...])`: every descriptor value must be listed and every listed value occur -/
def Obj.sortList (o : Obj α) (by_ : String) (method : List Lbl) (re : Bool) : Option (Obj α) := do
  let col ← o.pdesc.get by_
  if col.all (fun x => method.contains x) && method.all (fun x => col.contains x) then
    let o' ← o.reorder (selSortList col method)
    pure (o'.reindex re)
  else Option.none

/-- `append(rdm)` (in place): positional, the appended object's pattern descriptors ignored;
    keys of the receiver must exist in the appended object; `index` is renumbered -/
def Obj.append (o r : Obj α) : Option (Obj α) :=
  if o.nCond == r.nCond && o.rdesc.keys.all (fun k => r.rdesc.has k) then
    let rd : Desc := o.rdesc.map (fun kv => (kv.1, kv.2 ++ (r.rdesc.get kv.1).getD []))
    some { o with vecs := o.vecs ++ r.vecs,
                  rdesc := rd.set "index" (rangeLbl (o.nRdm + r.nRdm)) }
  else Option.none

/-- round 6 — `append_descriptor` as coded: the entry of the appended dictionary `arg` that is
    stacked under the receiver's key `k`.  The *generated* leaf `Gen.C10.appendByName` (derived from
    the loop `descriptor[k] = list(v) + list(desc_new[k])`) says the dictionary is read by NAME; the
    other reading a dictionary walk could have — the entry at the same POSITION — is kept as the
    alternative so that the order-freeness theorems depend on the leaf. -/
def appendGet (recv arg : Desc) (k : String) : Option (List Lbl) :=
  if Rsa.Gen.C10.appendByName = 1 then arg.get k
  else (arg[recv.keys.idxOf k]?).map (·.2)

/-- the rdm descriptors `append` leaves in the receiver: every column of the receiver extended by
    the argument's column `appendGet` names, `index` renumbered over `total` rows -/
def appendDesc (recv arg : Desc) (total : Nat) : Desc :=
  Desc.set (recv.map (fun kv => (kv.1, kv.2 ++ (appendGet recv arg kv.1).getD []))) "index"
    (rangeLbl total)

/-- `copy()` / `rdms_from_dict(to_dict())`: the same content -/
def Obj.copy (o : Obj α) : Option (Obj α) := mk2d o.vecs o.odesc o.rdesc o.pdesc

/-- `permute_rdms(rdms, p)` (repaired: every pattern descriptor is permuted) -/
def Obj.permute (o : Obj α) (p : List Nat) : Option (Obj α) :=
  if isPermOfRange p o.nCond then
    let pd := o.pdesc.pick p
    let pd := pd.map (fun kv => if kv.1 = "index" then (kv.1, kv.2.map Lbl.toStr) else kv)
    mk3d o.nCond (o.vecs.map (reindexVec o.nCond (some 0) p))
      (o.odesc.set "p_inv" (Lbl.arr ((invPerm p).map Int.ofNat))) o.rdesc pd
  else Option.none

def Obj.inversePermute (o : Obj α) : Option (Obj α) :=
  match o.odesc.lookup "p_inv" with
  | some (Lbl.arr l) => o.permute (l.map Int.toNat)
  | _ => Option.none

/-! ### merging several objects (`_merged_rdm_descriptors`, `concat`, `from_partials`) -/

def dedupStr (l : List String) : List String := uniq l

/-- object-level descriptors kept: those of the first object present with an equal value in
    every later one -/
def mergedODesc (objs : List (Obj α)) : ODesc :=
  match objs with
  | [] => []
  | o :: rest => o.odesc.filter (fun kv => rest.all (fun r => r.odesc.lookup kv.1 == some kv.2))

/-- names of the merged rdm descriptors: every rdm descriptor of every object (repaired: the
    first one included) plus the object-level descriptors that vary -/
def mergedNames (objs : List (Obj α)) : List String :=
  let kept := (mergedODesc objs).map (·.1)
  dedupStr (objs.flatMap (fun o => o.rdesc.keys) ++
    (objs.flatMap (fun o => o.odesc.map (·.1))).filter (fun k => !kept.contains k))

/-- value of merged descriptor `name` for row `r` of object `o`: its rdm descriptor, else its
    object-level descriptor, else `None` (the object has no such descriptor) -/
def mergedVal (o : Obj α) (name : String) (r : Nat) : Lbl :=
  match o.rdesc.get name with
  | some col => col.getD r Lbl.none
  | none => (o.odesc.lookup name).getD Lbl.none

/-- the merged column of descriptor `name`: object after object, row after row -/
def mergedCol (objs : List (Obj α)) (name : String) : List Lbl :=
  objs.flatMap (fun o => (List.range o.nRdm).map (mergedVal o name))

/-- `_merged_rdm_descriptors` (never fails since missing descriptors are filled with `None`;
    kept in `Option` for the callers) -/
def mergedRDesc (objs : List (Obj α)) : Option Desc :=
  let total := (objs.map (·.nRdm)).sum
  some ((mergedNames objs).map (fun name =>
    (name, if name = "index" then rangeLbl total else mergedCol objs name)))

def hasDup (l : List Lbl) : Bool := (uniq l).length != l.length

/-- the aligning pattern descriptor `concat` picks: first non-`index` one without duplicates -/
def concatTarget (o : Obj α) : Option String :=
  (o.pdesc.find? (fun kv => kv.1 != "index" && !hasDup kv.2)).map (·.1)

/-- bring `o` into the pattern order of `auth` along descriptor `t` (identity if equal) -/
def Obj.alignTo (o : Obj α) (t : String) (auth : List Lbl) : Option (Obj α) := do
  let other ← o.pdesc.get t
  if other == auth then pure o
  else if other.length == auth.length && auth.all (fun x => other.contains x) && !hasDup other
  then o.reorder (auth.map (fun x => other.idxOf x))
  else Option.none

/-- the aligning descriptor in effect: the explicit `target_pdesc` (it must be a pattern
    descriptor of the first object, else `concat` raises) or the automatic choice -/
def effTarget (first : Obj α) (tgt : Option String) : Option (Option String) :=
  match tgt with
  | some t => if first.pdesc.has t then some (some t) else Option.none
  | none => some (concatTarget first)

/-- the later arguments of `concat`, each brought into the pattern order of the first along
    the aligning descriptor `ot` (`none`: positional) -/
def alignAll (first : Obj α) (rest : List (Obj α)) (ot : Option String) : Option (List (Obj α)) :=
  match ot with
  | some t => do
      let auth ← first.pdesc.get t
      rest.mapM (fun r => r.alignTo t auth)
  | none => some rest

/-- `concat(objs)`: result and the (possibly re-aligned) arguments -/
def concatObjs (objs : List (Obj α)) (tgt : Option String) : Option (Obj α × List (Obj α)) :=
  match objs with
  | [] => Option.none
  | first :: rest => do
    let od := mergedODesc objs
    let rd ← mergedRDesc objs
    let ot ← effTarget first tgt
    if !(rest.all (fun r => r.nCond == first.nCond)) then Option.none else
    let aligned ← alignAll first rest ot
    let res ← mk2d (first.vecs ++ aligned.flatMap (·.vecs)) od
      (rd.filter (fun kv => kv.1 != "index") ++ rd.filter (fun kv => kv.1 == "index")) first.pdesc
    pure (res, first :: aligned)

/-- the full label list of `from_partials`: given, or the union in order of first appearance -/
def fpAll (allP : Option (List Lbl)) (labs : List (List Lbl)) : List Lbl :=
  match allP with
  | some a => a
  | none => uniq labs.flatten

/-- `from_partials` once the labels `labs` of the partial RDMs and the full list `all` are known -/
def fromPartialsWith (objs : List (Obj α)) (labs : List (List Lbl)) (all : List Lbl) (d : String) :
    Option (Obj α) :=
  if hasDup all || all.isEmpty then Option.none else
  if !(labs.all (fun l => l.all (fun x => all.contains x))) then Option.none else
  match mergedRDesc objs with
  | Option.none => Option.none
  | some rd =>
    let vecs := (objs.zip labs).flatMap (fun ol =>
        ol.1.vecs.map (scatterVec ol.1.nCond all.length (ol.2.map (fun x => all.idxOf x))))
    -- every row is written into a buffer of `vector_len` entries (generated leaf)
    if vecs.all (fun w => w.length == Rsa.Gen.C10.fpVectorLen all.length) then
      mk2d vecs (mergedODesc objs) rd [(d, all)]
    else Option.none

/-- `from_partials(objs, all_patterns, descriptor)` -/
def fromPartials (objs : List (Obj α)) (allP : Option (List Lbl)) (d : String) :
    Option (Obj α) :=
  if objs.isEmpty then Option.none else
  match objs.mapM (fun o => o.pdesc.get d) with
  | Option.none => Option.none
  | some labs =>
    if labs.any hasDup then Option.none else fromPartialsWith objs labs (fpAll allP labs) d

/-! ### long-form export -/

/-- one `to_df` row: value, the RDM's descriptors, the two conditions' descriptors -/
structure DfRow (α : Type) where
  value : Option α
  rdm : List (String × Lbl)
  c1 : List (String × Lbl)
  c2 : List (String × Lbl)

def Desc.row (d : Desc) (i : Nat) : List (String × Lbl) :=
  d.map (fun kv => (kv.1, kv.2.getD i Lbl.none))

/-- `rdms_to_df`: stack-major, pairs in `triu_indices` order -/
def Obj.toDf (o : Obj α) : List (DfRow α) :=
  (List.range o.nRdm).flatMap (fun r =>
    ((pairs o.nCond).zip (o.vecs.getD r [])).map (fun pv =>
      { value := pv.2, rdm := o.rdesc.row r, c1 := o.pdesc.row pv.1.1, c2 := o.pdesc.row pv.1.2 }))

end obj

/-! ## sessions: a store of objects and a sequence of operations -/

inductive Op where
  | getitem (src : Nat) (sel : List Nat)
  | subset (src : Nat) (by_ : String) (vals : List Lbl)
  | subsample (src : Nat) (by_ : String) (vals : List Lbl)
  | subsetPattern (src : Nat) (by_ : String) (vals : List Lbl)
  | subsamplePattern (src : Nat) (by_ : String) (vals : List Lbl)
  | reorder (src : Nat) (ord : List Nat)
  | sortAlpha (src : Nat) (by_ : String) (re : Bool)
  | sortList (src : Nat) (by_ : String) (method : List Lbl) (re : Bool)
  | append (src other : Nat)
  | concat (srcs : List Nat) (tgt : Option String)
  | copy (src : Nat)
  | fromPartials (srcs : List Nat) (allP : Option (List Lbl)) (d : String)
  | permute (src : Nat) (p : List Nat)
  | inversePermute (src : Nat)
  deriving Repr

section store
variable {α : Type} [Zero α]

abbrev Store (α : Type) := List (Obj α)

/-- a value-returning operation binds a new object at the end of the store -/
def bindNew (s : Store α) (o : Option (Obj α)) : Option (Store α) := o.map (fun x => s ++ [x])

/-- an in-place operation replaces exactly its receiver -/
def replaceAt (s : Store α) (i : Nat) (o : Option (Obj α)) : Option (Store α) :=
  o.map (fun x => s.set i x)

/-- write the re-aligned arguments of `concat` back (only if `concat` mutates them) -/
def writeBack (s : Store α) : List Nat → List (Obj α) → Store α
  | i :: is, o :: os => writeBack (s.set i o) is os
  | _, _ => s

/-- one operation; `none` = the library raises.  `cm` = "`concat` re-aligns its later
    arguments in place" (true on the pinned tree, false once C12's repair is applied); the
    theorems hold for both values. -/
def stepE (cm : Bool) (s : Store α) : Op → Option (Store α)
  | .getitem i sel => do let o ← s[i]?; bindNew s (o.getitem sel)
  | .subset i b v => do let o ← s[i]?; bindNew s (o.subset b v)
  | .subsample i b v => do let o ← s[i]?; bindNew s (o.subsample b v)
  | .subsetPattern i b v => do let o ← s[i]?; bindNew s (o.subsetPattern b v)
  | .subsamplePattern i b v => do let o ← s[i]?; bindNew s (o.subsamplePattern b v)
  | .reorder i ord => do let o ← s[i]?; replaceAt s i (o.reorder ord)
  | .sortAlpha i b re => do let o ← s[i]?; replaceAt s i (o.sortAlpha b re)
  | .sortList i b m re => do let o ← s[i]?; replaceAt s i (o.sortList b m re)
  | .append i j => do let o ← s[i]?; let r ← s[j]?; replaceAt s i (o.append r)
  | .concat is tgt => do
      let objs ← is.mapM (fun i => s[i]?)
      let (res, args) ← concatObjs objs tgt
      pure ((if cm then writeBack s is args else s) ++ [res])
  | .copy i => do let o ← s[i]?; bindNew s o.copy
  | .fromPartials is allP d => do
      let objs ← is.mapM (fun i => s[i]?)
      bindNew s (fromPartials objs allP d)
  | .permute i p => do let o ← s[i]?; bindNew s (o.permute p)
  | .inversePermute i => do let o ← s[i]?; bindNew s o.inversePermute

/-- a failed operation leaves the store unchanged -/
def step (cm : Bool) (s : Store α) (op : Op) : Store α := (stepE cm s op).getD s

def run (cm : Bool) (s : Store α) (ops : List Op) : Store α := ops.foldl (step cm) s

end store

/-! ## Part 2: specification — provenance

  `entryOf e a b` is what the property demands of the entry of an RDM whose initial square
  form is `e`, at two positions that hold the initial conditions `a` and `b`: the initial
  entry, NaN (`none`) if the two positions hold the *same* initial condition (two copies) or if
  one of them holds none (a position padded by `from_partials`). -/

section spec
variable {α : Type}

def entryOf (e : Nat → Nat → Option α) (a b : Option Nat) : Option α :=
  match a, b with
  | some x, some y => if x = y then Option.none else e x y
  | _, _ => Option.none

/-- the vector the property demands for an RDM with position-provenance `cp` -/
def renderVec (e : Nat → Nat → Option α) (cp : List (Option Nat)) : List (Option α) :=
  (pairsOf cp).map (fun p => entryOf e p.1 p.2)

/-- ghost of one RDM row: which initial RDM `(object, row)` it is, which initial condition each
    position holds, and whether the row is still *aligned* with the pattern descriptors of the
    object it sits in (it is after every single-source operation; `append`, `concat` (later
    arguments) and `from_partials` attach rows to descriptors of another origin) -/
structure GRow where
  src : Nat × Nat
  cp : List (Option Nat)
  al : Bool
  /-- rdm-descriptor keys whose value *at this row* is still the one the initial RDM had: every
      key of the initial object; the only operation that removes one is an `append` into a
      receiver that lacks the key (`append` keeps the receiver's keys only) -/
  rk : List String := []
  deriving Repr, Inhabited

/-- ghost of one object: its rows and, for every position, the initial `(object, condition)`
    whose pattern-descriptor values the position carries (`none`: labels made by `from_partials`) -/
structure GObj where
  rows : List GRow
  pp : List (Option (Nat × Nat))
  /-- object level: rdm-descriptor keys whose whole column is known to follow the rows (all
      initial keys; `append` keeps those tracked in both objects, `concat` / `from_partials` those
      tracked in every argument).  The row-level `GRow.rk` is the finer statement. -/
  rk : List String := []
  deriving Repr, Inhabited

def GRow.pickC (r : GRow) (sel : List Nat) : GRow := { r with cp := pick Option.none r.cp sel }
def GRow.unaligned (r : GRow) : GRow := { r with al := false }
/-- a row attached by `append` to a receiver whose rdm-descriptor keys are `keys` -/
def GRow.appended (keys : List String) (r : GRow) : GRow :=
  { r with al := false, rk := r.rk.filter (fun k => keys.contains k) }

def GObj.pickRows (g : GObj) (sel : List Nat) : GObj := { g with rows := pick default g.rows sel }
def GObj.pickConds (g : GObj) (sel : List Nat) : GObj :=
  { g with rows := g.rows.map (·.pickC sel), pp := pick Option.none g.pp sel }

/-- ghost of the `k`-th initial object with `nr` RDMs over `n` conditions and rdm-descriptor
    keys `keys` -/
def GObj.init (k nr n : Nat) (keys : List String) : GObj :=
  { rows := (List.range nr).map (fun q => ⟨(k, q), (List.range n).map some, true, keys⟩),
    pp := (List.range n).map (fun p => some (k, p)),
    rk := keys }

variable [Zero α]

/-- order that brings `o` into the label order `auth` of descriptor `t` (`none` = already) -/
def alignOrder (o : Obj α) (t : String) (auth : List Lbl) : Option (List Nat) :=
  match o.pdesc.get t with
  | some other => if other == auth then Option.none else some (auth.map (fun x => other.idxOf x))
  | none => Option.none

def GObj.alignTo (g : GObj) (ord : Option (List Nat)) : GObj :=
  match ord with
  | some ord => g.pickConds ord
  | none => g

/-- what `from_partials` does to one row's provenance: position `a` of the big RDM holds the
    condition the partial RDM has at the position of label `all[a]`, or nothing -/
def scatterCp (bigN : Nat) (pidx : List Nat) (cp : List (Option Nat)) : List (Option Nat) :=
  (List.range bigN).map (fun a => (pidx.idxOf? a).bind (fun x => cp.getD x Option.none))

/-- the orders `concat` applies to its later arguments -/
def alignOrders (first : Obj α) (rest : List (Obj α)) (ot : Option String) :
    List (Option (List Nat)) :=
  match ot with
  | some t => rest.map (fun r => alignOrder r t ((first.pdesc.get t).getD []))
  | none => rest.map (fun _ => Option.none)

/-- ghosts of the later arguments of `concat` after re-alignment -/
def galignAll (first : Obj α) (rest : List (Obj α)) (grest : List GObj) (ot : Option String) :
    List GObj :=
  (grest.zip (alignOrders first rest ot)).map (fun go => go.1.alignTo go.2)

/-- rdm-descriptor keys tracked in every one of several objects -/
def commonKeys : List GObj → List String
  | [] => []
  | g :: gs => g.rk.filter (fun k => gs.all (fun g' => g'.rk.contains k))

/-- ghost of the result of `concat` -/
def gconcat (gfirst : GObj) (aligned : List GObj) : GObj :=
  { rows := gfirst.rows ++ aligned.flatMap (fun a => a.rows.map GRow.unaligned), pp := gfirst.pp,
    rk := commonKeys (gfirst :: aligned) }

/-- ghost of the result of `from_partials` -/
def gfromPartials (gs : List GObj) (labs : List (List Lbl)) (all : List Lbl) : GObj :=
  { rows := (gs.zip labs).flatMap (fun gl =>
      gl.1.rows.map (fun r =>
        { r with cp := scatterCp all.length (gl.2.map (fun x => all.idxOf x)) r.cp, al := false })),
    pp := List.replicate all.length Option.none,
    rk := commonKeys gs }

/-- ghost of `append` into a receiver with rdm-descriptor keys `keys` -/
def gappend (keys : List String) (go gr : GObj) : GObj :=
  { go with rows := go.rows ++ gr.rows.map (GRow.appended keys),
            rk := go.rk.filter (fun k => gr.rk.contains k) }

def gwriteBack (g : List GObj) : List Nat → List GObj → List GObj
  | i :: is, o :: os => gwriteBack (g.set i o) is os
  | _, _ => g

/-- the ghost transition: which RDMs / conditions the operation *requests* -/
def gstepOk (cm : Bool) (s : Store α) (g : List GObj) : Op → Option (List GObj)
  | .getitem i sel => do let go ← g[i]?; pure (g ++ [go.pickRows sel])
  | .subset i b v => do
      let o ← s[i]?; let go ← g[i]?; let col ← o.rdesc.get b
      pure (g ++ [go.pickRows (selSubset col v)])
  | .subsample i b v => do
      let o ← s[i]?; let go ← g[i]?; let col ← o.rdesc.get b
      pure (g ++ [go.pickRows (selSubsample col v)])
  | .subsetPattern i b v => do
      let o ← s[i]?; let go ← g[i]?; let col ← o.pdesc.get b
      pure (g ++ [go.pickConds (selSubset col v)])
  | .subsamplePattern i b v => do
      let o ← s[i]?; let go ← g[i]?; let col ← o.pdesc.get b
      pure (g ++ [go.pickConds (sortNat (selSubsample col v))])
  | .reorder i ord => do let go ← g[i]?; pure (g.set i (go.pickConds ord))
  | .sortAlpha i b _ => do
      let o ← s[i]?; let go ← g[i]?; let col ← o.pdesc.get b
      pure (g.set i (go.pickConds (argsortStable col)))
  | .sortList i b m _ => do
      let o ← s[i]?; let go ← g[i]?; let col ← o.pdesc.get b
      pure (g.set i (go.pickConds (selSortList col m)))
  | .append i j => do
      let o ← s[i]?; let go ← g[i]?; let gr ← g[j]?
      pure (g.set i (gappend o.rdesc.keys go gr))
  | .concat is tgt => do
      let objs ← is.mapM (fun i => s[i]?)
      let gs ← is.mapM (fun i => g[i]?)
      match objs, gs with
      | first :: rest, gfirst :: grest =>
        let aligned := galignAll first rest grest ((effTarget first tgt).getD Option.none)
        pure ((if cm then gwriteBack g is (gfirst :: aligned) else g) ++ [gconcat gfirst aligned])
      | _, _ => Option.none
  | .copy i => do let go ← g[i]?; pure (g ++ [go])
  | .fromPartials is allP d => do
      let objs ← is.mapM (fun i => s[i]?)
      let gs ← is.mapM (fun i => g[i]?)
      let labs := objs.map (fun o => (o.pdesc.get d).getD [])
      pure (g ++ [gfromPartials gs labs (fpAll allP labs)])
  | .permute i p => do let go ← g[i]?; pure (g ++ [go.pickConds p])
  | .inversePermute i => do
      let o ← s[i]?; let go ← g[i]?
      match o.odesc.lookup "p_inv" with
      | some (Lbl.arr l) => pure (g ++ [go.pickConds (l.map Int.toNat)])
      | _ => Option.none

/-- ghost step: follows the concrete step; a rejected operation changes nothing -/
def gstep (cm : Bool) (s : Store α) (g : List GObj) (op : Op) : List GObj :=
  match stepE cm s op with
  | some _ => (gstepOk cm s g op).getD g
  | none => g

/-- ghost run -/
def grun (cm : Bool) : Store α → List GObj → List Op → List GObj
  | _, g, [] => g
  | s, g, op :: ops => grun cm (step cm s op) (gstep cm s g op) ops

end spec

/-! ## Part 3: the invariant the property states

  Relative to the initial store `s0`: every vector of every object is the rendering of its
  provenance (the initial entry at the provenance pair, NaN for two copies / a padded
  position); every pattern-descriptor value (other than the library-managed `index`) is the
  value the initial object has at the position's provenance; a row marked aligned holds, at
  every position, the very initial condition whose descriptor values the position carries. -/

section inv
variable {α : Type} [Zero α]

/-- square form of the initial RDM `src = (object, row)` -/
def initEntry (s0 : Store α) (src : Nat × Nat) : Nat → Nat → Option α :=
  match s0[src.1]? with
  | some o => o.matrix src.2
  | none => fun _ _ => Option.none

/-- `v` is the value initial object `sp.1` has for pattern descriptor `key` at condition `sp.2` -/
def PVal (s0 : Store α) (sp : Nat × Nat) (key : String) (v : Lbl) : Prop :=
  ∃ o0 col0, s0[sp.1]? = some o0 ∧ (key, col0) ∈ o0.pdesc ∧ col0[sp.2]? = some v

def PVals (s0 : Store α) (pd : Desc) (pp : List (Option (Nat × Nat))) : Prop :=
  ∀ kv ∈ pd, kv.1 ≠ "index" → ∀ (i : Nat) (sp : Nat × Nat), pp[i]? = some (some sp) →
    ∃ v, kv.2[i]? = some v ∧ PVal s0 sp kv.1 v

def Aligned (rows : List GRow) (pp : List (Option (Nat × Nat))) : Prop :=
  ∀ r ∈ rows, r.al = true → ∀ (i p : Nat), r.cp[i]? = some (some p) →
    pp[i]? = some (some (r.src.1, p))

/-- `v` is the value initial RDM `src` has for rdm descriptor `key` -/
def RVal (s0 : Store α) (src : Nat × Nat) (key : String) (v : Lbl) : Prop :=
  ∃ o0 col0, s0[src.1]? = some o0 ∧ (key, col0) ∈ o0.rdesc ∧ col0[src.2]? = some v

/-- object level: every key tracked for the whole object is present and holds, row by row, the
    initial RDM's value -/
def RValsObj (s0 : Store α) (rd : Desc) (rows : List GRow) (keys : List String) : Prop :=
  ∀ key ∈ keys, key ≠ "index" → ∃ col, rd.get key = some col ∧ col.length = rows.length ∧
    ∀ (q : Nat) (r : GRow), rows[q]? = some r → ∃ v, col[q]? = some v ∧ RVal s0 r.src key v

/-- row level: every column has one value per row, and every key a row still tracks is present
    and holds, at that row, the value the initial RDM had -/
def RowVals (s0 : Store α) (rd : Desc) (rows : List GRow) : Prop :=
  (∀ kv ∈ rd, kv.2.length = rows.length) ∧
  ∀ (q : Nat) (r : GRow), rows[q]? = some r → ∀ key ∈ r.rk, key ≠ "index" →
    ∃ col v, rd.get key = some col ∧ col[q]? = some v ∧ RVal s0 r.src key v

def RVals (s0 : Store α) (rd : Desc) (rows : List GRow) (keys : List String) : Prop :=
  RValsObj s0 rd rows keys ∧ RowVals s0 rd rows

structure ObjInv (s0 : Store α) (o : Obj α) (g : GObj) : Prop where
  ncond : 1 ≤ o.nCond
  rowsNe : g.rows ≠ []
  cpLen : ∀ r ∈ g.rows, r.cp.length = o.nCond
  ppLen : g.pp.length = o.nCond
  vecs : o.vecs = g.rows.map (fun r => renderVec (initEntry s0 r.src) r.cp)
  pshape : ∀ kv ∈ o.pdesc, kv.2.length = o.nCond
  pvals : PVals s0 o.pdesc g.pp
  aligned : Aligned g.rows g.pp
  rvals : RVals s0 o.rdesc g.rows g.rk

def StoreInv (s0 s : Store α) (g : List GObj) : Prop :=
  s.length = g.length ∧ ∀ (i : Nat) (o : Obj α) (go : GObj), s[i]? = some o → g[i]? = some go → ObjInv s0 o go

/-- what the constructor guarantees of an object -/
structure Obj.WF (o : Obj α) : Prop where
  ncond : 1 ≤ o.nCond
  nrdm : o.vecs ≠ []
  vlen : ∀ v ∈ o.vecs, v.length = triLen o.nCond
  pshape : ∀ kv ∈ o.pdesc, kv.2.length = o.nCond
  rshape : ∀ kv ∈ o.rdesc, kv.2.length = o.vecs.length

/-- ghost of an initial store -/
def ginitFrom : Nat → Store α → List GObj
  | _, [] => []
  | k, o :: os => GObj.init k o.nRdm o.nCond o.rdesc.keys :: ginitFrom (k + 1) os

def ginit (s0 : Store α) : List GObj := ginitFrom 0 s0

end inv

end Rsa.Rdm
