/-
  Rsa.Core.Noise — executable model of `rsatoolbox/data/noise.py` (property C14).

  Representation.  A *row* (one observation / residual) is a function `Nat → α` from the
  channel index to the value; only indices `< p` (the number of channels, an explicit
  argument wherever it matters) are ever read.  A residual matrix is a `List (Row α)`, a
  dataset a list of `(condition label, row)`, a channel × channel matrix a function
  `Nat → Nat → α`.  The driver converts JSON lists into these.

  Everything is written once, over a type with the syntactic operation classes only, so
  that the same terms are proved about over an ordered field (Rsa/Props/C14.lean) and
  executed at `Rat` / `Float` (Rsa/Drv/C14.lean).  Mirrors the *code*: the order of the
  operations of `_covariance_eye` / `_covariance_diag` (accumulate `xt_x`, `xt_x ** 2`;
  `s`, `b2`, `m`, `d2`, `min`; `· n / dof`; correlation scaling by `std`, `var`; clip), the
  second (global) demeaning that `cov_from_unbalanced` inherits from `_check_demean`, the
  grouping of `Dataset.get_measurements_tensor` (unique values in order of first
  appearance), and the dof leaves regenerated from the source (Rsa/Gen/C14.lean).

  Repaired behaviour stated by the model (see notes/C14.md): when the Ledoit–Wolf
  `d2` or the Schäfer–Strimmer denominator is not positive the sample covariance already
  equals its shrinkage target and is returned unshrunk (the pinned code divides 0 / 0).
-/
import Rsa.Core.Num
import Rsa.Gen.C14

namespace Rsa.Noise

abbrev Row (α : Type) := Nat → α
abbrev Mat (α : Type) := Nat → Nat → α

/-- the four values of the `method` argument -/
inductive Method where
  | full | diag | eye | sdiag
  deriving Repr, DecidableEq, Inhabited

/-- position of the method string in `METHOD_CODES` of harness/leaves/C14.py -/
def Method.code : Method → Nat
  | .full => 0 | .diag => 1 | .eye => 2 | .sdiag => 3

section model
variable {α : Type} [Add α] [Sub α] [Mul α] [Div α] [Neg α] [Zero α] [One α] [NatCast α]
variable [LT α] [DecidableLT α] [LE α] [DecidableLE α] [Max α] [Min α]


/-- `Σ_{j<p} f j` -/
def rsum (p : Nat) (f : Nat → α) : α := ((List.range p).map f).sum

/-- `Σ_{j<p} Σ_{k<p} f j k` (`np.sum` of a p × p array) -/
def rsum2 (p : Nat) (f : Nat → Nat → α) : α := rsum p (fun j => rsum p (fun k => f j k))

/-- `Σ_{j<p} Σ_{k<p, k≠j} f j k` (`np.sum(a[mask])`, `mask = ~eye`) -/
def rsumOff (p : Nat) (f : Nat → Nat → α) : α :=
  rsum p (fun j => rsum p (fun k => if j = k then 0 else f j k))

def colSum (rows : List (Row α)) (j : Nat) : α := (rows.map (fun r => r j)).sum

/-- `np.mean(matrix, axis=0)` -/
def colMean (rows : List (Row α)) (j : Nat) : α := colSum rows j / (rows.length : α)

/-- `matrix - np.mean(matrix, axis=0, keepdims=True)` -/
def demean (rows : List (Row α)) : List (Row α) :=
  rows.map (fun r => fun j => r j - colMean rows j)

/-- `s_sum = Σ_rows outer(row,row)` — also `einsum('ij,ik->jk', m, m)` -/
def gram (rows : List (Row α)) : Mat α :=
  fun j k => (rows.map (fun r => r j * r k)).sum

/-- `s2_sum = Σ_rows outer(row,row) ** 2` -/
def gram2 (rows : List (Row α)) : Mat α :=
  fun j k => (rows.map (fun r => (r j * r k) * (r j * r k))).sum

/-- `_covariance_full` (input already demeaned): the generated `einsum(...) / dof` -/
def covFullC (rows : List (Row α)) (dof : α) : Mat α :=
  fun j k => Rsa.Gen.C14.fullNorm (gram rows j k) dof

/-- `_variance`: `np.diag(einsum('ij,ij->j') / dof)`; the argument of `np.diag` is the
    derived leaf `varNorm` -/
def varianceC (rows : List (Row α)) (dof : α) : Mat α :=
  fun j k => if j = k then Rsa.Gen.C14.varNorm (gram rows j j) dof else 0

/-- Kronecker delta as a number (`np.eye`) -/
def delta (j k : Nat) : α := if j = k then 1 else 0

section ordered

/-! #### Ledoit–Wolf (`_covariance_eye`) -/

/-- `s = s_sum / matrix.shape[0]` -/
def eyeS (rows : List (Row α)) : Mat α :=
  fun j k => Rsa.Gen.C14.lwS (gram rows j k) (rows.length : α)

/-- `b2` before the `min`: `np.sum(s2_sum / n - s * s) / n` -/
def eyeB2raw (rows : List (Row α)) (p : Nat) : α :=
  Rsa.Gen.C14.lwB2
    (rsum2 p (fun j k => Rsa.Gen.C14.lwB2term (gram2 rows j k) (rows.length : α) (eyeS rows j k)))
    (rows.length : α)

/-- `m = np.sum(np.diag(s)) / s.shape[0]` -/
def eyeM (rows : List (Row α)) (p : Nat) : α :=
  Rsa.Gen.C14.lwM (rsum p (fun j => eyeS rows j j)) (p : α)

/-- `d2 = np.sum((s - m * np.eye(p)) ** 2)` -/
def eyeD2 (rows : List (Row α)) (p : Nat) : α :=
  rsum2 p (fun j k => Rsa.Gen.C14.lwD2term (eyeS rows j k) (eyeM rows p) (delta j k))

/-- `b2 = min(d2, b2)` -/
def eyeB2 (rows : List (Row α)) (p : Nat) : α :=
  Rsa.Gen.C14.lwB2min (eyeD2 rows p) (eyeB2raw rows p)

/-- the shrinkage intensity `b2 / d2`; `0` when `d2` is not positive (repaired: then
    `s` equals its target and is returned as it is) -/
def eyeLambda (rows : List (Row α)) (p : Nat) : α :=
  if 0 < eyeD2 rows p then eyeB2 rows p / eyeD2 rows p else 0

/-- one entry of `_covariance_eye` given the scalars (`b2` *before* the `min`): the statements
    of the source from `b2 = min(d2, b2)` to `return` — the guard `if d2 > 0`, the combination
    `b2/d2 * m * eye + (d2-b2)/d2 * s`, the `else: s`, and the `* n / dof` rescale after it —
    as the derived leaf `lwTail` (Rsa/Lemmas/C14 `lwTail_eq` relates it to the single-expression
    leaves `lwB2min`, `lwCombine`, `lwRescale`) -/
def covEyeEntry (s d2 b2raw m n dof : α) (j k : Nat) : α :=
  Rsa.Gen.C14.lwTail s d2 b2raw m (delta j k) n dof

/-- `_covariance_eye` as coded -/
def covEyeC (rows : List (Row α)) (dof : α) (p : Nat) : Mat α :=
  fun j k => covEyeEntry (eyeS rows j k) (eyeD2 rows p) (eyeB2raw rows p) (eyeM rows p)
    (rows.length : α) dof j k

/-! #### Schäfer–Strimmer (`_covariance_diag`) -/

variable [HasSqrt α]

/-- `s = s_sum / dof` is `covFullC`; `var = np.diag(s)`; `std = np.sqrt(var)` -/
def sdS (rows : List (Row α)) (dof : α) : Mat α :=
  fun j k => Rsa.Gen.C14.ssS (gram rows j k) dof
def sdVar (rows : List (Row α)) (dof : α) (j : Nat) : α := sdS rows dof j j
def sdStd (rows : List (Row α)) (dof : α) (j : Nat) : α := HasSqrt.sqrt (sdVar rows dof j)

/-- `s_mean = s_sum / std[None,:] / std[:,None] / (n - 1)` -/
def sdSMean (rows : List (Row α)) (dof : α) : Mat α :=
  fun j k => Rsa.Gen.C14.ssSMean (gram rows j k) (sdStd rows dof k) (sdStd rows dof j)
    (rows.length : α)

/-- `s2_mean = s2_sum / var[None,:] / var[:,None] / (n - 1)` -/
def sdS2Mean (rows : List (Row α)) (dof : α) : Mat α :=
  fun j k => Rsa.Gen.C14.ssS2Mean (gram2 rows j k) (sdVar rows dof k) (sdVar rows dof j)
    (rows.length : α)

/-- `var_hat = n / dof ** 2 * (s2_mean - s_mean ** 2)` -/
def sdVarHat (rows : List (Row α)) (dof : α) : Mat α :=
  fun j k => Rsa.Gen.C14.ssVarHat (rows.length : α) dof (sdS2Mean rows dof j k) (sdSMean rows dof j k)

def sdNum (rows : List (Row α)) (dof : α) (p : Nat) : α := rsumOff p (sdVarHat rows dof)
def sdDen (rows : List (Row α)) (dof : α) (p : Nat) : α :=
  rsumOff p (fun j k => Rsa.Gen.C14.ssDenTerm (sdSMean rows dof j k))

/-- some channel has no positive variance (a constant channel: `var = 0`, `std = 0`).  In
    the source the correlation entries of that channel are then `0 / 0 = NaN`, the sums
    `np.sum(var_hat[mask])`, `np.sum(s_mean[mask] ** 2)` are NaN and the guard `denom > 0`
    is False.  The model's number types have no NaN, so this IEEE path is made explicit. -/
def sdDegenerate (rows : List (Row α)) (dof : α) (p : Nat) : Bool :=
  (List.range p).any (fun j => !(decide (0 < sdVar rows dof j)))

/-- the two reductions as the guard sees them: `(num, denom)`, and `(0, 0)` standing for
    the NaN pair (both make `denom > 0` False) when a channel is constant -/
def sdNumG (rows : List (Row α)) (dof : α) (p : Nat) : α :=
  if sdDegenerate rows dof p then 0 else sdNum rows dof p
def sdDenG (rows : List (Row α)) (dof : α) (p : Nat) : α :=
  if sdDegenerate rows dof p then 0 else sdDen rows dof p

/-- the shrinkage intensity: the guard statement of the source
    `if denom > 0: lamb = max(min(num / denom, 1), 0) else: lamb = 0.` (derived leaf) -/
def sdLambda (rows : List (Row α)) (dof : α) (p : Nat) : α :=
  Rsa.Gen.C14.ssLambda (sdNumG rows dof p) (sdDenG rows dof p)

/-- one entry of `_covariance_diag` given the two reductions: the source from the guard to
    `return` (`scaling = eye + (1 - lamb) * mask`, `s * scaling`) as the derived leaf `ssTail`;
    `mask = ~eye` is the derived `ssMask` -/
def covSDiagEntry (s num den : α) (j k : Nat) : α :=
  Rsa.Gen.C14.ssTail num den s (delta j k) (Rsa.Gen.C14.ssMask (delta j k))

/-- `_covariance_diag` as coded -/
def covSDiagC (rows : List (Row α)) (dof : α) (p : Nat) : Mat α :=
  fun j k => covSDiagEntry (sdS rows dof j k) (sdNumG rows dof p) (sdDenG rows dof p) j k

/-! #### `_estimate_covariance` and the three entry points -/

/-- the estimator functions by their code (order of `ESTIMATOR_CODES` in harness/leaves/C14.py:
    `_covariance_full`, `_variance`, `_covariance_eye`, `_covariance_diag`) -/
def estimatorByCode (c : Nat) (rows : List (Row α)) (dof : α) (p : Nat) : Mat α :=
  match c with
  | 0 => covFullC rows dof
  | 1 => varianceC rows dof
  | 2 => covEyeC rows dof p
  | 3 => covSDiagC rows dof p
  | _ => fun _ _ => 0

/-- the method dispatch of `_estimate_covariance` on an already demeaned matrix: the
    `if method == ...` chain of the source as the derived table `dispatch` -/
def estimateC (m : Method) (rows : List (Row α)) (dof : α) (p : Nat) : Mat α :=
  estimatorByCode (Rsa.Gen.C14.dispatch m.code) rows dof p

/-- `if dof is None: dof = dof_nat` of `_estimate_covariance` (derived, two specialisations) -/
def dofPick (dof : Option α) (nat : α) : α :=
  match dof with
  | none => Rsa.Gen.C14.dofChoiceNone nat
  | some d => Rsa.Gen.C14.dofChoiceSome d nat

/-- `if dof is None: dof = matrix.shape[0] - len(values)` of `cov_from_unbalanced` -/
def dofPickUnb (dof : Option α) (n c : Nat) : α :=
  match dof with
  | none => Rsa.Gen.C14.dofUnbChoiceNone n c
  | some d => Rsa.Gen.C14.dofUnbChoiceSome d n c

/-- `_estimate_covariance` on a 2-D matrix: `_check_demean` (global mean, natural dof
    `n - 1` from the source text) then the dispatch; `dof = none` is Python's `None`. -/
def estimate2 (m : Method) (rows : List (Row α)) (dof : Option α) (p : Nat) : Mat α :=
  estimateC m (demean rows)
    (dofPick dof ((Rsa.Gen.C14.dofResiduals rows.length : Nat) : α)) p

/-- `cov_from_residuals` on one matrix -/
def covFromResiduals (m : Method) (rows : List (Row α)) (dof : Option α) (p : Nat) : Mat α :=
  estimate2 m rows dof p

end ordered
end model

/-! ### Datasets -/

/-- unique values in order of first appearance (`get_unique_unsorted`, and the first
    component of `get_unique_inverse`) -/
def uniq : List Nat → List Nat
  | [] => []
  | a :: l => a :: (uniq l).filter (fun b => b != a)

section dataset
variable {α : Type}

abbrev Obs (α : Type) := Nat × Row α

def labels (obs : List (Obs α)) : List Nat := obs.map (·.1)

/-- rows of one condition, in dataset order (`measurements[selection, :]`) -/
def groupRows (obs : List (Obs α)) (v : Nat) : List (Row α) :=
  (obs.filter (fun o => o.1 == v)).map (·.2)

/-- `get_measurements_tensor`: one block of rows per unique value -/
def groups (obs : List (Obs α)) : List (List (Row α)) :=
  (uniq (labels obs)).map (groupRows obs)

/-- `np.stack` needs equally many rows per condition: `some R` if so (and there is at
    least one condition), else `none` (the library raises `ValueError`) -/
def balancedR (gs : List (List (Row α))) : Option Nat :=
  match gs with
  | [] => none
  | g :: rest => if rest.all (fun h => h.length == g.length) then some g.length else none

variable [Add α] [Sub α] [Mul α] [Div α] [Neg α] [Zero α] [One α] [NatCast α]
variable [LT α] [DecidableLT α] [LE α] [DecidableLE α] [Max α] [Min α] [HasSqrt α]

/-- 3-D branch of `_check_demean`: mean over repetitions within each condition, then
    `transpose(0,2,1).reshape(C*R, P)` = the blocks one after the other -/
def demean3 (gs : List (List (Row α))) : List (Row α) := gs.flatMap demean

/-- `cov_from_measurements` on one dataset; `none` = `ValueError` of `np.stack` -/
def covFromMeasurements (m : Method) (obs : List (Obs α)) (dof : Option α) (p : Nat) :
    Option (Mat α) :=
  match balancedR (groups obs) with
  | none => none
  | some R =>
    some (estimateC m (demean3 (groups obs))
      (dofPick dof ((Rsa.Gen.C14.dofTensor (groups obs).length R : Nat) : α)) p)

/-- `matrix -= means[inverse]` : every observation minus the mean of its own condition,
    in dataset order -/
def residUnb (obs : List (Obs α)) : List (Row α) :=
  obs.map (fun o => fun j => o.2 j - colMean (groupRows obs o.1) j)

/-- `cov_from_unbalanced` on one dataset, as coded: the residuals go through
    `_estimate_covariance`, i.e. are demeaned a second time (globally). -/
def covFromUnbalanced (m : Method) (obs : List (Obs α)) (dof : Option α) (p : Nat) : Mat α :=
  estimateC m (demean (residUnb obs))
    (dofPick (some (dofPickUnb dof obs.length (uniq (labels obs)).length))
      ((Rsa.Gen.C14.dofResiduals obs.length : Nat) : α)) p

/-! ### List inputs -/

/-- the `dof` argument: `None`, a number, or an iterable of numbers -/
inductive DofArg (α : Type) where
  | none
  | scalar (d : α)
  | list (ds : List α)

/-- the dof handed to element `i`; `none` (outer) = `IndexError` for a short list -/
def DofArg.at (d : DofArg α) (i : Nat) : Option (Option α) :=
  match d with
  | .none => some Option.none
  | .scalar x => some (some x)
  | .list ds => (ds[i]?).map some

/-- list branch of `cov_from_residuals` (repaired: element `i` is estimated from
    *its own* residual matrix with `dof[i]`) -/
def covFromResidualsList (m : Method) (rs : List (List (Row α))) (d : DofArg α) (p : Nat) :
    List (Option (Mat α)) :=
  (List.range rs.length).map (fun i =>
    match rs[i]?, d.at i with
    | some r, some di => some (covFromResiduals m r di p)
    | _, _ => Option.none)

/-- list branch of `cov_from_unbalanced` and of `cov_from_measurements` (which also
    delegates every element to `cov_from_unbalanced`) -/
def covFromDatasetList (m : Method) (dss : List (List (Obs α))) (d : DofArg α) (p : Nat) :
    List (Option (Mat α)) :=
  (List.range dss.length).map (fun i =>
    match dss[i]?, d.at i with
    | some ds, some di => some (covFromUnbalanced m ds di p)
    | _, _ => Option.none)

end dataset

/-! ### Sessions on one `Dataset` object (round 4)

  A dataset object lives on between estimator calls and is changed in place in between:
  `Dataset.sort_by(by)` (stable argsort of one observation descriptor, applied to the
  measurements and to *every* descriptor), a direct store into `obs_descriptors[d][i]` or
  into `measurements[i, j]`.  The property speaks about *the dataset*, i.e. about the content
  the object has at the moment of the call: the model of a session therefore threads the
  content through the steps and hands every estimator call the current content — there is no
  other state (no memo of an earlier row grouping).  An observation carries the values of all
  its descriptors (`List Nat`, descriptor `d` = position `d`) and its row. -/

section session
variable {α : Type}

/-- one observation: the values of all observation descriptors, and the measurement row -/
abbrev SObs (α : Type) := List Nat × Row α

/-- value of descriptor `d` of an observation -/
def descOf (d : Nat) (o : SObs α) : Nat := o.1[d]?.getD 0

/-- what an estimator called with `obs_desc = d` reads from the object -/
def view (d : Nat) (s : List (SObs α)) : List (Obs α) := s.map (fun o => (descOf d o, o.2))

/-- `Dataset.sort_by(d)`: `np.argsort(desc, kind='stable')` applied to the measurements and to
    every descriptor (a stable merge sort on the observations) -/
def sortBy (d : Nat) (s : List (SObs α)) : List (SObs α) :=
  s.mergeSort (fun a b => decide (descOf d a ≤ descOf d b))

/-- `ds.obs_descriptors[d][i] = v` -/
def storeDesc (d i v : Nat) (s : List (SObs α)) : List (SObs α) :=
  s.modify i (fun o => (o.1.set d v, o.2))

/-- `ds.measurements[i, j] = x` -/
def storeVal (i j : Nat) (x : α) (s : List (SObs α)) : List (SObs α) :=
  s.modify i (fun o => (o.1, fun k => if k = j then x else o.2 k))

/-- which dataset estimator -/
inductive Est where
  | measurements | unbalanced
  deriving Repr, DecidableEq, Inhabited

/-- one step of a session on a dataset object -/
inductive Step (α : Type) where
  | sort (d : Nat)
  | setDesc (d i v : Nat)
  | setVal (i j : Nat) (x : α)
  | est (e : Est) (m : Method) (d : Nat) (dof : Option α)

/-- content of the object after one step (an estimator call leaves it as it is) -/
def Step.apply : Step α → List (SObs α) → List (SObs α)
  | .sort d, s => sortBy d s
  | .setDesc d i v, s => storeDesc d i v s
  | .setVal i j x, s => storeVal i j x s
  | .est _ _ _ _, s => s

/-- content after a sequence of steps -/
def applySteps (steps : List (Step α)) (s : List (SObs α)) : List (SObs α) :=
  steps.foldl (fun acc st => st.apply acc) s

/-- does the step store into the object? -/
def Step.mutates : Step α → Bool
  | .est _ _ _ _ => false
  | _ => true

variable [Add α] [Sub α] [Mul α] [Div α] [Neg α] [Zero α] [One α] [NatCast α]
variable [LT α] [DecidableLT α] [LE α] [DecidableLE α] [Max α] [Min α] [HasSqrt α]

/-- an estimator call on the object with content `s`; `none` = `ValueError` -/
def estimateOn (e : Est) (m : Method) (d : Nat) (dof : Option α) (p : Nat) (s : List (SObs α)) :
    Option (Mat α) :=
  match e with
  | .measurements => covFromMeasurements m (view d s) dof p
  | .unbalanced => some (covFromUnbalanced m (view d s) dof p)

/-- the estimates a session returns, in call order -/
def runSession (p : Nat) : List (Step α) → List (SObs α) → List (Option (Mat α))
  | [], _ => []
  | .est e m d dof :: rest, s => estimateOn e m d dof p s :: runSession p rest s
  | .sort d :: rest, s => runSession p rest (sortBy d s)
  | .setDesc d i v :: rest, s => runSession p rest (storeDesc d i v s)
  | .setVal i j x :: rest, s => runSession p rest (storeVal i j x s)

end session

/-! ### Axis bookkeeping of the measurement tensor

  `get_measurements_tensor` stacks the per-condition blocks (repetition × channel) along
  `stackAxis` and swaps two axes; `_check_demean` takes the mean along `demeanAxis3d`,
  transposes and reshapes to `(shape[0] * shape[2], shape[1])`.  Axis *labels*:
  0 = condition, 1 = repetition, 2 = channel.  `demean3` / `dofTensor C R` above presuppose
  what `Rsa.Props.C14.tensor_layout` proves from the constants regenerated from the source:
  the mean runs over the repetitions, `shape[0]` is the condition and `shape[2]` the
  repetition count, and after the transpose the order is (condition, repetition, channel). -/

/-- `np.stack(blocks, axis=a)` of blocks with axes `[1, 2]`: the new axis 0 at position `a` -/
def stackAxes (a : Nat) : List Nat := ([1, 2].take a) ++ [0] ++ ([1, 2].drop a)

/-- `np.swapaxes(t, a, b)` on the axis labels -/
def swapAxes (a b : Nat) (l : List Nat) : List Nat :=
  (List.range l.length).map (fun i =>
    if i = a then l[b]?.getD 9 else if i = b then l[a]?.getD 9 else l[i]?.getD 9)

/-- `t.transpose(perm)` on the axis labels -/
def permuteAxes (perm : List Nat) (l : List Nat) : List Nat := perm.map (fun i => l[i]?.getD 9)

/-- axis labels of the tensor `get_measurements_tensor` returns -/
def tensorAxes : List Nat :=
  swapAxes Rsa.Gen.C14.swapA Rsa.Gen.C14.swapB (stackAxes Rsa.Gen.C14.stackAxis)

/-- axis labels after the `transpose` in the 3-D branch of `_check_demean` -/
def tensorAxesT : List Nat :=
  permuteAxes [Rsa.Gen.C14.transpose0, Rsa.Gen.C14.transpose1, Rsa.Gen.C14.transpose2] tensorAxes

/-! ### Evaluation plan used by the driver

  A `Row` is a function, so `demean rows` re-derives the column mean on every read and a
  `Mat` re-derives the shrinkage scalars for every entry.  The driver therefore runs the
  variants below: rows are *frozen* (their first `p` values tabulated once) between the
  stages, and the p × p result is produced as data with the scalars bound once.
  `Rsa.Props.C14.fast_eq_model` proves each of them equal to the model function above,
  so what is executed is the model that the theorems are about. -/

section fast
variable {α : Type}

/-- read from the table, fall back to the function beyond it -/
def rowOfFb (l : List α) (r : Row α) : Row α :=
  fun j => match l[j]? with
    | some v => v
    | none => r j

/-- tabulate the first `p` values of every row (extensionally the identity) -/
def freezeRows (p : Nat) (rows : List (Row α)) : List (Row α) :=
  List.zipWith rowOfFb (rows.map (fun r => (List.range p).map r)) rows

/-- a matrix as p × p data -/
def matList (p : Nat) (m : Mat α) : List (List α) :=
  (List.range p).map (fun j => (List.range p).map (fun k => m j k))

variable [Add α] [Sub α] [Mul α] [Div α] [Neg α] [Zero α] [One α] [NatCast α]
variable [LT α] [DecidableLT α] [LE α] [DecidableLE α] [Max α] [Min α] [HasSqrt α]

def covEyeL (rows : List (Row α)) (dof : α) (p : Nat) : List (List α) :=
  let d2 := eyeD2 rows p
  let b2 := eyeB2raw rows p
  let m := eyeM rows p
  matList p (fun j k => covEyeEntry (eyeS rows j k) d2 b2 m (rows.length : α) dof j k)

def covSDiagL (rows : List (Row α)) (dof : α) (p : Nat) : List (List α) :=
  let num := sdNumG rows dof p
  let den := sdDenG rows dof p
  matList p (fun j k => covSDiagEntry (sdS rows dof j k) num den j k)

def estimateCL (m : Method) (rows : List (Row α)) (dof : α) (p : Nat) : List (List α) :=
  match Rsa.Gen.C14.dispatch m.code with
  | 0 => matList p (covFullC rows dof)
  | 1 => matList p (varianceC rows dof)
  | 2 => covEyeL rows dof p
  | 3 => covSDiagL rows dof p
  | _ => matList p (fun _ _ => 0)

/-- the demeaned rows `_estimate_covariance` works on, tabulated -/
def residRows2 (rows : List (Row α)) (p : Nat) : List (Row α) :=
  freezeRows p (demean (freezeRows p rows))

def residRows3 (gs : List (List (Row α))) (p : Nat) : List (Row α) :=
  gs.flatMap (fun g => freezeRows p (demean (freezeRows p g)))

def residRowsUnb (obs : List (Obs α)) (p : Nat) : List (Row α) :=
  freezeRows p (demean (freezeRows p (residUnb obs)))

def covFromResidualsL (m : Method) (rows : List (Row α)) (dof : Option α) (p : Nat) :
    List (List α) :=
  estimateCL m (residRows2 rows p)
    (dofPick dof ((Rsa.Gen.C14.dofResiduals rows.length : Nat) : α)) p

def covFromMeasurementsL (m : Method) (obs : List (Obs α)) (dof : Option α) (p : Nat) :
    Option (List (List α)) :=
  match balancedR (groups obs) with
  | none => none
  | some R =>
    some (estimateCL m (residRows3 (groups obs) p)
      (dofPick dof ((Rsa.Gen.C14.dofTensor (groups obs).length R : Nat) : α)) p)

def covFromUnbalancedL (m : Method) (obs : List (Obs α)) (dof : Option α) (p : Nat) :
    List (List α) :=
  estimateCL m (residRowsUnb obs p)
    (dofPick (some (dofPickUnb dof obs.length (uniq (labels obs)).length))
      ((Rsa.Gen.C14.dofResiduals obs.length : Nat) : α)) p

end fast

/-! ### Inversion (`np.linalg.inv`) : Gauss–Jordan candidate + exact certificate -/

section inverse
variable {α : Type} [Add α] [Sub α] [Mul α] [Div α] [Zero α] [One α] [Neg α]
variable [LT α] [DecidableLT α]

def absv (x : α) : α := if x < 0 then -x else x

/-- index (≥ c) of the row with the largest `|row[c]|`, if that is positive -/
def pivotRow (a : List (List α)) (c : Nat) : Option Nat :=
  let cand := (List.range a.length).filter (fun r => c ≤ r)
  let best := cand.foldl (fun (acc : Option (Nat × α)) r =>
      let v := absv (((a[r]?).getD [])[c]?.getD 0)
      match acc with
      | none => some (r, v)
      | some (_, bv) => if bv < v then some (r, v) else acc) none
  match best with
  | some (r, v) => if 0 < v then some r else none
  | none => none

def swapRows (a : List (List α)) (i j : Nat) : List (List α) :=
  (List.range a.length).map (fun r =>
    if r = i then (a[j]?).getD [] else if r = j then (a[i]?).getD [] else (a[r]?).getD [])

/-- one elimination step on the augmented matrix for column `c` -/
def gjStep (a : List (List α)) (c : Nat) : Option (List (List α)) :=
  match pivotRow a c with
  | none => none
  | some r =>
    let a := swapRows a c r
    let prow := (a[c]?).getD []
    let pv := prow[c]?.getD 1
    let prow := prow.map (fun x => x / pv)
    some ((List.range a.length).map (fun i =>
      if i = c then prow
      else
        let row := (a[i]?).getD []
        let f := row[c]?.getD 0
        List.zipWith (fun x y => x - f * y) row prow))

/-- Gauss–Jordan candidate inverse of the p × p matrix `m` (rows of `[m | I]` reduced);
    `none` if a pivot column is entirely zero.  Nothing is proved about this function:
    its result is only ever used through the certificate below. -/
def gaussJordan (m : Mat α) (p : Nat) : Option (List (List α)) :=
  let aug := (List.range p).map (fun j =>
    (List.range p).map (fun k => m j k) ++ (List.range p).map (fun k => if j = k then 1 else 0))
  let red := (List.range p).foldl (fun (acc : Option (List (List α))) c =>
    match acc with
    | none => none
    | some a => gjStep a c) (some aug)
  red.map (fun a => a.map (fun row => row.drop p))

def matOfLists (l : List (List α)) : Mat α := fun j k => ((l[j]?).getD [])[k]?.getD 0

/-- `(A · B) j k` for p × p matrices -/
def mmul (p : Nat) (a b : Mat α) : Mat α :=
  fun j k => ((List.range p).map (fun l => a j l * b l k)).sum

/-- exact check `A · B = I` on the p × p block -/
def isRightInv [DecidableEq α] (p : Nat) (a b : Mat α) : Bool :=
  (List.range p).all (fun j => (List.range p).all (fun k =>
    decide (mmul p a b j k = if j = k then 1 else 0)))

/-- the model's `np.linalg.inv`: the Gauss–Jordan candidate, returned only with its
    certificate `A · B = I` checked exactly (`none` = singular / `LinAlgError`). -/
def precOf [DecidableEq α] (cov : Mat α) (p : Nat) : Option (Mat α) :=
  match gaussJordan cov p with
  | none => none
  | some l => if isRightInv p cov (matOfLists l) then some (matOfLists l) else none

end inverse

end Rsa.Noise
