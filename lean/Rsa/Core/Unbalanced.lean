/-
  Rsa.Core.Unbalanced — executable model of `calc_rdm_unbalanced` (property C15).

  As coded (mirrors `cengine/similarity.pyx` and `rdm/calc_unbalanced.py`):
    * the per-pair kernels `euclid`, `poisson_cv`, `correlation`, `mahalanobis` over channel
      vectors with missing entries (`Option`, `none` = NaN),
    * the pair loop of `calc`: for every observation the self term (only when not
      cross-validating), then every later observation, skipping equal fold codes when
      cross-validating, accumulating value and weight at the buffer index computed by the
      *generated* leaves `Gen.C15.idxGt / idxLe`, with the increments of the *generated*
      leaves `selfVal*`, `selfW*`, `pairVal*`, `pairW*`, final division `finalDiv`,
    * `calc_one`, the first-appearance coding of the condition labels,
      `self_i + self_j - 2 cross_ij` over the `triu` enumeration.
  Specification (what the property states): `specNum / specDen` — for a pair of condition
  codes the weighted average over admissible observation pairs — and the balanced
  estimators on condition means (`balEuclid`, `balMahal`, `cvSpec`, …).

  Vectors and matrices are functions `Nat → …` with explicit sizes; sums are `sumTo`.
  Two switches select the *text of the kernel as it is* (`coded = true`: `1 / 2` is the C
  integer quotient, correlation and mahalanobis normalise by `n_dim`) or what the property
  demands (`coded = false`).  No Mathlib.
-/
import Rsa.Core.Num
import Rsa.Core.Tri
import Rsa.Gen.C15

namespace Rsa.Unb

open Rsa.Gen.C15

/-- `for i in range(lo, lo + m)` threading a state -/
def forRange {β : Type} (m lo : Nat) (body : Nat → β → β) (s : β) : β :=
  match m with
  | 0 => s
  | m + 1 => body (lo + m) (forRange m lo body s)

/-- labels in order of first appearance (`get_unique_inverse`, first component) -/
def firstAppearance : List Nat → List Nat
  | [] => []
  | x :: xs => x :: (firstAppearance xs).filter (fun y => y != x)

/-- integer code of every label: its position among the first appearances -/
def codes (l : List Nat) : List Nat := l.map (fun x => (firstAppearance l).idxOf x)

section generic
variable {α : Type} [Add α] [Sub α] [Mul α] [Div α] [Neg α] [Zero α] [One α] [NatCast α]
  [LT α] [DecidableLT α] [LE α] [DecidableLE α] [Max α] [Min α]

/-- `Σ_{i<n} f i`, accumulated left to right -/
def sumTo (n : Nat) (f : Nat → α) : α :=
  match n with
  | 0 => 0
  | n + 1 => sumTo n f + f n

/-- what a C integer constant means as a double -/
def ofInt (i : Int) : α :=
  match i with
  | .ofNat n => (n : α)
  | .negSucc n => -((n + 1 : Nat) : α)

/-! ### kernels: (similarity, weight) of two channel vectors -/

/-- 1 where both vectors have the channel, else 0 (`weight += 1`) -/
def oneAt {β : Type} (x y : Nat → Option β) (c : Nat) : α :=
  match x c, y c with
  | some _, some _ => 1
  | _, _ => 0

def validNat {β : Type} (x y : Nat → Option β) (c : Nat) : Nat :=
  match x c, y c with
  | some _, some _ => 1
  | _, _ => 0

/-- number of channels present in both vectors -/
def cntValid {β : Type} (P : Nat) (x y : Nat → Option β) : Nat :=
  match P with
  | 0 => 0
  | P + 1 => cntValid P x y + validNat x y P

def prodAt (x y : Nat → Option α) (c : Nat) : α :=
  match x c, y c with
  | some a, some b => a * b
  | _, _ => 0

/-- `euclid`: inner product over the channels present in both, weight = their number -/
def euclidK (P : Nat) (x y : Nat → Option α) : α × α :=
  (sumTo P (prodAt x y), sumTo P (oneAt x y))

/-- Poisson preprocessing of `calc`: `d = (x + λ·w)/(1 + w)`, `l = log d`; NaN stays NaN -/
def poissonPrep [HasLog α] (lam pw : α) (x : Nat → Option α) : Nat → Option (α × α) :=
  fun c => (x c).map (fun v =>
    let d := (v + priorLambdaL lam pw) / priorWeightL pw; (d, HasLog.log d))

def poissonAt (x y : Nat → Option (α × α)) (c : Nat) : α :=
  match x c, y c with
  | some (di, li), some (dj, lj) => (dj - di) * (li - lj)
  | _, _ => 0

/-- `poisson_cv` kernel on preprocessed vectors `(d, log d)` -/
def poissonK (P : Nat) (x y : Nat → Option (α × α)) : α × α :=
  (poissonHalf (sumTo P (poissonAt x y)), sumTo P (oneAt x y))

def fstAt (x y : Nat → Option α) (c : Nat) : α :=
  match x c, y c with
  | some a, some _ => a
  | _, _ => 0

def sndAt (x y : Nat → Option α) (c : Nat) : α :=
  match x c, y c with
  | some _, some b => b
  | _, _ => 0

/-- `correlation` kernel.  `coded = true`: moments are normalised by `n_dim` (the text of the
    kernel); `coded = false`: by the number of channels present in both (the property). -/
def corrK [HasSqrt α] (coded : Bool) (P : Nat) (x y : Nat → Option α) : α × α :=
  let si := sumTo P (fstAt x y)
  let sj := sumTo P (sndAt x y)
  let si2 := sumTo P (fun c => fstAt x y c * fstAt x y c)
  let sj2 := sumTo P (fun c => sndAt x y c * sndAt x y c)
  let sij := sumTo P (prodAt x y)
  let n : Nat := if coded then P else cntValid P x y
  let sim : α :=
    if 0 < si2 ∧ 0 < sj2 then
      corrCov sij si sj n / HasSqrt.sqrt (si2 - si * si / (n : α))
        / HasSqrt.sqrt (sj2 - sj * sj / (n : α))
    else 1
  (corrScale sim n, sumTo P (oneAt x y))

/-- `mahalanobis` kernel: the channels present in both vectors are packed, the noise matrix
    restricted to them, `vec3 = dgemv(noise_small, vec2)` (column-major reading of the
    row-major block, i.e. its transpose), `sim = Σ vec1·vec3`.
    `coded = true` reports weight `n_dim`; `coded = false` the number of channels used. -/
def mahalK (coded : Bool) (P : Nat) (N : Nat → Nat → α) (x y : Nat → Option α) : α × α :=
  (sumTo P (fun k => fstAt x y k * sumTo P (fun l => N l k * sndAt x y l)),
   if coded then (P : α) else sumTo P (oneAt x y))

/-! ### the pair loop of `calc` -/

/-- accumulation buffer: (value, weight) per index -/
abbrev Buf (α : Type) := Nat → α × α

def addAt (b : Buf α) (k : Nat) (v w : α) : Buf α :=
  fun m => let p := b m; if m = k then (p.1 + v, p.2 + w) else p

/-- inputs of `calc` after the Python layer has coded labels and folds as integers -/
structure Cfg (α : Type) where
  nObs : Nat
  n : Nat                      -- number of conditions
  desc : Nat → Nat             -- condition code of an observation
  cv : Nat → Nat               -- fold code of an observation
  crossval : Bool
  number : Bool                -- weighting == 1 ('number'); false = 'equal'
  kern : Nat → Nat → α × α     -- kernel of two observations
  half : α                     -- what `1 / 2` in `weights[idx] += 1 / 2` evaluates to

/-- buffer index of a pair of condition codes, as the kernel computes it -/
def pairKey (n di dj : Nat) : Nat :=
  if di = dj then di else if di < dj then idxGt n di dj else idxLe n di dj

def selfStep (c : Cfg α) (i : Nat) (b : Buf α) : Buf α :=
  if c.crossval then b else
    let sw := c.kern i i
    if 0 < sw.2 then
      if c.number then addAt b (c.desc i) (selfValNumber sw.1) (selfWNumber sw.2)
      else addAt b (c.desc i) (selfValEqual sw.1 sw.2) c.half
    else b

def pairStep (c : Cfg α) (i j : Nat) (b : Buf α) : Buf α :=
  if !c.crossval || c.cv i != c.cv j then
    let sw := c.kern i j
    if 0 < sw.2 then
      if c.number then addAt b (pairKey c.n (c.desc i) (c.desc j)) (pairValNumber sw.1) (pairWNumber sw.2)
      else addAt b (pairKey c.n (c.desc i) (c.desc j)) (pairValEqual sw.1 sw.2) (ofInt pairWEqual)
    else b
  else b

/-- the two nested loops of `calc`, starting from the zeroed buffer -/
def calcLoop (c : Cfg α) : Buf α :=
  forRange c.nObs 0
    (fun i b => forRange (c.nObs - (i + 1)) (i + 1) (pairStep c i) (selfStep c i b))
    (fun _ => (0, 0))

/-- final pass: `values/weights` where the weight is positive, NaN elsewhere -/
def finalize (b : Buf α) (k : Nat) : Option α :=
  let p := b k
  if 0 < p.2 then some (finalDiv p.1 p.2) else none

/-- the array `calc` returns: `n` self-similarities, then `n_rdm` cross-similarities -/
def calcOut (c : Cfg α) : List (Option α) :=
  (List.range (nRdm c.n + c.n)).map (finalize (calcLoop c))

/-! ### `calc_one` -/

/-- `calc_one`: all `n_i × n_j` ordered pairs, equal fold codes excluded *always* -/
def calcOne (ni nj : Nat) (cvi cvj : Nat → Nat) (number : Bool) (kern : Nat → Nat → α × α) :
    Option α × α :=
  let b : α × α := forRange ni 0 (fun i acc =>
      forRange nj 0 (fun j acc =>
        if cvi i != cvj j then
          let sw := kern i j
          if 0 < sw.2 then
            if number then (acc.1 + sw.1, acc.2 + sw.2) else (acc.1 + sw.1 / sw.2, acc.2 + 1)
          else acc
        else acc) acc) (0, 0)
  (if 0 < b.2 then some (b.1 / b.2) else none, b.2)

/-! ### Python layer: `self_i + self_j - 2·cross_ij` per condensed position -/

def two : α := ((2 : Nat) : α)

/-- distance of a pair of condition codes from finalised buffer entries; NaN (none) if any
    of the three entries is NaN -/
def distOf (n : Nat) (out : Nat → Option α) (a b : Nat) : Option α :=
  match out a, out b, out (pairKey n a b) with
  | some sa, some sb, some cab => some (combine sa sb cab)
  | _, _, _ => none

/-- the dissimilarity vector as the Python layer assembles it: position `p` of the `triu`
    enumeration takes `self[row p] + self[col p] - 2 * rdm[p]`, `rdm[p] = out (n + p)` -/
def assemble (n : Nat) (out : Nat → Option α) : List (Option α) :=
  (pairs n).zipIdx.map (fun (ab, p) =>
    match out ab.1, out ab.2, out (n + p) with
    | some sa, some sb, some cab => some (combine sa sb cab)
    | _, _, _ => none)

/-- the whole unbalanced estimator on coded inputs -/
def unbRdm (c : Cfg α) : List (Option α) :=
  assemble c.n (finalize (calcLoop c))

/-! ### specification: average over admissible observation pairs -/

/-- admissible: different observations, not sharing a fold value when cross-validating -/
def adm (c : Cfg α) (i j : Nat) : Bool := !c.crossval || c.cv i != c.cv j

def cVal (number : Bool) (sw : α × α) : α := if number then sw.1 else sw.1 / sw.2
def cW (number : Bool) (sw : α × α) : α := if number then sw.2 else 1

/-- summed values of the pairs of observations belonging to conditions {a, b}; an
    observation paired with itself counts half and only when not cross-validating -/
def specNum (c : Cfg α) (a b : Nat) : α :=
  sumTo c.nObs (fun i =>
    (if c.crossval = false ∧ a = b ∧ c.desc i = a ∧ 0 < (c.kern i i).2
      then cVal c.number (c.kern i i) / two else 0) +
    sumTo (c.nObs - (i + 1)) (fun t =>
      if adm c i (i + 1 + t) = true ∧ 0 < (c.kern i (i + 1 + t)).2 ∧
          ((c.desc i = a ∧ c.desc (i + 1 + t) = b) ∨ (c.desc i = b ∧ c.desc (i + 1 + t) = a))
      then cVal c.number (c.kern i (i + 1 + t)) else 0))

/-- summed weights of the same pairs -/
def specDen (c : Cfg α) (a b : Nat) : α :=
  sumTo c.nObs (fun i =>
    (if c.crossval = false ∧ a = b ∧ c.desc i = a ∧ 0 < (c.kern i i).2
      then cW c.number (c.kern i i) / two else 0) +
    sumTo (c.nObs - (i + 1)) (fun t =>
      if adm c i (i + 1 + t) = true ∧ 0 < (c.kern i (i + 1 + t)).2 ∧
          ((c.desc i = a ∧ c.desc (i + 1 + t) = b) ∨ (c.desc i = b ∧ c.desc (i + 1 + t) = a))
      then cW c.number (c.kern i (i + 1 + t)) else 0))

/-- the pair average (NaN when no admissible pair has a valid product) -/
def specSim (c : Cfg α) (a b : Nat) : Option α :=
  if 0 < specDen c a b then some (specNum c a b / specDen c a b) else none

/-- the dissimilarity the property assigns to the condition pair (a, b) -/
def specDist (c : Cfg α) (a b : Nat) : Option α :=
  match specSim c a a, specSim c b b, specSim c a b with
  | some sa, some sb, some cab => some (sa + sb - two * cab)
  | _, _, _ => none

/-- the same average written over the full rectangle of ordered observation pairs
    `(i, j)`, `i` in condition `a`, `j` in condition `b` (an observation pairs with itself
    only when not cross-validating) -/
def rectNum (c : Cfg α) (a b : Nat) : α :=
  sumTo c.nObs (fun i => sumTo c.nObs (fun j =>
    if c.desc i = a ∧ c.desc j = b ∧ adm c i j = true ∧ 0 < (c.kern i j).2
    then cVal c.number (c.kern i j) else 0))

def rectDen (c : Cfg α) (a b : Nat) : α :=
  sumTo c.nObs (fun i => sumTo c.nObs (fun j =>
    if c.desc i = a ∧ c.desc j = b ∧ adm c i j = true ∧ 0 < (c.kern i j).2
    then cW c.number (c.kern i j) else 0))

/-! ### balanced estimators (what `calc_rdm` computes), on complete data `V i ch` -/

/-- number of observations of condition `a` -/
def nOf (nObs : Nat) (desc : Nat → Nat) (a : Nat) : Nat :=
  match nObs with
  | 0 => 0
  | m + 1 => nOf m desc a + (if desc m = a then 1 else 0)

/-- channel `ch` of the mean pattern of condition `a` (`average_dataset_by`) -/
def condMean (nObs : Nat) (desc : Nat → Nat) (V : Nat → Nat → α) (a ch : Nat) : α :=
  sumTo nObs (fun i => if desc i = a then V i ch else 0) / (nOf nObs desc a : α)

/-- bilinear form `xᵀ N y` over `P` channels -/
def bil (P : Nat) (N : Nat → Nat → α) (x y : Nat → α) : α :=
  sumTo P (fun k => x k * sumTo P (fun l => N l k * y l))

def idN : Nat → Nat → α := fun k l => if k = l then 1 else 0

/-- `calc_rdm_mahalanobis` (Gram form, divided by the number of channels) -/
def balMahal (P : Nat) (N : Nat → Nat → α) (m : Nat → Nat → α) (a b : Nat) : α :=
  (bil P N (m a) (m a) + bil P N (m b) (m b) - two * bil P N (m a) (m b)) / (P : α)

/-- squared Euclidean distance of two mean patterns per channel (the textbook formula) -/
def sqDist (P : Nat) (m : Nat → Nat → α) (a b : Nat) : α :=
  sumTo P (fun ch => (m a ch - m b ch) * (m a ch - m b ch)) / (P : α)

/-- `calc_rdm_correlation` for two complete patterns: `1 − ⟨x−x̄, y−ȳ⟩ / (‖x−x̄‖·‖y−ȳ‖)` -/
def balCorr [HasSqrt α] (P : Nat) (x y : Nat → α) : α :=
  let mx := sumTo P x / (P : α)
  let my := sumTo P y / (P : α)
  1 - sumTo P (fun c => (x c - mx) * (y c - my)) /
    (HasSqrt.sqrt (sumTo P (fun c => (x c - mx) * (x c - mx))) *
     HasSqrt.sqrt (sumTo P (fun c => (y c - my) * (y c - my))))

/-- `calc_rdm_poisson` for two preprocessed patterns `(d, l = log d)`:
    `Σ (d_a − d_b)(l_a − l_b) / P` -/
def balPoisson (P : Nat) (da la db lb : Nat → α) : α :=
  sumTo P (fun c => (da c - db c) * (la c - lb c)) / (P : α)

/-- number of observations of condition `a` in fold `f` -/
def nInFold (nObs : Nat) (desc cv : Nat → Nat) (a f : Nat) : Nat :=
  nOf nObs (fun i => if cv i = f then desc i else nObs + a + 1) a

/-- mean pattern of condition `a` within fold `f` -/
def foldMean (nObs : Nat) (desc cv : Nat → Nat) (V : Nat → Nat → α) (a f ch : Nat) : α :=
  sumTo nObs (fun i => if desc i = a ∧ cv i = f then V i ch else 0) /
    (nInFold nObs desc cv a f : α)

/-- cross-validated distance of C02: mean over ordered pairs of different folds of
    `(μ_a^f − μ_b^f)ᵀ N (μ_a^g − μ_b^g)`, per channel -/
def cvSpec (F P : Nat) (N : Nat → Nat → α) (mu : Nat → Nat → Nat → α) (a b : Nat) : α :=
  sumTo F (fun f => sumTo F (fun g =>
    if f = g then 0 else
      bil P N (fun ch => mu a f ch - mu b f ch) (fun ch => mu a g ch - mu b g ch)))
    / ((F * (F - 1) : Nat) : α) / (P : α)

/-- cross-validated Poisson KL of C02 on fold means `mu` and their logarithms `lg` -/
def cvPoissonSpec (F P : Nat) (mu lg : Nat → Nat → Nat → α) (a b : Nat) : α :=
  sumTo F (fun f => sumTo F (fun g =>
    if f = g then 0 else
      sumTo P (fun ch => (mu a f ch - mu b f ch) * (lg a g ch - lg b g ch))))
    / ((F * (F - 1) : Nat) : α) / (P : α)

end generic

/-! ### dispatch of the Python layer and of the kernel (generated tables, round 3)

`calc_rdm_unbalanced` / `calc_one_similarity` translate the method name into `method_idx`, the
weighting into `weight_idx` and decide the `crossval` flag; `calc` / `calc_one` select the
per-pair kernel by `method_idx`.  The tables are *generated* from the source text
(`Gen.C15.mi*`, `cv*`, `wi*`, `kernOfIdx*`); the driver dispatches through them. -/

/-- `method_idx` handed to `calc` by `calc_rdm_unbalanced` -/
def methodIdx (m : String) : Option Nat :=
  if m = "euclidean" then some miEuclidean
  else if m = "correlation" then some miCorrelation
  else if m = "mahalanobis" then some miMahalanobis
  else if m = "crossnobis" then some miCrossnobis
  else if m = "poisson" then some miPoisson
  else if m = "poisson_cv" then some miPoissonCv
  else none

/-- `method_idx` handed to `calc_one` by `calc_one_similarity` -/
def oneMethodIdx (m : String) : Option Nat :=
  if m = "euclidean" then some oneMiEuclidean
  else if m = "correlation" then some oneMiCorrelation
  else if m = "mahalanobis" then some oneMiMahalanobis
  else if m = "crossnobis" then some oneMiCrossnobis
  else if m = "poisson" then some oneMiPoisson
  else if m = "poisson_cv" then some oneMiPoissonCv
  else none

/-- the `crossval` flag handed to `calc` (C int), without / with a `cv_descriptor` -/
def crossvalFlag (m : String) (cvGiven : Bool) : Option Nat :=
  if m = "euclidean" then some (if cvGiven then cvEuclideanGiven else cvEuclideanNone)
  else if m = "correlation" then some (if cvGiven then cvCorrelationGiven else cvCorrelationNone)
  else if m = "mahalanobis" then some (if cvGiven then cvMahalanobisGiven else cvMahalanobisNone)
  else if m = "crossnobis" then some (if cvGiven then cvCrossnobisGiven else cvCrossnobisNone)
  else if m = "poisson" then some (if cvGiven then cvPoissonGiven else cvPoissonNone)
  else if m = "poisson_cv" then some (if cvGiven then cvPoissonCvGiven else cvPoissonCvNone)
  else none

/-- `weight_idx` of the two weightings (`calc` tests `weighting == 1` for 'number') -/
def weightIdx (number : Bool) : Nat := if number then wiNumber else wiEqual
def oneWeightIdx (number : Bool) : Nat := if number then oneWiNumber else oneWiEqual

/-- which kernel `method_idx` selects inside `calc` / `calc_one`
    (1 `euclid`, 2 `correlation`, 3 `mahalanobis`, 4 `poisson_cv`; 0 = rejected) -/
def kernCode (idx : Nat) (noiseGiven : Bool) : Nat :=
  if idx = 1 then kernOfIdx1
  else if idx = 2 then kernOfIdx2
  else if idx = 3 then (if noiseGiven then kernOfIdx3 else kernOfIdx3Nonoise)
  else if idx = 4 then kernOfIdx4
  else 0

section generic2
variable {α : Type} [Add α] [Sub α] [Mul α] [Div α] [Neg α] [Zero α] [One α] [NatCast α]
  [LT α] [DecidableLT α] [LE α] [DecidableLE α] [Max α] [Min α] [HasSqrt α] [HasLog α]

/-- the per-pair kernel by code; the precision is only consulted by code 3 -/
def kernByCode (code : Nat) (coded : Bool) (P : Nat) (N : Nat → Nat → α) (lam pw : α)
    (x y : Nat → Option α) : Option (α × α) :=
  if code = 1 then some (euclidK P x y)
  else if code = 2 then some (corrK coded P x y)
  else if code = 3 then some (mahalK coded P N x y)
  else if code = 4 then some (poissonK P (poissonPrep lam pw x) (poissonPrep lam pw y))
  else none

end generic2

/-- NaN flag of an entry as the kernels test it (`isnan`) -/
def nanFlag {β : Type} (o : Option β) : Nat := match o with | some _ => 0 | none => 1

/-! ### list input (round 4): `calc_rdm_unbalanced` on a list of datasets

As coded, the list branch calls the function itself on every dataset with the caller's arguments
passed through and stacks the rows (`concat`); nothing computed for one dataset is read while the
next one is processed (derived leaves `listCarried = 0`, `listPassthrough = 1`). -/

/-- the rows of the result for a list of datasets (each already coded as a `Cfg`) -/
def unbList {α : Type} [Add α] [Sub α] [Mul α] [Div α] [Neg α] [Zero α] [One α] [NatCast α]
    [LT α] [DecidableLT α] [LE α] [DecidableLE α] [Max α] [Min α]
    (cs : List (Cfg α)) : List (List (Option α)) :=
  if listCarried = 0 ∧ listPassthrough = 1 then cs.map unbRdm else []

/-- a loop over a list that threads a state from one element to the next — the shape a
    "remember the previous dataset's coding" optimisation has (the tree has no such state) -/
def threaded {σ δ ρ : Type} (step : σ → δ → ρ × σ) : σ → List δ → List ρ
  | _, [] => []
  | s, d :: ds => (step s d).1 :: threaded step (step s d).2 ds

/-- reuse the predecessor's result when `key` says nothing has changed, else recompute -/
def cachedStep {δ κ ρ : Type} [DecidableEq κ] (key : δ → κ) (code : δ → ρ) :
    Option (κ × ρ) → δ → ρ × Option (κ × ρ)
  | some (k, r), d => if key d = k then (r, some (k, r)) else (code d, some (key d, code d))
  | none, d => (code d, some (key d, code d))

/-- what the Python layer reads of a dataset to code its design: the condition label and the fold
    label of every observation (`none`: no fold descriptor after the `index` fallback) -/
structure Design where
  labels : List Nat
  folds : Option (List Nat)
deriving DecidableEq, Repr

/-- the integer coding handed to `calc`: conditions in order of first appearance, condition
    code and fold code per observation (only equality of fold codes matters), crossval flag -/
structure Coding where
  uniq : List Nat
  desc : List Nat
  cv : List Nat
  crossval : Bool
deriving DecidableEq, Repr

def codeDesign (d : Design) : Coding :=
  { uniq := firstAppearance d.labels
    desc := codes d.labels
    cv := match d.folds with
      | some f => codes f
      | none => List.range d.labels.length
    crossval := d.folds.isSome }

end Rsa.Unb
