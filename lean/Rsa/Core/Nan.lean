/-
  Rsa.Core.Nan — executable model of the handling of *missing dissimilarities* (property C13).

  A possibly partial RDM is `List (Option α)` (`none` = NaN); a stack is a list of such rows.

  Modelled *as coded*:
    * `rdm/compare.py:_parse_input_rdms`, `util/rdm_utils.py:_parse_nan_vectors`
      (`parseCoded`: shape test, mask of the first RDM, every row of both stacks must have that
      mask, boolean fancy-indexing = flatten, `reshape(n_rdm, -1)`), and the count-only parser
      they replaced (`parseLegacy`, kept for the regression witness);
    * `compare(...)` = parse, then the measure of `Rsa.Core.Compare` on the reduced vectors
      (`compareNan`), whitened measures with `V[nan_idx][:, nan_idx]` (`compareNanV`,
      `subBlock`), the linear-CKA fast path with missing values (`covWeightingNan`:
      weighted projection "double centring with missing values");
    * `rdm/combine.py:_mean` (`nanMeanEntry`, `nanMean`), `RDMs.mean` weight forms,
      `_ss`, `_scale`, `_rescale` (weights of the three methods, `rescaleStep`, the `while`
      loop with fuel);
    * `util/inference_util.py` / `util/pooling.py`: `_nan_mean` (`nanMeanFirst`),
      `_nan_rank_data` (`nanRank`), `pool_rdm` (`pool`);
    * `model/fitter.py:fit_regress` (`fitRegress`: pool, parse, normal equations);
    * `RDMs.subsample_pattern` on the condensed vector (`subsampleVec`): the source of
      bootstrap-induced NaNs.
  Specification side: `delete`, `keep`, `scatter`, `nanMeanEntrySpec`, `poolRows`.
  Parameter / contract: the linear solve (`Rsa.Compare.solve` stands in for
  `scipy.sparse.linalg.cg`, `np.linalg.solve`, `np.linalg.inv`).
  Round 3: `parseOf` (both source copies of the parser, their two `raise` tests are the generated
  leaves `cmp/utlShapeReject`, `cmp/utlNanReject`; `compareNan*` use the compare.py copy, the fits the
  rdm_utils.py copy), `nanMeanEntry` ends in the generated `meanRatio`, `rescaleWeights` uses the
  generated `evidenceWeight` / `setsizeWeight`; `normalEq`, `regressRowsNN`, `fitRegressNN`
  (`fit_regress_nn` = the same parser and `V` reduction, then C08's active-set loop `Rsa.Fit.nnls`).
  No Mathlib here.
-/
import Rsa.Core.Num
import Rsa.Core.Tri
import Rsa.Core.Compare
import Rsa.Core.Fit
import Rsa.Gen.C13

namespace Rsa.Nan

open Rsa Rsa.Compare

/-! ## 1. masks, deletion, re-insertion -/

section mask
variable {α β : Type}

/-- `~np.isnan(v)` -/
def maskOf (v : List (Option α)) : List Bool := v.map Option.isSome

/-- `v[~np.isnan(v)]`: the present values, in order -/
def delete (v : List (Option α)) : List α := v.filterMap id

/-- `a[mask]` (boolean indexing of any list) -/
def keep : List Bool → List β → List β
  | true :: m, a :: l => a :: keep m l
  | false :: m, _ :: l => keep m l
  | _, _ => []

/-- `V[mask][:, mask]` -/
def subBlock (mask : List Bool) (V : List (List β)) : List (List β) :=
  (keep mask V).map (keep mask)

/-- `out = full(nan); out[mask] = vals` -/
def scatter : List Bool → List α → List (Option α)
  | [], _ => []
  | false :: m, vs => none :: scatter m vs
  | true :: m, v :: vs => some v :: scatter m vs
  | true :: m, [] => none :: scatter m []

/-- number of present entries -/
def count (v : List (Option α)) : Nat := (delete v).length

end mask

/-! ## 2. input parsing of the comparison functions -/

inductive ParseErr where
  | shape    -- 'rdm1 and rdm2 must be RDMs of equal shape'
  | nanpos   -- 'rdm1 and rdm2 have different nan positions'
  | empty    -- an empty stack (not reachable through `RDMs`)
  deriving DecidableEq, Repr

section parse
variable {α : Type}

/-- `vector[not_nan]` on a 2-D array: all present values, row-major -/
def flatKept (xs : List (List (Option α))) : List α := (xs.map delete).flatten

/-- `flat.reshape(rows, -1)` -/
def reshapeRows (rows : Nat) (flat : List α) : List (List α) :=
  let k := flat.length / rows
  (List.range rows).map (fun i => (flat.drop (i * k)).take k)

/-- `np.all(mask2d == m0)` -/
def allMaskEq (m0 : List Bool) (xs : List (List (Option α))) : Bool :=
  xs.all (fun r => maskOf r == m0)

/-- `_parse_input_rdms` / `_parse_nan_vectors` as coded (after the repair): reduced stacks and
    the mask of the first RDM -/
def parseCoded (xs ys : List (List (Option α))) :
    Except ParseErr (List (List α) × List (List α) × List Bool) :=
  match xs, ys with
  | x0 :: _, y0 :: _ =>
    if x0.length ≠ y0.length then .error .shape
    else
      let m0 := maskOf x0
      if allMaskEq m0 xs && allMaskEq m0 ys then
        .ok (reshapeRows xs.length (flatKept xs), reshapeRows ys.length (flatKept ys), m0)
      else .error .nanpos
  | _, _ => .error .empty

/-- the two source copies of the parser -/
inductive ParserCopy where
  | compare   -- `rdm/compare.py:_parse_input_rdms`
  | utils     -- `util/rdm_utils.py:_parse_nan_vectors` (behind `_parse_input_rdms` there; used by the fitters)
  deriving DecidableEq, Repr

/-- `if not vector1.shape[1] == vector2.shape[1]: raise` — the test *generated from the source* (1 = raise) -/
def shapeReject : ParserCopy → Nat → Nat → Nat
  | .compare => Rsa.Gen.C13.cmpShapeReject
  | .utils => Rsa.Gen.C13.utlShapeReject

/-- `if not (np.all(m1 == m1[0]) and np.all(m2 == m1[0])): raise` — generated from the source; the
    arguments say (1 = true) whether every row of stack 1 / stack 2 has the mask of the first RDM of stack 1 -/
def nanReject : ParserCopy → Nat → Nat → Nat
  | .compare => Rsa.Gen.C13.cmpNanReject
  | .utils => Rsa.Gen.C13.utlNanReject

def b2n (b : Bool) : Nat := if b then 1 else 0

/-- the parser of either copy with its two decisions taken from the generated leaves -/
def parseOf (c : ParserCopy) (xs ys : List (List (Option α))) :
    Except ParseErr (List (List α) × List (List α) × List Bool) :=
  match xs, ys with
  | x0 :: _, y0 :: _ =>
    if shapeReject c x0.length y0.length = 1 then .error .shape
    else
      let m0 := maskOf x0
      if nanReject c (b2n (allMaskEq m0 xs)) (b2n (allMaskEq m0 ys)) = 1 then .error .nanpos
      else .ok (reshapeRows xs.length (flatKept xs), reshapeRows ys.length (flatKept ys), m0)
  | _, _ => .error .empty

/-- the parser before the repair: only the *number* of present entries per row was compared -/
def parseLegacy (xs ys : List (List (Option α))) :
    Except ParseErr (List (List α) × List (List α) × List Bool) :=
  match xs, ys with
  | x0 :: _, y0 :: _ =>
    if x0.length ≠ y0.length then .error .shape
    else
      let a := reshapeRows xs.length (flatKept xs)
      let b := reshapeRows ys.length (flatKept ys)
      if (a.headD []).length ≠ (b.headD []).length then .error .nanpos
      else .ok (a, b, maskOf x0)
  | _, _ => .error .empty

/-- `compare(rdm1, rdm2, method)` for a measure `f` on reduced vectors -/
def compareNan {γ : Type} (f : List α → List α → γ) (xs ys : List (List (Option α))) :
    Except ParseErr (List (List γ)) :=
  match parseOf .compare xs ys with
  | .ok (a, b, _) => .ok (compareAll f a b)
  | .error e => .error e

/-- whitened measures, slow path: `V[nan_idx][:, nan_idx]` -/
def compareNanV {γ : Type} (f : List (List α) → List α → List α → γ) (V : List (List α))
    (xs ys : List (List (Option α))) : Except ParseErr (List (List γ)) :=
  match parseOf .compare xs ys with
  | .ok (a, b, m) => .ok (compareAll (f (subBlock m V)) a b)
  | .error e => .error e

/-- fast path (`sigma_k=None`): the measure also receives the mask -/
def compareNanM {γ : Type} (f : List Bool → List α → List α → γ)
    (xs ys : List (List (Option α))) : Except ParseErr (List (List γ)) :=
  match parseOf .compare xs ys with
  | .ok (a, b, m) => .ok (compareAll (f m) a b)
  | .error e => .error e

end parse

/-! ## 3. the linear-CKA fast path with missing values (`_cov_weighting`, `else` branch) -/

section fast
variable {α : Type} [Add α] [Sub α] [Mul α] [Div α] [Neg α] [Zero α] [One α] [NatCast α]
  [LT α] [DecidableLT α] [HasSqrt α]

/-- rows of `sumI[nan_idx_ext]` after `sumI[n_dist:] /= 2`: for a kept pair `(i,j)` the
    indicator `e_i + e_j`, for the diagonal entry `k` the indicator `e_k` -/
def sumIRows (n : Nat) (mask : List Bool) : List (List α) :=
  (keep mask (pairs n)).map (fun p => (List.range n).map (fun k =>
      (if k = p.1 then (1 : α) else 0) + (if k = p.2 then 1 else 0))) ++
    (List.range n).map (fun d => (List.range n).map (fun k => if k = d then (1 : α) else 0))

/-- `diag`: ½ for the off-diagonal entries (each stands for two cells), 1 for the diagonal -/
def diagW (n : Nat) (mask : List Bool) : List α :=
  (keep mask (pairs n)).map (fun _ => (1 : α) / ((2 : Nat) : α)) ++ (List.range n).map (fun _ => 1)

/-- `vector_w - vector_w @ sumI @ inv(sumI.T @ (diag*sumI)) @ (diag*sumI).T`, then `√2` on the
    off-diagonal part.  `r` is the *reduced* vector (length = number of kept pairs). -/
def covWeightingNan (n : Nat) (mask : List Bool) (r : List α) : List α :=
  let S : List (List α) := sumIRows n mask
  let d : List α := diagW n mask
  let nd := r.length
  let w0 : List α := r.map (fun a => -(1 : α) / ((2 : Nat) : α) * a) ++ (List.range n).map (fun _ => 0)
  let W : List (List α) := List.zipWith (fun de row => row.map (fun s => de * s)) d S
  let col := fun (A : List (List α)) (k : Nat) => A.map (fun row => row.getD k 0)
  let M : List (List α) := (List.range n).map (fun k => (List.range n).map (fun l => dot (col S k) (col W l)))
  let a : List α := (List.range n).map (fun k => dot w0 (col S k))
  let b : List α := solve M a
  let w : List α := List.zipWith (fun w0e wrow => w0e - dot b wrow) w0 W
  (w.take nd).map (fun x => x * HasSqrt.sqrt ((2 : Nat) : α)) ++ w.drop nd

/-- `_cosine_cov_weighted(v1, v2, None, nan_idx)` as coded: the closed-form centring when
    nothing is missing, the projection otherwise -/
def whitenedFastNan (n : Nat) (mask : List Bool) (r1 r2 : List α) : α :=
  if mask.all id then whitenedCosFast n r1 r2
  else cosine (covWeightingNan n mask r1) (covWeightingNan n mask r2)

end fast

/-! ## 4. NaN-aware weighted mean (`rdm/combine.py:_mean`, `RDMs.mean`) -/

section mean
variable {α : Type}

/-- NaN-propagating product -/
def mulO [Mul α] : Option α → Option α → Option α
  | some a, some b => some (a * b)
  | _, _ => none

/-- `np.nansum` -/
def nansum [Add α] [Zero α] (l : List (Option α)) : α := (l.filterMap id).sum

variable [Add α] [Sub α] [Mul α] [Div α] [Neg α] [Zero α] [One α] [NatCast α]
  [LT α] [DecidableLT α] [LE α] [DecidableLE α] [Max α] [Min α]

/-- one entry of `_mean` as coded; the column holds (value, weight) of every RDM.
    `weights[isnan(vectors)] = nan`; `nansum(vectors*weights) / nansum(weights)`;
    `0/0` (no RDM contributes) is NaN.  The final quotient is the generated leaf `meanRatio`
    (`return weighted_sum / np.nansum(weights, axis=0)`). -/
def nanMeanEntry (col : List (Option α × Option α)) : Option α :=
  let wm : List (Option α) := col.map (fun vw => if vw.1.isSome then vw.2 else none)
  let prod : List (Option α) := List.zipWith mulO (col.map (·.1)) wm
  if wm.all (fun w => !w.isSome) then none
  else some (Rsa.Gen.C13.meanRatio (nansum prod) (nansum wm))

/-- the *specification*: Σ_{i present} w_i v_i / Σ_{i present} w_i, NaN when nobody is present -/
def nanMeanEntrySpec (col : List (Option α × Option α)) : Option α :=
  let present : List (α × α) := col.filterMap (fun vw =>
    match vw.1, vw.2 with
    | some v, some w => some (v, w)
    | _, _ => none)
  if present = [] then none
  else some ((present.map (fun vw => vw.1 * vw.2)).sum / (present.map (·.2)).sum)

/-- column `k` of a stack -/
def colAt {β : Type} (k : Nat) (rows : List (List β)) : List β := rows.filterMap (·[k]?)

/-- `_mean(vectors, weights)` with a full weight array -/
def nanMean (vs : List (List (Option α))) (ws : List (List (Option α))) : List (Option α) :=
  match vs with
  | [] => []
  | v0 :: _ =>
    (List.range v0.length).map (fun k => nanMeanEntry (colAt k (List.zipWith List.zip vs ws)))

/-- `weights=None`: ones -/
def onesLike (vs : List (List (Option α))) : List (List (Option α)) :=
  vs.map (fun v => v.map (fun _ => some (1 : α)))

/-- 1-D weights: `np.repeat(weights.reshape(-1,1), n_pairs, axis=1)` -/
def perRdmWeights (vs : List (List (Option α))) (w : List α) : List (List (Option α)) :=
  List.zipWith (fun v wi => v.map (fun _ => some wi)) vs w

end mean

/-! ## 5. rescaling partial RDMs (`_ss`, `_scale`, `_rescale`) -/

section rescale
variable {α : Type} [Add α] [Sub α] [Mul α] [Div α] [Neg α] [Zero α] [One α] [NatCast α]
  [LT α] [DecidableLT α] [LE α] [DecidableLE α] [Max α] [Min α] [HasSqrt α]

/-- `_ss`: `nansum(v**2)` -/
def ssO (v : List (Option α)) : α := nansum (v.map (fun o => o.map (fun a => a * a)))

/-- `_scale`: divide by the root sum of squares -/
def scaleO (v : List (Option α)) : List (Option α) :=
  v.map (fun o => o.map (fun a => a / HasSqrt.sqrt (ssO v)))

/-- `tiled_estimate[np.isnan(dissim)] = nan` for one row -/
def maskBy (row est : List (Option α)) : List (Option α) :=
  List.zipWith (fun a b => if a.isSome then b else none) row est

/-- `_scale(dissim) * sqrt(_ss(tiled_estimate))` for one row -/
def alignRow (est row : List (Option α)) : List (Option α) :=
  (scaleO row).map (fun o => o.map (fun a => a * HasSqrt.sqrt (ssO (maskBy row est))))

inductive RescaleMethod where
  | evidence | setsize | simple
  deriving DecidableEq, Repr

/-- the weights of the three methods (NaN where the dissimilarity is missing); the evidence clip and
    the set-size quotient are the generated leaves `evidenceWeight`, `setsizeWeight` -/
def rescaleWeights (m : RescaleMethod) (dissim : List (List (Option α))) : List (List (Option α)) :=
  dissim.map (fun row => row.map (fun o => o.map (fun d =>
    match m with
    | .evidence => Rsa.Gen.C13.evidenceWeight d                              -- `(dissim ** 2).clip(0.2 ** 2)`
    | .setsize => Rsa.Gen.C13.setsizeWeight ((count row : Nat) : α)          -- `1 / setsize`
    | .simple => 1)))

/-- one pass of the `while` body: aligned rows and the next estimate -/
def rescaleStep (w dissim : List (List (Option α))) (est : List (Option α)) :
    List (List (Option α)) × List (Option α) :=
  let aligned := dissim.map (alignRow est)
  (aligned, scaleO (nanMean aligned w))

/-- `_ss(current - prev)` (NaN differences are skipped) -/
def ssDiff (a b : List (Option α)) : α :=
  ssO (List.zipWith (fun x y => match x, y with
    | some p, some q => some (p - q)
    | _, _ => none) a b)

/-- the `while` loop: at least one pass (the first comparison is against `-inf`), then until
    `_ss(current - prev) ≤ threshold`; `fuel` bounds the number of passes.
    Returns (aligned, estimate, passes made, converged). -/
def rescaleLoop (thr : α) (w dissim : List (List (Option α))) :
    Nat → Nat → List (Option α) → List (List (Option α)) × List (Option α) × Nat × Bool
  | 0, k, est => (dissim.map (alignRow est), est, k, false)
  | fuel + 1, k, est =>
    let (al, nxt) := rescaleStep w dissim est
    if thr < ssDiff nxt est then rescaleLoop thr w dissim fuel (k + 1) nxt
    else (al, nxt, k + 1, true)

/-- `_rescale(dissim, method, threshold)` -/
def rescale (m : RescaleMethod) (thr : α) (fuel : Nat) (dissim : List (List (Option α))) :
    List (List (Option α)) × List (List (Option α)) × Nat × Bool :=
  let w := rescaleWeights m dissim
  let est0 := scaleO (nanMean dissim (onesLike dissim))
  let (al, _, k, ok) := rescaleLoop thr w dissim fuel 0 est0
  (al, w, k, ok)

end rescale

/-! ## 6. pooling (`pool_rdm`, `_nan_mean`, `_nan_rank_data`) -/

section pool
variable {α : Type} [Add α] [Sub α] [Mul α] [Div α] [Zero α] [One α] [NatCast α]

/-- `_nan_mean`: positions present in the *first* RDM get `np.mean` over all RDMs (NaN as
    soon as one RDM lacks the entry), the others NaN -/
def nanMeanFirstEntry (col : List (Option α)) : Option α :=
  match col with
  | [] => none
  | none :: _ => none
  | some _ :: _ =>
    if col.all Option.isSome then some (mean (delete col)) else none

def nanMeanFirst (stack : List (List (Option α))) : List (Option α) :=
  match stack with
  | [] => []
  | v0 :: _ => (List.range v0.length).map (fun k => nanMeanFirstEntry (colAt k stack))

/-- column means of full vectors (`np.mean(axis=0)`) -/
def colMeans (rows : List (List α)) : List α :=
  match rows with
  | [] => []
  | r0 :: _ => (List.range r0.length).map (fun k => mean (colAt k rows))

/-- lift a function on full vectors to partial ones: apply it to the present entries and
    put the results back -/
def liftDel (g : List α → List α) (v : List (Option α)) : List (Option α) :=
  scatter (maskOf v) (g (delete v))

variable [LT α] [DecidableLT α]

/-- `_nan_rank_data` -/
def nanRank (v : List (Option α)) : List (Option α) := liftDel avgRank v

/-- `np.nanmean` of one row -/
def nanmeanO (v : List (Option α)) : α := nansum v / ((count v : Nat) : α)

/-- `_nonzero`: `np.where(norm == 0, 1, norm)` — a zero norm is replaced by 1 so that an
    all-zero or constant RDM stays a zero vector -/
def nonzero (s : α) : α := if s < 0 ∨ 0 < s then s else 1

variable [HasSqrt α]

/-- cosine: `v / _nonzero(sqrt(nanmean(v**2)))` -/
def normCosO (v : List (Option α)) : List (Option α) :=
  let s := nonzero (HasSqrt.sqrt (nanmeanO (v.map (fun o => o.map (fun a => a * a)))))
  v.map (fun o => o.map (fun a => a / s))

/-- corr: `(v - nanmean(v)) / nanstd(v - nanmean(v))` -/
def normCorrO (v : List (Option α)) : List (Option α) :=
  let c := v.map (fun o => o.map (fun a => a - nanmeanO v))
  let mc := nanmeanO c
  let sd := nonzero (HasSqrt.sqrt (nanmeanO (c.map (fun o => o.map (fun a => (a - mc) * (a - mc))))))
  c.map (fun o => o.map (fun a => a / sd))

/-- the same normalisations on full vectors -/
def normCos (x : List α) : List α :=
  let s := nonzero (HasSqrt.sqrt (mean (x.map (fun a => a * a))))
  x.map (fun a => a / s)

def normCorr (x : List α) : List α :=
  let c := x.map (fun a => a - mean x)
  let mc := mean c
  let sd := nonzero (HasSqrt.sqrt (mean (c.map (fun a => (a - mc) * (a - mc)))))
  c.map (fun a => a / sd)

/-- `np.nanmin` -/
def nanminO (v : List (Option α)) : Option α :=
  (delete v).foldl (fun acc a => match acc with
    | none => some a
    | some b => if a < b then some a else some b) none

/-- `v - np.nanmin(v) (+ 0.01)`: `sh a mn` is the shift of one entry given the minimum (the
    generated leaves `Rsa.Gen.C13.*Shift*`) -/
def shiftMinO (sh : α → α → α) (v : List (Option α)) : List (Option α) :=
  match nanminO v with
  | none => v
  | some m => v.map (fun o => o.map (fun a => sh a m))

/-- whitened norm used by `util/pooling.py`: `x / _nonzero(sqrt(x_okᵀ V_ok⁻¹ x_ok))` where `ok` are the
    entries present in every RDM of the stack -/
def normWhitenO (Vok : List (List α)) (ok : List Bool) (v : List (Option α)) : List (Option α) :=
  let x := delete (keep ok v)
  let q := dot x (solve Vok x)
  v.map (fun o => o.map (fun a => a / nonzero (HasSqrt.sqrt q)))

/-- entries present in every RDM (`np.all(np.isfinite(rdm_vec), axis=0)`) -/
def okAll (stack : List (List (Option α))) : List Bool :=
  match stack with
  | [] => []
  | v0 :: _ => (List.range v0.length).map (fun k => (colAt k stack).all Option.isSome)

inductive PoolMethod where
  | euclid | cosine | corr | rank
  | cosineCov | corrCov         -- `util/pooling.py` (V given)
  deriving DecidableEq, Repr

/-- `pool_rdm` as coded; `V` is `get_v(n_cond, sigma_k)` (used by the `*Cov` methods of
    `util/pooling.py`), `sh` the entry-wise shift after the correlation-type pooling
    (`a - nanmin + 0.01` there, `a - nanmin` in `inference_util`; see `poolShift`) -/
def pool (m : PoolMethod) (V : List (List α)) (c : α → α → α) (stack : List (List (Option α))) :
    List (Option α) :=
  match m with
  | .euclid => nanMeanFirst stack
  | .cosine => nanMeanFirst (stack.map normCosO)
  | .corr => shiftMinO c (nanMeanFirst (stack.map normCorrO))
  | .rank => nanMeanFirst (stack.map nanRank)
  | .cosineCov =>
    let ok := okAll stack
    nanMeanFirst (stack.map (normWhitenO (subBlock ok V) ok))
  | .corrCov =>
    let cen := stack.map (fun v => v.map (fun o => o.map (fun a => a - nanmeanO v)))
    let ok := okAll cen
    shiftMinO c (nanMeanFirst (cen.map (normWhitenO (subBlock ok V) ok)))

/-- the pooled RDM of *full* vectors (the same formulas without any NaN handling) -/
def poolRows (m : PoolMethod) (V : List (List α)) (c : α → α → α) (rows : List (List α)) : List α :=
  let shift := fun (x : List α) =>
    match x with
    | [] => []
    | a :: l => let mn := l.foldl (fun b y => if y < b then y else b) a
                x.map (fun y => c y mn)
  let whiten := fun (x : List α) => x.map (fun a => a / nonzero (HasSqrt.sqrt (dot x (solve V x))))
  match m with
  | .euclid => colMeans rows
  | .cosine => colMeans (rows.map normCos)
  | .corr => shift (colMeans (rows.map normCorr))
  | .rank => colMeans (rows.map avgRank)
  | .cosineCov => colMeans (rows.map whiten)
  | .corrCov => shift (colMeans ((rows.map center).map whiten))

end pool

/-! ### the two copies of `pool_rdm`, with the shift taken from the source text -/

section poolCopies
variable {α : Type} [Add α] [Sub α] [Mul α] [Div α] [Neg α] [Zero α] [One α] [NatCast α]
  [LT α] [DecidableLT α] [LE α] [DecidableLE α] [Max α] [Min α] [HasSqrt α]

inductive PoolCopy where
  | inferenceUtil   -- `util/inference_util.py:pool_rdm` (whitened methods pooled like the plain ones)
  | pooling         -- `util/pooling.py:pool_rdm`
  deriving DecidableEq, Repr

/-- the `- nanmin (+ 0.01)` line of the copy and method, as *generated from the source* -/
def poolShift (copy : PoolCopy) (m : PoolMethod) : α → α → α :=
  match copy, m with
  | .pooling, .corrCov => Rsa.Gen.C13.poolShiftCorrCov
  | .pooling, _ => Rsa.Gen.C13.poolShiftCorr
  | .inferenceUtil, .corrCov => Rsa.Gen.C13.infShiftCorrCov
  | .inferenceUtil, _ => Rsa.Gen.C13.infShiftCorr

/-- `util/inference_util.py` pools the whitened methods like the plain ones (no `V`) -/
def effMethod : PoolCopy → PoolMethod → PoolMethod
  | .inferenceUtil, .cosineCov => .cosine
  | .inferenceUtil, .corrCov => .corr
  | _, m => m

/-- `pool_rdm(rdms, method[, sigma_k])` of either copy -/
def poolRdm (copy : PoolCopy) (m : PoolMethod) (V : List (List α)) (stack : List (List (Option α))) :
    List (Option α) :=
  pool (effMethod copy m) V (poolShift copy m) stack

end poolCopies

/-! ## 7. linear regression fit (`fit_regress`) -/

section regress
variable {α : Type} [Add α] [Sub α] [Mul α] [Div α] [Zero α] [One α] [NatCast α]
  [LT α] [DecidableLT α] [HasSqrt α]

inductive FitMethod where
  | cosine | corr | cosineCov | corrCov
  deriving DecidableEq, Repr

/-- the normal equations on reduced vectors: `A` = model RDMs (rows), `y` = pooled data,
    `V` = `None` or the (already reduced) covariance.  Returns `X = A V⁻¹ Aᵀ + ridge·I`
    (`vectors @ v_inv_x.T + ridge_weight * np.eye(k)`; `ATA` of `_nn_least_squares`) and
    `b = A V⁻¹ y` (`v_inv_x @ y.T`; `y_V_A`) -/
def normalEq (m : FitMethod) (V : Option (List (List α))) (ridge : α)
    (A : List (List α)) (y : List α) : List (List α) × List α :=
  let A := if m = .corr ∨ m = .corrCov then A.map center else A
  let y := if m = .corrCov then center y else y
  let VA := match V with
    | none => A
    | some v => A.map (solve v)
  let X := (List.range A.length).map (fun i => (List.range A.length).map (fun j =>
    dot (A.getD i []) (VA.getD j []) + (if i = j then ridge else 0)))
  let b := VA.map (fun r => dot r y)
  (X, b)

/-- `fit_regress`: `np.linalg.solve(X, y)` -/
def regressRows (m : FitMethod) (V : Option (List (List α))) (ridge : α)
    (A : List (List α)) (y : List α) : List α :=
  solve (normalEq m V ridge A y).1 (normalEq m V ridge A y).2

/-- `fit_regress_nn`: `_nn_least_squares(vectors.T, y[0], ridge_weight, V)` — the active-set loop of
    C08's model (`Rsa.Fit.nnls`: only coefficients fixed at zero may enter, threshold
    `eps · max|b|`, at most `3k` outer passes) on the same normal equations.  The Boolean says
    whether the loop ended through its own test. -/
def regressRowsNN [Neg α] [LE α] [DecidableLE α] [Max α] [Min α] (eps : α) (m : FitMethod) (V : Option (List (List α))) (ridge : α)
    (A : List (List α)) (y : List α) : List α × Bool :=
  let r := Rsa.Fit.nnls eps (normalEq m V ridge A y).1 (normalEq m V ridge A y).2
  (r.1, r.2.2)

/-- `theta / sqrt(sum(theta**2))` unless the norm is zero -/
def normalizeTheta (t : List α) : List α :=
  let s := dot t t
  if 0 < s then t.map (fun a => a / HasSqrt.sqrt s) else t

/-- `fit_regress` after pooling: parse (model vectors, pooled data), reduce `V`, solve -/
def fitRegress (m : FitMethod) (V : List (List α)) (ridge : α) (normalize : Bool)
    (A : List (List (Option α))) (y : List (Option α)) : Except ParseErr (List α) :=
  match parseOf .utils A [y] with
  | .ok (a, b, mask) =>
    let v := if m = .cosineCov ∨ m = .corrCov then some (subBlock mask V) else none
    let t := regressRows m v ridge a (b.headD [])
    .ok (if normalize then normalizeTheta t else t)
  | .error e => .error e

end regress

section regressNN
variable {α : Type} [Add α] [Sub α] [Mul α] [Div α] [Zero α] [One α] [NatCast α]
  [LT α] [DecidableLT α] [HasSqrt α]

/-- `fit_regress_nn` after pooling: the same parser and `V` reduction as `fit_regress`, then
    the non-negative least-squares loop -/
def fitRegressNN [Neg α] [LE α] [DecidableLE α] [Max α] [Min α] (eps : α) (m : FitMethod) (V : List (List α)) (ridge : α) (normalize : Bool)
    (A : List (List (Option α))) (y : List (Option α)) : Except ParseErr (List α × Bool) :=
  match parseOf .utils A [y] with
  | .ok (a, b, mask) =>
    let v := if m = .cosineCov ∨ m = .corrCov then some (subBlock mask V) else none
    let t := regressRowsNN eps m v ridge a (b.headD [])
    .ok (if normalize then normalizeTheta t.1 else t.1, t.2)
  | .error e => .error e

end regressNN

/-! ## 8. pattern bootstrap on a condensed vector (`RDMs.subsample_pattern`) -/

section subsample
variable {α : Type}

/-- vector of the RDM over the (sorted) selection `sel`: pairs of the same pattern are NaN -/
def subsampleVec (n : Nat) (sel : List Nat) (v : List (Option α)) : List (Option α) :=
  (pairsOf sel).map (fun p =>
    if p.1 = p.2 then none
    else if p.1 < p.2 then (v[triIdx n p.1 p.2]?).join
    else (v[triIdx n p.2 p.1]?).join)

/-- the mask bootstrap resampling produces on complete RDMs -/
def subsampleMask (sel : List Nat) : List Bool := (pairsOf sel).map (fun p => !(p.1 == p.2))

end subsample

end Rsa.Nan
