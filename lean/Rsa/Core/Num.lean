/-
  Rsa.Core.Num — numeric plumbing shared by every model file.

  Model functions are written once, generically, over a type `α` that only has the
  *syntactic* operation classes below.  The same term is then
    * proved about at `α := K` (an ordered field, in `Rsa/Props`, with Mathlib),
    * executed at `α := Rat` (exact) or `α := Float` (IEEE) by the driver.
  This file imports nothing outside core Lean.
-/

namespace Rsa

/-- square root, only used by models whose code calls `np.sqrt`. -/
class HasSqrt (α : Type) where
  sqrt : α → α

/-- natural logarithm, only used by models whose code calls `np.log`. -/
class HasLog (α : Type) where
  log : α → α

instance : HasSqrt Float := ⟨Float.sqrt⟩
instance : HasLog Float := ⟨Float.log⟩
instance : NatCast Float := ⟨Float.ofNat⟩

section generic
variable {α : Type}

/-- sum of a list (left fold from 0, as `List.sum`). -/
def sumL [Add α] [Zero α] (l : List α) : α := l.sum

/-- dot product of two lists (truncating to the shorter). -/
def dot [Add α] [Mul α] [Zero α] (x y : List α) : α := (List.zipWith (· * ·) x y).sum

/-- arithmetic mean; the caller guarantees `l ≠ []` (numpy would give NaN). -/
def mean [Add α] [Zero α] [Div α] [NatCast α] (l : List α) : α := l.sum / (l.length : α)

/-- element-wise operations on vectors -/
def vadd [Add α] (x y : List α) : List α := List.zipWith (· + ·) x y
def vsub [Sub α] (x y : List α) : List α := List.zipWith (· - ·) x y
def vscale [Mul α] (c : α) (x : List α) : List α := x.map (c * ·)

/-- matrix (list of rows) times vector -/
def matVec [Add α] [Mul α] [Zero α] (m : List (List α)) (v : List α) : List α :=
  m.map (fun r => dot r v)

/-- transpose of a rectangular matrix with `n` columns -/
def transposeN (n : Nat) (m : List (List α)) [Inhabited α] : List (List α) :=
  (List.range n).map (fun j => m.map (fun r => r[j]!))

end generic

/-! ### Text transfer of numbers (driver only) -/

/-- parse `"p/q"`, `"-p/q"`, `"p"`. -/
def parseRat? (s : String) : Option Rat :=
  match s.splitOn "/" with
  | [p] => p.toInt?.map (fun i => (i : Rat))
  | [p, q] => do
      let pi ← p.toInt?
      let qn ← q.toNat?
      if qn = 0 then none else some (mkRat pi qn)
  | _ => none

def showRat (r : Rat) : String :=
  if r.den = 1 then toString r.num else s!"{r.num}/{r.den}"

def hexDigit? (c : Char) : Option Nat :=
  if '0' ≤ c ∧ c ≤ '9' then some (c.toNat - '0'.toNat)
  else if 'a' ≤ c ∧ c ≤ 'f' then some (c.toNat - 'a'.toNat + 10)
  else none

/-- parse 16 hex digits (big-endian IEEE-754 bits) into a `Float`. -/
def parseFloatBits? (s : String) : Option Float := do
  let ds ← s.toList.mapM hexDigit?
  if ds.length ≠ 16 then none
  else
    let n := ds.foldl (fun acc d => acc * 16 + d) 0
    some (Float.ofBits (UInt64.ofNat n))

def hexChar (d : Nat) : Char :=
  if d < 10 then Char.ofNat ('0'.toNat + d) else Char.ofNat ('a'.toNat + d - 10)

def showFloatBits (f : Float) : String :=
  let n := f.toBits.toNat
  String.ofList ((List.range 16).map (fun i => hexChar ((n / 16 ^ (15 - i)) % 16)))

end Rsa
