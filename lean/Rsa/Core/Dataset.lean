/-
  Rsa.Core.Dataset — executable model of rsatoolbox `Dataset` / `TemporalDataset`
  operations (property C11).  No Mathlib.

  Modelled *as coded*: measurements and descriptor columns are separate parallel arrays;
  every operation computes an index list from one descriptor column
  (`np.where(inverse == i_v)`, `num_index`, `np.argsort(kind='stable')`, `np.isin`) and then
  gathers the measurement array and every descriptor column with that index list
  (`measurements[selection]`, `subset_descriptor`).  The property (each measurement keeps
  its own labels) is a statement about the *labelled view* (`cellAt`, `Cell`) and is proved
  in `Rsa/Props/C11.lean`.

  One structure carries both classes: a flat `Dataset` is stored as obs × chan × [v]
  (time axis of length 1, no time descriptors, `temporal = false`).
-/
import Rsa.Core.Num
import Rsa.Gen.C11

namespace Rsa.Dataset

/-- descriptor values: integer-typed numbers, strings, float-typed numbers (what `bin_time`
    writes, what a float descriptor column holds) and the missing value (`None` in a string
    column, `NaN` in a float column; pandas' `unique()` counts it as one value) -/
inductive Lbl where
  | num (q : Rat)
  | str (s : String)
  | flt (q : Rat)
  | na
  deriving DecidableEq, Repr, Inhabited

/-- the numeric value of a number label -/
def Lbl.numVal : Lbl → Option Rat
  | .num q => some q
  | .flt q => some q
  | _ => none

def Lbl.rank : Lbl → Nat
  | .num _ => 0
  | .flt _ => 0
  | .str _ => 1
  | .na => 2

/-- numpy's order inside one homogeneous column (numbers by value whatever their dtype, strings
    by code point, NaN last); numbers before strings only to make it total. -/
def Lbl.le : Lbl → Lbl → Bool
  | .num a, .num b => decide (a ≤ b)
  | .num a, .flt b => decide (a ≤ b)
  | .flt a, .num b => decide (a ≤ b)
  | .flt a, .flt b => decide (a ≤ b)
  | .str a, .str b => decide (a ≤ b)
  | a, b => decide (a.rank ≤ b.rank)

/-- the filter of `subset_time`: `t_from <= t <= t_to`.  On numbers the comparison chain is the
    one *generated from the source text* (`Rsa.Gen.C11.subsetTimeKeep`); on strings the same
    chain in code-point order. -/
def Lbl.between (lo t hi : Lbl) : Bool :=
  match lo.numVal, t.numVal, hi.numVal with
  | some a, some x, some b => Rsa.Gen.C11.subsetTimeKeep a x b == 1
  | _, _, _ => Lbl.le lo t && Lbl.le t hi

abbrev Col := List Lbl
/-- a descriptor dictionary: key ↦ column (insertion ordered, keys unique) -/
abbrev Tbl := List (String × Col)
/-- the labels of one position of an axis: key ↦ value -/
abbrev Row := List (String × Lbl)

/-! ### index lists -/
section idx
variable {β : Type}

/-- `np.where(mask)[0]` for `mask = [p x for x in l]`: ascending positions where `p` holds -/
def indicesWhere (p : β → Bool) (l : List β) : List Nat :=
  (List.range l.length).filter (fun i => (l[i]?).any p)

/-- fancy indexing `l[idx]` (positions outside the list do not occur for the index lists
    the model produces; they would be an `IndexError` in numpy) -/
def gather (idx : List Nat) (l : List β) : List β := idx.filterMap (fun i => l[i]?)

/-- unique values in order of first appearance (`get_unique_unsorted`, first component of
    `get_unique_inverse`) -/
def uniqueFirst [DecidableEq β] : List β → List β
  | [] => []
  | x :: xs => x :: (uniqueFirst xs).filter (fun y => y ≠ x)

/-- second component of `get_unique_inverse`: position of each entry in `uniqueFirst` -/
def inverse [DecidableEq β] (l : List β) : List Nat := l.map (fun x => (uniqueFirst l).idxOf x)

/-- `np.where(inverse == i_v)[0]`; the mask test is generated from the source text -/
def selectionOf [DecidableEq β] (l : List β) (iv : Nat) : List Nat :=
  indicesWhere (fun k => Rsa.Gen.C11.selMatch k iv == 1) (inverse l)

/-- `measurements[inverse == i_v, :]` of `average_dataset_by` (mask test generated from the
    source text) -/
def selectionAvg [DecidableEq β] (l : List β) (iv : Nat) : List Nat :=
  indicesWhere (fun k => Rsa.Gen.C11.avgMatch k iv == 1) (inverse l)

/-- `l[start::step]` (step ≥ 1) -/
def sliceFrom (start step : Nat) : List β → List β
  | [] => []
  | x :: xs => if start = 0 then x :: sliceFrom (step - 1) step xs else sliceFrom (start - 1) step xs

/-- `np.argsort(col, kind='stable')`: stable merge sort of (value, position) pairs that
    compares values only -/
def argsortStable (le : β → β → Bool) (col : List β) : List Nat :=
  ((col.zipIdx).mergeSort (fun a b => le a.1 b.1)).map (·.2)

end idx

/-! ### descriptor tables -/

def Tbl.col (t : Tbl) (k : String) : Option Col := t.lookup k
def Tbl.keys (t : Tbl) : List String := t.map (·.1)
def Tbl.gather (idx : List Nat) (t : Tbl) : Tbl := t.map (fun kc => (kc.1, Rsa.Dataset.gather idx kc.2))
/-- the labels at position `i` -/
def Tbl.row (t : Tbl) (i : Nat) : Row := t.filterMap (fun kc => kc.2[i]?.map (fun x => (kc.1, x)))
/-- dictionary assignment `d[k] = v` -/
def setKey {β : Type} (k : String) (v : β) (d : List (String × β)) : List (String × β) :=
  d.filter (fun kv => kv.1 ≠ k) ++ [(k, v)]
/-- a run of dictionary assignments `t[k] = c` for the entries of `new` (key order aside) -/
def Tbl.minus (t : Tbl) (ks : List String) : Tbl := t.filter (fun kc => !(ks.contains kc.1))
def Tbl.update (t new : Tbl) : Tbl := t.minus new.keys ++ new
/-- all columns have length `n` (what the constructor checks) -/
def Tbl.wf (t : Tbl) (n : Nat) : Prop := ∀ kc ∈ t, kc.2.length = n

/-! ### the dataset -/

structure DS (α : Type) where
  temporal : Bool
  meas : List (List (List α))      -- obs × chan × time
  desc : Row                       -- dataset descriptors
  obs : Tbl
  chan : Tbl
  time : Tbl
  deriving Repr

section ds
variable {α : Type}

def DS.nObs (d : DS α) : Nat := d.meas.length
def DS.nChan (d : DS α) : Nat := match d.meas with | [] => 0 | r :: _ => r.length
def DS.nTime (d : DS α) : Nat := match d.meas with | (c :: _) :: _ => c.length | _ => 0

/-- rectangular n_obs × n_chan × n_time with descriptor columns of matching length;
    a flat dataset has one time slice and no time descriptors -/
structure DS.WF (d : DS α) (no nc nt : Nat) : Prop where
  obsLen : d.meas.length = no
  chanLen : ∀ r ∈ d.meas, r.length = nc
  timeLen : ∀ r ∈ d.meas, ∀ c ∈ r, c.length = nt
  obsT : d.obs.wf no
  chanT : d.chan.wf nc
  timeT : d.time.wf nt

/-- one labelled measurement: value with the labels of its observation, channel, time point
    and the dataset-level labels -/
structure Cell (α : Type) where
  v : α
  o : Row
  c : Row
  t : Row
  d : Row

/-- the labelled view at position (i, j, t) -/
def cellAt (d : DS α) (i j t : Nat) : Option (Cell α) :=
  (d.meas[i]?).bind (fun r => (r[j]?).bind (fun c => (c[t]?).map (fun v =>
    ⟨v, d.obs.row i, d.chan.row j, d.time.row t, d.desc⟩)))

/-- all labels a cell carries, as (key, value) pairs -/
def Cell.labels (c : Cell α) : List (String × Lbl) := c.o ++ c.c ++ c.t ++ c.d

/-- `c` is one of the labelled measurements of `d` -/
def IsCell (d : DS α) (c : Cell α) : Prop := ∃ i j t, cellAt d i j t = some c

/-- `c'` is the measurement `c` and carries no label that `c` did not carry -/
def Sub (c' c : Cell α) : Prop := c'.v = c.v ∧ ∀ p ∈ c'.labels, p ∈ c.labels

/-- aligned: rectangular measurements, every descriptor column as long as its axis -/
def WFex (d : DS α) : Prop := ∃ no nc nt, d.WF no nc nt

/-! #### gathers along the three axes (`measurements[sel]` + `subset_descriptor`) -/

def gatherObs (idx : List Nat) (d : DS α) : DS α :=
  { d with meas := gather idx d.meas, obs := d.obs.gather idx }
def gatherChan (idx : List Nat) (d : DS α) : DS α :=
  { d with meas := d.meas.map (gather idx), chan := d.chan.gather idx }
def gatherTime (idx : List Nat) (d : DS α) : DS α :=
  { d with meas := d.meas.map (fun r => r.map (gather idx)), time := d.time.gather idx }

/-! #### operations -/

/-- `split_obs(by)`; `Dataset` also records the group value as dataset descriptor,
    `TemporalDataset.split_obs` does not -/
def splitObs (by_ : String) (d : DS α) : Option (List (DS α)) :=
  match d.obs.col by_ with
  | none => none
  | some col =>
    some ((uniqueFirst col).zipIdx.map (fun (u, iv) =>
      let p := gatherObs (selectionOf col iv) d
      if d.temporal then p else { p with desc := setKey by_ u p.desc }))

/-- `split_channel(by)` (both classes record the group value) -/
def splitChan (by_ : String) (d : DS α) : Option (List (DS α)) :=
  match d.chan.col by_ with
  | none => none
  | some col =>
    some ((uniqueFirst col).zipIdx.map (fun (u, iv) =>
      let p := gatherChan (selectionOf col iv) d
      { p with desc := setKey by_ u p.desc }))

/-- `split_time(by)`: `[i for i, val in enumerate(col) if val == v]` per unique value -/
def splitTime (by_ : String) (d : DS α) : Option (List (DS α)) :=
  match d.time.col by_ with
  | none => none
  | some col =>
    some ((uniqueFirst col).map (fun u => gatherTime (indicesWhere (fun x => x == u) col) d))

/-- `num_index(col, values)`; a scalar value is the singleton list -/
def numIndex (col : Col) (vals : List Lbl) : List Nat :=
  indicesWhere (fun x => vals.contains x) col

def subsetObs (by_ : String) (vals : List Lbl) (d : DS α) : Option (DS α) :=
  (d.obs.col by_).map (fun col => gatherObs (numIndex col vals) d)
def subsetChan (by_ : String) (vals : List Lbl) (d : DS α) : Option (DS α) :=
  (d.chan.col by_).map (fun col => gatherChan (numIndex col vals) d)

/-- `subset_time(by, t_from, t_to)` -/
def subsetTime (by_ : String) (lo hi : Lbl) (d : DS α) : Option (DS α) :=
  (d.time.col by_).map (fun col =>
    let sel := (uniqueFirst col).filter (fun t => Lbl.between lo t hi)
    gatherTime (numIndex col sel) d)

/-- `sort_by(by)` with a stable argsort (what the property demands of both classes) -/
def sortBy (by_ : String) (d : DS α) : Option (DS α) :=
  (d.obs.col by_).map (fun col => gatherObs (argsortStable Lbl.le col) d)

/-- `_shared_descriptors`: keys of the first dictionary present in all -/
def sharedKeys {β : Type} (ds : List (List (String × β))) : List String :=
  match ds with
  | [] => []
  | d0 :: rest => (d0.map (·.1)).filter (fun k => rest.all (fun d => (d.map (·.1)).contains k))

/-- the column a part contributes to key `k` of the merged observation descriptors: its own
    column, or (for a dataset descriptor that varies across parts) its dataset value repeated
    for each of its observations (`np.repeat`) -/
def partCol (vary : List String) (k : String) (s : DS α) : Col :=
  if vary.contains k then
    (match s.desc.lookup k with
     | some v => List.replicate s.meas.length v
     | none => [])
  else (s.obs.col k).getD []

/-- `len({s.descriptors[k] for s in sets}) == 1` (test generated from the source text) -/
def sameEverywhere (sets : List (DS α)) (k : String) : Bool :=
  Rsa.Gen.C11.mergeIsSame (uniqueFirst (sets.map (fun s => s.desc.lookup k))).length == 1

/-- dataset descriptor keys all parts share, split into those with one value and the rest -/
def sameKeys (sets : List (DS α)) : List String :=
  (sharedKeys (sets.map (·.desc))).filter (fun k => sameEverywhere sets k)
def varyKeys (sets : List (DS α)) : List String :=
  (sharedKeys (sets.map (·.desc))).filter (fun k => !(sameEverywhere sets k))

/-- keys of the merged observation descriptors: shared observation keys, with the promoted
    dataset keys assigned afterwards (`obs_descs[k] = repeat(...)`) -/
def mergedObsKeys (sets : List (DS α)) : List String :=
  (sharedKeys (sets.map (·.obs))).filter (fun k => !(varyKeys sets).contains k) ++ varyKeys sets

/-- `merge_datasets`: rows concatenated; shared obs descriptors concatenated; dataset
    descriptors equal everywhere stay, varying ones are repeated per observation.
    Channel and time descriptors are taken from the first set (the caller guarantees they
    are identical, see `mergeAdmissible`). -/
def merge (sets : List (DS α)) : Option (DS α) :=
  match sets with
  | [] => none
  | d0 :: _ =>
    some { temporal := d0.temporal
           meas := (sets.map (·.meas)).flatten
           desc := (sameKeys sets).filterMap (fun k => (d0.desc.lookup k).map (fun v => (k, v)))
           obs := (mergedObsKeys sets).map (fun k => (k, (sets.map (partCol (varyKeys sets) k)).flatten))
           chan := d0.chan
           time := d0.time }

/-- every other element starting at 0 (`l[0::2]`) and at 1 (`l[1::2]`) -/
def evens {β : Type} : List β → List β
  | [] => []
  | [x] => [x]
  | x :: _ :: r => x :: evens r
def odds {β : Type} : List β → List β
  | [] => []
  | [_] => []
  | _ :: y :: r => y :: odds r

/-- `odd_even_split(by)` as coded: (merge ds_part[a::s], merge ds_part[b::s]) with the slice
    starts and the step read from the source text; a single group leaves the second list empty
    and `merge_datasets([])` has no dataset to return (`none`: the call is rejected) -/
def oddEven (by_ : String) (d : DS α) : Option (DS α × DS α) :=
  match splitObs by_ d with
  | none => none
  | some parts =>
    match merge (sliceFrom Rsa.Gen.C11.oddStart Rsa.Gen.C11.oeStep parts),
          merge (sliceFrom Rsa.Gen.C11.evenStart Rsa.Gen.C11.oeStep parts) with
    | some a, some b => some (a, b)
    | _, _ => none

/-- specification: (merge parts[0::2], merge parts[1::2]) -/
def oddEvenRef (by_ : String) (d : DS α) : Option (DS α × DS α) :=
  match splitObs by_ d with
  | none => none
  | some parts =>
    match merge (evens parts), merge (odds parts) with
    | some a, some b => some (a, b)
    | _, _ => none

/-- `nested_odd_even_split(l1, l2)` -/
def nestedOddEven (l1 l2 : String) (d : DS α) : Option (DS α × DS α) :=
  match splitObs l1 d with
  | none => none
  | some parts =>
    let pairs := parts.filterMap (oddEven l2)
    if pairs.length = parts.length then       -- every partition could be split
      match merge (pairs.map (·.1)), merge (pairs.map (·.2)) with
      | some a, some b => some (a, b)
      | _, _ => none
    else none

/-- numeric column -/
def colNums : Col → Option (List Rat)
  | [] => some []
  | .num q :: r => (colNums r).map (q :: ·)
  | .flt q :: r => (colNums r).map (q :: ·)
  | .str _ :: _ => none
  | .na :: _ => none

def ratMean (l : List Rat) : Rat := l.sum / (l.length : Rat)

/-- text numpy writes for a bin (`np.array2string(bin, separator=',')` of an integer array:
    entries right-aligned to the widest one) -/
def showLbl : Lbl → String
  | .num q => Rsa.showRat q
  | .flt q => Rsa.showRat q
  | .str s => s
  | .na => "nan"
def showBin (b : List Lbl) : String :=
  let ss := b.map showLbl
  let w := ss.foldl (fun m x => max m x.length) 0
  "[" ++ ",".intercalate (ss.map (fun x => "".pushn ' ' (w - x.length) ++ x)) ++ "]"

/-- all entries present -/
def allSome {β : Type} : List (Option β) → Option (List β)
  | [] => some []
  | none :: _ => none
  | some x :: r => (allSome r).map (x :: ·)

/-- `bin_time(by, bins)` as coded: per bin the mean over `np.isin(time, bin)` of the measurements
    and of the time coordinate (float-typed: `np.zeros`); **every** time descriptor first takes
    the value of the first time point of each bin (`values[np.flatnonzero(...)[0]]`, index read
    from the source text; no result when a bin matches no time point — `IndexError`), then `by`
    is overwritten with the binned coordinate and a text descriptor `bins` is added -/
def binTime [Add α] [Zero α] [Div α] [NatCast α] (by_ : String) (bins : List (List Lbl)) (d : DS α) :
    Option (DS α) :=
  match d.time.col by_ with
  | none => none
  | some col =>
    let tidx := bins.map (fun b => indicesWhere (fun x => b.contains x) col)
    match allSome (tidx.map (fun ix => (colNums (gather ix col)).map ratMean)),
          allSome (d.time.map (fun kc =>
            (allSome (tidx.map (fun ix => ix[Rsa.Gen.C11.binFirst]?.bind (fun t => kc.2[t]?)))).map
              (fun c => (kc.1, c)))) with
    | some tm, some firsts =>
      some { d with
        meas := d.meas.map (fun r => r.map (fun c => tidx.map (fun ix => Rsa.mean (gather ix c))))
        time := setKey "bins" (bins.map (fun b => Lbl.str (showBin b)))
                  (firsts.map (fun kc => if kc.1 = by_ then (kc.1, tm.map Lbl.flt) else kc)) }
    | _, _ => none

/-- order in which `time_as_observations(by)` visits the time points: grouped by value of
    the `by` descriptor in order of first appearance -/
def taoOrder (col : Col) : List Nat :=
  (uniqueFirst col).flatMap (fun u => indicesWhere (fun x => x == u) col)

/-- `time_as_observations(by)`: for every visited time point one block of all observations;
    observation descriptors repeated per block, time descriptors become observation
    descriptors (constant inside a block) -/
def timeAsObs (by_ : String) (d : DS α) : Option (DS α) :=
  match d.time.col by_ with
  | none => none
  | some col =>
    let order := taoOrder col
    let no := d.meas.length
    let obsT : Tbl := d.obs.map (fun kc => (kc.1, (order.map (fun _ => kc.2)).flatten))
    let timeT : Tbl := d.time.map (fun kc =>
      (kc.1, (gather order kc.2).flatMap (fun x => List.replicate no x)))
    some { temporal := false
           meas := order.flatMap (fun s => d.meas.map (fun r => r.map (fun c => gather [s] c)))
           desc := d.desc
           obs := obsT.update timeT
           chan := d.chan
           time := [] }

/-- `time_as_channels()`: `reshape(n_obs, -1)` (channel-major), channel descriptors
    `np.repeat`-ed, time descriptors `np.tile`-d into channel descriptors -/
def timeAsChan (d : DS α) : DS α :=
  let nt := d.nTime
  let nc := d.nChan
  let chanT : Tbl := d.chan.map (fun kc => (kc.1, kc.2.flatMap (fun x => List.replicate nt x)))
  let timeT : Tbl := d.time.map (fun kc => (kc.1, (List.replicate nc kc.2).flatten))
  { temporal := false
    meas := d.meas.map (fun r => r.flatten.map (fun v => [v]))
    desc := d.desc
    obs := d.obs
    chan := chanT.update timeT
    time := [] }

/-- `time_as_channels()` read **by index, as the source spells it** (round 5): the value in row `i`,
    column `q` of the result is the element of C *index* `q` of the (channel, time) block of
    observation `i` -- `self.measurements.reshape(n_obs, -1)` uses numpy's default index order `'C'`
    whatever the memory layout (C, Fortran, strided, reversed, transposed buffer) of the array is --,
    i.e. the measurement of channel `tacChanOf q n_tps` (the index `np.repeat(v, n_tps)` gives the
    channel labels) at time `tacTimeOf q n_tps` (the index `np.tile(v, n_chans)` gives the time
    labels).  The three index functions are generated from the source text (`Rsa.Gen.C11`). -/
def tacSource (d : DS α) (i q : Nat) : Option (Cell α) :=
  cellAt d i (Rsa.Gen.C11.tacChanOf q d.nTime) (Rsa.Gen.C11.tacTimeOf q d.nTime)

/-- the column `reshape(n_obs, -1)` puts the measurement of (channel `j`, time `t`) into -/
def tacColumn (d : DS α) (j t : Nat) : Nat := Rsa.Gen.C11.tacFlat j t d.nTime

/-! #### DataFrame round trip -/

/-- the descriptor columns of the frame `to_df` builds: `{**obs_descriptors, **descriptors}`,
    a dataset descriptor broadcast to every row (`df[dname] = dval`) -/
def dfFrame (d : DS α) : Tbl :=
  d.obs.update (d.desc.map (fun kv => (kv.1, List.replicate d.meas.length kv.2)))

/-- `df[desc].unique().size == 1`: pandas' `unique()` keeps a missing value as one of the
    values, so a column that is constant *except for missing entries* is not constant.  The
    test on the count is generated from the source text (`Rsa.Gen.C11.fromDfIsConst`). -/
def isConstCol (c : Col) : Bool := Rsa.Gen.C11.fromDfIsConst (uniqueFirst c).length == 1

/-- `from_df`'s classification of the non-channel columns: constant ⇒ dataset descriptor with
    the value of row 0 (`df[desc][0]`), otherwise observation descriptor `list(df[desc])` -/
def fromDfDesc (all : Tbl) : Row :=
  all.filterMap (fun kc => if isConstCol kc.2 then (kc.2[0]?).map (fun x => (kc.1, x)) else none)
def fromDfObs (all : Tbl) : Tbl := all.filter (fun kc => !isConstCol kc.2)

/-- `Dataset.from_df(ds.to_df(key), channels=<the measurement columns>, channel_descriptor=key)`:
    measurements unchanged; the only channel descriptor left is `key` -/
def dfRoundTrip (key : String) (d : DS α) : Option (DS α) :=
  match d.chan.col key with
  | none => none
  | some names =>
    some { d with
      chan := [(key, names)]
      desc := fromDfDesc (dfFrame d)
      obs := fromDfObs (dfFrame d) }

def Lbl.isNumeric : Lbl → Bool
  | .str _ => false
  | _ => true
def Lbl.isFloaty : Lbl → Bool
  | .flt _ => true
  | .na => true
  | _ => false

/-- pandas types the DataFrame column built from this descriptor column as float: every entry a
    number or missing, at least one of them float-typed or missing (integers next to a missing
    value are upcast) -/
def floatCol (c : Col) : Bool := !c.isEmpty && c.all Lbl.isNumeric && c.any Lbl.isFloaty

/-- the columns `from_df` takes for channels when it is given none:
    `[c for (c, t) in df.dtypes.items() if 'float' in str(t)]` — the measurement columns (always
    float) followed by every float-typed descriptor column -/
def dfDefaultChannels (names : Col) (all : Tbl) : Col :=
  names ++ (all.filter (fun kc => floatCol kc.2)).map (fun kc => Lbl.str kc.1)

/-- **the representable class of the DataFrame round trip**: the channel names under `key` are
    distinct and no descriptor key equals a channel name (`df[dname] = dval` would overwrite that
    measurement column) -/
def dfRepresentable (key : String) (d : DS α) : Bool :=
  match d.chan.col key with
  | none => false
  | some names => (uniqueFirst names).length == names.length &&
      (dfFrame d).keys.all (fun k => !(names.contains (Lbl.str k)))

/-- … and for `from_df(df)` without a channel list: the channels found by dtype are exactly the
    measurement columns, i.e. no descriptor column is float-typed -/
def dfDefaultRepresentable (key : String) (d : DS α) : Bool :=
  dfRepresentable key d &&
  match d.chan.col key with
  | none => false
  | some names => dfDefaultChannels names (dfFrame d) == names

/-- `average_dataset_by(ds, by)`: (per-group channel means, unique values, group sizes),
    groups in order of first appearance; flat datasets -/
def averageBy [Add α] [Zero α] [Div α] [NatCast α] (by_ : String) (d : DS α) :
    Option (List (List α) × Col × List Nat) :=
  match d.obs.col by_ with
  | none => none
  | some col =>
    let us := uniqueFirst col
    let groups := us.zipIdx.map (fun (_, iv) => gather (selectionAvg col iv) d.meas)
    some (groups.map (fun g =>
            (List.range d.nChan).map (fun j => Rsa.mean (g.filterMap (fun r => (r[j]?).bind (·[0]?))))),
          us, groups.map (·.length))

/-- `get_measurements_tensor(by)`: [group][channel][k-th row of the group] -/
def tensorBy (by_ : String) (d : DS α) : Option (List (List (List α)) × Col) :=
  match d.obs.col by_ with
  | none => none
  | some col =>
    let us := uniqueFirst col
    let groups := us.map (fun u => gather (indicesWhere (fun x => x == u) col) d.meas)
    some (groups.map (fun g =>
            (List.range d.nChan).map (fun j => g.filterMap (fun r => (r[j]?).bind (·[0]?)))),
          us)

/-- the constructor's check (`check_descriptor_length_error` on every descriptor dictionary,
    rectangular measurement array): executable form of `WFex` -/
def DS.wfB (d : DS α) : Bool :=
  d.meas.all (fun r => r.length == d.nChan && r.all (fun c => c.length == d.nTime)) &&
  d.obs.all (fun kc => kc.2.length == d.nObs) &&
  d.chan.all (fun kc => kc.2.length == d.nChan) &&
  d.time.all (fun kc => kc.2.length == d.nTime)

/-! #### sessions: a workspace of datasets and operations addressed by position -/

/-- all three axes non-empty and rectangular -/
def nonEmpty (d : DS α) : Bool :=
  d.nObs ≥ 1 && d.nChan ≥ 1 && d.nTime ≥ 1 &&
  d.meas.all (fun r => r.length == d.nChan && r.all (fun c => c.length == d.nTime))

def sortKeys {β : Type} (t : List (String × β)) : List (String × β) :=
  t.mergeSort (fun a b => decide (a.1 ≤ b.1))

/-- equality of descriptor dictionaries (key order aside) -/
def tblEq (a b : Tbl) : Bool := sortKeys a == sortKeys b

/-- documented precondition of `merge_datasets`: one class, identical channel and time
    descriptors (and shapes) -/
def mergeAdmissible (ws : List (DS α)) : Bool :=
  match ws with
  | [] => false
  | d0 :: _ => ws.all (fun d => nonEmpty d && d.temporal == d0.temporal && tblEq d.chan d0.chan
                  && tblEq d.time d0.time && d.nChan == d0.nChan && d.nTime == d0.nTime)

def replaceAt (ws : List (DS α)) (i : Nat) (new : List (DS α)) : List (DS α) :=
  ws.take i ++ new ++ ws.drop (i + 1)

inductive Op where
  | copy (i : Nat)
  | pick (i : Nat)
  | merge
  | splitObs (i : Nat) (by_ : String)
  | splitChan (i : Nat) (by_ : String)
  | splitTime (i : Nat) (by_ : String)
  | subsetObs (i : Nat) (by_ : String) (vals : List Lbl)
  | subsetChan (i : Nat) (by_ : String) (vals : List Lbl)
  | subsetTime (i : Nat) (by_ : String) (lo hi : Lbl)
  | sortBy (i : Nat) (by_ : String)
  | oddEven (i : Nat) (by_ : String)
  | nestedOddEven (i : Nat) (l1 l2 : String)
  | binTime (i : Nat) (by_ : String) (bins : List (List Lbl))
  | timeAsObs (i : Nat) (by_ : String)
  | timeAsChan (i : Nat)
  | df (i : Nat) (key : String)
  | dfDefault (i : Nat) (key : String)
  /-- keep object `i` and put a second handle on it next to it: the session form of "the caller
      keeps the source of a value-returning operation" (`parts = ds.split_channel(..)` leaves
      `ds` readable).  In the model objects are values, so the two are equal and stay independent. -/
  | dup (i : Nat)

/-- the workspace position an operation is addressed to (`merge` and `pick` consume the whole
    workspace) -/
def Op.target : Op → Option Nat
  | .merge => none
  | .pick _ => none
  | .copy i => some i
  | .splitObs i _ => some i
  | .splitChan i _ => some i
  | .splitTime i _ => some i
  | .subsetObs i _ _ => some i
  | .subsetChan i _ _ => some i
  | .subsetTime i _ _ _ => some i
  | .sortBy i _ => some i
  | .oddEven i _ => some i
  | .nestedOddEven i _ _ => some i
  | .binTime i _ _ => some i
  | .timeAsObs i _ => some i
  | .timeAsChan i => some i
  | .df i _ => some i
  | .dfDefault i _ => some i
  | .dup i => some i

/-- the same operation addressed to another position -/
def Op.retarget (k : Nat) : Op → Op
  | .merge => .merge
  | .pick _ => .pick k
  | .copy _ => .copy k
  | .splitObs _ b => .splitObs k b
  | .splitChan _ b => .splitChan k b
  | .splitTime _ b => .splitTime k b
  | .subsetObs _ b v => .subsetObs k b v
  | .subsetChan _ b v => .subsetChan k b v
  | .subsetTime _ b lo hi => .subsetTime k b lo hi
  | .sortBy _ b => .sortBy k b
  | .oddEven _ b => .oddEven k b
  | .nestedOddEven _ a b => .nestedOddEven k a b
  | .binTime _ b bins => .binTime k b bins
  | .timeAsObs _ b => .timeAsObs k b
  | .timeAsChan _ => .timeAsChan k
  | .df _ key => .df k key
  | .dfDefault _ key => .dfDefault k key
  | .dup _ => .dup k

/-- one operation on the workspace; `none` = not applicable (the workspace stays) -/
def applyOp [Add α] [Zero α] [Div α] [NatCast α] (ws : List (DS α)) : Op → Option (List (DS α))
  | .copy _ => some ws
  | .pick i => (ws[i]?).map (fun d => [d])
  | .merge => if mergeAdmissible ws then (merge ws).map (fun m => [m]) else none
  | .splitObs i by_ => (ws[i]?).bind (fun d => (splitObs by_ d).map (replaceAt ws i))
  | .splitChan i by_ => (ws[i]?).bind (fun d => (splitChan by_ d).map (replaceAt ws i))
  | .splitTime i by_ => (ws[i]?).bind (fun d => (splitTime by_ d).map (replaceAt ws i))
  | .subsetObs i by_ vals => (ws[i]?).bind (fun d => (subsetObs by_ vals d).map (fun x => replaceAt ws i [x]))
  | .subsetChan i by_ vals => (ws[i]?).bind (fun d => (subsetChan by_ vals d).map (fun x => replaceAt ws i [x]))
  | .subsetTime i by_ lo hi => (ws[i]?).bind (fun d => (subsetTime by_ lo hi d).map (fun x => replaceAt ws i [x]))
  | .sortBy i by_ => (ws[i]?).bind (fun d => (sortBy by_ d).map (fun x => replaceAt ws i [x]))
  | .oddEven i by_ => (ws[i]?).bind (fun d => (oddEven by_ d).map (fun p => replaceAt ws i [p.1, p.2]))
  | .nestedOddEven i l1 l2 =>
      (ws[i]?).bind (fun d => (nestedOddEven l1 l2 d).map (fun p => replaceAt ws i [p.1, p.2]))
  | .binTime i by_ bins => (ws[i]?).bind (fun d => (binTime by_ bins d).map (fun x => replaceAt ws i [x]))
  | .timeAsObs i by_ => (ws[i]?).bind (fun d => (timeAsObs by_ d).map (fun x => replaceAt ws i [x]))
  | .timeAsChan i => (ws[i]?).map (fun d => replaceAt ws i [timeAsChan d])
  | .df i key => (ws[i]?).bind (fun d =>
      if dfRepresentable key d then (dfRoundTrip key d).map (fun x => replaceAt ws i [x]) else none)
  | .dfDefault i key => (ws[i]?).bind (fun d =>
      if dfDefaultRepresentable key d then (dfRoundTrip key d).map (fun x => replaceAt ws i [x]) else none)
  | .dup i => (ws[i]?).map (fun d => replaceAt ws i [d, d])

/-- a value-returning operation whose caller **keeps the source**: the results of `o` (addressed
    to object `i`) are inserted after the source instead of replacing it -/
def applyKeep [Add α] [Zero α] [Div α] [NatCast α] (ws : List (DS α)) (i : Nat) (o : Op) :
    Option (List (DS α)) :=
  (applyOp ws (.dup i)).bind (fun w => applyOp w (o.retarget (i + 1)))

/-- a whole history -/
def run [Add α] [Zero α] [Div α] [NatCast α] (ws : List (DS α)) (ops : List Op) : List (DS α) :=
  ops.foldl (fun w o => (applyOp w o).getD w) ws

end ds

end Rsa.Dataset
