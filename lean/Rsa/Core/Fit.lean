/-
  Rsa.Core.Fit — executable model of `rsatoolbox.model` (property C08).

  Generic over a number type `α` with syntactic operation classes only: proved about over
  `ℝ` in `Rsa/Props/C08.lean`, executed at `Rat` (predictions, subsampling — exact) or
  `Float` (fits) by the driver.  RDM vectors are condensed lists in the order of
  `Rsa.pairs n`; a missing entry (NaN) is `none`.

  Modelled *as coded*
    * `predict` / `predict_rdm` of the four model classes (`np.matmul(self.rdm.T, theta)`,
      the `None` defaults, the clamp of `ModelInterpolate.predict_rdm`), `to_dict` /
      `model_from_dict` (dispatch on the type name);
    * `RDMs.subsample_pattern` (selection by descriptor value, sorted, NaN diagonal) and
      `_parse_nan_vectors` (common mask or `ValueError`);
    * `pool_rdm` for the four fitting criteria, the normalisations of `fit_regress`,
      the normal equations `X θ = rhs` (`X = A V⁻¹ Aᵀ`, `rhs = A V⁻¹ y`);
    * `_nn_least_squares` (active-set loop as the property needs it: only coefficients fixed
      at zero may enter, threshold relative to the scale of `Aᵀy` and — round 5 — of the products
      `|ATA|·x`, bounded iterations), `fit_select` (first arg-max),
      the assembly of θ in `fit_interpolate`, the final normalisation to unit norm.
  The *property demands* that the pooled target of the whitened criteria is formed with the
  same `sigma_k` as the criterion (`pool_rdm(data, method, sigma_k)`); the model does that.
  Scalar arithmetic whose exact text matters is *called* from the generated leaves
  `Rsa.Gen.C08.*` (regenerated from `fitter.py` / `model.py` on every run): the two weights of
  an interpolation fit and the offset of the second index, the entry of the final
  normalisation, the NNLS thresholds (before the loop / per iteration), iteration bound, step length and step update, the
  `theta ** 2` reparametrisation and the loss of the optimising fitters, the clamp and the
  `None` default of `ModelInterpolate`, the default-fitter dispatch of the model classes.
  Parameters / contracts: the linear solves (`np.linalg.lstsq`, `scipy.sparse.linalg.cg`;
  the driver uses `Compare.solve`), the per-segment results of `minimize_scalar`, BFGS.
  No Mathlib here.
-/
import Rsa.Core.Num
import Rsa.Core.Tri
import Rsa.Core.Compare
import Rsa.Gen.C08

namespace Rsa.Fit
open Rsa Rsa.Compare

/-! ## 1. predictions of the model classes -/

section predict
variable {α : Type} [Add α] [Mul α] [Zero α]

/-- `np.matmul(self.rdm.T, theta)`: `Σ_i θ_i · B_i` (vectors of length `m`) -/
def predict (m : Nat) : List (List α) → List α → List α
  | b :: B, t :: θ => vadd (vscale t b) (predict m B θ)
  | _, _ => List.replicate m 0

end predict

inductive Kind where
  | fixed | select | weighted | interpolate
  deriving DecidableEq, Repr

/-- the `theta` argument as passed: `None`, an integer index, a weight vector -/
inductive Param (α : Type) where
  | none : Param α
  | idx : Nat → Param α
  | vec : List α → Param α

/-- pattern descriptors: name ↦ one label per condition -/
abbrev Desc := List (String × List Nat)

/-- a model object: class, name, the vectors of `rdm_obj`, its pattern descriptors -/
structure Model (α : Type) where
  kind : Kind
  name : String
  nCond : Nat
  obj : List (List α)
  desc : Desc

/-- `pattern_descriptors['index'] = np.arange(n_cond)` (ModelFixed.__init__) -/
def setIndex (n : Nat) (d : Desc) : Desc :=
  (d.filter (fun kv => kv.1 != "index")) ++ [("index", List.range n)]

section classes
variable {α : Type} [Add α] [Sub α] [Mul α] [Div α] [Neg α] [Zero α] [One α] [NatCast α]
  [LT α] [DecidableLT α] [LE α] [DecidableLE α] [Max α] [Min α]

def vecLen (M : Model α) : Nat := triLen M.nCond

/-- `np.mean(rdm.get_vectors(), axis=0)` -/
def colMeans (m : Nat) (rows : List (List α)) : List α :=
  (List.range m).map (fun k => (rows.map (fun r => r.getD k 0)).sum / (rows.length : α))

/-- constructor from an RDMs object (the form `model_from_dict` uses) -/
def mkModel (kind : Kind) (name : String) (n : Nat) (obj : List (List α)) (d : Desc) : Model α :=
  { kind := kind, name := name, nCond := n, obj := obj,
    desc := if kind = Kind.fixed then setIndex n d else d }

def half : α := ((1 : Nat) : α) / ((2 : Nat) : α)

/-- `Model*.predict(theta)`; `none` = the call raises (index out of range) -/
def predictVec (M : Model α) : Param α → Option (List α)
  | p =>
    match M.kind with
    | .fixed => some (colMeans (vecLen M) M.obj)
    | .select =>
      match p with
      | .none => M.obj[0]?
      | .idx i => M.obj[i]?
      | .vec _ => none
    | .weighted =>
      match p with
      | .none => some (predict (vecLen M) M.obj (List.replicate M.obj.length 1))
      | .vec θ => some (predict (vecLen M) M.obj θ)
      | .idx _ => none
    | .interpolate =>
      match p with
      | .none => some (predict (vecLen M) M.obj
          ((List.range M.obj.length).map (fun i => Rsa.Gen.C08.interpDefault i)))
      | .vec θ => some (predict (vecLen M) M.obj θ)
      | .idx _ => none

/-- `np.maximum(theta, 0)` (generated leaf) -/
def clampNonneg (θ : List α) : List α := θ.map (fun t => Rsa.Gen.C08.interpClamp t)

/-- `Model*.predict_rdm(theta)`: the vectors of the returned RDMs object and its pattern
    descriptors -/
def predictRdm (M : Model α) : Param α → Option (List (List α) × Desc)
  | p =>
    match M.kind with
    | .fixed => some (M.obj, M.desc)
    | .select =>
      match p with
      | .none => (M.obj[0]?).map (fun v => ([v], M.desc))
      | .idx i => (M.obj[i]?).map (fun v => ([v], M.desc))
      | .vec _ => none
    | .weighted =>
      match p with
      | .none => some ([predict (vecLen M) M.obj (List.replicate M.obj.length 1)], M.desc)
      | .vec θ => some ([predict (vecLen M) M.obj θ], M.desc)
      | .idx _ => none
    | .interpolate =>
      match p with
      | .none => some ([predict (vecLen M) M.obj (List.replicate M.obj.length 1)], M.desc)
      | .vec θ => some ([predict (vecLen M) M.obj (clampNonneg θ)], M.desc)
      | .idx _ => none

/-- dictionary form (`to_dict`): type name, name, the rdm object -/
structure ModelDict (α : Type) where
  typeName : String
  name : String
  nCond : Nat
  rdm : List (List α)
  desc : Desc

def kindName : Kind → String
  | .fixed => "ModelFixed"
  | .select => "ModelSelect"
  | .weighted => "ModelWeighted"
  | .interpolate => "ModelInterpolate"

def toDict (M : Model α) : ModelDict α :=
  { typeName := kindName M.kind, name := M.name, nCond := M.nCond, rdm := M.obj, desc := M.desc }

/-- `model_from_dict`: dispatch on the type name, rebuild from the RDMs object -/
def fromDict (d : ModelDict α) : Option (Model α) :=
  if d.typeName = "ModelFixed" then some (mkModel .fixed d.name d.nCond d.rdm d.desc)
  else if d.typeName = "ModelSelect" then some (mkModel .select d.name d.nCond d.rdm d.desc)
  else if d.typeName = "ModelWeighted" then some (mkModel .weighted d.name d.nCond d.rdm d.desc)
  else if d.typeName = "ModelInterpolate" then some (mkModel .interpolate d.name d.nCond d.rdm d.desc)
  else none

/-- the fitting functions of `model/fitter.py` -/
inductive Fitter where
  | mock | select | optimize | interpolate | regress | regressNN | optimizePositive
  deriving DecidableEq, Repr

def Kind.code : Kind → Nat
  | .fixed => 0 | .select => 1 | .weighted => 2 | .interpolate => 3

def fitterOfCode : Nat → Fitter
  | 0 => .mock | 1 => .select | 2 => .optimize | _ => .interpolate

/-- `self.default_fitter` of the model classes (generated dispatch table) -/
def defaultFitter (k : Kind) : Fitter := fitterOfCode (Rsa.Gen.C08.defaultFitterCode k.code)

/-- `self.n_param` -/
def nParam (M : Model α) : Nat := Rsa.Gen.C08.nParam M.kind.code M.obj.length

/-- `Model.fit(data, method, pattern_idx, pattern_descriptor, sigma_k)`: the class's default
    fitter applied to the model itself with the arguments passed through unchanged
    (`fitters` interprets a fitter name as the function of model and call arguments) -/
def modelFit {Args Res : Type} (fitters : Fitter → Model α → Args → Res) (M : Model α) (a : Args) : Res :=
  fitters (defaultFitter M.kind) M a

/-- `fit_mock`: `np.zeros(model.n_param)` -/
def fitMock (M : Model α) : List α := List.replicate (nParam M) 0

end classes

/-! ## 2. `subsample_pattern`, NaN handling -/

section subsample
variable {α : Type}

/-- `selection`: for every requested value the positions carrying it, concatenated, sorted -/
def selection (desc : List Nat) (value : List Nat) : List Nat :=
  (value.flatMap (fun v => (List.range desc.length).filter (fun i => desc.getD i 0 == v))).mergeSort
    (fun a b => decide (a ≤ b))

/-- square form with NaN on the diagonal (`np.fill_diagonal(…, np.nan)`) -/
def entryNan (n : Nat) (v : List α) (i j : Nat) : Option α :=
  if i = j then none else if i < j then v[triIdx n i j]? else v[triIdx n j i]?

/-- vector of the RDM restricted (with repeats) to the conditions `sel` -/
def subsample (n : Nat) (sel : List Nat) (v : List α) : List (Option α) :=
  (pairsOf sel).map (fun p => entryNan n v p.1 p.2)

def maskOf (v : List (Option α)) : List Bool := v.map Option.isSome

/-- keep the entries whose mask bit is set -/
def maskVec {β : Type} (mask : List Bool) (v : List β) : List β :=
  ((mask.zip v).filter (fun bv => bv.1)).map (fun bv => bv.2)

def maskMat {β : Type} (mask : List Bool) (M : List (List β)) : List (List β) :=
  (maskVec mask M).map (maskVec mask)

/-- `_parse_nan_vectors`: all rows of both stacks must share one NaN mask; returns the mask
    and the dense rows, `none` = `ValueError` -/
def parseNan (xs ys : List (List (Option α))) :
    Option (List Bool × List (List α) × List (List α)) :=
  match xs with
  | [] => none
  | x0 :: _ =>
    let mask := maskOf x0
    if (xs ++ ys).all (fun r => maskOf r == mask) then
      some (mask, xs.map (fun r => r.reduceOption), ys.map (fun r => r.reduceOption))
    else none

end subsample

/-! ## 3. criteria, pooling, regression fits -/

inductive Method where
  | cosine | corr | cosineCov | corrCov
  deriving DecidableEq, Repr

def Method.whitened : Method → Bool
  | .cosineCov | .corrCov => true
  | _ => false

def Method.centred : Method → Bool
  | .corr | .corrCov => true
  | _ => false

section fit
variable {α : Type} [Add α] [Sub α] [Mul α] [Div α] [Neg α] [Zero α] [One α] [NatCast α]
  [LT α] [DecidableLT α] [LE α] [DecidableLE α] [Max α] [Min α] [HasSqrt α]

/-- similarity of a prediction and one data RDM under a criterion (`compare`) ;
    `V` is the (masked) covariance of the RDM entries for the whitened criteria -/
def sim (meth : Method) (V : List (List α)) (x y : List α) : Option α :=
  match meth with
  | .cosine => some (cosine x y)
  | .corr => some (corr x y)
  | .cosineCov => whitenedCos V x y
  | .corrCov => whitenedCorr V x y

/-- `np.mean(compare(pred, data, method, sigma_k))` -/
def meanSim (meth : Method) (V : List (List α)) (x : List α) (data : List (List α)) : Option α :=
  (data.mapM (fun d => sim meth V x d)).map mean

/-- smallest entry (`np.nanmin`) -/
def minL (l : List α) : α :=
  match l with
  | [] => 0
  | a :: r => r.foldl (fun acc b => if b < acc then b else acc) a

/-- `np.mean(rows, axis=0)` for rows of equal length `m` -/
def rowMean (m : Nat) (rows : List (List α)) : List α :=
  (rows.foldr vadd (List.replicate m 0)).map (fun a => a / (rows.length : α))

/-- `pool_rdm(data, method, sigma_k)` on dense rows: each RDM is normalised for the
    criterion, the normalised RDMs are averaged (correlations: shifted to be positive).
    `sol` is the linear solve `V⁻¹ ·` (identity for the plain criteria). -/
def pool (meth : Method) (sol : List α → List α) (data : List (List α)) : List α :=
  let m := (data.headD []).length
  match meth with
  | .cosine =>
    rowMean m (data.map (fun d =>
      let s := HasSqrt.sqrt (mean (d.map (fun a => a * a)))
      d.map (fun a => a / s)))
  | .corr =>
    let y := rowMean m (data.map (fun d =>
      let c := center d
      let s := HasSqrt.sqrt (mean (c.map (fun a => a * a)))
      c.map (fun a => a / s)))
    let mn := minL y
    y.map (fun a => a - mn + ((1 : Nat) : α) / ((100 : Nat) : α))
  | .cosineCov =>
    rowMean m (data.map (fun d =>
      let s := HasSqrt.sqrt (dot d (sol d))
      d.map (fun a => a / s)))
  | .corrCov =>
    let y := rowMean m (data.map (fun d =>
      let c := center d
      let s := HasSqrt.sqrt (dot c (sol c))
      c.map (fun a => a / s)))
    let mn := minL y
    y.map (fun a => a - mn + ((1 : Nat) : α) / ((100 : Nat) : α))

/-- the normalisations of `fit_regress`: rows and target as they enter the normal equations -/
def regressPrep (meth : Method) (A : List (List α)) (y : List α) : List (List α) × List α :=
  match meth with
  | .cosine => (A, y)
  | .corr => (A.map center, y)
  | .cosineCov => (A, y)
  | .corrCov => (A.map center, center y)

/-- `X = A V⁻¹ Aᵀ` (`vectors @ v_inv_x.T`) -/
def gramOf (sol : List α → List α) (A : List (List α)) : List (List α) :=
  A.map (fun a => A.map (fun b => dot a (sol b)))

/-- `rhs = A V⁻¹ y` (`v_inv_x @ y.T`) -/
def rhsOf (sol : List α → List α) (A : List (List α)) (y : List α) : List α :=
  A.map (fun a => dot (sol a) y)

/-- `np.sum(theta ** 2)` (entries from the generated leaf) -/
def normSq (θ : List α) : α := (θ.map (fun t => Rsa.Gen.C08.normSqEntry t)).sum

/-- final normalisation: `theta / sqrt(sum(theta**2))` unless the norm is zero (entry formula
    from the generated leaf of `fit_regress`; the other three fitters' leaves are proved equal) -/
def normalise (θ : List α) : List α :=
  let nrm := normSq θ
  if 0 < nrm then θ.map (fun t => Rsa.Gen.C08.normEntryRegress t (HasSqrt.sqrt nrm)) else θ

/-- `fit_regress` on dense rows: pooled target, normalisation, normal equations -/
def fitRegress (meth : Method) (sol : List α → List α) (A : List (List α))
    (data : List (List α)) (norm : Bool) : List α :=
  let y := pool meth sol data
  let (A', y') := regressPrep meth A y
  let θ := solve (gramOf sol A') (rhsOf sol A' y')
  if norm then normalise θ else θ

/-! ### non-negative least squares (`_nn_least_squares`) -/

def gather (idx : List Nat) (v : List α) : List α := idx.map (fun i => v.getD i 0)

def subMat (idx : List Nat) (M : List (List α)) : List (List α) :=
  idx.map (fun i => gather idx (M.getD i []))

/-- `x[idx] = vals` -/
def scatter (x : List α) (idx : List Nat) (vals : List α) : List α :=
  (idx.zip vals).foldl (fun acc iv => acc.set iv.1 iv.2) x

def whereTrue (p : List Bool) : List Nat :=
  (List.range p.length).filter (fun i => p.getD i false)

/-- `np.argmax` (first maximum) with its value -/
def argmaxFirst (w : List α) : Nat × α :=
  match w with
  | [] => (0, 0)
  | a :: r =>
    let res := r.foldl (fun (acc : Nat × Nat × α) b =>
      if acc.2.2 < b then (acc.1 + 1, acc.1 + 1, b) else (acc.1 + 1, acc.2.1, acc.2.2)) (0, 0, a)
    (res.2.1, res.2.2)

/-- `np.argmin` (first minimum) with its value -/
def argminFirst (w : List α) : Nat × α :=
  match w with
  | [] => (0, 0)
  | a :: r =>
    let res := r.foldl (fun (acc : Nat × Nat × α) b =>
      if b < acc.2.2 then (acc.1 + 1, acc.1 + 1, b) else (acc.1 + 1, acc.2.1, acc.2.2)) (0, 0, a)
    (res.2.1, res.2.2)

/-- the blocking coefficient of a step from `xp` towards `s`: among the coefficients that
    would become negative (`s_i < 0`) the first one with the smallest step length
    `x_i / (x_i − s_i)` -/
def blocking (xp s : List α) : Option (Nat × α) :=
  ((List.range s.length).filter (fun i => decide (s.getD i 0 < 0))).foldl
    (fun acc i =>
      let a := Rsa.Gen.C08.nnlsStepLen (xp.getD i 0) (s.getD i 0)
      match acc with
      | none => some (i, a)
      | some (j, b) => if a < b then some (i, a) else some (j, b)) none

/-- inner loop: while some passive coefficient is negative, step towards `s` as far as
    feasibility allows and drop the blocking index.  The Boolean says whether the loop ended
    through its test (`true`: no negative coefficient left) or ran out of fuel (`false`;
    `nnlsInner_fuel_suffices`: with `fuel > number of passive coefficients` it never does). -/
def nnlsInner (G : List (List α)) (c : List α) :
    Nat → List α → List Bool → List α → List α × List Bool × List α × Bool
  | 0, x, p, s => (x, p, s, (blocking (gather (whereTrue p) x) s).isNone)
  | fuel + 1, x, p, s =>
    let idx := whereTrue p
    let xp := gather idx x
    match blocking xp s with
    | none => (x, p, s, true)
    | some (ia, alpha) =>
      let xp' := List.zipWith (fun xi si => Rsa.Gen.C08.nnlsStepUpdate xi alpha si) xp s
      let x1 := scatter x idx xp'
      let gi := idx.getD ia 0
      let x2 := x1.set gi 0
      let p2 := p.set gi false
      let idx2 := whereTrue p2
      let s2 := solve (subMat idx2 G) (gather idx2 c)
      nnlsInner G c fuel x2 p2 s2

/-- largest gradient entry among the coefficients still fixed at zero (first maximum),
    `none` when every coefficient is passive -/
def argmaxActive (p : List Bool) (w : List α) : Option (Nat × α) :=
  ((List.range w.length).filter (fun i => !(p.getD i false))).foldl
    (fun acc i =>
      let v := w.getD i 0
      match acc with
      | none => some (i, v)
      | some (j, b) => if b < v then some (i, v) else some (j, b)) none

/-- outer loop: while a coefficient fixed at zero has a gradient above `tol`, release the
    one with the largest gradient; at the end of every iteration the threshold is re-set from
    the new point (`tolNext x`, round 5: it also covers the rounding level of the products
    `|ATA|·x` the gradient is a difference of).  The Boolean says whether all loops ended
    through their tests (`true`) or an iteration bound was hit (`false`) -/
def nnlsOuter (tolNext : List α → α) (G : List (List α)) (c : List α) :
    Nat → α → List α → List Bool → List α → List α × List Bool × List α × Bool
  | 0, _, x, p, w => (x, p, w, false)
  | fuel + 1, tol, x, p, w =>
    match argmaxActive p w with
    | none => (x, p, w, true)
    | some (im, wmax) =>
      if tol < wmax then
        let p1 := p.set im true
        let idx1 := whereTrue p1
        let s1 := solve (subMat idx1 G) (gather idx1 c)
        let r := nnlsInner G c (c.length + 1) x p1 s1
        let x3 := scatter r.1 (whereTrue r.2.1) r.2.2.1
        let w3 := vsub c (matVec G x3)
        let o := nnlsOuter tolNext G c fuel (tolNext x3) x3 r.2.1 w3
        (o.1, o.2.1, o.2.2.1, o.2.2.2 && r.2.2.2)
      else (x, p, w, true)

/-- largest absolute value -/
def maxAbs (l : List α) : α :=
  l.foldl (fun acc a => let b := if a < 0 then 0 - a else a; if acc < b then b else acc) 0

/-- `np.abs(ATA)` -/
def absMat (G : List (List α)) : List (List α) :=
  G.map (fun r => r.map (fun a => if a < 0 then 0 - a else a))

/-- `np.max(np.abs(ATA) @ x)`: the size of the products the gradient `Aᵀy − ATA·x` is a
    difference of (`x ≥ 0`, so every entry of the product is non-negative) -/
def prodLevel (G : List (List α)) (x : List α) : α := maxAbs (matVec (absMat G) x)

/-- the threshold as re-set at the end of an outer iteration (generated leaf `nnlsTolIter`):
    `100 · eps · max(max|c|, max(|ATA|·x))` -/
def nnlsTolAt (eps : α) (G : List (List α)) (c : List α) (x : List α) : α :=
  Rsa.Gen.C08.nnlsTolIter eps (maxAbs c) (prodLevel G x)

/-- `_nn_least_squares` from the precomputed `ATA = G`, `Aᵀ V⁻¹ y = c` (`eps` = machine
    epsilon): the gradient of a coefficient fixed at zero counts as positive above
    `tol = 100 · eps · max|c|` before the first iteration and above
    `100 · eps · max(max|c|, max(|ATA|·x))` afterwards (round 5: a gradient below the rounding
    level of the products it is a difference of is zero — a regressor that depends linearly on
    the fitted ones never enters); at most `3k` outer iterations (as `scipy.optimize.nnls`) —
    all three expressions are generated leaves.  Returns `(x, w, exited)`. -/
def nnls (eps : α) (G : List (List α)) (c : List α) : List α × List α × Bool :=
  let k := c.length
  let r := nnlsOuter (nnlsTolAt eps G c) G c (Rsa.Gen.C08.nnlsIterBound k)
    (Rsa.Gen.C08.nnlsTol eps (maxAbs c)) (List.replicate k 0) (List.replicate k false) c
  (r.1, r.2.2.1, r.2.2.2)

/-- the Karush–Kuhn–Tucker predicate of `min ‖y − Aᵀx‖² s.t. x ≥ 0`, with slack `tol`:
    `x ≥ 0`, gradient `w = c − G x ≤ tol`, complementary slackness `|w_i x_i| ≤ tol` -/
def kktOk (tol : α) (G : List (List α)) (c x : List α) : Bool :=
  let w := vsub c (matVec G x)
  x.all (fun a => !decide (a < 0)) && w.all (fun a => !decide (tol < a)) &&
    (List.zipWith (fun wi xi => wi * xi) w x).all (fun a => !decide (tol < a) && !decide (a < 0 - tol))

/-- `fit_regress_nn` on dense rows -/
def fitRegressNN (eps : α) (meth : Method) (sol : List α → List α)
    (A : List (List α)) (data : List (List α)) (norm : Bool) : List α × Bool :=
  let y := pool meth sol data
  let (A', y') := regressPrep meth A y
  let r := nnls eps (gramOf sol A') (rhsOf sol A' y')
  (if norm then normalise r.1 else r.1, r.2.2)

/-! ### selection and interpolation models -/

/-- `fit_select`: `np.argmax(evaluations)` -/
def fitSelect (evals : List α) : Nat := (argmaxFirst evals).1

/-- θ as `loss_opt(w)` of `fit_interpolate` builds it: zeros, `θ[i] = w`, `θ[i+1] = 1 − w`
    (values and index offset from the generated leaves) -/
def interpTheta (k i : Nat) (w : α) : List α :=
  (List.range k).map (fun j =>
    if j = i then Rsa.Gen.C08.interpFirst w
    else if j = Rsa.Gen.C08.interpSecondIndex i then Rsa.Gen.C08.interpSecond w else 0)

/-- θ as `fit_interpolate` assembles its result from `result.x` -/
def interpThetaRes (k i : Nat) (w : α) : List α :=
  (List.range k).map (fun j =>
    if j = i then Rsa.Gen.C08.interpResFirst w
    else if j = Rsa.Gen.C08.interpResSecondIndex i then Rsa.Gen.C08.interpResSecond w else 0)

/-- `fit_interpolate` given the per-segment results of the bounded scalar search
    (`ws[i]`, `losses[i]`): best segment by `np.argmin`, θ assembled from it -/
def fitInterpolate (k : Nat) (ws losses : List α) : List α :=
  let i := (argminFirst losses).1
  interpThetaRes k i (ws.getD i 0)

/-! ### the optimising fitters (`fit_optimize`, `fit_optimize_positive`) -/

/-- `_loss(theta, …)`: minus the mean similarity plus the ridge penalty (generated leaf);
    `score θ` stands for `np.mean(compare(model.predict_rdm(theta) …, data, method, sigma_k))` -/
def lossOf (score : List α → α) (ridge : α) (θ : List α) : α :=
  Rsa.Gen.C08.lossValue (score θ) (dot θ θ) ridge

/-- `theta ** 2` -/
def squareParam (φ : List α) : List α := φ.map (fun t => Rsa.Gen.C08.positiveParam t)

/-- the objective `fit_optimize_positive` hands to BFGS: `_loss(theta ** 2, …)` -/
def lossPos (score : List α → α) (ridge : α) (φ : List α) : α := lossOf score ridge (squareParam φ)

/-- `thetas[np.argmin(losses)]` -/
def pickBest (thetas : List (List α)) (losses : List α) : List α :=
  thetas.getD (argminFirst losses).1 []

/-- `fit_optimize` given the results of its BFGS restarts -/
def fitOptimize (thetas : List (List α)) (losses : List α) (norm : Bool) : List α :=
  let θ := pickBest thetas losses
  if norm then normalise θ else θ

/-- `fit_optimize_positive` given the candidate points (θ = 0 first) and their losses -/
def fitOptimizePositive (phis : List (List α)) (losses : List α) (norm : Bool) : List α :=
  let θ := squareParam (pickBest phis losses)
  if norm then normalise θ else θ

end fit

/-! ## 4. the whole call: subsampling, NaN removal, V, fit -/

section whole
variable {α : Type} [Add α] [Sub α] [Mul α] [Div α] [Neg α] [Zero α] [One α] [NatCast α]
  [LT α] [DecidableLT α] [LE α] [DecidableLE α] [Max α] [Min α] [HasSqrt α]

/-- the model RDMs (entries missing in every RDM are `none`) as the fitter sees them: `model.rdm_obj.subsample_pattern(descriptor,
    pattern_idx)` (or untouched when no pattern selection is given) -/
def selectedRows (n : Nat) (desc : List Nat) (value : Option (List Nat))
    (B : List (List (Option α))) : List (List (Option α)) × Nat :=
  match value with
  | none => (B, n)
  | some v =>
    let sel := selection desc v
    (B.map (fun b => (subsample n sel b).map Option.join), sel.length)

/-- dense rows, dense data, masked `V` (identity solve for the plain criteria);
    `none` = `ValueError` (NaN masks differ) -/
def prepare (meth : Method) (n : Nat) (desc : List Nat) (value : Option (List Nat))
    (B : List (List (Option α))) (data : List (List (Option α))) (sg : SigmaK α) :
    Option (List (List α) × List (List α) × List (List α)) :=
  let (rows, nSub) := selectedRows n desc value B
  match parseNan rows data with
  | none => none
  | some (mask, A, D) =>
    let V := if meth.whitened then maskMat mask (getV nSub sg) else []
    some (A, D, V)

def solOf (meth : Method) (V : List (List α)) : List α → List α :=
  if meth.whitened then solve V else id

/-- `fit_regress(model, data, method, pattern_idx, pattern_descriptor, sigma_k, normalize)` -/
def fitRegressCall (meth : Method) (n : Nat) (desc : List Nat) (value : Option (List Nat))
    (B : List (List (Option α))) (data : List (List (Option α))) (sg : SigmaK α) (norm : Bool) :
    Option (List α) :=
  (prepare meth n desc value B data sg).map (fun (A, D, V) =>
    fitRegress meth (solOf meth V) A D norm)

def fitRegressNNCall (eps : α) (meth : Method) (n : Nat) (desc : List Nat)
    (value : Option (List Nat)) (B : List (List (Option α))) (data : List (List (Option α)))
    (sg : SigmaK α) (norm : Bool) : Option (List α × Bool) :=
  (prepare meth n desc value B data sg).map (fun (A, D, V) =>
    fitRegressNN eps meth (solOf meth V) A D norm)

/-- mean similarity of the prediction for θ with the training RDMs on the selected
    conditions (`-_loss` with ridge weight 0) -/
def scoreCall (meth : Method) (n : Nat) (desc : List Nat) (value : Option (List Nat))
    (B : List (List (Option α))) (data : List (List (Option α))) (sg : SigmaK α) (θ : List α) :
    Option α :=
  match prepare meth n desc value B data sg with
  | none => none
  | some (A, D, V) => meanSim meth V (predict ((A.headD []).length) A θ) D

end whole

/-! ## 5. reuse sessions (round 4): what survives a call

A fitter / prediction is handed *objects* — model objects (whose `rdm` array is the very array
of the RDMs object the caller built them from), the training RDMs (passed on without a copy when
no `pattern_idx` is given), a `sigma_k` array — and lives in modules that could keep things
between calls.  A *session* is a sequence of calls (and of edits the caller makes to its own
objects between them: new numbers written into the data, `RDMs.append`, `sigma_k` refilled) in
one process.  The state is the content of those objects plus whatever the modules / objects keep
on the side (`σ`, arbitrary).  Whether the code has a statement that writes into an argument or
into `self`, or a place to keep something between calls, is read off today's source text:
leaves `Rsa.Gen.C08.inputWrites`, `Rsa.Gen.C08.moduleState` (counts; `harness/leaves/C08.py`). -/

section sessions
variable {α : Type} [Add α] [Sub α] [Mul α] [Div α] [Neg α] [Zero α] [One α] [NatCast α]
  [LT α] [DecidableLT α] [LE α] [DecidableLE α] [Max α] [Min α] [HasSqrt α]

/-- content of the objects of a session: the model objects (slot ↦ model; two slots may hold
    models of the same class and name), which entries are present (the others are missing in
    every RDM), the label descriptor the pattern indices refer to, the training RDMs, `sigma_k` -/
structure FitArgs (α : Type) where
  models : List (Model α)
  present : List Bool
  desc : List Nat
  data : List (List (Option α))
  sigma : SigmaK α

/-- a stored vector as the fitters see it (`nan` where the entry is missing) -/
def maskRow (present : List Bool) (r : List α) : List (Option α) :=
  List.zipWith (fun b x => if b then some x else none) present r

/-- `model.rdm_obj.get_vectors()` of the model in a slot -/
def FitArgs.basis (a : FitArgs α) (slot : Nat) : List (List (Option α)) :=
  match a.models[slot]? with
  | some M => M.obj.map (maskRow a.present)
  | none => []

def FitArgs.nCond (a : FitArgs α) (slot : Nat) : Nat :=
  match a.models[slot]? with
  | some M => M.nCond
  | none => 0

/-- what a call returns -/
inductive FitRes (α : Type) where
  | theta (t : Option (List α))
  | thetaNN (t : Option (List α × Bool))
  | score (s : Option α)
  | vec (v : Option (List α))
  | rdm (r : Option (List (List α) × Desc))
  | params (t : List α)
  deriving DecidableEq

/-- one call of a session; everything that is not content of a live object (criterion, pattern
    indices, switches, and for the searching fitters the results of the external searches) is
    part of the call -/
inductive FitCall (α : Type) where
  /-- `fit_regress(model, data, method, pattern_idx, …, sigma_k, normalize)` -/
  | regress (slot : Nat) (meth : Method) (value : Option (List Nat)) (norm : Bool)
  /-- `fit_regress_nn(…)` -/
  | regressNN (eps : α) (slot : Nat) (meth : Method) (value : Option (List Nat)) (norm : Bool)
  /-- `-_loss(theta, model, data, …)` with ridge weight 0: what `fit_select`, `fit_interpolate` and
      the optimising fitters evaluate -/
  | score (slot : Nat) (meth : Method) (value : Option (List Nat)) (θ : List α)
  /-- `model.predict(theta)` / `model.predict_rdm(theta)` -/
  | predict (slot : Nat) (p : Param α)
  | predictRdm (slot : Nat) (p : Param α)
  /-- `model.fit(data, …)` of a `ModelFixed` (`fit_mock`) -/
  | mock (slot : Nat)
  /-- any other function of the content (a searching fitter with its search results fixed) -/
  | other (f : FitArgs α → FitRes α)

/-- the stand-alone call on objects with content `a` -/
def FitCall.value : FitCall α → FitArgs α → FitRes α
  | .regress slot meth value norm, a =>
    .theta (fitRegressCall meth (a.nCond slot) a.desc value (a.basis slot) a.data a.sigma norm)
  | .regressNN eps slot meth value norm, a =>
    .thetaNN (fitRegressNNCall eps meth (a.nCond slot) a.desc value (a.basis slot) a.data a.sigma norm)
  | .score slot meth value θ, a =>
    .score (scoreCall meth (a.nCond slot) a.desc value (a.basis slot) a.data a.sigma θ)
  | .predict slot p, a => .vec ((a.models[slot]?).bind (fun M => Rsa.Fit.predictVec M p))
  | .predictRdm slot p, a => .rdm ((a.models[slot]?).bind (fun M => Rsa.Fit.predictRdm M p))
  | .mock slot, a => .params (match a.models[slot]? with | some M => fitMock M | none => [])
  | .other f, a => f a

/-- one step of a session: a call, or the caller changing its own objects -/
inductive FitStep (α : Type) where
  | call (c : FitCall α)
  | edit (f : FitArgs α → FitArgs α)

/-- everything a tree *with* write statements / kept state could do: `stale` = the content a call
    actually computes from (a memoised `V` of an earlier `sigma_k`, centred vectors left by an
    earlier call, a cache on the object), `remember` = how the kept state moves on, `scribble` =
    what the write statements leave in the arguments.  All three are arbitrary. -/
structure Hidden (σ α : Type) where
  stale : σ → FitArgs α → FitArgs α
  remember : σ → FitArgs α → σ
  scribble : FitArgs α → FitArgs α

/-- one call as the code under check performs it: kept state is consulted and updated iff the
    source has a place to keep it (`moduleState ≠ 0`), the arguments are written iff the source has
    a statement that stores into them (`inputWrites ≠ 0`) -/
def stepCall {σ : Type} (h : Hidden σ α) (c : FitCall α) (st : σ × FitArgs α) :
    FitRes α × (σ × FitArgs α) :=
  let seen := if Rsa.Gen.C08.moduleState = 0 then st.2 else h.stale st.1 st.2
  (c.value seen,
    (if Rsa.Gen.C08.moduleState = 0 then st.1 else h.remember st.1 st.2,
     if Rsa.Gen.C08.inputWrites = 0 then st.2 else h.scribble st.2))

/-- a session in one process: every step sees what the earlier ones left -/
def runSession {σ : Type} (h : Hidden σ α) :
    List (FitStep α) → σ × FitArgs α → List (FitRes α) × (σ × FitArgs α)
  | [], st => ([], st)
  | .call c :: rest, st =>
    let r := stepCall h c st
    let t := runSession h rest r.2
    (r.1 :: t.1, t.2)
  | .edit f :: rest, st => runSession h rest (st.1, f st.2)

/-- specification: every call stand-alone on the content the *caller* has established so far -/
def specSession : List (FitStep α) → FitArgs α → List (FitRes α) × FitArgs α
  | [], a => ([], a)
  | .call c :: rest, a =>
    let t := specSession rest a
    (c.value a :: t.1, t.2)
  | .edit f :: rest, a => specSession rest (f a)

end sessions

end Rsa.Fit
