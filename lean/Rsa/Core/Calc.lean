/-
  Rsa.Core.Calc — executable model of `rsatoolbox.rdm.calc.calc_rdm` / `calc_rdm_movie`
  (non-cross-validated methods) and, separately, the specification the property states.

  Representation
    * a pattern / observation is a `Row α = Nat → α` (channel ↦ value) together with the
      channel count `P` (`measurements.shape[1]`); sums over channels are `sumTo P`
    * a dataset with a condition descriptor is `obs : List (L × Row α)`
      (label, measurement row) in observation order
    * an RDM is `Rdm α L D`: condition labels, the condensed vector in
      `np.triu_indices(n, 1)` order (`Rsa.pairsOf labels` order), and the propagated pattern
      descriptors (`none` = the descriptor was dropped because it varies inside a condition)

  As coded (algorithms):  `condMeans` (`average_dataset_by`: boolean mask on the inverse
  index, column means), `euclidMat`, `corrMat`, `mahalMat`, `poissonMat` (Gram / kernel forms),
  `extractTriu` (`_extract_triu_`), division by `P`, `centre` (`remove_mean`),
  `propagate` (`_build_rdms` descriptor rule), `sortAlpha` (`RDMs.sort_by(alpha)` =
  stable argsort + `reorder` through `squareform`), `fromPartials`, `binTime`, `calcMovie`.
  Specification:  `meanOf`, `euclidSpec`, `corrSpec`, `mahalSpec`, `poissonSpec`.

  `scipy.spatial.distance.squareform` is an external call; it enters by its contract
  (`sqLookup`: the entry of the unordered index pair `{i, j}` is the vector element at the
  position of `(min i j, max i j)` in the `triu` enumeration, the diagonal is 0).

  Core Lean only (no Mathlib).
-/
import Rsa.Core.Num
import Rsa.Core.Tri
import Rsa.Core.Label
import Rsa.Gen.C01

namespace Rsa.Calc

open Rsa

/-- a measurement row: channel index ↦ value (only indices `< P` are ever read) -/
abbrev Row (α : Type) := Nat → α

/-- a row from a list of values (driver side); indices past the end read as 0 -/
def rowOfList {α : Type} [Zero α] (l : List α) : Row α :=
  let a := l.toArray
  fun c => a.getD c 0

section basic
variable {α : Type} [Add α] [Sub α] [Mul α] [Div α] [Neg α] [Zero α] [One α] [NatCast α]
  [LT α] [DecidableLT α] [LE α] [DecidableLE α] [Max α] [Min α]

/-- `f 0 + f 1 + … + f (n-1)`, summed from the left -/
def sumTo : Nat → (Nat → α) → α
  | 0, _ => 0
  | n + 1, f => sumTo n f + f n

/-- `np.mean(rows, axis=0)`: per channel, sum over the rows divided by their number -/
def colMean (rows : List (Row α)) : Row α :=
  fun c => (rows.map (fun r => r c)).sum / (rows.length : α)

/-- `measurements[inverse == i, :]` — boolean-mask row selection -/
def selRows (rows : List (Row α)) (inv : List Nat) (i : Nat) : List (Row α) :=
  (rows.zip inv).filterMap (fun p => if p.2 = i then some p.1 else none)

variable {L : Type} [DecidableEq L]

/-- `average_dataset_by` as coded: one mean row per unique label, in order of first
    appearance, rows selected through the inverse index -/
def condMeans (obs : List (L × Row α)) : List (Row α) :=
  let lab := obs.map (fun p => p.1)
  let rows := obs.map (fun p => p.2)
  let inv := inverse lab
  (List.range (uniqueFirst lab).length).map (fun i => colMean (selRows rows inv i))

/-- SPEC: the mean pattern of condition `u` — mean of the rows labelled `u` -/
def meanOf (obs : List (L × Row α)) (u : L) : Row α :=
  colMean ((obs.filter (fun p => decide (p.1 = u))).map (fun p => p.2))

/-- `x.mean()` over the `P` channels -/
def rowMean (P : Nat) (x : Row α) : α := sumTo P x / (P : α)

/-- SPEC: the row-centred pattern `x - mean(x)` -/
def centre (P : Nat) (x : Row α) : Row α := fun c => x c - rowMean P x

/-- `remove_mean` as coded: `measurements - measurements.mean(axis=1, keepdims=True)`; the
    subtraction is the leaf regenerated from `_parse_input` -/
def centreC (P : Nat) (x : Row α) : Row α :=
  fun c => Rsa.Gen.C01.removeMean (x c) (rowMean P x)

def dotP (P : Nat) (x y : Row α) : α := sumTo P (fun c => x c * y c)

/-! ### specification formulas (what the property states) -/

/-- squared Euclidean distance divided by the number of channels -/
def euclidSpec (P : Nat) (a b : Row α) : α :=
  sumTo P (fun c => (a c - b c) * (a c - b c)) / (P : α)

/-- `(a-b)ᵀ N (a-b) / P` -/
def mahalSpec (P : Nat) (N : Nat → Nat → α) (a b : Row α) : α :=
  sumTo P (fun i => sumTo P (fun j => (a i - b i) * N i j * (a j - b j))) / (P : α)

/-- prior-regularised rate `(m + λ₀ w)/(1 + w)` (channel-wise), spelled out -/
def rateSpec (pl pw : α) (x : Row α) : Row α := fun c => (x c + pl * pw) / (1 + pw)

/-- `Σ (λa - λb)(lg λa - lg λb) / P` on given rates -/
def poissonSpec (P : Nat) (lg : α → α) (la lb : Row α) : α :=
  sumTo P (fun c => (la c - lb c) * (lg (la c) - lg (lb c))) / (P : α)

/-- covariance and variance with the `1/P` normalisation -/
def covP (P : Nat) (a b : Row α) : α :=
  sumTo P (fun c => (a c - rowMean P a) * (b c - rowMean P b)) / (P : α)

/-- `1 - Pearson r`, `r = cov(a,b) / (sd a · sd b)` -/
def corrSpec (P : Nat) (sqrt : α → α) (a b : Row α) : α :=
  1 - covP P a b / (sqrt (covP P a a) * sqrt (covP P b b))

/-! ### the algorithms as coded (full matrices, then upper triangle) -/

/-- `sum_sq + sum_sq.T - 2 * M Mᵀ` -/
def euclidMat (P : Nat) (M : List (Row α)) : List (List α) :=
  M.map (fun a => M.map (fun b => Rsa.Gen.C01.euclidEntry (dotP P a a) (dotP P b b) (dotP P a b)))

/-- `(M N) Mᵀ` entry for rows `x`, `y` -/
def mahalKernel (P : Nat) (N : Nat → Nat → α) (x y : Row α) : α :=
  sumTo P (fun b => sumTo P (fun a => x a * N a b) * y b)

/-- `diag(k)[None,:] + diag(k)[:,None] - 2k` -/
def mahalMat (P : Nat) (N : Nat → Nat → α) (M : List (Row α)) : List (List α) :=
  M.map (fun a => M.map (fun b =>
    Rsa.Gen.C01.mahalEntry (mahalKernel P N b b) (mahalKernel P N a a) (mahalKernel P N a b)))

/-- `λ (lg λ)ᵀ` entry -/
def poissonKernel (P : Nat) (lg : α → α) (x y : Row α) : α :=
  sumTo P (fun c => x c * lg (y c))

/-- `diag(k)[None,:] + diag(k)[:,None] - k - kᵀ` on already regularised rates -/
def poissonMat (P : Nat) (lg : α → α) (M : List (Row α)) : List (List α) :=
  M.map (fun a => M.map (fun b =>
    Rsa.Gen.C01.poissonEntry (poissonKernel P lg b b) (poissonKernel P lg a a)
      (poissonKernel P lg a b) (poissonKernel P lg b a)))

/-- `ma /= sqrt(einsum('ij,ij->i', ma, ma))` on the centred row; what is done with an element
    and its row's norm is the leaf `corrUnit`, regenerated from the statement(s) between
    `_parse_input` and the Gram matrix of `calc_rdm_correlation` (round 5: an additive constant
    in the norm changes the leaf and breaks `corr_algo_eq_spec`) -/
def unitRow (P : Nat) (sqrt : α → α) (x : Row α) : Row α :=
  let ma := centreC P x
  let nrm := sqrt (dotP P ma ma)
  fun c => Rsa.Gen.C01.corrUnit (ma c) nrm

/-- `1 - einsum('ik,jk', ma, ma)` -/
def corrMat (P : Nat) (sqrt : α → α) (M : List (Row α)) : List (List α) :=
  let U := M.map (unitRow P sqrt)
  U.map (fun a => U.map (fun b => Rsa.Gen.C01.corrEntry (dotP P a b)))

/-- `_extract_triu_`: row `k` contributes its entries right of the diagonal -/
def extractTriuAux : Nat → List (List α) → List α
  | _, [] => []
  | k, r :: rs => r.drop (k + 1) ++ extractTriuAux (k + 1) rs

def extractTriu (m : List (List α)) : List α := extractTriuAux 0 m

end basic

/-! ### methods -/

/-- the four non-cross-validated estimators with their options -/
inductive Method (α : Type) where
  | euclidean
  | correlation
  | mahalanobis (noise : Option (Nat → Nat → α))
  | poisson (priorLambda priorWeight : α)

section methods
variable {α : Type} [Add α] [Sub α] [Mul α] [Div α] [Neg α] [Zero α] [One α] [NatCast α]
  [LT α] [DecidableLT α] [LE α] [DecidableLE α] [Max α] [Min α]

/-- prior regularisation of `calc_rdm_poisson`; the arithmetic is the leaf regenerated
    from the source text on every run -/
def rate (pl pw : α) (x : Row α) : Row α := fun c => Rsa.Gen.C01.poissonPrior (x c) pl pw

/-- `_parse_input` second half: optional mean removal.  Only `euclidean` and
    `mahalanobis` receive the flag (`correlation` always centres inside the estimator,
    `poisson` never does). -/
def prep (P : Nat) (removeMean : Bool) (M : List (Row α)) : List (Row α) :=
  if removeMean then M.map (centreC P) else M

/-- condensed dissimilarity vector of the pattern rows `M`, as coded -/
def distVec (P : Nat) (sqrt lg : α → α) (m : Method α) (removeMean : Bool)
    (M : List (Row α)) : List α :=
  match m with
  | .euclidean =>
      (extractTriu (euclidMat P (prep P removeMean M))).map (fun x => Rsa.Gen.C01.euclidNorm x P)
  | .mahalanobis none =>
      (extractTriu (euclidMat P (prep P removeMean M))).map (fun x => Rsa.Gen.C01.euclidNorm x P)
  | .mahalanobis (some N) =>
      (extractTriu (mahalMat P N (prep P removeMean M))).map (fun x => Rsa.Gen.C01.mahalNorm x P)
  | .correlation => extractTriu (corrMat P sqrt M)
  | .poisson pl pw =>
      (extractTriu (poissonMat P lg (M.map (rate pl pw)))).map (fun x => Rsa.Gen.C01.poissonNorm x P)

/-- SPEC: the dissimilarity of two mean patterns the property states for each method -/
def distSpec (P : Nat) (sqrt lg : α → α) (m : Method α) (removeMean : Bool)
    (a b : Row α) : α :=
  match m with
  | .euclidean =>
      if removeMean then euclidSpec P (centre P a) (centre P b) else euclidSpec P a b
  | .mahalanobis none =>
      if removeMean then euclidSpec P (centre P a) (centre P b) else euclidSpec P a b
  | .mahalanobis (some N) =>
      if removeMean then mahalSpec P N (centre P a) (centre P b) else mahalSpec P N a b
  | .correlation => corrSpec P sqrt a b
  | .poisson pl pw => poissonSpec P lg (rateSpec pl pw a) (rateSpec pl pw b)

end methods

/-! ### RDM objects, descriptor propagation, sorting -/

/-- one RDM with labelled conditions -/
structure Rdm (α L D : Type) where
  labels : List L
  vec : List α
  /-- pattern descriptors, aligned with the dataset's obs descriptors; `none` = dropped -/
  descs : List (Option (List D))

section build
variable {α : Type} [Zero α]
variable {L : Type} [DecidableEq L] {D : Type} [DecidableEq D]

/-- `some [x₀, x₁, …]` if every entry is `some xᵢ`, else `none` -/
def allSome {β : Type} : List (Option β) → Option (List β)
  | [] => some []
  | none :: _ => none
  | some x :: xs => (allSome xs).map (fun r => x :: r)

/-- the value a descriptor column `dv` takes on the observations labelled `u`, if it is the
    same for all of them (the condition's first observation decides) -/
def sharedValue (lab : List L) (dv : List D) (u : L) : Option D :=
  match ((lab.zip dv).filter (fun p => decide (p.1 = u))).map (fun p => p.2) with
  | [] => none
  | d :: ds => if ds.all (fun e => decide (e = d)) then some d else none

/-- `_build_rdms`: a descriptor is kept iff inside every condition all observations carry
    the same value; the kept value is that of the condition's first observation -/
def propagate (lab : List L) (dv : List D) : Option (List D) :=
  allSome ((uniqueFirst lab).map (sharedValue lab dv))

/-- contract of `squareform` (vector → symmetric hollow matrix) -/
def sqLookup (n : Nat) (v : List α) (i j : Nat) : α :=
  if i = j then 0 else (((pairs n).zip v).lookup (min i j, max i j)).getD 0

/-- `RDMs.reorder`: `squareform`, index rows and columns with `ord`, back to a vector -/
def reorderVec (n : Nat) (ord : List Nat) (v : List α) : List α :=
  (pairsOf ord).map (fun p => sqLookup n v p.1 p.2)

def Rdm.reorder (ord : List Nat) (r : Rdm α L D) : Rdm α L D :=
  { labels := reorderList ord r.labels
    vec := reorderVec r.labels.length ord r.vec
    descs := r.descs.map (fun o => o.map (reorderList ord)) }

/-- `rdm.sort_by(**{descriptor: 'alpha'})` -/
def Rdm.sortAlpha (le : L → L → Bool) (r : Rdm α L D) : Rdm α L D :=
  r.reorder (argsortBy le r.labels)

/-- `from_partials(rdms, descriptor=…)`: union of the labels in order of first appearance;
    every RDM is expanded to that list, missing (`none` = NaN) where it lacks a label -/
def fromPartials (rs : List (Rdm α L D)) : List L × List (List (Option α)) :=
  let all := uniqueFirst (rs.flatMap (fun r => r.labels))
  (all, rs.map (fun r => (pairsOf all).map (fun p =>
    if p.1 ∈ r.labels ∧ p.2 ∈ r.labels then
      some (sqLookup r.labels.length r.vec (r.labels.idxOf p.1) (r.labels.idxOf p.2))
    else none)))

end build

/-- `_merged_rdm_descriptors` as `calc_rdm` uses it for a list of datasets: every
    single-dataset RDMs object carries its dataset's descriptors as rdm descriptors; the
    merged dictionary has one column per name occurring in any dataset, and entry `k` of a
    column is dataset `k`'s value of that name, `none` (Python `None`) if it has none -/
def mergeRdmDescs {V : Type} (dss : List (List (String × V))) : List (String × List (Option V)) :=
  (uniqueFirst (dss.flatMap (fun d => d.map (fun p => p.1)))).map
    (fun n => (n, dss.map (fun d => d.lookup n)))


section top
variable {α : Type} [Add α] [Sub α] [Mul α] [Div α] [Neg α] [Zero α] [One α] [NatCast α]
  [LT α] [DecidableLT α] [LE α] [DecidableLE α] [Max α] [Min α]
variable {L : Type} [DecidableEq L] {D : Type} [DecidableEq D]

/-- `calc_rdm(dataset, method, descriptor=None, …)`: every observation is its own
    condition, nothing is averaged or sorted -/
def calcRdmNoDesc (P : Nat) (sqrt lg : α → α) (m : Method α) (removeMean : Bool)
    (rows : List (Row α)) : List α :=
  distVec P sqrt lg m removeMean rows

/-- `calc_rdm(dataset, method, descriptor, …)` for a single dataset:
    average by label, estimator, build with propagated descriptors, sort by label -/
def calcRdm (P : Nat) (sqrt lg : α → α) (le : L → L → Bool) (m : Method α)
    (removeMean : Bool) (obs : List (L × Row α)) (descs : List (List D)) : Rdm α L D :=
  let lab := obs.map (fun p => p.1)
  let r : Rdm α L D :=
    { labels := uniqueFirst lab
      vec := distVec P sqrt lg m removeMean (condMeans obs)
      descs := descs.map (propagate lab) }
  r.sortAlpha le

/-- `calc_rdm([ds₀, ds₁, …], method, descriptor, …)` -/
def calcRdmList (P : Nat) (sqrt lg : α → α) (le : L → L → Bool) (ms : List (Method α))
    (removeMean : Bool) (dss : List (List (L × Row α))) : List L × List (List (Option α)) :=
  fromPartials ((ms.zip dss).map (fun p =>
    calcRdm (D := Unit) P sqrt lg le p.1 removeMean p.2 []))

/-! ### movies -/

/-- a temporal observation: channel ↦ time index ↦ value -/
abbrev TRow (α : Type) := Nat → Nat → α

/-- the ordinary dataset at time index `t` (`measurements[:, :, t]`) -/
def timeSlice (obs : List (L × TRow α)) (t : Nat) : List (L × Row α) :=
  obs.map (fun p => (p.1, fun c => p.2 c t))

variable {τ : Type} [DecidableEq τ]

/-- indices of the time points whose descriptor value is `v` -/
def selTimes (times : List τ) (v : τ) : List Nat :=
  (times.zipIdx.filter (fun p => decide (p.1 = v))).map (fun p => p.2)

/-- `split_time` + `time_as_observations`: one ordinary dataset per distinct time value
    (order of first appearance); its observations are the slices at the selected indices -/
def frames (obs : List (L × TRow α)) (times : List τ) : List (τ × List (L × Row α)) :=
  (uniqueFirst times).map (fun v => (v, (selTimes times v).flatMap (timeSlice obs)))

/-- indices of the time points lying in a bin (`np.isin(time, bin)`) -/
def selBin (times : List τ) (bin : List τ) : List Nat :=
  (times.zipIdx.filter (fun p => decide (p.1 ∈ bin))).map (fun p => p.2)

variable [Add τ] [Zero τ] [Div τ] [NatCast τ]

/-- `bin_time`: mean of the measurements and of the time values over each bin -/
def binTime (obs : List (L × TRow α)) (times : List τ) (bins : List (List τ)) :
    List (L × TRow α) × List τ :=
  let sels := bins.map (selBin times)
  (obs.map (fun p => (p.1, fun c b =>
      let sel := sels.getD b []
      (sel.map (fun t => p.2 c t)).sum / (sel.length : α))),
   sels.map (fun sel => (sel.filterMap (fun t => times[t]?)).sum / (sel.length : τ)))

/-- `calc_rdm_movie` for one temporal dataset with a condition descriptor -/
def calcMovie (P : Nat) (sqrt lg : α → α) (le : L → L → Bool) (m : Method α)
    (obs : List (L × TRow α)) (times : List τ) (bins : Option (List (List τ))) :
    List (τ × Rdm α L D) :=
  let (obs', times') := match bins with
    | none => (obs, times)
    | some bs => binTime obs times bs
  (frames obs' times').map (fun f => (f.1, calcRdm P sqrt lg le m false f.2 []))

/-- `calc_rdm_movie` without a condition descriptor -/
def calcMovieNoDesc (P : Nat) (sqrt lg : α → α) (m : Method α)
    (obs : List (Unit × TRow α)) (times : List τ) (bins : Option (List (List τ))) :
    List (τ × List α) :=
  let (obs', times') := match bins with
    | none => (obs, times)
    | some bs => binTime obs times bs
  (frames obs' times').map (fun f =>
    (f.1, calcRdmNoDesc P sqrt lg m false (f.2.map (fun p => p.2))))

end top

end Rsa.Calc
