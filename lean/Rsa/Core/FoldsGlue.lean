/-
  Rsa.Core.FoldsGlue (property C05, round 3) — the fold generators and the glue of
  `evaluate.crossval` / `noise_ceiling.cv_noise_ceiling` / `evaluate._internal_cv`
  *as coded*, built from leaves that are extracted from the current source text on every
  run (`harness/leaves/C05.py` → `Rsa.Gen.C05`):

  * the loop body of the three k-fold generators (block bounds of `np.arange`, guard and
    position of the enlarged folds, the `k <= 1` dispatch, the `assert`, the loop count),
    one set of leaves per generator — `LoopLeaves`;
  * the three *separate* lists `train_set`, `test_set`, `ceil_set` the generators return
    (`Sets`), in the order and by the substitutions the code performs (`sets_k_fold`
    deep-copies the inner test sets as ceiling sets and then replaces the test objects);
  * the index ranges of `sets_random`;
  * `crossval`: length assertions, `enumerate(train_set)` paired with `test_set[i]`, the skip
    test, fold-major evaluation followed by the transposition to models × folds;
  * `cv_noise_ceiling`: the pairs `(ceil_set[i], test_set[i])` it consumes;
  * `_internal_cv`: expansion of train / test `pattern_idx` (not of the ceiling sets).

  `Rsa.Props.C05` proves these equal to the hand-written model of `Rsa.Core.Folds`
  (on which the partition theorems are stated).  No Mathlib.
-/
import Rsa.Core.Folds
import Rsa.Gen.C05

namespace Rsa.Folds

open Rsa.Gen.C05

/-! ### positions, as the loop bodies compute them -/

/-- `np.arange(lo, hi)` on naturals -/
def arange (lo hi : Nat) : List Nat := List.range' lo (hi - lo)

/-- the scalar pieces of the loop body of one k-fold generator (all from its own text) -/
structure LoopLeaves where
  nFolds : Nat → Nat
  groupSize : Nat → Nat → Nat
  additional : Nat → Nat → Nat
  blockLo : Nat → Nat → Nat
  blockHi : Nat → Nat → Nat
  extraGuard : Nat → Nat → Nat
  extraPos : Nat → Nat → Nat
  noSplit : Nat → Nat
  accept : Nat → Nat → Nat

def leavesKFold : LoopLeaves :=
  { nFolds := nFoldsKFold, groupSize := groupSizeKFold, additional := additionalKFold,
    blockLo := blockLoKFold, blockHi := blockHiKFold, extraGuard := extraGuardKFold,
    extraPos := extraPosKFold, noSplit := noSplitKFold, accept := acceptKFold }

def leavesKFoldRdm : LoopLeaves :=
  { nFolds := nFoldsKFoldRdm, groupSize := groupSizeKFoldRdm, additional := additionalKFoldRdm,
    blockLo := blockLoKFoldRdm, blockHi := blockHiKFoldRdm, extraGuard := extraGuardKFoldRdm,
    extraPos := extraPosKFoldRdm, noSplit := noSplitKFoldRdm, accept := acceptKFoldRdm }

def leavesKFoldPattern : LoopLeaves :=
  { nFolds := nFoldsKFoldPattern, groupSize := groupSizeKFoldPattern,
    additional := additionalKFoldPattern, blockLo := blockLoKFoldPattern,
    blockHi := blockHiKFoldPattern, extraGuard := extraGuardKFoldPattern,
    extraPos := extraPosKFoldPattern, noSplit := noSplitKFoldPattern,
    accept := acceptKFoldPattern }

/-- `test_idx` of fold `g` (n groups, k folds) -/
def testIdxC (L : LoopLeaves) (n k g : Nat) : List Nat :=
  arange (L.blockLo g (L.groupSize n k)) (L.blockHi g (L.groupSize n k)) ++
    (if L.extraGuard g (L.additional n k) = 1 then [L.extraPos n g] else [])

/-- `train_idx` -/
def trainIdxC (L : LoopLeaves) (n k : Nat) (test : List Nat) : List Nat :=
  if L.noSplit k = 1 then test else (List.range n).filter (fun i => !test.contains i)

/-- (training values, test values) of fold `g` -/
def splitC (L : LoopLeaves) (sel : List Nat) (k g : Nat) : List Nat × List Nat :=
  let t := testIdxC L sel.length k g
  (valsAt sel (trainIdxC L sel.length k t), valsAt sel t)

/-! ### the three lists a generator returns -/

structure Sets where
  trains : List Part
  tests : List Part
  ceils : Option (List Part)
deriving Repr, Inhabited

/-- the three lists that correspond to a list of folds -/
def Sets.ofFolds (fs : List Fold) (hasCeil : Bool) : Sets :=
  { trains := fs.map (·.train), tests := fs.map (·.test),
    ceils := if hasCeil then some (fs.filterMap (·.ceil)) else none }

/-- `sets_k_fold_pattern`, called on the object that holds the RDMs with values `rv`
    (`none` = the whole input) -/
def kFoldPatternSets (o : Obj) (rv : Option (List Nat)) (sel : List Nat) (k : Nat) : Sets :=
  let per := (List.range (leavesKFoldPattern.nFolds k)).map (splitC leavesKFoldPattern sel k)
  { trains := per.map fun tt => mkPart o false rv (some tt.1)
    tests := per.map fun tt => mkPart o false rv (some tt.2)
    ceils := none }

/-- `sets_k_fold_rdm`: `ceil_set = train_set` -/
def kFoldRdmSets (o : Obj) (sel : List Nat) (k : Nat) : Sets :=
  let per := (List.range (leavesKFoldRdm.nFolds k)).map (splitC leavesKFoldRdm sel k)
  let trains := per.map fun tt => mkPart o false (some tt.1) none
  { trains := trains
    tests := per.map fun tt => mkPart o false (some tt.2) none
    ceils := some trains }

/-- one pass of the outer loop of `sets_k_fold` (RDM fold `g`, pattern shuffle `ps`):
    `train_new, test_new, _ = sets_k_fold_pattern(rdms_train, …)`, `ceil_new = deepcopy(test_new)`,
    then `test_new[i][0] = rdms_test.subset_pattern(value=test_new[i][1])` for `i < k_pattern` -/
def kFoldOuterC (o : Obj) (rsel : List Nat) (kr : Nat) (kp : Nat) (g : Nat) (ps : List Nat) :
    List Part × List Part × List Part :=
  let rr := splitC leavesKFold rsel kr g
  let inner := kFoldPatternSets o (some rr.1) ps kp
  let ceilNew := inner.tests
  let testNew := inner.tests.mapIdx fun i p =>
    if i < kp then
      { rows := selRows o false (some rr.2), conds := selConds o (some p.pidx), pidx := p.pidx }
    else p
  (inner.trains, testNew, ceilNew)

/-- `sets_k_fold`: `train_set += train_new` … -/
def kFoldSets (o : Obj) (rsel : List Nat) (kr : Nat) (psels : List (List Nat)) (kp : Nat) : Sets :=
  let per := ((List.range (leavesKFold.nFolds kr)).zip psels).map fun gp =>
    kFoldOuterC o rsel kr kp gp.1 gp.2
  { trains := per.flatMap (·.1), tests := per.flatMap (·.2.1), ceils := some (per.flatMap (·.2.2)) }

/-- specification: the value-level fold of cell (RDM fold `g`, pattern fold `h`) of the two-axis
    scheme, `ps` being the pattern shuffle drawn for RDM fold `g` -/
def kFoldCell (rsel : List Nat) (kr : Nat) (ps : List Nat) (kp g h : Nat) : VFold :=
  { rTrain := some (splitFold rsel kr (rsel.length / kr) (rsel.length % kr) g).1
    rTest := some (splitFold rsel kr (rsel.length / kr) (rsel.length % kr) g).2
    pTrain := some (splitFold ps kp (ps.length / kp) (ps.length % kp) h).1
    pTest := some (splitFold ps kp (ps.length / kp) (ps.length % kp) h).2
    hasCeil := true }

/-! ### entry points: defaults and the `assert`s as written -/

def setsKFoldPatternC (o : Obj) (sel : List Nat) (k : Option Nat) : Except Err Sets :=
  let k := kOrDefault k (defaultKPattern sel.length)
  if acceptKFoldPattern k sel.length ≠ 1 then .error .assertion
  else if k = 0 then .error .zeroDivision
  else .ok (kFoldPatternSets o none sel k)

def setsKFoldRdmC (o : Obj) (sel : List Nat) (k : Option Nat) : Except Err Sets :=
  let k := kOrDefault k (defaultKRdm sel.length)
  if acceptKFoldRdm k sel.length ≠ 1 then .error .assertion
  else if k = 0 then .error .zeroDivision
  else .ok (kFoldRdmSets o sel k)

def setsKFoldC (o : Obj) (rsel : List Nat) (kr : Option Nat) (psels : List (List Nat))
    (nPat : Nat) (kp : Option Nat) : Except Err Sets :=
  let kr := kOrDefault kr (defaultKRdm rsel.length)
  let kp := kOrDefault kp (defaultKPattern nPat)
  if acceptKFold kr rsel.length ≠ 1 then .error .assertion
  else if kr = 0 then .error .zeroDivision
  else if acceptKFoldPattern kp nPat ≠ 1 then .error .assertion
  else if kp = 0 then .error .zeroDivision
  else .ok (kFoldSets o rsel kr psels kp)

/-- `assert k <= len(select) / 2` is a comparison with a true quotient: evaluated at `Rat` -/
def setsOfKPatternC (o : Obj) (sel : List Nat) (k : Nat) : Except Err Sets :=
  if acceptOfKPattern ((k : Nat) : Rat) ((sel.length : Nat) : Rat) ≠ 1 then .error .assertion
  else if k = 0 then .error .zeroDivision
  else setsKFoldPatternC o sel (some (nGroupsOfKPattern sel.length k))

def setsOfKRdmC (o : Obj) (sel : List Nat) (k : Nat) : Except Err Sets :=
  if acceptOfKRdm ((k : Nat) : Rat) ((sel.length : Nat) : Rat) ≠ 1 then .error .assertion
  else if k = 0 then .error .zeroDivision
  else setsKFoldRdmC o sel (some (nGroupsOfKRdm sel.length k))

/-! ### `sets_random`, as coded -/

/-- one axis of one repetition: positions by `np.arange`, values by plain indexing
    (`IndexError` beyond the end) -/
def randomAxisC (noSplit testHi trainLo trainHi full : Nat) (sel : List Nat) :
    Except Err (List Nat × List Nat) :=
  let testIdx := if noSplit = 1 then arange 0 full else arange 0 testHi
  let trainIdx := if noSplit = 1 then arange 0 full else arange trainLo trainHi
  if (testIdx ++ trainIdx).any (fun i => sel.length ≤ i) then .error .index
  else .ok (valsAt sel trainIdx, valsAt sel testIdx)

def randomRdmAxisC (sel : List Nat) (nr : Nat) : Except Err (List Nat × List Nat) :=
  randomAxisC (randomNoSplitRdm nr) (randomTestHiRdm nr) (randomTrainLoRdm nr)
    (randomTrainHiRdm sel.length) (randomFullRdm sel.length) sel

def randomPatternAxisC (sel : List Nat) (np : Nat) : Except Err (List Nat × List Nat) :=
  randomAxisC (randomNoSplitPattern np) (randomTestHiPattern np) (randomTrainLoPattern np)
    (randomTrainHiPattern sel.length) (randomFullPattern sel.length) sel

/-- one repetition: (train, test, ceil) -/
def randomOneC (o : Obj) (d : List Nat × List Nat) (nr np : Nat) : Except Err (Part × Part × Part) :=
  match randomRdmAxisC d.1 nr with
  | .error e => .error e
  | .ok rr =>
    match randomPatternAxisC d.2 np with
    | .error e => .error e
    | .ok pp =>
      .ok (mkPart o false (some rr.1) (some pp.1), mkPart o false (some rr.2) (some pp.2),
           mkPart o false (some rr.1) (some pp.2))

/-- default sizes of `sets_random` -/
def randomDefaultNr (nRsel : Nat) (nr : Option Nat) : Nat :=
  match nr with
  | some n => n
  | none => randomNRdm nRsel (defaultKRdm nRsel).toNat

def randomDefaultNp (nPsel : Nat) (np : Option Nat) : Nat :=
  match np with
  | some n => n
  | none => randomNPattern nPsel (defaultKPattern nPsel).toNat

/-! ### `crossval`, `cv_noise_ceiling`, `_internal_cv` -/

section cv
variable {Θ S : Type}

/-- one row of `evaluations` (one fold, all models) -/
def cvRowC (nan : S) (nModels : Nat) (fit : Nat → Part → Θ) (score : Nat → Θ → Part → S)
    (train test : Part) : List S :=
  if cvSkip train.rows.length test.rows.length train.conds.length test.conds.length = 1 then
    List.replicate nModels nan
  else (List.range nModels).map fun j => score j (fit j train) test

/-- `crossval`: `for i, train in enumerate(train_set): test = test_set[i]; …`, then
    `np.array(evaluations).T.reshape((1, n_models, n_folds))` — result is models × folds.
    `ceilLen` is the length of `ceil_set` when one is passed. -/
def crossvalC (nan : S) (nModels : Nat) (fit : Nat → Part → Θ) (score : Nat → Θ → Part → S)
    (trains tests : List Part) (ceilLen : Option Nat) : Except Err (List (List S)) :=
  if cvLenOk trains.length tests.length ≠ 1 then .error .assertion
  else if (ceilLen.map fun c => cvCeilLenOk c tests.length) = some 0 then .error .assertion
  else
    let evaluations := trains.mapIdx fun i train =>
      ((tests[i]?).map fun test => cvRowC nan nModels fit score train test).getD []
    .ok ((List.range nModels).map fun j => evaluations.map fun row => row.getD j nan)

/-- the (ceiling object, test object) pairs `cv_noise_ceiling` walks through -/
def cvNoisePairsC (ceils tests : List Part) : Except Err (List (Part × Part)) :=
  if ceils.length ≠ tests.length then .error .assertion
  else .ok ((List.range ceils.length).filterMap fun i =>
    (ceils[ncCeilIndex i]?).bind fun c => (tests[ncTestIndex i]?).map fun t => (c, t))

end cv

/-- `_internal_cv`: `test_s[1] = _concat_sampling(pattern_idx, test_s[1])`, the same for the
    training sets; the ceiling sets keep their fold ids (the noise ceiling was computed before) -/
def expandSets (boot : List Nat) (s : Sets) : Sets :=
  { trains := s.trains.map fun p => { p with pidx := concatSampling boot p.pidx }
    tests := s.tests.map fun p => { p with pidx := concatSampling boot p.pidx }
    ceils := s.ceils }

/-- which noise ceiling `_internal_cv` computes: `true` = `cv_noise_ceiling` on the (unexpanded)
    ceiling / test sets, `false` = `boot_noise_ceiling` on the whole sample -/
def internalCvUsesCvNc (kr kp : Nat) : Bool := icvUsesCvNc kr kp = 1

/-- does `bootstrap_crossval` cross-validate a sample with these numbers of distinct groups -/
def bootcvRuns (nRdmGroups kr nPatGroups kp : Nat) : Bool := bootcvGuard nRdmGroups kr nPatGroups kp = 1

/-! ### (round 4) sessions: one object used by several successive calls

A *session* is a list of steps executed one after the other on one state `σ` (the content of the
RDMs object: descriptors and dissimilarities — or, one level up, the lists a generator handed out).
A step is either a library **call** `c : κ` (a fold generator, `crossval`, …) — it returns a value
computed from the state it finds, and *as coded* may leave the state altered — or an explicit
**edit** by the user (a descriptor re-assigned, dissimilarities overwritten in place).
What a call does to the state is not assumed: `callEffect` is built from the leaf `inputWrites`, the
number of statements of the anchored functions that store into an object reachable from a parameter
(static analysis of the current source, `harness/leaves/C05.py`).  With write count `w` the state after
a call is `wr c s` (whatever the write does — the theorems quantify over every `wr`) unless `w = 0`. -/

inductive Step (κ σ : Type) where
  | call (c : κ)
  | edit (f : σ → σ)

/-- the state a call leaves behind when the anchored functions contain `w` in-place writes -/
def callEffectW {κ σ : Type} (w : Nat) (wr : κ → σ → σ) (c : κ) (s : σ) : σ :=
  if w = 0 then s else wr c s

/-- as coded: the write count is the source-derived leaf -/
def callEffect {κ σ : Type} (wr : κ → σ → σ) : κ → σ → σ := callEffectW inputWrites wr

/-- run a session; per step: the value returned (`none` for an edit) and the state after the step -/
def runSteps {κ σ ρ : Type} (eff : κ → σ → σ) (result : κ → σ → ρ) :
    List (Step κ σ) → σ → List (Option ρ × σ)
  | [], _ => []
  | .call c :: rest, s => (some (result c s), eff c s) :: runSteps eff result rest (eff c s)
  | .edit f :: rest, s => (none, f s) :: runSteps eff result rest (f s)

/-- specification: the content after a list of steps if calls had no effect at all — only the user's
    edits count -/
def editsOnly {κ σ : Type} : List (Step κ σ) → σ → σ
  | [], s => s
  | .call _ :: rest, s => editsOnly rest s
  | .edit f :: rest, s => editsOnly rest (f s)

/-- specification of one step of a session: a call returns the value of the *stand-alone* call on the
    content produced by the edits before it; the content after the step is that of the edits alone -/
def stepSpec {κ σ ρ : Type} (result : κ → σ → ρ) (steps : List (Step κ σ)) (s : σ) (k : Nat) :
    Option (Option ρ × σ) :=
  (steps[k]?).map fun st =>
    (match st with
      | .call c => some (result c (editsOnly (steps.take k) s))
      | .edit _ => none,
     editsOnly (steps.take (k + 1)) s)

end Rsa.Folds
