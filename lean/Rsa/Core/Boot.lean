/-
  Rsa.Core.Boot — executable model of bootstrap resampling of RDM stacks (property C09).

  Mirrors, with the same algorithmic structure,
    inference/bootstrap.py : bootstrap_sample, bootstrap_sample_rdm, bootstrap_sample_pattern
    util/rdm_utils.py      : add_pattern_index            (`np.unique` of the descriptor)
    rdm/rdms.py            : RDMs.subsample               (double loop, draw order, multiplicity)
                             RDMs.subsample_pattern       (NaN diagonal, *sorted* selection,
                                                           matrix fancy-indexing, squareform back)
    util/data_utils.py     : extract_dict                 (every descriptor re-indexed)

  Self-contained on top of `Rsa.Core.Tri` (the RDM container model of C10 is built elsewhere).
  Random draws are an explicit argument (`List Nat`, what `np.random.randint` returned).
  Missing dissimilarities (NaN) are `none`.  No Mathlib.
-/
import Rsa.Core.Tri

namespace Rsa.Boot

/-- descriptor values as numpy sees them after `np.unique` / `np.array`: ints or strings -/
inductive Lbl where
  | int (i : Int)
  | str (s : String)
  deriving DecidableEq, Repr

/-- numpy's sort order inside one dtype (ints numerically, strings by code point);
    mixed lists do not occur (numpy would coerce them to strings). -/
def Lbl.le : Lbl → Lbl → Bool
  | .int a, .int b => decide (a ≤ b)
  | .str a, .str b => !(decide (b < a))
  | .int _, .str _ => true
  | .str _, .int _ => false

section generic
variable {L β α : Type} [DecidableEq L]

/-- distinct values (last occurrence kept; the order is irrelevant after sorting) -/
def dedup : List L → List L
  | [] => []
  | x :: xs => if x ∈ dedup xs then dedup xs else x :: dedup xs

/-- `np.unique(desc)`: the distinct values, sorted -/
def uniq (le : L → L → Bool) (l : List L) : List L := (dedup l).mergeSort le

/-- positions `j` (ascending) with `desc[j] == v`
    (`for j, d in enumerate(desc): if d == v` / `(desc == v).nonzero()[0]`) -/
def positions (desc : List L) (v : L) : List Nat :=
  (List.range desc.length).filter (fun j => decide (desc[j]? = some v))

/-- `select[draws]` — the drawn descriptor values, in draw order.  `randint(0, len(select))`
    guarantees every draw is in range (theorems carry that as a hypothesis; numpy would raise
    `IndexError` otherwise, the model drops the draw). -/
def bootIdx (select : List L) (draws : List Nat) : List L := draws.filterMap (fun d => select[d]?)

/-- `[l[i] for i in sel]` (all selections produced below are in range) -/
def pick (l : List β) (sel : List Nat) : List β := sel.filterMap (fun i => l[i]?)

/-- selection of `RDMs.subsample`: for each drawn value, in draw order, every RDM carrying it -/
def rdmSelection (desc value : List L) : List Nat := value.flatMap (positions desc)

/-- selection of `RDMs.subsample_pattern`: the same concatenation, then `np.sort` -/
def patSelection (desc value : List L) : List Nat :=
  (value.flatMap (positions desc)).mergeSort (fun a b => decide (a ≤ b))

/-- one RDM of `subsample_pattern`: square form with NaN diagonal, `m[sel][:, sel]`,
    condensed again (upper triangle). -/
def subVec (n : Nat) (sel : List Nat) (v : List (Option α)) : List (Option α) :=
  matToVec sel.length (fun i j => vecToMat n none none v (sel.getD i 0) (sel.getD j 0))

/-- descriptor dictionaries: key ↦ one value per item, in insertion order -/
abbrev Desc (L : Type) := List (String × List L)

/-- `extract_dict(d, sel)`: every descriptor is re-indexed by the selection -/
def extract (d : Desc L) (sel : List Nat) : Desc L := d.map (fun kv => (kv.1, pick kv.2 sel))

/-- an RDM stack: condensed vectors (one per RDM) and the two per-axis descriptor dicts -/
structure Stack (L α : Type) where
  nCond : Nat
  vecs : List (List (Option α))
  rdmDesc : Desc L
  patDesc : Desc L

/-- what the `RDMs` constructor guarantees -/
structure Stack.WF (s : Stack L α) : Prop where
  vec_len : ∀ v ∈ s.vecs, v.length = triLen s.nCond
  rdm_len : ∀ kv ∈ s.rdmDesc, kv.2.length = s.vecs.length
  pat_len : ∀ kv ∈ s.patDesc, kv.2.length = s.nCond

/-- `RDMs.subsample(by, value)`; `none` = `KeyError` -/
def Stack.subsample (s : Stack L α) (by_ : String) (value : List L) : Option (Stack L α) :=
  match s.rdmDesc.lookup by_ with
  | none => none
  | some desc =>
    let sel := rdmSelection desc value
    some { s with vecs := pick s.vecs sel, rdmDesc := extract s.rdmDesc sel }

/-- `RDMs.subsample_pattern(by, value)`; `none` = `KeyError` -/
def Stack.subsamplePattern (s : Stack L α) (by_ : String) (value : List L) :
    Option (Stack L α) :=
  match s.patDesc.lookup by_ with
  | none => none
  | some desc =>
    let sel := patSelection desc value
    some { nCond := sel.length
           vecs := s.vecs.map (subVec s.nCond sel)
           rdmDesc := s.rdmDesc
           patDesc := extract s.patDesc sel }

/-- `bootstrap_sample_rdm(rdms, rdm_descriptor)` with the draws `randint` returned -/
def bootstrapSampleRdm (le : L → L → Bool) (s : Stack L α) (rdmBy : String)
    (draws : List Nat) : Option (Stack L α × List L) :=
  match s.rdmDesc.lookup rdmBy with
  | none => none
  | some desc =>
    let idx := bootIdx (uniq le desc) draws
    (s.subsample rdmBy idx).map (fun r => (r, idx))

/-- `bootstrap_sample_pattern(rdms, pattern_descriptor)` -/
def bootstrapSamplePattern (le : L → L → Bool) (s : Stack L α) (patBy : String)
    (draws : List Nat) : Option (Stack L α × List L) :=
  match s.patDesc.lookup patBy with
  | none => none
  | some desc =>
    let idx := bootIdx (uniq le desc) draws
    (s.subsamplePattern patBy idx).map (fun r => (r, idx))

/-- `bootstrap_sample(rdms, rdm_descriptor, pattern_descriptor)`: RDMs first, then patterns -/
def bootstrapSample (le : L → L → Bool) (s : Stack L α) (rdmBy patBy : String)
    (drawsR drawsP : List Nat) : Option (Stack L α × List L × List L) :=
  match s.rdmDesc.lookup rdmBy, s.patDesc.lookup patBy with
  | some rdesc, some pdesc =>
    let rdmIdx := bootIdx (uniq le rdesc) drawsR
    match s.subsample rdmBy rdmIdx with
    | none => none
    | some s1 =>
      let patIdx := bootIdx (uniq le pdesc) drawsP
      (s1.subsamplePattern patBy patIdx).map (fun r => (r, rdmIdx, patIdx))
  | _, _ => none

/-- number of draws and their exclusive upper bound that the code requests from
    `np.random.randint(0, len(select), size=len(select))` -/
def drawSpec (le : L → L → Bool) (desc : List L) : Nat × Nat :=
  ((uniq le desc).length, (uniq le desc).length)

end generic

end Rsa.Boot
