/-
  Rsa.Core.Transform — executable model of `rsatoolbox.rdm.transform` (property C17).

  An RDM is its condensed vector; a missing dissimilarity (NaN) is `none`.  Generic over the
  number type: proved about over `ℝ` / ordered fields in `Rsa/Props/C17.lean`, executed at
  `Rat` (ranks, positive, min-max, geo-topological, geodesic, custom) or `Float` (sqrt).

  As coded:
    * `rank_transform`: per RDM, `rankdata(v, method, nan_policy='omit')` — ranks among the
      non-missing entries in count form (`rankList`), scattered back to the non-missing
      positions (`scatter`); methods average / min / max / dense / ordinal;
    * `sqrt_transform` / `positive_transform`: `d[d < 0] = 0` (then `sqrt`), NaN stays NaN;
    * `minmax_transform`: per RDM `(v - min) / (max - min)`; a constant RDM gives 0/0 = NaN
      everywhere (`none`);
    * `geotopological_transform`: thresholds = linear-interpolation quantiles of the whole
      stack (`quantileLin` mirrors `np.quantile`), then the clipped linear map the property
      states (`geotopVal`): 0 below `lo`, 1 above `hi`, `(x-lo)/(hi-lo)` between;
    * `geodesic_transform`: min-max, drop the edges of weight 1, all-pairs shortest paths;
    * `transform`: the given function applied to the array of vectors;
    * the measure-name updates and the propagation of the three descriptor dicts.
  Contract: `networkx.floyd_warshall_numpy` returns shortest-path lengths (`inf` when there
  is no path).  The model computes them by `n-1` rounds of edge relaxation towards each
  target (`distTo`), which is what `Rsa.Props.C17.geodesic_shortest_path` is proved about.
  Leaves regenerated from the source text on every run (`Rsa.Gen.C17`, see harness/leaves/C17.py)
  and *called* here: `posClip`, `sqrtArg` (the `d[d < 0] = 0` of positive / sqrt), `minmaxEntry`,
  `geotopEntry` (order and operators of the clipping), `gtQa` / `gtQb` (the quantile level of each
  threshold), `geoKeep` (edge filter `mat[j, k] != 1`), every string constant of the measure names
  (transported as natural numbers, `strOfCode`), `rankNanPolicy` (`nan_policy='omit'`),
  `positiveKeepsName`, `descrPass`.
  NaN / degenerate behaviour of the transforms that do not support NaN is modelled as coded:
  `minmaxNanT` (an RDM with a NaN becomes all-NaN), `geotopNanStack` (one NaN anywhere makes both
  thresholds NaN: the whole stack becomes NaN), `geodesicStack` (`none` = the call raises
  `ValueError` from `squareform`: some RDM is constant or has a NaN).
  Reuse sessions (`sessRun`): a store of objects; transforms append, comparisons read.
  No Mathlib here.
-/
import Rsa.Core.Num
import Rsa.Core.Tri
import Rsa.Core.Compare
import Rsa.Gen.C17

namespace Rsa.Transform

open Rsa Rsa.Compare

/-! ## 1. rank transform -/

inductive RankMethod where
  | average | min | max | dense | ordinal
  deriving Repr, DecidableEq

/-- the non-missing entries, in order -/
def present {β : Type} (v : List (Option β)) : List β := v.filterMap id

/-- put the values `rs` back at the non-missing positions of `v`; missing stays missing -/
def scatter {β γ : Type} : List (Option β) → List γ → List (Option γ)
  | [], _ => []
  | none :: t, rs => none :: scatter t rs
  | some _ :: t, r :: rs => some r :: scatter t rs
  | some _ :: t, [] => none :: scatter t []

section ranks
variable {α : Type} [LT α] [DecidableLT α]

/-- first occurrences of the distinct values -/
def dedup : List α → List α
  | [] => []
  | b :: t => b :: (dedup t).filter (fun c => !tiedB b c)

/-- ordinal rank of the entry at position `i` (value `a`): entries below it, plus the equal
    entries at earlier positions (stable order), plus one -/
def ordinalAt (x : List α) (a : α) (i : Nat) : Nat := cntLt x a + cntEq (x.take i) a + 1

variable [Add α] [Sub α] [Mul α] [Div α] [Zero α] [One α] [NatCast α]

/-- `scipy.stats.rankdata(x, method)` for a NaN-free vector, in count form -/
def rankList (m : RankMethod) (x : List α) : List α :=
  match m with
  | .average => avgRank x
  | .min => x.map (fun a => ((cntLt x a + 1 : Nat) : α))
  | .max => x.map (fun a => ((cntLt x a + cntEq x a : Nat) : α))
  | .dense => x.map (fun a => ((cntLt (dedup x) a + 1 : Nat) : α))
  | .ordinal => x.zipIdx.map (fun p => ((ordinalAt x p.1 p.2 : Nat) : α))

/-- `rank_transform` for one RDM: `rankdata(v, method, nan_policy='omit')` -/
def rankT (m : RankMethod) (v : List (Option α)) : List (Option α) :=
  scatter v (rankList m (present v))

/-- the three values of scipy's `nan_policy`, by the string the code passes -/
def codeOmit : Nat := 1869441396              -- "omit"
def codePropagate : Nat := 2074281269261857027173 -- "propagate"

/-- `rank_transform` for one RDM with the `nan_policy` the source text passes to `rankdata`
    (leaf `rankNanPolicy`): 'omit' ranks among the non-missing entries, 'propagate' returns NaN
    everywhere as soon as one entry is missing; anything else ('raise') has no result. -/
def rankTCoded (m : RankMethod) (v : List (Option α)) : List (Option α) :=
  if Rsa.Gen.C17.rankNanPolicy = codeOmit then rankT m v
  else if Rsa.Gen.C17.rankNanPolicy = codePropagate then
    (if v.all Option.isSome then rankT m v else v.map (fun _ => none))
  else v.map (fun _ => none)

end ranks

/-! ## 2. element-wise transforms -/

section pointwise

/-- `d[d < 0] = 0` (specification form; the model calls the leaves `posClip` / `sqrtArg`) -/
def clip0 {α : Type} [Zero α] [LT α] [DecidableLT α] (a : α) : α := if a < 0 then 0 else a

variable {α : Type} [Add α] [Sub α] [Mul α] [Div α] [Neg α] [Zero α] [One α] [NatCast α]
  [LT α] [DecidableLT α] [LE α] [DecidableLE α] [Max α] [Min α]

/-- `positive_transform` for one RDM (NaN < 0 is false: NaN stays); the masked assignment is the
    leaf `posClip` -/
def positiveT (v : List (Option α)) : List (Option α) := v.map (Option.map Rsa.Gen.C17.posClip)

/-- `sqrt_transform` for one RDM: `np.sqrt` of the leaf `sqrtArg` (= the clipped entry) -/
def sqrtT [HasSqrt α] (v : List (Option α)) : List (Option α) :=
  v.map (Option.map (fun a => HasSqrt.sqrt (Rsa.Gen.C17.sqrtArg a)))

end pointwise

/-- `transform(rdms, fun)`: the function is applied to the whole array of vectors -/
def customT {β : Type} (f : List (List β) → List (List β)) (vs : List (List β)) : List (List β) :=
  f vs

/-! ## 3. min-max -/

section minmax
variable {α : Type} [LT α] [DecidableLT α]

def maxL : List α → Option α
  | [] => none
  | a :: t => some (t.foldl (fun m b => if m < b then b else m) a)

def minL : List α → Option α
  | [] => none
  | a :: t => some (t.foldl (fun m b => if b < m then b else m) a)

end minmax

section minmax2
variable {α : Type} [Add α] [Sub α] [Mul α] [Div α] [Neg α] [Zero α] [One α] [NatCast α]
  [LT α] [DecidableLT α] [LE α] [DecidableLE α] [Max α] [Min α]

/-- `minmax_transform` for one RDM; `none` = the 0/0 of a constant (or empty) RDM; the entry
    formula is the leaf `minmaxEntry` = `(x - d_min) / (d_max - d_min)` -/
def minmaxT (v : List α) : Option (List α) :=
  match minL v, maxL v with
  | some mn, some mx =>
    if mn < mx then some (v.map (fun x => Rsa.Gen.C17.minmaxEntry x mn mx)) else none
  | _, _ => none

/-- `minmax_transform` on an RDM that may contain NaN (not supported, modelled as coded):
    `max()` / `min()` of a row with a NaN are NaN, so every entry of that RDM becomes NaN; a
    NaN-free RDM is mapped as `minmaxT` says (all-NaN when constant) -/
def minmaxNanT (v : List (Option α)) : List (Option α) :=
  if v.all Option.isSome then
    match minmaxT (present v) with
    | some r => r.map some
    | none => v.map (fun _ => none)
  else v.map (fun _ => none)

end minmax2

/-! ## 4. geo-topological transform -/

section geotop
variable {α : Type} [Add α] [Sub α] [Mul α] [Div α] [Neg α] [Zero α] [One α] [NatCast α]
  [LT α] [DecidableLT α] [LE α] [DecidableLE α] [Max α] [Min α]

/-- the new entry of `geotopological_transform` given the two thresholds: the value is the leaf
    `geotopEntry` (the code's `(d - lo)/(hi - lo)` overwritten by 0 below `lo`, then by 1 above
    `hi`); `none` = NaN, the 0/0 of an entry that is not clipped while the thresholds coincide
    (IEEE semantics of the division, written by hand: clipped, or a non-zero denominator) -/
def geotopVal (lo hi a : α) : Option α :=
  if (hi < a ∨ a < lo) ∨ (lo < hi ∨ hi < lo) then some (Rsa.Gen.C17.geotopEntry a lo hi) else none

/-- `geotopological_transform` for one RDM given the two thresholds -/
def geotopT (lo hi : α) (v : List α) : List (Option α) := v.map (geotopVal lo hi)

/-- `np.quantile(data, q)` (default linear interpolation) of an ascending list:
    virtual index `q·(n-1)`, `k` = its floor, value `s[k] + (idx-k)·(s[k+1]-s[k])` -/
def quantileLin (s : List α) (q : α) : α :=
  let n := s.length
  let pos := q * ((n - 1 : Nat) : α)
  let k := (List.range (n - 1)).countP (fun j => decide (((j + 1 : Nat) : α) ≤ pos))
  let a := s.getD k 0
  let b := s.getD (k + 1) a
  a + (pos - (k : α)) * (b - a)

/-- ascending sort (stable merge sort of core Lean) -/
def sortAsc (l : List α) : List α := l.mergeSort (fun a b => !decide (b < a))

/-- the whole stack: thresholds are the `low` / `up` quantiles of all entries of all RDMs -/
def geotopStack (low up : α) (vs : List (List α)) : α × α × List (List (Option α)) :=
  let s := sortAsc vs.flatten
  let lo := quantileLin s (Rsa.Gen.C17.gtQa low up)
  let hi := quantileLin s (Rsa.Gen.C17.gtQb low up)
  (lo, hi, vs.map (geotopT lo hi))

/-- `geotopological_transform` on a stack that may contain NaN (not supported, modelled as
    coded): `np.quantile` of an array with a NaN is NaN, both thresholds are NaN, no entry is
    clipped and `(d - NaN)/(NaN - NaN)` is NaN — every entry of every RDM becomes NaN -/
def geotopNanStack (low up : α) (vs : List (List (Option α))) : List (List (Option α)) :=
  if vs.all (fun v => v.all Option.isSome) then (geotopStack low up (vs.map present)).2.2
  else vs.map (fun v => v.map (fun _ => none))

end geotop

/-! ## 5. geodesic transform: shortest paths, `none` = +∞ (no path) -/

section geodesic
variable {α : Type} [Add α] [Zero α] [LT α] [DecidableLT α]

def oadd : Option α → Option α → Option α
  | some a, some b => some (a + b)
  | _, _ => none

/-- minimum with `none` as +∞ -/
def omin : Option α → Option α → Option α
  | none, y => y
  | some a, none => some a
  | some a, some b => if b < a then some b else some a

/-- new distance from `a` to the target: `min(d[a], min_m w(a,m) + d[m])` -/
def relaxAt (n : Nat) (w : Nat → Nat → Option α) (d : List (Option α)) (a : Nat) : Option α :=
  (List.range n).foldl (fun acc m => omin acc (oadd (w a m) (d.getD m none))) (d.getD a none)

def relaxStep (n : Nat) (w : Nat → Nat → Option α) (d : List (Option α)) : List (Option α) :=
  (List.range n).map (relaxAt n w d)

def initDist (n j : Nat) : List (Option α) :=
  (List.range n).map (fun a => if a = j then some 0 else none)

/-- distances after `k` relaxation rounds -/
def distRounds (n : Nat) (w : Nat → Nat → Option α) (j : Nat) : Nat → List (Option α)
  | 0 => initDist n j
  | k + 1 => relaxStep n w (distRounds n w j k)

/-- shortest-path length from every vertex to `j` (`n - 1` rounds suffice) -/
def distTo (n : Nat) (w : Nat → Nat → Option α) (j : Nat) : List (Option α) :=
  distRounds n w j (n - 1)

/-- a walk `a₀ a₁ … a_k` in the graph on `0..n-1` whose edges are the `some` entries of `w` -/
def IsWalk (n : Nat) (w : Nat → Nat → Option α) : List Nat → Prop
  | [] => False
  | [a] => a < n
  | a :: b :: rest => a < n ∧ (w a b).isSome = true ∧ IsWalk n w (b :: rest)

/-- total weight of a walk -/
def walkLen (w : Nat → Nat → Option α) : List Nat → α
  | a :: b :: rest => (w a b).getD 0 + walkLen w (b :: rest)
  | _ => 0

end geodesic

section geodesic2
variable {α : Type} [Add α] [Sub α] [Mul α] [Div α] [Neg α] [Zero α] [One α] [NatCast α]
  [LT α] [DecidableLT α] [LE α] [DecidableLE α] [Max α] [Min α]

/-- the graph of `geodesic_transform`: edge `{i,j}` with its min-max weight unless the edge
    filter of the source (`if mat[j, k] != 1`, leaf `geoKeep`) drops it -/
def geoWeights (n : Nat) (mm : List α) : Nat → Nat → Option α := fun i j =>
  match vecToMat n none none (mm.map some) i j with
  | some x => if Rsa.Gen.C17.geoKeep x = 1 then some x else none
  | none => none

/-- `geodesic_transform` for one RDM over `n` conditions; outer `none` = constant RDM
    (NaN everywhere), inner `none` = `inf` (the two conditions are not connected) -/
def geodesicT (n : Nat) (v : List α) : Option (List (Option α)) :=
  match minmaxT v with
  | none => none
  | some mm =>
    let w := geoWeights n mm
    let cols := (List.range n).map (fun j => distTo n w j)
    some ((pairs n).map (fun p => ((cols.getD p.2 []).getD p.1 none)))

/-- all entries present, or nothing -/
def allSome {β : Type} : List (Option β) → Option (List β)
  | [] => some []
  | none :: _ => none
  | some a :: t => (allSome t).map (a :: ·)

/-- one RDM of the stack: `none` = its shortest-path matrix is NaN (a NaN entry or a constant RDM) -/
def geodesicRow (n : Nat) (v : List (Option α)) : Option (List (Option α)) :=
  match allSome v with
  | some x => geodesicT n x
  | none => none

/-- the whole call `geodesic_transform(rdms)` on a stack that may contain NaN / constant RDMs
    (modelled as coded): the min-max of such an RDM is all-NaN, its shortest-path matrix is NaN
    and `squareform` rejects it ("must be symmetric") — the call raises `ValueError` for the
    whole stack (`none`); otherwise every RDM is transformed by `geodesicT` -/
def geodesicStack (n : Nat) (vs : List (List (Option α))) : Option (List (List (Option α))) :=
  allSome (vs.map (geodesicRow n))

end geodesic2

/-! ## 6. the RDMs object: measure name and descriptors -/

/-- what the transforms touch of an `RDMs` object: the vectors, the measure name and the
    three descriptor dictionaries (kept abstract) -/
structure RDMs (V D R P : Type) where
  vecs : V
  measure : Option String
  descr : D
  rdmDescr : R
  patDescr : P

/-- string constants of the source travel as natural numbers (big-endian ASCII bytes) -/
def decodeAux : Nat → Nat → List Char → List Char
  | 0, _, acc => acc
  | f + 1, n, acc => if n = 0 then acc else decodeAux f (n / 256) (Char.ofNat (n % 256) :: acc)

def strOfCode (n : Nat) : String := String.ofList (decodeAux 64 n [])

def hasInfix (pat : List Char) : List Char → Bool
  | [] => pat.isEmpty
  | c :: t => pat.isPrefixOf (c :: t) || hasInfix pat t

/-- Python's `str.strip()` (white space at both ends) -/
def stripStr (s : String) : String :=
  String.ofList (((s.toList.dropWhile Char.isWhitespace).reverse.dropWhile Char.isWhitespace).reverse)

/-- `measure = m or ''; if '(ranks)' not in measure: measure = (measure + ' (ranks)').strip()` -/
def rankName (m : Option String) : String :=
  let s := m.getD ""
  if hasInfix (strOfCode Rsa.Gen.C17.rankMarker).toList s.toList then s
  else stripStr (s ++ strOfCode Rsa.Gen.C17.rankSuffix)

/-- the measure name after `sqrt_transform` (the missing blank after "sqrt of" is the code's) -/
def sqrtName : Option String → String
  | none => strOfCode Rsa.Gen.C17.sqrtNone
  | some s =>
    if s = strOfCode Rsa.Gen.C17.sqrtFrom0 then strOfCode Rsa.Gen.C17.sqrtTo0
    else if s = strOfCode Rsa.Gen.C17.sqrtFrom1 then strOfCode Rsa.Gen.C17.sqrtTo1
    else strOfCode Rsa.Gen.C17.sqrtPrefix ++ s

/-- `if m is None: <unknown> else: <prefix> + m` with the two constants of the source -/
def prefixName (unknown pre : Nat) : Option String → String
  | none => strOfCode unknown
  | some s => strOfCode pre ++ s

inductive Kind where
  | rank | sqrt | positive | custom | minmax | geotop | geodesic
  deriving Repr, DecidableEq

/-- the updated `dissimilarity_measure` (`positive_transform` keeps it, `None` included) -/
def newMeasure : Kind → Option String → Option String
  | .rank, m => some (rankName m)
  | .sqrt, m => some (sqrtName m)
  | .positive, m => if Rsa.Gen.C17.positiveKeepsName = 1 then m else none
  | .custom, m => some (prefixName Rsa.Gen.C17.customNone Rsa.Gen.C17.customPrefix m)
  | .minmax, m => some (prefixName Rsa.Gen.C17.minmaxNone Rsa.Gen.C17.minmaxPrefix m)
  | .geotop, m => some (prefixName Rsa.Gen.C17.geotopNone Rsa.Gen.C17.geotopPrefix m)
  | .geodesic, m => some (prefixName Rsa.Gen.C17.geodesicNone Rsa.Gen.C17.geodesicPrefix m)

def Kind.code : Kind → Nat
  | .rank => 0 | .sqrt => 1 | .positive => 2 | .custom => 3 | .minmax => 4 | .geotop => 5
  | .geodesic => 6

/-- does the `RDMs(...)` call of this transform in the source text hand over the new array and
    the three descriptor dicts of the source (leaf `descrPass`)? -/
def passesDescriptors (k : Kind) : Bool := Rsa.Gen.C17.descrPass k.code == 1

/-- every transform builds `RDMs(new vectors, new measure name, deep copies of the three
    descriptor dicts of the source)` -/
def applyT {V W D R P : Type} (k : Kind) (f : V → W) (r : RDMs V D R P) : RDMs W D R P :=
  { vecs := f r.vecs, measure := newMeasure k r.measure,
    descr := r.descr, rdmDescr := r.rdmDescr, patDescr := r.patDescr }

/-! ## 7. reuse sessions: one object goes through several transforms and comparisons

    `compare(...)` and every transform are value-returning: a session is a store of objects to which
    a transform *appends* its result and of which a comparison only *reads*.  (What the property
    demands of the code: no step may change an object that is already there.) -/

/-- one step: transform object number `src` with `f`, or compare objects `a` and `b` with `m` -/
inductive Step (Obj Val : Type) where
  | tf (src : Nat) (f : Obj → Obj)
  | cmp (a b : Nat) (m : Obj → Obj → Val)

/-- what a step returns to the caller (`bad`: it refers to an object that does not exist) -/
inductive Out (Obj Val : Type) where
  | obj (o : Obj)
  | val (v : Val)
  | bad

/-- the objects a step refers to -/
def Step.refs {Obj Val : Type} : Step Obj Val → List Nat
  | .tf src _ => [src]
  | .cmp a b _ => [a, b]

def sessStep {Obj Val : Type} (st : List Obj) : Step Obj Val → List Obj × Out Obj Val
  | .tf src f =>
    match st[src]? with
    | some o => (st ++ [f o], .obj (f o))
    | none => (st, .bad)
  | .cmp a b m =>
    match st[a]?, st[b]? with
    | some x, some y => (st, .val (m x y))
    | _, _ => (st, .bad)

/-- the store after a list of steps and what each step returned -/
def sessRun {Obj Val : Type} : List Obj → List (Step Obj Val) → List Obj × List (Out Obj Val)
  | st, [] => (st, [])
  | st, s :: rest =>
    let r := sessStep st s
    let rr := sessRun r.1 rest
    (rr.1, r.2 :: rr.2)

end Rsa.Transform
