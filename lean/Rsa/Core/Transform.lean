/-
  Rsa.Core.Transform — executable model of `rsatoolbox.rdm.transform` (property C17).

  An RDM is its condensed vector; a missing dissimilarity (NaN) is `none`.  Generic over the
  number type: proved about over `ℝ` / ordered fields in `Rsa/Props/C17.lean`, executed at
  `Rat` (ranks, positive, min-max, geo-topological, geodesic, custom) or `Float` (sqrt).

  As coded:
    * `rank_transform`: per RDM, `rankdata(v, method, nan_policy='omit')` — ranks among the
      non-missing entries in count form (`rankList`), scattered back to the non-missing
      positions (`scatter`); methods average / min / max / dense / ordinal;
    * `sqrt_transform` / `positive_transform`: `d[d < 0] = 0` (then `sqrt`), NaN stays NaN;
    * `minmax_transform`: per RDM `(v - min) / (max - min)`; a constant RDM gives 0/0 = NaN
      everywhere (`none`);
    * `geotopological_transform`: thresholds = linear-interpolation quantiles of the whole
      stack (`quantileLin` mirrors `np.quantile`), then the clipped linear map the property
      states (`geotopVal`): 0 below `lo`, 1 above `hi`, `(x-lo)/(hi-lo)` between;
    * `geodesic_transform`: min-max, drop the edges of weight 1, all-pairs shortest paths;
    * `transform`: the given function applied to the array of vectors;
    * the measure-name updates and the propagation of the three descriptor dicts.
  Contract: `networkx.floyd_warshall_numpy` returns shortest-path lengths (`inf` when there
  is no path).  The model computes them by `n-1` rounds of edge relaxation towards each
  target (`distTo`), which is what `Rsa.Props.C17.geodesic_shortest_path` is proved about.
  No Mathlib here.
-/
import Rsa.Core.Num
import Rsa.Core.Tri
import Rsa.Core.Compare

namespace Rsa.Transform

open Rsa Rsa.Compare

/-! ## 1. rank transform -/

inductive RankMethod where
  | average | min | max | dense | ordinal
  deriving Repr, DecidableEq

/-- the non-missing entries, in order -/
def present {β : Type} (v : List (Option β)) : List β := v.filterMap id

/-- put the values `rs` back at the non-missing positions of `v`; missing stays missing -/
def scatter {β γ : Type} : List (Option β) → List γ → List (Option γ)
  | [], _ => []
  | none :: t, rs => none :: scatter t rs
  | some _ :: t, r :: rs => some r :: scatter t rs
  | some _ :: t, [] => none :: scatter t []

section ranks
variable {α : Type} [LT α] [DecidableLT α]

/-- first occurrences of the distinct values -/
def dedup : List α → List α
  | [] => []
  | b :: t => b :: (dedup t).filter (fun c => !tiedB b c)

/-- ordinal rank of the entry at position `i` (value `a`): entries below it, plus the equal
    entries at earlier positions (stable order), plus one -/
def ordinalAt (x : List α) (a : α) (i : Nat) : Nat := cntLt x a + cntEq (x.take i) a + 1

variable [Add α] [Sub α] [Mul α] [Div α] [Zero α] [One α] [NatCast α]

/-- `scipy.stats.rankdata(x, method)` for a NaN-free vector, in count form -/
def rankList (m : RankMethod) (x : List α) : List α :=
  match m with
  | .average => avgRank x
  | .min => x.map (fun a => ((cntLt x a + 1 : Nat) : α))
  | .max => x.map (fun a => ((cntLt x a + cntEq x a : Nat) : α))
  | .dense => x.map (fun a => ((cntLt (dedup x) a + 1 : Nat) : α))
  | .ordinal => x.zipIdx.map (fun p => ((ordinalAt x p.1 p.2 : Nat) : α))

/-- `rank_transform` for one RDM: `rankdata(v, method, nan_policy='omit')` -/
def rankT (m : RankMethod) (v : List (Option α)) : List (Option α) :=
  scatter v (rankList m (present v))

end ranks

/-! ## 2. element-wise transforms -/

section pointwise
variable {α : Type} [Zero α] [LT α] [DecidableLT α]

/-- `d[d < 0] = 0` -/
def clip0 (a : α) : α := if a < 0 then 0 else a

/-- `positive_transform` for one RDM (NaN < 0 is false: NaN stays) -/
def positiveT (v : List (Option α)) : List (Option α) := v.map (Option.map clip0)

/-- `sqrt_transform` for one RDM -/
def sqrtT [HasSqrt α] (v : List (Option α)) : List (Option α) :=
  v.map (Option.map (fun a => HasSqrt.sqrt (clip0 a)))

end pointwise

/-- `transform(rdms, fun)`: the function is applied to the whole array of vectors -/
def customT {β : Type} (f : List (List β) → List (List β)) (vs : List (List β)) : List (List β) :=
  f vs

/-! ## 3. min-max -/

section minmax
variable {α : Type} [LT α] [DecidableLT α]

def maxL : List α → Option α
  | [] => none
  | a :: t => some (t.foldl (fun m b => if m < b then b else m) a)

def minL : List α → Option α
  | [] => none
  | a :: t => some (t.foldl (fun m b => if b < m then b else m) a)

variable [Sub α] [Div α]

/-- `minmax_transform` for one RDM; `none` = the 0/0 of a constant (or empty) RDM -/
def minmaxT (v : List α) : Option (List α) :=
  match minL v, maxL v with
  | some mn, some mx => if mn < mx then some (v.map (fun x => (x - mn) / (mx - mn))) else none
  | _, _ => none

end minmax

/-! ## 4. geo-topological transform -/

section geotop
variable {α : Type} [Add α] [Sub α] [Mul α] [Div α] [Zero α] [One α] [NatCast α]
  [LT α] [DecidableLT α] [LE α] [DecidableLE α]

/-- the clipped linear map between the thresholds; `none` = 0/0 when the thresholds
    coincide with the value -/
def geotopVal (lo hi a : α) : Option α :=
  if hi < a then some 1
  else if a < lo then some 0
  else if lo < hi then some ((a - lo) / (hi - lo)) else none

/-- `geotopological_transform` for one RDM given the two thresholds -/
def geotopT (lo hi : α) (v : List α) : List (Option α) := v.map (geotopVal lo hi)

/-- `np.quantile(data, q)` (default linear interpolation) of an ascending list:
    virtual index `q·(n-1)`, `k` = its floor, value `s[k] + (idx-k)·(s[k+1]-s[k])` -/
def quantileLin (s : List α) (q : α) : α :=
  let n := s.length
  let pos := q * ((n - 1 : Nat) : α)
  let k := (List.range (n - 1)).countP (fun j => decide (((j + 1 : Nat) : α) ≤ pos))
  let a := s.getD k 0
  let b := s.getD (k + 1) a
  a + (pos - (k : α)) * (b - a)

/-- ascending sort (stable merge sort of core Lean) -/
def sortAsc (l : List α) : List α := l.mergeSort (fun a b => !decide (b < a))

/-- the whole stack: thresholds are the `low` / `up` quantiles of all entries of all RDMs -/
def geotopStack (low up : α) (vs : List (List α)) : α × α × List (List (Option α)) :=
  let s := sortAsc vs.flatten
  let lo := quantileLin s low
  let hi := quantileLin s up
  (lo, hi, vs.map (geotopT lo hi))

end geotop

/-! ## 5. geodesic transform: shortest paths, `none` = +∞ (no path) -/

section geodesic
variable {α : Type} [Add α] [Zero α] [LT α] [DecidableLT α]

def oadd : Option α → Option α → Option α
  | some a, some b => some (a + b)
  | _, _ => none

/-- minimum with `none` as +∞ -/
def omin : Option α → Option α → Option α
  | none, y => y
  | some a, none => some a
  | some a, some b => if b < a then some b else some a

/-- new distance from `a` to the target: `min(d[a], min_m w(a,m) + d[m])` -/
def relaxAt (n : Nat) (w : Nat → Nat → Option α) (d : List (Option α)) (a : Nat) : Option α :=
  (List.range n).foldl (fun acc m => omin acc (oadd (w a m) (d.getD m none))) (d.getD a none)

def relaxStep (n : Nat) (w : Nat → Nat → Option α) (d : List (Option α)) : List (Option α) :=
  (List.range n).map (relaxAt n w d)

def initDist (n j : Nat) : List (Option α) :=
  (List.range n).map (fun a => if a = j then some 0 else none)

/-- distances after `k` relaxation rounds -/
def distRounds (n : Nat) (w : Nat → Nat → Option α) (j : Nat) : Nat → List (Option α)
  | 0 => initDist n j
  | k + 1 => relaxStep n w (distRounds n w j k)

/-- shortest-path length from every vertex to `j` (`n - 1` rounds suffice) -/
def distTo (n : Nat) (w : Nat → Nat → Option α) (j : Nat) : List (Option α) :=
  distRounds n w j (n - 1)

/-- a walk `a₀ a₁ … a_k` in the graph on `0..n-1` whose edges are the `some` entries of `w` -/
def IsWalk (n : Nat) (w : Nat → Nat → Option α) : List Nat → Prop
  | [] => False
  | [a] => a < n
  | a :: b :: rest => a < n ∧ (w a b).isSome = true ∧ IsWalk n w (b :: rest)

/-- total weight of a walk -/
def walkLen (w : Nat → Nat → Option α) : List Nat → α
  | a :: b :: rest => (w a b).getD 0 + walkLen w (b :: rest)
  | _ => 0

variable [One α]

/-- the graph of `geodesic_transform`: edge `{i,j}` with its min-max weight unless that
    weight is 1 (`if mat[j, k] != 1`) -/
def geoWeights (n : Nat) (mm : List α) : Nat → Nat → Option α := fun i j =>
  match vecToMat n none none (mm.map some) i j with
  | some x => if x < 1 ∨ 1 < x then some x else none
  | none => none

variable [Sub α] [Div α]

/-- `geodesic_transform` for one RDM over `n` conditions; outer `none` = constant RDM
    (NaN everywhere), inner `none` = `inf` (the two conditions are not connected) -/
def geodesicT (n : Nat) (v : List α) : Option (List (Option α)) :=
  match minmaxT v with
  | none => none
  | some mm =>
    let w := geoWeights n mm
    let cols := (List.range n).map (fun j => distTo n w j)
    some ((pairs n).map (fun p => ((cols.getD p.2 []).getD p.1 none)))

end geodesic

/-! ## 6. the RDMs object: measure name and descriptors -/

/-- what the transforms touch of an `RDMs` object: the vectors, the measure name and the
    three descriptor dictionaries (kept abstract) -/
structure RDMs (V D R P : Type) where
  vecs : V
  measure : Option String
  descr : D
  rdmDescr : R
  patDescr : P

def hasInfix (pat : List Char) : List Char → Bool
  | [] => pat.isEmpty
  | c :: t => pat.isPrefixOf (c :: t) || hasInfix pat t

/-- `measure = m or ''; if '(ranks)' not in measure: measure = (measure + ' (ranks)').strip()` -/
def rankName (m : Option String) : String :=
  let s := m.getD ""
  if hasInfix "(ranks)".toList s.toList then s else (s ++ " (ranks)").trimAscii.toString

/-- the measure name after `sqrt_transform` (the missing blank after "sqrt of" is the code's) -/
def sqrtName : Option String → String
  | none => "sqrt of unknown measure"
  | some s =>
    if s = "squared euclidean" then "euclidean"
    else if s = "squared mahalanobis" then "mahalanobis"
    else "sqrt of" ++ s

def prefixName (pre : String) : Option String → String
  | none => pre ++ "unknown measure"
  | some s => pre ++ s

inductive Kind where
  | rank | sqrt | positive | custom | minmax | geotop | geodesic
  deriving Repr, DecidableEq

/-- the updated `dissimilarity_measure` (`positive_transform` keeps it, `None` included) -/
def newMeasure : Kind → Option String → Option String
  | .rank, m => some (rankName m)
  | .sqrt, m => some (sqrtName m)
  | .positive, m => m
  | .custom, m => some (prefixName "transformed " m)
  | .minmax, m => some (prefixName "minmax transformed " m)
  | .geotop, m => some (prefixName "geo-topological transformed " m)
  | .geodesic, m => some (prefixName "geodesic transformed " m)

/-- every transform builds `RDMs(new vectors, new measure name, deep copies of the three
    descriptor dicts of the source)` -/
def applyT {V W D R P : Type} (k : Kind) (f : V → W) (r : RDMs V D R P) : RDMs W D R P :=
  { vecs := f r.vecs, measure := newMeasure k r.measure,
    descr := r.descr, rdmDescr := r.rdmDescr, patDescr := r.patDescr }

end Rsa.Transform
