/-
  Rsa.Core.Importers — executable model of the importers of rsatoolbox (property C20).

  Strings are `List Char` (`Str`); every Python string primitive the importers use
  (`str.split`, `str.join`, `str.replace`, `str.startswith`, `os.path.join`,
  `os.path.basename`, `str.isdigit`, `int`, `str.find`) has its own small structural
  definition here, so that the theorems in `Rsa/Props/C20.lean` are about the same
  operations the Python text performs.

  Sections
    1. string primitives
    2. BIDS: `bidsParse` (`BidsFile._deconstruct`, `_findEntity`), `bidsFormat`
       (`BidsLayout._replace`), the look-ups as entity substitutions
    3. Meadows: `meadowsSegments`, `isPetname`, `compsMat`, `compsJson`, `loadRdms`
    4. MNE: `fromEpochs`, `mneDescriptors`
    5. fMRIPrep design matrix: `uniq`, `normaliseCol`, `makeDesign`
    6. SPM: `filterRun`, `spmFilter`, `relocate`
  Imports core Lean, `Rsa.Core.*` and the generated leaf `Rsa.Gen.C20` only.
-/
import Rsa.Core.Num
import Rsa.Core.Tri
import Rsa.Gen.C20

namespace Rsa.Importers

abbrev Str := List Char

/-! ### 1. string primitives -/

/-- `s.split(sep)` for a one-character separator (never returns `[]`) -/
def splitOn (sep : Char) : Str → List Str
  | [] => [[]]
  | c :: cs =>
    if c = sep then [] :: splitOn sep cs
    else match splitOn sep cs with
      | [] => [[c]]
      | h :: t => (c :: h) :: t

/-- `sep.join(xs)` -/
def joinWith (sep : Char) : List Str → Str
  | [] => []
  | [x] => x
  | x :: y :: r => x ++ sep :: joinWith sep (y :: r)

/-- `s.replace(pat, rep)` for non-empty `pat`: left-to-right, non-overlapping.
    The counter is the number of characters of a matched `pat` still to be skipped. -/
def replaceAux (pat rep : Str) : Nat → Str → Str
  | _, [] => []
  | k + 1, _ :: cs => replaceAux pat rep k cs
  | 0, c :: cs =>
    if pat.isPrefixOf (c :: cs) then rep ++ replaceAux pat rep (pat.length - 1) cs
    else c :: replaceAux pat rep 0 cs

def pyReplace (pat rep s : Str) : Str := replaceAux pat rep 0 s

/-- last component of a `/`-separated path (`os.path.basename`) -/
def lastOf : List Str → Str
  | [] => []
  | [x] => x
  | _ :: y :: r => lastOf (y :: r)

def basename (p : Str) : Str := lastOf (splitOn '/' p)

/-- components of `os.path.normpath(p).split('/')` for a *relative* path without `..`:
    empty and `.` components disappear -/
def normParts (p : Str) : List Str :=
  (splitOn '/' p).filter (fun s => !(s == [] || s == ['.']))

def endsWithSlash : Str → Bool
  | [] => false
  | [c] => c == '/'
  | _ :: y :: r => endsWithSlash (y :: r)

/-- one step of `os.path.join` (posix) -/
def osJoinStep (path b : Str) : Str :=
  if ['/'].isPrefixOf b then b
  else if path == [] || endsWithSlash path then path ++ b
  else path ++ '/' :: b

/-- `os.path.join(*segs)` (posix) for at least one segment -/
def osJoin : List Str → Str
  | [] => []
  | a :: rest => rest.foldl osJoinStep a

/-- Python truthiness of an optional string -/
def truthy : Option Str → Bool
  | some (_ :: _) => true
  | _ => false

/-- `f'{v}'` of an optional string -/
def pyStr : Option Str → Str
  | none => ['N', 'o', 'n', 'e']
  | some s => s

/-- `str.isdigit` on ASCII -/
def isDigitStr : Str → Bool
  | [] => false
  | s => s.all (fun c => '0' ≤ c && c ≤ '9')

/-- `int(s)` for a string of ASCII digits -/
def natOfDigits (s : Str) : Nat := s.foldl (fun acc c => acc * 10 + (c.toNat - '0'.toNat)) 0

/-- `s.find(pat)`: index of the first occurrence -/
def findSub (pat : Str) : Str → Option Nat
  | [] => if pat.isPrefixOf [] then some 0 else none
  | c :: cs =>
    if pat.isPrefixOf (c :: cs) then some 0
    else (findSub pat cs).map (· + 1)

/-- python `l[-k]`, `k ≥ 1` -/
def negIdx {β : Type} (l : List β) (k : Nat) : Option β :=
  if 0 < k ∧ k ≤ l.length then l[l.length - k]? else none

/-- code-point lexicographic `≤` (numpy / Python string order) -/
def strLe : Str → Str → Bool
  | [], _ => true
  | _ :: _, [] => false
  | a :: as, b :: bs => if a < b then true else if b < a then false else strLe as bs

/-! ### 2. BIDS -/

def sSub : Str := ['s', 'u', 'b']
def sSes : Str := ['s', 'e', 's']
def sRun : Str := ['r', 'u', 'n']
def sTask : Str := ['t', 'a', 's', 'k']
def sSpace : Str := ['s', 'p', 'a', 'c', 'e']
def sDesc : Str := ['d', 'e', 's', 'c']
def sDerivatives : Str := ['d', 'e', 'r', 'i', 'v', 'a', 't', 'i', 'v', 'e', 's']
def sJson : Str := ['j', 's', 'o', 'n']
def sTsv : Str := ['t', 's', 'v']
def sEvents : Str := ['e', 'v', 'e', 'n', 't', 's']

/-- the attributes of a `BidsFile` -/
structure BidsEnt where
  derivative : Option Str
  sub : Option Str
  ses : Option Str
  task : Option Str
  run : Option Str
  space : Option Str
  desc : Option Str
  modality : Option Str
  suffix : Str
  ext : Str
  deriving DecidableEq, Repr

/-- `BidsFile._findEntity`: the first `_`-segment that starts with `<entity>-`, with every
    occurrence of `<entity>-` removed -/
def findEntity (ent : Str) : List Str → Option Str
  | [] => none
  | seg :: rest =>
    if (ent ++ ['-']).isPrefixOf seg then some (pyReplace (ent ++ ['-']) [] seg)
    else findEntity ent rest

/-- `parts[0] == 'derivatives'` → `(parts[1], parts[2:])` -/
def stripDerivative (parts : List Str) : Except String (Option Str × List Str) :=
  match parts with
  | d :: rest =>
    if d = sDerivatives then
      match rest with
      | x :: r2 => .ok (some x, r2)
      | [] => .error "IndexError"
    else .ok (none, parts)
  | [] => .ok (none, parts)

/-- `if len(parts) > 1: modality = parts[2] if ses else parts[1]`; `none` = attribute unset -/
def pickModality (ses : Option Str) (parts : List Str) : Except String (Option Str) :=
  if parts.length > 1 then
    if truthy ses then
      match parts with
      | _ :: _ :: m :: _ => .ok (some m)
      | _ => .error "IndexError"
    else
      match parts with
      | _ :: m :: _ => .ok (some m)
      | _ => .error "IndexError"
  else .ok none

/-- suffix and extension from the last `_`-segment -/
def suffixOf (segs : List Str) : Str :=
  match splitOn '.' (lastOf segs) with
  | [] => []
  | s :: _ => s

def extOf (segs : List Str) : Str :=
  match splitOn '.' (lastOf segs) with
  | [] => []
  | _ :: r => joinWith '.' r

/-- `BidsFile._deconstruct` -/
def bidsParse (p : Str) : Except String BidsEnt :=
  let segs := splitOn '_' (basename p)
  match stripDerivative (normParts p) with
  | .error e => .error e
  | .ok (derivative, parts) =>
    let ses := findEntity sSes segs
    match pickModality ses parts with
    | .error e => .error e
    | .ok modality =>
      .ok { derivative := derivative
            sub := findEntity sSub segs
            ses := ses
            task := findEntity sTask segs
            run := findEntity sRun segs
            space := findEntity sSpace segs
            desc := findEntity sDesc segs
            modality := modality
            suffix := suffixOf segs
            ext := extOf segs }

/-- was the `modality` attribute set by `_deconstruct`? (`len(parts) > 1`) -/
def modalitySet (p : Str) : Bool :=
  match stripDerivative (normParts p) with
  | .ok (_, parts) => parts.length > 1
  | .error _ => false

/-- `[f'{name}-{v}'] if v else []` -/
def entSeg (name : Str) (v : Option Str) : List Str :=
  if truthy v then [name ++ '-' :: pyStr v] else []

/-- the file name built by `_replace` -/
def bidsFnameSegs (e : BidsEnt) : List Str :=
  [sSub ++ '-' :: pyStr e.sub] ++ entSeg sSes e.ses ++ entSeg sTask e.task ++
    entSeg sRun e.run ++ entSeg sSpace e.space ++ entSeg sDesc e.desc ++
    [e.suffix ++ '.' :: e.ext]

def bidsFname (e : BidsEnt) : Str := joinWith '_' (bidsFnameSegs e)

/-- the directory components built by `_replace` -/
def bidsDirs (e : BidsEnt) : List Str :=
  (if truthy e.derivative then [sDerivatives, pyStr e.derivative] else []) ++
    entSeg sSub e.sub ++ entSeg sSes e.ses ++
    (if truthy e.modality then [pyStr e.modality] else [])

/-- `BidsLayout._replace(base, {})`: path from entities -/
def bidsFormat (e : BidsEnt) : Str := osJoin (bidsDirs e ++ [bidsFname e])

/-- a `replace_entities` dict: `none` = key absent (inherit), `some v` = use `v` -/
structure BidsRepl where
  derivative : Option (Option Str) := none
  sub : Option (Option Str) := none
  ses : Option (Option Str) := none
  task : Option (Option Str) := none
  run : Option (Option Str) := none
  space : Option (Option Str) := none
  desc : Option (Option Str) := none
  modality : Option (Option Str) := none
  suffix : Option Str := none
  ext : Option Str := none

/-- `replace_or_inherit` for every entity -/
def override (b : BidsEnt) (r : BidsRepl) : BidsEnt :=
  { derivative := match r.derivative with | some v => v | none => b.derivative
    sub := match r.sub with | some v => v | none => b.sub
    ses := match r.ses with | some v => v | none => b.ses
    task := match r.task with | some v => v | none => b.task
    run := match r.run with | some v => v | none => b.run
    space := match r.space with | some v => v | none => b.space
    desc := match r.desc with | some v => v | none => b.desc
    modality := match r.modality with | some v => v | none => b.modality
    suffix := match r.suffix with | some v => v | none => b.suffix
    ext := match r.ext with | some v => v | none => b.ext }

/-- `BidsLayout._replace` -/
def bidsReplace (b : BidsEnt) (r : BidsRepl) : Str := bidsFormat (override b r)

def metaRepl : BidsRepl := { ext := some sJson }
def eventsRepl : BidsRepl :=
  { derivative := some none, space := some none, desc := some none,
    suffix := some sEvents, ext := some sTsv }
def tableSiblingRepl (desc suffix : Str) : BidsRepl :=
  { desc := some (some desc), suffix := some suffix, ext := some sTsv, space := some none }
def mriSiblingRepl (desc suffix : Str) : BidsRepl :=
  { desc := some (some desc), suffix := some suffix }

/-- the four look-ups, path to path -/
def findMetaFor (b : BidsEnt) : Str := bidsReplace b metaRepl
def findEventsFor (b : BidsEnt) : Str := bidsReplace b eventsRepl
def findTableSiblingOf (b : BidsEnt) (desc suffix : Str) : Str :=
  bidsReplace b (tableSiblingRepl desc suffix)
def findMriSiblingOf (b : BidsEnt) (desc suffix : Str) : Str :=
  bidsReplace b (mriSiblingRepl desc suffix)

/-- `find_table_key_for` -/
def findTableKeyFor (b : BidsEnt) : Str :=
  osJoin ((if truthy b.derivative then [sDerivatives, pyStr b.derivative] else []) ++
    [sDesc ++ '-' :: pyStr b.desc ++ '_' :: b.suffix ++ ['.', 't', 's', 'v']])

/-! ### 2b. files of a derivative, descriptors of an fMRIPrep run -/

/-- `pat in s` -/
def containsSub (pat s : Str) : Bool := (findSub pat s).isSome

/-- `s.endswith(pat)` -/
def endsWithStr (pat s : Str) : Bool := pat.reverse.isPrefixOf s.reverse

/-- `sorted(paths)` -/
def sortStr (l : List Str) : List Str := l.mergeSort strLe

def sDotJson : Str := ['.', 'j', 's', 'o', 'n']

/-- `BidsLayout.find_mri_derivative_files` on the list of files (relative paths) of the tree:
    `glob(derivatives/<derivative>/**/sub-*)` sorted, those containing `desc-<desc>`, without
    the `.json` side-cars, and — if tasks are given — per task those containing `task-<task>` -/
def findDerivativeFiles (files : List Str) (derivative desc : Str) (tasks : Option (List Str)) :
    List Str :=
  let pre := sDerivatives ++ '/' :: derivative ++ ['/']
  let cands := sortStr (files.filter (fun f =>
    pre.isPrefixOf f && (sSub ++ ['-']).isPrefixOf (basename f)))
  let withDesc := cands.filter (fun f => containsSub (sDesc ++ '-' :: desc) f)
  let noJson := withDesc.filter (fun f => !(endsWithStr sDotJson f))
  match tasks with
  | none => noJson
  | some ts => ts.flatMap (fun t => noJson.filter (fun f => containsSub (sTask ++ '-' :: t) f))

/-- `FmriprepRun.get_dataset_descriptors` as its docstring demands: the subject and each of
    session, run, task that the file name carries -/
def datasetDescriptors (e : BidsEnt) : List (Str × Option Str) :=
  [(sSub, e.sub)] ++ (if truthy e.ses then [(sSes, e.ses)] else []) ++
    (if truthy e.run then [(sRun, e.run)] else []) ++
    (if truthy e.task then [(sTask, e.task)] else [])

/-- the path shown by `FmriprepRun.__repr__`: relative to `derivatives/fmriprep` -/
def reprPath (relpath : Str) : Str :=
  let pre : Str := sDerivatives ++ ['/', 'f', 'm', 'r', 'i', 'p', 'r', 'e', 'p', '/']
  if pre.isPrefixOf relpath then relpath.drop pre.length else relpath

/-! ### 3. Meadows -/

structure MInfo where
  version : Str
  experiment : Str
  structure_ : Str
  filetype : Str
  taskScopeSingle : Bool
  participantScopeSingle : Bool
  participant : Option Str
  taskIndex : Option Nat
  taskName : Option Str
  deriving DecidableEq, Repr

/-- `is_petname`; the list of names is a parameter (`PETNAMES`) -/
def isPetname (petnames : List Str) (seg : Str) : Bool :=
  if seg.contains '-' then
    match splitOn '-' seg with
    | [_, b] => petnames.contains b
    | _ => false
  else false

/-- the decision on the last-but-one segment -/
def meadowsInfoOf (petnames : List Str) (s1 s3 l1 l2 l3 ext : Str) : MInfo :=
  let base : MInfo :=
    { version := pyReplace ['v'] [] s3, experiment := s1, structure_ := l1, filetype := ext,
      taskScopeSingle := true, participantScopeSingle := true,
      participant := none, taskIndex := none, taskName := none }
  if isDigitStr l2 then
    { base with participant := some l3, taskIndex := some (natOfDigits l2) }
  else if isPetname petnames l2 then
    { base with taskScopeSingle := false, participant := some l2 }
  else
    { base with participantScopeSingle := false, taskName := some l2 }

/-- `extract_filename_segments` -/
def meadowsSegments (petnames : List Str) (fpath : Str) : Except String MInfo :=
  match splitOn '.' (basename fpath) with
  | [fname, ext] =>
    let segs := splitOn '_' fname
    match segs with
    | _ :: s1 :: _ :: s3 :: _ =>
      match negIdx segs 1, negIdx segs 2, negIdx segs 3 with
      | some l1, some l2, some l3 => .ok (meadowsInfoOf petnames s1 s3 l1 l2 l3 ext)
      | _, _, _ => .error "IndexError"
    | _ => .error "IndexError"
  | _ => .error "ValueError"

/-- a variable of a `.mat` file as `loadmat` returns it -/
inductive MatVal (α : Type) where
  | strs (l : List Str)
  | nums (rows : List (List α))

/-- `loadmat` of a MATLAB char matrix: every row is blank-padded to the longest -/
def padStrs (l : List Str) : List Str :=
  let w := l.foldl (fun m s => max m s.length) 0
  l.map (fun s => s ++ List.replicate (w - s.length) ' ')

/-- `loadmat(fpath)`: string variables come back as blank-padded char matrices -/
def loadmatVars {α : Type} (vars : List (Str × MatVal α)) : List (Str × MatVal α) :=
  vars.map (fun kv => (kv.1, match kv.2 with
    | .strs l => .strs (padStrs l)
    | v => v))

/-- `utvs, stimuli, pnames, tnames, tidx` -/
structure Comps (α : Type) where
  utvs : List (List α)
  stimuli : List Str
  pnames : List Str
  tnames : Option (List Str)
  tidx : Option (List Nat)

def sStimuli : Str := ['s', 't', 'i', 'm', 'u', 'l', 'i']
def sRdmutv : Str := ['r', 'd', 'm', 'u', 't', 'v']
def sMat : Str := ['m', 'a', 't']
def sMultiarrange : Str := ['m', 'u', 'l', 't', 'i', 'a', 'r', 'r', 'a', 'n', 'g', 'e']

section meadows
variable {α : Type}

def lookupVar (vars : List (Str × MatVal α)) (k : Str) : Option (MatVal α) :=
  match vars.find? (fun kv => kv.1 == k) with
  | some kv => some kv.2
  | none => none

/-- participant name of a `stimuli_<a>_<b>` variable: `'-'.join(v.split('_')[1:])` -/
def pnameOfVar (v : Str) : Str := joinWith '-' ((splitOn '_' v).drop 1)

/-- `'rdmutv_' + p.replace('-', '_')` -/
def utvVarOf (p : Str) : Str := sRdmutv ++ '_' :: pyReplace ['-'] ['_'] p

/-- rows of the stacked and squeezed `rdmutv_*` variables (each holds one row) -/
def stackUtvs (vars : List (Str × MatVal α)) : List Str → Except String (List (List α))
  | [] => .ok []
  | p :: ps =>
    match lookupVar vars (utvVarOf p) with
    | some (.nums rows) =>
      match stackUtvs vars ps with
      | .ok r => .ok (rows ++ r)
      | .error e => .error e
    | _ => .error "KeyError"

/-- does the variable hold a stimulus list that passes the test `same` against `stim`?
    (`numpy.array_equal(data[v], stimuli)` for `same = (· == ·)`) -/
def strsSame (same : List Str → List Str → Bool) (stim : List Str) : Option (MatVal α) → Bool
  | some (.strs l) => same stim l
  | _ => false

/-- `load_rdms_comps_mat`, the test that lets a participant of a multi-participant file pass as a
    parameter.  Every participant has its own `stimuli_<p>` and `rdmutv_<p>` variable, the vector
    laid out in **that participant's** stimulus order; the labels are the first participant's, so
    only participants passing `same` against the first list are kept (the others are skipped with a
    warning, as the json loader does with tasks). -/
def compsMatBy (same : List Str → List Str → Bool) (info : MInfo)
    (vars : List (Str × MatVal α)) : Except String (Comps α) :=
  if info.participantScopeSingle then
    match lookupVar vars sStimuli, lookupVar vars sRdmutv with
    | some (.strs stim), some (.nums rows) =>
      match info.participant, info.taskIndex with
      | some p, some t =>
        .ok { utvs := rows, stimuli := stim, pnames := [p], tnames := none, tidx := some [t] }
      | _, _ => .error "KeyError"
    | _, _ => .error "ValueError"
  else
    let stimVars := (vars.map (·.1)).filter (fun v => v.take 7 == sStimuli)
    match stimVars with
    | [] => .error "IndexError"
    | v0 :: _ =>
      match lookupVar vars v0, info.taskName with
      | some (.strs stim), some tn =>
        let matching := stimVars.filter (fun v => strsSame same stim (lookupVar vars v))
        let pnames := matching.map pnameOfVar
        match stackUtvs vars pnames with
        | .ok utvs =>
          .ok { utvs := utvs, stimuli := stim, pnames := pnames,
                tnames := some (pnames.map (fun _ => tn)), tidx := none }
        | .error e => .error e
      | _, _ => .error "KeyError"

/-- `load_rdms_comps_mat` (participants kept: those whose stimulus list equals the first one's) -/
def compsMat (info : MInfo) (vars : List (Str × MatVal α)) : Except String (Comps α) :=
  compsMatBy (fun a b => a == b) info vars

/-- one entry of `data['tasks']` of a Meadows json tree -/
structure JTask (α : Type) where
  taskType : Option Str
  name : Str
  stimuli : List Str
  rdm : List α

/-- the loop of `load_rdms_comps_json` with its accumulators; `t` is the running index -/
def jsonLoop : List (JTask α) → Nat → List (List α) → List Str → List Str → List Nat →
    (List (List α) × List Str × List Str × List Nat)
  | [], _, utvs, stim, tn, ti => (utvs, stim, tn, ti)
  | task :: rest, t, utvs, stim, tn, ti =>
    if task.taskType != some sMultiarrange then jsonLoop rest (t + 1) utvs stim tn ti
    else if utvs.isEmpty then
      jsonLoop rest (t + 1) (utvs ++ [task.rdm]) task.stimuli (tn ++ [task.name]) (ti ++ [t])
    else if stim != task.stimuli then jsonLoop rest (t + 1) utvs stim tn ti
    else jsonLoop rest (t + 1) (utvs ++ [task.rdm]) stim (tn ++ [task.name]) (ti ++ [t])

/-- `load_rdms_comps_json` (`tasks = none`: `data['tasks']` is not a list) -/
def compsJson (info : MInfo) (tasks : Option (List (JTask α))) : Except String (Comps α) :=
  if !info.participantScopeSingle then .error "ValueError"
  else if info.taskScopeSingle then .error "ValueError"
  else match tasks with
    | none => .error "ValueError"
    | some ts =>
      match info.participant with
      | none => .error "KeyError"
      | some p =>
        let (utvs, stim, tn, ti) := jsonLoop ts 0 [] [] [] []
        .ok { utvs := utvs, stimuli := stim, pnames := tn.map (fun _ => p),
              tnames := some tn, tidx := some ti }

/-- the test deciding whether a *later* multi-arrangement task is kept, by the code the
    translator derives from the source: 1 the stimulus lists are equal as lists
    (`stimuli != task_stimuli` skips), 2 equal after `sorted`, 3 equal as `set`s, 4 equal `len`;
    any other code (the translator could not classify the source's test; the leaf obligation is
    then broken anyway) behaves as the property demands, i.e. like 1 -/
def sameStim (mode : Nat) (a b : List Str) : Bool :=
  if mode = 1 then a == b
  else if mode = 2 then
    a.mergeSort (fun x y => strLe x y) == b.mergeSort (fun x y => strLe x y)
  else if mode = 3 then a.all (fun x => b.contains x) && b.all (fun x => a.contains x)
  else if mode = 4 then a.length == b.length
  else a == b     -- underivable / unknown test: what the property demands

/-- the loop of `load_rdms_comps_json` for an arbitrary keep-test `same`; a kept task
    contributes its `rdm` **as laid out in its own stimulus order**, the labels stay those of
    the first kept task (so a task listing the same stimuli in another order is loaded with its
    values under the wrong labels whenever `same` lets it pass) -/
def jsonLoopBy (same : List Str → List Str → Bool) :
    List (JTask α) → Nat → List (List α) → List Str → List Str → List Nat →
    (List (List α) × List Str × List Str × List Nat)
  | [], _, utvs, stim, tn, ti => (utvs, stim, tn, ti)
  | task :: rest, t, utvs, stim, tn, ti =>
    if task.taskType != some sMultiarrange then jsonLoopBy same rest (t + 1) utvs stim tn ti
    else if utvs.isEmpty then
      jsonLoopBy same rest (t + 1) (utvs ++ [task.rdm]) task.stimuli (tn ++ [task.name]) (ti ++ [t])
    else if !(same stim task.stimuli) then jsonLoopBy same rest (t + 1) utvs stim tn ti
    else jsonLoopBy same rest (t + 1) (utvs ++ [task.rdm]) stim (tn ++ [task.name]) (ti ++ [t])

/-- `load_rdms_comps_json` with the keep-test as a parameter -/
def compsJsonBy (same : List Str → List Str → Bool) (info : MInfo)
    (tasks : Option (List (JTask α))) : Except String (Comps α) :=
  if !info.participantScopeSingle then .error "ValueError"
  else if info.taskScopeSingle then .error "ValueError"
  else match tasks with
    | none => .error "ValueError"
    | some ts =>
      match info.participant with
      | none => .error "KeyError"
      | some p =>
        let (utvs, stim, tn, ti) := jsonLoopBy same ts 0 [] [] [] []
        .ok { utvs := utvs, stimuli := stim, pnames := tn.map (fun _ => p),
              tnames := some tn, tidx := some ti }

/-- the RDMs object `load_rdms` returns (what the property speaks about) -/
structure MeadowsRdms (α : Type) where
  experiment : Str
  dissim : List (List α)
  conds : List Str
  participant : List Str
  task : Option (List Str)
  taskIndex : Option (List Nat)

/-- `f.split('.')[0]` -/
def stem (f : Str) : Str :=
  match splitOn '.' f with
  | [] => []
  | s :: _ => s

/-- stable alphabetical argsort: labels paired with their positions, merge-sorted on the label -/
def sortedIdx (conds : List Str) : List (Str × Nat) :=
  conds.zipIdx.mergeSort (fun a b => strLe a.1 b.1)

/-- `RDMs.reorder(order)` on one condensed vector: square form, index rows and columns,
    condensed form again -/
def reorderUtv [Zero α] (n : Nat) (order : List Nat) (utv : List α) : List α :=
  (pairsOf order).map (fun p => vecToMat n (0 : α) (0 : α) utv p.1 p.2)

/-- the tail of `load_rdms`: labels, descriptors, optional sort -/
def assemble [Zero α] (info : MInfo) (c : Comps α) (sort : Bool) : MeadowsRdms α :=
  let conds := c.stimuli.map stem
  if sort then
    let s := sortedIdx conds
    { experiment := info.experiment
      dissim := c.utvs.map (reorderUtv conds.length (s.map (·.2)))
      conds := s.map (·.1)
      participant := c.pnames, task := c.tnames, taskIndex := c.tidx }
  else
    { experiment := info.experiment, dissim := c.utvs, conds := conds,
      participant := c.pnames, task := c.tnames, taskIndex := c.tidx }

/-- *specification*: the file's dissimilarity, in task `task`, of the stimulus pair with labels
    `a`, `b` — the entry of the task's own `rdm` vector at the positions `a` and `b` have in the
    task's **own** stimulus list (symmetric in `a`, `b`) -/
def fileVal [Zero α] (task : JTask α) (a b : Str) : α :=
  let st := task.stimuli.map stem
  vecToMat st.length (0 : α) (0 : α) task.rdm (st.idxOf a) (st.idxOf b)

end meadows

/-! ### 4. MNE -/

/-- the `TemporalDataset` built by `dataset_from_epochs` -/
structure TemporalDs (α : Type) where
  measurements : List (List (List α))
  event : List Int
  channel : List Str
  time : List α

/-- `dataset_from_epochs`: data, `events[:, 2]`, `ch_names`, `times` -/
def fromEpochs {α : Type} (data : List (List (List α))) (events : List (Int × Int × Int))
    (chNames : List Str) (times : List α) : TemporalDs α :=
  { measurements := data, event := events.map (fun e => e.2.2), channel := chNames, time := times }

/-- the inner loop of `descriptors_from_bids_filename`: the *last* segment that starts with
    `<name>-`, without that prefix -/
def findLastEntity (name : Str) : List Str → Option Str
  | [] => none
  | seg :: rest =>
    match findLastEntity name rest with
    | some v => some v
    | none => if (name ++ ['-']).isPrefixOf seg then some (seg.drop (name.length + 1)) else none

/-- `descriptors_from_bids_filename`: (sub, run, task) -/
def mneDescriptors (fname : Str) : Option Str × Option Str × Option Str :=
  let segs := splitOn '_' fname
  (findLastEntity sSub segs, findLastEntity sRun segs, findLastEntity sTask segs)

/-- `epochs.times` (mne's contract): sample `k` of an epoch that starts `first` samples after the
    event lies at `(first + k) / sfreq` seconds -/
def epochTimes {α : Type} [Div α] [IntCast α] (first : Int) (sfreq : α) (n : Nat) : List α :=
  (List.range n).map (fun (k : Nat) => ((first + Int.ofNat k : Int) : α) / sfreq)

/-- `epochs[<condition>]`: the epochs (and their event rows) whose event code is kept -/
def selectEpochs {β : Type} (keep : Int → Bool) (data : List β) (events : List (Int × Int × Int)) :
    List β × List (Int × Int × Int) :=
  let z := (data.zip events).filter (fun de => keep de.2.2.2)
  (z.map (·.1), z.map (·.2))

/-! ### 5. design matrix (`make_design_matrix`) -/

/-- `Series.unique()`: distinct values in order of first appearance -/
def uniq {β : Type} [BEq β] : List β → List β
  | [] => []
  | x :: xs => x :: (uniq xs).filter (fun y => !(y == x))

section design
variable {α : Type} [Add α] [Sub α] [Mul α] [Div α] [Neg α] [Zero α] [One α] [NatCast α]
  [LT α] [DecidableLT α] [LE α] [DecidableLE α] [Max α] [Min α]

def lmax : List α → α
  | [] => 0
  | [a] => a
  | a :: b :: r => max a (lmax (b :: r))

def lmin : List α → α
  | [] => 0
  | [a] => a
  | a :: b :: r => min a (lmin (b :: r))

/-- one column of `(dm - dm.mean(axis=0)) / (dm.max(axis=0) - dm.min(axis=0))` -/
def normaliseCol (x : List α) : List α :=
  x.map (fun v => Rsa.Gen.C20.dmNormEntry v (mean x) (lmax x) (lmin x))

/-- the values of a column without a missing value -/
def allSome : List (Option α) → Option (List α)
  | [] => some []
  | none :: _ => none
  | some v :: r => (allSome r).map (v :: ·)

/-- `confounds.dropna(axis=1)`: columns without a missing value -/
def dropnaCols (cols : List (List (Option α))) : List (List α) :=
  cols.filterMap allSome

/-- the result of `make_design_matrix`: columns, predictor mask, dof -/
structure Design (α : Type) where
  cols : List (List α)
  mask : List Bool
  dof : Int

/-- everything after the HRF convolution: stack the confounds, flag, normalise, dof.
    `raw` are the convolved condition columns (contract of scipy's `pchip`). -/
def makeDesign (raw : List (List α)) (confounds : Option (List (List (Option α))))
    (nVols : Nat) : Except String (Design α) :=
  match confounds with
  | none =>
    .ok { cols := raw.map normaliseCol, mask := raw.map (fun _ => true),
          dof := Rsa.Gen.C20.dmDof nVols raw.length }
  | some cf =>
    if cf.all (fun c => c.length == nVols) then
      let kept := dropnaCols cf
      .ok { cols := (raw ++ kept).map normaliseCol
            mask := raw.map (fun _ => true) ++ kept.map (fun _ => false)
            dof := Rsa.Gen.C20.dmDof nVols ((raw ++ kept).length : Nat) }
    else .error "AssertionError"

/-- design matrix from the event table: one raw column per distinct `trial_type` (in order of
    first appearance), convolved from that condition's onsets by `hrfCol` -/
def designFromEvents {τ : Type} [BEq τ] (events : List (τ × α)) (hrfCol : List α → List α)
    (confounds : Option (List (List (Option α)))) (nVols : Nat) : Except String (Design α) :=
  makeDesign
    ((uniq (events.map (·.1))).map (fun c =>
      hrfCol ((events.filter (fun e => e.1 == c)).map (·.2))))
    confounds nVols

/-! #### the HRF predictor column, for any response

`make_design_matrix` places the resampled response at every onset `o` of a condition
(`pchip(o + hrf_times, hrf, extrapolate=False)`), evaluates it at the volume times and adds the
contributions up, `NaN` (outside the support) counting as zero.  The interpolant `P` of the
response placed at onset 0 is a parameter (contract of scipy's PCHIP: placing the knots at
`o + hrf_times` shifts the interpolant by `o`); everything else is modelled. -/

/-- `all_times[i]` (generated leaf `volTime` = numpy's `linspace` formula on the source's
    arguments) -/
def volTimeAt (tr : α) (n i : Nat) : α := Rsa.Gen.C20.volTime (i : α) tr (n : α)

/-- `hrf_times[-1]`: end of the support of a response of `len` samples -/
def hrfEnd (tr : α) (len : Nat) : α := Rsa.Gen.C20.hrfTime ((len - 1 : Nat) : α) tr (len : α)

/-- `nan_to_num(pchip(o + hrf_times, hrf, extrapolate=False)(t))` -/
def respAt (P : α → α) (T o t : α) : α := if o ≤ t ∧ t ≤ o + T then P (t - o) else 0

/-- the un-normalised predictor column of one condition -/
def predictorCol (P : α → α) (T tr : α) (n : Nat) (onsets : List α) : List α :=
  (List.range n).map (fun i => (onsets.map (fun o => respAt P T o (volTimeAt tr n i))).sum)

/-- `make_design_matrix` from the events on: `respLen` = number of samples of the resampled
    response, `P` its interpolant -/
def designMatrix {τ : Type} [BEq τ] (events : List (τ × α)) (P : α → α) (respLen : Nat) (tr : α)
    (confounds : Option (List (List (Option α)))) (nVols : Nat) : Except String (Design α) :=
  designFromEvents events (predictorCol P (hrfEnd tr respLen) tr nVols) confounds nVols

end design

/-- `FmriprepRun.get_confounds`: `cf_names or <default>`, then `df[cf_names]` — the requested
    columns in the requested order, `KeyError` when one is missing -/
def selectConfounds {β : Type} (dflt : List Str) (cfNames : Option (List Str))
    (table : List (Str × β)) : Except String (List (Str × β)) :=
  let names := match cfNames with
    | some (n :: ns) => n :: ns
    | _ => dflt
  names.mapM (fun n => match table.find? (fun kv => kv.1 == n) with
    | some kv => .ok (n, kv.2)
    | none => .error "KeyError")

/-! ### 6. SPM -/

section spm
variable {α : Type} [Add α] [Sub α] [Mul α] [Zero α]

/-- `Σ_{i<n} f i` -/
def sumRange (n : Nat) (f : Nat → α) : α := ((List.range n).map f).sum

/-- `Y - X0 @ (X0.T @ Y)` for one run: `t` scans, `k` filter regressors -/
def filterRun (t k : Nat) (X : Nat → Nat → α) (Y : Nat → Nat → α) : Nat → Nat → α :=
  fun r p => Y r p - sumRange k (fun c => X r c * sumRange t (fun r' => X r' c * Y r' p))

/-- one run: number of scans, number of filter regressors, the filter basis `K(i).X0` -/
structure Run (α : Type) where
  t : Nat
  k : Nat
  X : Nat → Nat → α

/-- `spm_filter` as the property demands it: rows `off … off+t-1` of the result are the
    filtered rows of that run, runs follow each other, rows outside every run are unchanged -/
def spmFilterFrom (off : Nat) : List (Run α) → (Nat → Nat → α) → Nat → Nat → α
  | [], Y => Y
  | run :: rs, Y => fun r p =>
    if r < off then Y r p
    else if r < off + run.t then
      filterRun run.t run.k run.X (fun r' p' => Y (off + r') p') (r - off) p
    else spmFilterFrom (off + run.t) rs Y r p

def spmFilter (runs : List (Run α)) (Y : Nat → Nat → α) : Nat → Nat → α :=
  spmFilterFrom 0 runs Y

/-- matrix product of `a × m` and `m × b` function matrices -/
def mmul (m : Nat) (A B : Nat → Nat → α) : Nat → Nat → α :=
  fun i j => sumRange m (fun l => A i l * B l j)

/-- `get_residuals` after sampling: `fdata = spm_filter(W @ data)`, `beta = pinvX @ fdata`,
    `residuals = fdata - X @ beta`; `n` scans in total, `q` regressors -/
def spmResiduals (n q : Nat) (runs : List (Run α)) (W pinvX X data : Nat → Nat → α) :
    (Nat → Nat → α) × (Nat → Nat → α) :=
  let fdata := spmFilter runs (mmul n W data)
  let beta := mmul n pinvX fdata
  (fun r p => fdata r p - mmul q X beta r p, beta)

end spm

/-- python `l[i]` for a possibly negative index -/
def pyIndex {β : Type} (l : List β) (i : Int) : Option β :=
  if 0 ≤ i then l[i.toNat]? else negIdx l (-i).toNat

/-- `get_info_from_spm_mat`: `'Sn(<run>) <name>'` → run number and beta name -/
def parseRegName (s : Str) : Except String (Nat × Str) :=
  match splitOn ' ' s with
  | s0 :: s1 :: _ =>
    let d := (s0.drop 3).dropLast
    if isDigitStr d then .ok (natOfDigits d, s1) else .error "ValueError"
  | _ => .error "IndexError"

/-- the rows / names selected by the 1-based `reg_of_interest` (index leaf of `get_betas`) -/
def selectBetas {β : Type} (l : List β) (reg : List Int) : List (Option β) :=
  reg.map (fun r => pyIndex l (Rsa.Gen.C20.regIndexBetas r))

/-- the same with the index leaf of `get_residuals` -/
def selectResiduals {β : Type} (l : List β) (reg : List Int) : List (Option β) :=
  reg.map (fun r => pyIndex l (Rsa.Gen.C20.regIndexResiduals r))

def sResMS : Str := ['R', 'e', 's', 'M', 'S', '.', 'n', 'i', 'i']

/-- the images `get_betas` samples: the beta images of the regressors of interest in their order,
    then `ResMS.nii` -/
def betaImages (path : Str) (betaFiles : List Str) (reg : List Int) : List (Option Str) :=
  (selectBetas betaFiles reg).map (fun o => o.map (fun f => path ++ '/' :: f)) ++
    [some (path ++ '/' :: sResMS)]

/-- `data[:-1, :], data[-1, :]` -/
def splitBetas {β : Type} (rows : List β) : List β × Option β := (rows.dropLast, rows.getLast?)

def sFunc : Str := ['f', 'u', 'n', 'c']

/-- `SpmGlm.relocate_file`; `base` is `dirname(self.path)` -/
def relocate (base fpath : Str) : Str :=
  let norm := pyReplace ['\\'] ['/'] fpath
  let b := pyReplace ['\\'] ['/'] base
  match findSub sFunc norm with
  | some c => b ++ '/' :: norm.drop c
  | none => b ++ '/' :: norm.drop (norm.length - 1)

/-! ### 7. Look-up sessions on one `BidsLayout` (state that survives between calls)

A layout object and the file objects it hands out live through many look-ups.  The state that
exists in the code: the layout's `_path` (constant) and `_nibabel` (set by the first
`find_mri_derivative_files`); per file object `_meta` — the sidecar object kept after the first
`get_meta()` — and that sidecar's `_data` (the json, parsed once).  `runStep` is the code as
written (caches included); `pureAns` is what the property demands: the answer to a look-up is a
function of the file asked about and of the files on disk, never of earlier look-ups. -/

/-- the look-up functions of a layout (literal or source-spelled) -/
structure Lookups where
  parse : Str → Except String BidsEnt
  metaFor : BidsEnt → Str
  eventsFor : BidsEnt → Str
  tableSibling : BidsEnt → Str → Str → Str
  mriSibling : BidsEnt → Str → Str → Str
  tableKey : BidsEnt → Str
  derivativeFiles : List Str → Str → Str → Option (List Str) → Except String (List Str)

/-- one call in a session; `h` is the index of a file object handed out earlier -/
inductive Step where
  | newFile (p : Str)                                        -- `BidsMriFile(p, layout, nib)`
  | findFiles (derivative desc : Str) (tasks : Option (List Str))   -- `find_mri_derivative_files`
  | findMeta (h : Nat)                                       -- `layout.find_meta_for(f).get_data()`
  | getMeta (h : Nat)                                        -- `f.get_meta()` / `FmriprepRun.get_meta()`
  | findEvents (h : Nat)                                     -- `find_events_for` / `get_events`
  | tableSibling (h : Nat) (desc suffix : Str)               -- `get_table_sibling` / `get_confounds`
  | mriSibling (h : Nat) (desc suffix : Str)                 -- `get_mri_sibling` / `get_mask` …
  | tableKey (h : Nat)                                       -- `get_key`

/-- a file object: its parsed entities and `_meta` (the sidecar's path and, once loaded, `_data`) -/
structure FileObj (γ : Type) where
  ent : BidsEnt
  metaCache : Option (Str × Option γ) := none

/-- layout attributes + the file objects handed out so far -/
structure Session (γ : Type) where
  nibabel : Bool := false
  objs : List (FileObj γ) := []

/-- what a call returns: a file (path, and what reading it gives; `none` = no such file), the
    list of files found, or an exception -/
inductive Ans (γ : Type) where
  | file (path : Str) (data : Option γ)
  | files (paths : List Str)
  | err (e : String)
  deriving DecidableEq

variable {γ : Type}

def withObj (s : Session γ) (h : Nat) (k : FileObj γ → Session γ × Ans γ) : Session γ × Ans γ :=
  match s.objs[h]? with
  | some o => k o
  | none => (s, .err "IndexError")

/-- `if self._meta is None: self._meta = self.layout.find_meta_for(self)` -/
def sidecarOf (L : Lookups) (o : FileObj γ) : Str × Option γ :=
  match o.metaCache with
  | some m => m
  | none => (L.metaFor o.ent, none)

/-- `if self._data is None: self._data = json.load(open(self.fpath))` -/
def loadData (fs : Str → Option γ) (m : Str × Option γ) : Option γ :=
  match m.2 with
  | some d => some d
  | none => fs m.1

/-- the code as written; `fs` = content of the files on disk -/
def runStep (L : Lookups) (fs : Str → Option γ) (files : List Str) (s : Session γ) :
    Step → Session γ × Ans γ
  | .newFile p =>
    match L.parse p with
    | .ok e => ({ s with objs := s.objs ++ [{ ent := e }] }, .files [p])
    | .error e => (s, .err e)
  | .findFiles d desc tasks =>
    match L.derivativeFiles files d desc tasks with
    | .error e => (s, .err e)
    | .ok ps =>
      match ps.mapM L.parse with
      | .ok es => ({ nibabel := true, objs := s.objs ++ es.map (fun e => { ent := e }) }, .files ps)
      | .error e => (s, .err e)
  | .findMeta h => withObj s h fun o => (s, .file (L.metaFor o.ent) (fs (L.metaFor o.ent)))
  | .getMeta h => withObj s h fun o =>
    let o' : FileObj γ := { o with metaCache := some ((sidecarOf L o).1, loadData fs (sidecarOf L o)) }
    ({ s with objs := s.objs.set h o' }, .file (sidecarOf L o).1 (loadData fs (sidecarOf L o)))
  | .findEvents h => withObj s h fun o => (s, .file (L.eventsFor o.ent) (fs (L.eventsFor o.ent)))
  | .tableSibling h desc suffix => withObj s h fun o =>
    (s, .file (L.tableSibling o.ent desc suffix) (fs (L.tableSibling o.ent desc suffix)))
  | .mriSibling h desc suffix => withObj s h fun o =>
    (s, .file (L.mriSibling o.ent desc suffix) (fs (L.mriSibling o.ent desc suffix)))
  | .tableKey h => withObj s h fun o => (s, .file (L.tableKey o.ent) (fs (L.tableKey o.ent)))

def runSession (L : Lookups) (fs : Str → Option γ) (files : List Str) :
    Session γ → List Step → List (Ans γ)
  | _, [] => []
  | s, st :: r => (runStep L fs files s st).2 :: runSession L fs files (runStep L fs files s st).1 r

/-- specification: the files handed out so far (entities only — no caches, no layout state) -/
def tblStep (L : Lookups) (files : List Str) (tbl : List BidsEnt) : Step → List BidsEnt
  | .newFile p => match L.parse p with | .ok e => tbl ++ [e] | .error _ => tbl
  | .findFiles d desc tasks =>
    match L.derivativeFiles files d desc tasks with
    | .error _ => tbl
    | .ok ps => match ps.mapM L.parse with | .ok es => tbl ++ es | .error _ => tbl
  | _ => tbl

def pureFile (fs : Str → Option γ) (tbl : List BidsEnt) (h : Nat) (look : BidsEnt → Str) : Ans γ :=
  match tbl[h]? with
  | some e => .file (look e) (fs (look e))
  | none => .err "IndexError"

/-- specification: the answer to one call, computed from the file asked about and the disk alone -/
def pureAns (L : Lookups) (fs : Str → Option γ) (files : List Str) (tbl : List BidsEnt) :
    Step → Ans γ
  | .newFile p => match L.parse p with | .ok _ => .files [p] | .error e => .err e
  | .findFiles d desc tasks =>
    match L.derivativeFiles files d desc tasks with
    | .error e => .err e
    | .ok ps => match ps.mapM L.parse with | .ok _ => .files ps | .error e => .err e
  | .findMeta h => pureFile fs tbl h L.metaFor
  | .getMeta h => pureFile fs tbl h L.metaFor
  | .findEvents h => pureFile fs tbl h L.eventsFor
  | .tableSibling h desc suffix => pureFile fs tbl h (fun e => L.tableSibling e desc suffix)
  | .mriSibling h desc suffix => pureFile fs tbl h (fun e => L.mriSibling e desc suffix)
  | .tableKey h => pureFile fs tbl h L.tableKey

def pureSession (L : Lookups) (fs : Str → Option γ) (files : List Str) :
    List BidsEnt → List Step → List (Ans γ)
  | _, [] => []
  | tbl, st :: r => pureAns L fs files tbl st :: pureSession L fs files (tblStep L files tbl st) r

/-- every cache holds what a fresh computation would give -/
def Coherent (L : Lookups) (fs : Str → Option γ) (s : Session γ) : Prop :=
  ∀ o ∈ s.objs, ∀ m, o.metaCache = some m →
    m.1 = L.metaFor o.ent ∧ ∀ d, m.2 = some d → fs m.1 = some d

end Rsa.Importers
