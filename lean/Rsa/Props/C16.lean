/-
  Property C16 — saving and loading returns an equal object for every type and file format.
  Property theorems only; helper lemmas live in Rsa/Lemmas/C16*.lean, the model in
  Rsa/Core/Store.lean.

  Reading guide.  "Equal" is `canon a = canon b`: same keys, element-wise equal values,
  irrespective of list / array / tuple / scalar wrapping and numeric dtype.  `Good k o` says
  that `o` is an object of kind `k` as the real constructors build it (lengths of per-element
  descriptors match, `index` descriptors present, …).  `storable c d` is *exactly* the set of
  dictionaries the HDF5 writer accepts with string codec `c` (`encode_ok_iff_storable`).
-/
import Mathlib.Algebra.Order.Field.Basic
import Mathlib.Tactic.Linarith
import Mathlib.Tactic.FieldSimp
import Mathlib.Tactic.Ring
import Rsa.Lemmas.C16FS
import Rsa.Lemmas.C16Hist
import Rsa.Lemmas.C16Coded
import Rsa.Lemmas.C16LinkRdm

set_option linter.unusedSectionVars false
set_option linter.unusedVariables false
set_option linter.unusedSimpArgs false

namespace Rsa.Props.C16

open Rsa.Store

/-! ### recursive dict ↔ HDF5 group mapping -/

/-- UTF-8 storage of one string is lossless, for every string -/
theorem codec_roundtrip (s : String) : (encStr .utf8 s >>= decStr) = .ok s := by
  simp [encStr, decStr_toByteArray, bind, Except.bind]

/-- the pinned tree's `.astype('S')`: a string array holding a non-ASCII string is refused -/
theorem ascii_rejects (k : String) (cont : Cont) (sh : List Nat) (el : List Atom) (rest : Val)
    (hstr : el.all Atom.isStr = true) (hne : el ≠ []) (hcont : cont ≠ .tuple)
    (hbad : (strsOf el).all isAscii = false) :
    ∃ e, encode .ascii (.dcons k (.tens cont sh el) rest) = .error e := by
  have hn : el.all Atom.isNum = false := by
    cases el with
    | nil => exact absurd rfl hne
    | cons a r =>
      cases a with
      | num t x => simp [Atom.isStr] at hstr
      | str s => simp [Atom.isNum]
  obtain ⟨e, he⟩ := encStrs_err .ascii (strsOf el) (by simp [codecOk, hbad])
  exact ⟨e, by simp [encode, Val.isDict, encodeLeaf, hn, hstr, hcont, he, bind, Except.bind]⟩

/-- `decode ∘ encode`: every storable dictionary (nested to any depth, any mix of strings,
    unicode strings, numbers incl. NaN/inf, arrays, matrices, lists, tuples, None) is read
    back with the same keys and the same values -/
theorem decode_encode (d : Val) (hs : storable .utf8 d = true) :
    ∃ t d', encode .utf8 d = .ok t ∧ decode t = .ok d' ∧ norm d' = norm d ∧ canon d' = canon d := by
  obtain ⟨t, d', h1, h2, h3⟩ := dict_roundtrip .utf8 d hs
  exact ⟨t, d', h1, h2, h3, canon_of_norm_eq h3⟩

/-- the same for the pinned ASCII codec: the storability hypothesis then demands ASCII-only
    string arrays — exactly the inputs on which the pinned tree works -/
theorem decode_encode_ascii (d : Val) (hs : storable .ascii d = true) :
    ∃ t d', encode .ascii d = .ok t ∧ decode t = .ok d' ∧ canon d' = canon d := by
  obtain ⟨t, d', h1, h2, h3⟩ := dict_roundtrip .ascii d hs
  exact ⟨t, d', h1, h2, canon_of_norm_eq h3⟩

/-- the storability predicate is exact: the writer succeeds iff the dictionary is storable -/
theorem encode_ok_iff_storable (c : Codec) (d : Val) :
    (∃ t, encode c d = .ok t) ↔ storable c d = true := by
  constructor
  · rintro ⟨t, h⟩
    exact encode_ok_storable c d t h
  · intro h
    obtain ⟨t, _, h1, _⟩ := dict_roundtrip c d h
    exact ⟨t, h1⟩

/-! ### object ↔ dict, for each of the five kinds -/

theorem rdms_fromDict_toDict (dis desc rd pd meas : Val) (hwf : rdmsWF dis rd pd = true) :
    ∃ d o', rdmsToDict (mkRdms dis desc rd pd meas) = .ok d ∧ rdmsFromDict d = .ok o' ∧
      canon o' = canon (mkRdms dis desc rd pd meas) := by
  obtain ⟨d, h1, _, h2⟩ := kind_roundtrip .rdms _ ⟨dis, desc, rd, pd, meas, rfl, hwf⟩
  obtain ⟨o', h3, h4⟩ := h2 d (sim_refl d)
  exact ⟨d, o', h1, h3, h4⟩

theorem dataset_fromDict_toDict (o : Val) (h : Good .dataset o) :
    ∃ d o', datasetToDict o = .ok d ∧ datasetFromDict d = .ok o' ∧ canon o' = canon o := by
  obtain ⟨d, h1, _, h2⟩ := kind_roundtrip .dataset o h
  obtain ⟨o', h3, h4⟩ := h2 d (sim_refl d)
  exact ⟨d, o', h1, h3, h4⟩

theorem model_fromDict_toDict (o : Val) (h : IsModel o) :
    ∃ d o', modelToDict o = .ok d ∧ modelFromDict d = .ok o' ∧ canon o' = canon o := by
  obtain ⟨d, h1, _, h2⟩ := kind_roundtrip .model o h
  obtain ⟨o', h3, h4⟩ := h2 d (sim_refl d)
  exact ⟨d, o', h1, h3, h4⟩

/-- Result, with *any* number of models of any of the five classes, *any* variances, dof,
    n_rdm / n_pattern — including results whose n_rdm / n_pattern were changed after the
    derived variances were computed (the stored derived variances travel with the object) -/
theorem result_fromDict_toDict (o : Val) (h : Good .result o) :
    ∃ d o', resultToDict o = .ok d ∧ resultFromDict noRecompute d = .ok o' ∧ canon o' = canon o := by
  obtain ⟨d, h1, _, h2⟩ := kind_roundtrip .result o h
  obtain ⟨o', h3, h4⟩ := h2 d (sim_refl d)
  exact ⟨d, o', h1, h3, h4⟩

/-! ### falsy-but-valid field values: the field accesses of `*_from_dict` as coded (round 6) -/

/-- **How every field of every `*_from_dict` is read** (generated leaves
    `fromDict{Result,Rdms,Dataset,Model} field present truthy`, re-derived from the source on
    every run): whenever the key is in the stored dictionary the stored value itself is used —
    for a truthy *and for a falsy* value (`0`, `0.0`, `''`, `[]`, `False`, 0-d `array(0)`): code 1 in
    both columns —, an absent key gives `None` (0, optional: `dof`, `variances`, the derived
    variances) or `KeyError` (3, required).  An `x = d.get(k) or default` / `if d[k]:` on any of
    these fields makes the falsy column 2 / 0 and this statement false.  The one field read by truth
    value on purpose is a model's `rdm` (`None` = a model without RDMs). -/
theorem from_dict_fields_table :
    (∀ i, i < 12 → ∀ t, t < 2 → Rsa.Gen.C16.fromDictResult i 1 t = 1) ∧
    (∀ i, i < 5 → ∀ t, t < 2 → Rsa.Gen.C16.fromDictRdms i 1 t = 1) ∧
    (∀ i, i < 6 → ∀ t, t < 2 → Rsa.Gen.C16.fromDictDataset i 1 t = 1) ∧
    (∀ i, 1 ≤ i → i < 3 → ∀ t, t < 2 → Rsa.Gen.C16.fromDictModel i 1 t = 1) ∧
    Rsa.Gen.C16.fromDictModel 0 1 1 = 1 ∧ Rsa.Gen.C16.fromDictModel 0 1 0 = 0 ∧
    -- absent keys: `dof`, `variances`, `model_var`, `diff_var`, `noise_ceil_var` are optional
    (∀ i, i < 12 → Rsa.Gen.C16.fromDictResult i 0 0 = if i ∈ [1, 2, 9, 10, 11] then 0 else 3) ∧
    (∀ i, i < 5 → Rsa.Gen.C16.fromDictRdms i 0 0 = 3) ∧
    (∀ i, i < 6 → Rsa.Gen.C16.fromDictDataset i 0 0 = 3) ∧
    (∀ i, i < 3 → Rsa.Gen.C16.fromDictModel i 0 0 = 3) := by
  decide

/-- `*_from_dict` of every kind with its field accesses as coded (`fromDictC`: each field goes
    through the generated rule with the Python truth value `pyTruthy` of what was stored) is the
    `fromDict` all round-trip theorems speak about — for **every** dictionary, whatever the truth
    values of its fields -/
theorem fromDictC_eq_fromDict (k : Kind) (d : Val) : fromDictC k d = fromDict k d :=
  fromDictC_eq k d

/-- object → dict → object **as coded** is the identity up to element-wise equality for every
    well-formed object of every kind — dof 0, noise ceiling 0.0, all-zero evaluations, n_rdm /
    n_pattern `None` or 0, empty-string names / methods / measures, descriptor values 0 / 0.0 /
    False / '' / [] included: `Good` places no condition on the truth value of any field -/
theorem falsy_fields_roundtrip (k : Kind) (o : Val) (h : Good k o) :
    ∃ d o', toDict k o = .ok d ∧ fromDictC k d = .ok o' ∧ canon o' = canon o := by
  obtain ⟨d, h1, _, h2⟩ := kind_roundtrip k o h
  obtain ⟨o', h3, h4⟩ := h2 d (sim_refl d)
  exact ⟨d, o', h1, by rw [fromDictC_eq]; exact h3, h4⟩

/-! ### index-keyed groups: read by constructed key, never in storage order -/

/-- `result_dict['models']['model_%d' % i]` and `dict_to_list`'s `d[str(i)]`: what is read from
    an index-keyed dictionary depends only on its lookups and its size, not on the order in
    which the file lists its members (HDF5 lists `'model_10'` before `'model_2'`) -/
theorem index_lookup_order_free (key : Nat → String) (d1 d2 : Val)
    (hget : ∀ k, d1.get? k = d2.get? k) (hsize : d1.size = d2.size) :
    byIndex key d1 = byIndex key d2 := by
  unfold byIndex
  rw [hsize]
  exact byIndexAux_congr key d1 d2 hget _ _

/-- … and when the keys are `key 0, key 1, …` (distinct names) the entries come back in
    numeric order: the i-th model belongs to the i-th evaluation column for any number of
    models -/
theorem index_lookup_numeric (d : Val) :
    (keysFrom modelKey 0 d → byIndex modelKey d = .ok d) ∧
    (keysFrom indexKey 0 d → byIndex indexKey d = .ok d) :=
  ⟨byIndex_keysFrom modelKey modelKey_inj d, byIndex_keysFrom indexKey indexKey_inj d⟩

/-! ### whole round trips through the file system -/

/-- save then load, either file type, path or handle, fresh target or overwrite requested
    (for pickle also an existing path: `open(…, 'wb')` truncates) -/
theorem roundtrip (k : Kind) (o : Val) (hg : Good k o) (fs : FS) (t : Target) (ft : FType)
    (ov : Bool) (d : Val) (hd : toDict k o = .ok d)
    (hst : ft = .hdf5 → storable .utf8 d = true)
    (hfresh : ov = true ∨ FS.lookup fs t = none ∨ (ft = .pkl ∧ t.isPath = true)) :
    ∃ o', (save .utf8 k fs t ft ov o).2.1 = none ∧
      load k (save .utf8 k fs t ft ov o).1 t (some ft) = .ok o' ∧ canon o' = canon o := by
  obtain ⟨d0, h1, hv, h2⟩ := kind_roundtrip k o hg
  rw [hd] at h1
  cases h1
  cases ft with
  | hdf5 =>
    obtain ⟨tree, d', e1, e2, e3⟩ := dict_roundtrip .utf8 d (hst rfl)
    have hf : ov = true ∨ FS.lookup fs t = none := by
      rcases hfresh with h | h | h
      · exact Or.inl h
      · exact Or.inr h
      · cases h.1
    have hw := writeDict_hdf5_fresh .utf8 fs t ov d tree hf e1
    obtain ⟨o', f1, f2⟩ := h2 d' (sim_of_norm_eq e3)
    refine ⟨o', ?_, ?_, f2⟩
    · simp [save, hd, hw]
    · simp [save, hd, hw, load, readDict, detectType, lookup_put_self, e2, f1, bind, Except.bind]
  | pkl =>
    have hf : t.isPath = true ∨ ov = true ∨ FS.lookup fs t = none := by
      rcases hfresh with h | h | h
      · exact Or.inr (Or.inl h)
      · exact Or.inr (Or.inr h)
      · exact Or.inl h.2
    have hw := writeDict_pkl_fresh .utf8 fs t ov d hf
    obtain ⟨o', f1, f2⟩ := h2 (dictAfter .pkl d) (sim_set_fresh d versionKey versionVal hv)
    refine ⟨o', ?_, ?_, f2⟩
    · simp [save, hd, hw]
    · simp [save, hd, hw, load, readDict, detectType, lookup_put_self, f1, bind, Except.bind]

theorem roundtrip_hdf5 (k : Kind) (o : Val) (hg : Good k o) (fs : FS) (t : Target) (ov : Bool)
    (d : Val) (hd : toDict k o = .ok d) (hst : storable .utf8 d = true)
    (hfresh : ov = true ∨ FS.lookup fs t = none) :
    ∃ o', (save .utf8 k fs t .hdf5 ov o).2.1 = none ∧
      load k (save .utf8 k fs t .hdf5 ov o).1 t (some .hdf5) = .ok o' ∧ canon o' = canon o :=
  roundtrip k o hg fs t .hdf5 ov d hd (fun _ => hst)
    (hfresh.elim Or.inl (fun h => Or.inr (Or.inl h)))

/-- pickle: no storability condition at all -/
theorem roundtrip_pkl (k : Kind) (o : Val) (hg : Good k o) (fs : FS) (t : Target) (ov : Bool)
    (d : Val) (hd : toDict k o = .ok d)
    (hfresh : ov = true ∨ FS.lookup fs t = none ∨ t.isPath = true) :
    ∃ o', (save .utf8 k fs t .pkl ov o).2.1 = none ∧
      load k (save .utf8 k fs t .pkl ov o).1 t (some .pkl) = .ok o' ∧ canon o' = canon o :=
  roundtrip k o hg fs t .pkl ov d hd (fun h => by cases h)
    (by rcases hfresh with h | h | h
        · exact Or.inl h
        · exact Or.inr (Or.inl h)
        · exact Or.inr (Or.inr ⟨rfl, h⟩))

/-- what the statistical tests of a Result read -/
def testInputs (o : Val) : List (Option Val) :=
  ["evaluations", "noise_ceiling", "model_var", "diff_var", "noise_ceil_var", "dof"].map
    (fun k => (o.get? k).map canon)

/-- a reloaded Result feeds every test (any function of evaluations, noise ceiling, the three
    derived variances and dof) the same inputs, hence gives identical test outputs -/
theorem result_tests_equal {β : Type} (tests : List (Option Val) → β) (o : Val)
    (hg : Good .result o) (fs : FS) (t : Target) (ft : FType) (ov : Bool) (d : Val)
    (hd : toDict .result o = .ok d) (hst : ft = .hdf5 → storable .utf8 d = true)
    (hfresh : ov = true ∨ FS.lookup fs t = none ∨ (ft = .pkl ∧ t.isPath = true)) :
    ∃ o', load .result (save .utf8 .result fs t ft ov o).1 t (some ft) = .ok o' ∧
      tests (testInputs o') = tests (testInputs o) := by
  obtain ⟨o', _, h2, h3⟩ := roundtrip .result o hg fs t ft ov d hd hst hfresh
  refine ⟨o', h2, ?_⟩
  have : testInputs o' = testInputs o := by
    simp only [testInputs, List.map]
    simp only [← get?_canon, h3]
  rw [this]

/-- what a model's predictions are computed from: its class and its RDMs -/
def predictionInputs (o : Val) : List (Option Val) :=
  ["type", "rdm"].map (fun k => (o.get? k).map canon)

theorem model_predictions_equal {β : Type} (predict : List (Option Val) → β) (o : Val)
    (hg : Good .model o) (fs : FS) (t : Target) (ft : FType) (ov : Bool) (d : Val)
    (hd : toDict .model o = .ok d) (hst : ft = .hdf5 → storable .utf8 d = true)
    (hfresh : ov = true ∨ FS.lookup fs t = none ∨ (ft = .pkl ∧ t.isPath = true)) :
    ∃ o', load .model (save .utf8 .model fs t ft ov o).1 t (some ft) = .ok o' ∧
      predict (predictionInputs o') = predict (predictionInputs o) := by
  obtain ⟨o', _, h2, h3⟩ := roundtrip .model o hg fs t ft ov d hd hst hfresh
  refine ⟨o', h2, ?_⟩
  have : predictionInputs o' = predictionInputs o := by
    simp only [predictionInputs, List.map]
    simp only [← get?_canon, h3]
  rw [this]

/-- after *any* sequence of structural operations (selecting / repeating / reordering RDMs,
    setting descriptors, setting or clearing the measure) on a well-formed storable RDMs
    object, the result is again well-formed and storable — hence it round-trips through
    either file type.  (The invariant `Good` is what every constructor and every C10/C11
    operation of the real code re-establishes; the round-trip theorems above hold for every
    `Good` object, so they hold after every history.) -/
theorem roundtrip_after_history (ops : List RdmOp) (o : Val) (hops : ∀ op ∈ ops, opOk op = true)
    (hg : Good .rdms o) (hst : storable .utf8 o = true)
    (fs : FS) (t : Target) (ft : FType) (ov : Bool)
    (hfresh : ov = true ∨ FS.lookup fs t = none ∨ (ft = .pkl ∧ t.isPath = true)) :
    ∃ o', (save .utf8 .rdms fs t ft ov (applyRdmOps ops o)).2.1 = none ∧
      load .rdms (save .utf8 .rdms fs t ft ov (applyRdmOps ops o)).1 t (some ft) = .ok o' ∧
      canon o' = canon (applyRdmOps ops o) := by
  obtain ⟨g, s⟩ := applyRdmOps_keeps ops o hops hg hst
  obtain ⟨dis, desc, rd, pd, meas, e, hwf⟩ := g
  have hd : toDict .rdms (applyRdmOps ops o) = .ok (applyRdmOps ops o) := by
    rw [e]; exact rdmsToDict_mkRdms _ _ _ _ _
  exact roundtrip .rdms _ ⟨dis, desc, rd, pd, meas, e, hwf⟩ fs t ft ov _ hd (fun _ => s) hfresh

/-! ### objects produced by arbitrary structural operations: the operation alphabets of C10 / C11 -/

/-- **RDMs after any C10 history.**  Take any store of well-formed RDMs objects (as the
    constructor builds them, `index` descriptors included), apply *any* finite sequence of C10
    operations (`Rsa.Rdm.Op`: getitem, subset / subsample of RDMs or patterns, reorder, sort_by,
    append, concat with or without its in-place re-alignment, copy, from_partials, permute /
    inverse permute — failing operations leave the store as it is), pick *any* object of the
    resulting store, with any storable measure: saved to either file type (path or handle,
    fresh or overwrite) and loaded again it is an equal object.  Columns that `concat` filled
    with `None`, or that mix numbers and strings, travel as lists that are no arrays. -/
theorem roundtrip_after_c10_history (s0 : Rsa.Rdm.Store Rat) (hwf : ∀ o ∈ s0, o.WF)
    (hidx : ∀ o ∈ s0, o.rdesc.has "index" = true ∧ o.pdesc.has "index" = true)
    (cm : Bool) (ops : List Rsa.Rdm.Op) (k : Nat) (o : Rsa.Rdm.Obj Rat)
    (hk : (Rsa.Rdm.run cm s0 ops)[k]? = some o) (meas : Val) (hm : fieldOk .utf8 meas = true)
    (fs : FS) (t : Target) (ft : FType) (ov : Bool)
    (hfresh : ov = true ∨ FS.lookup fs t = none ∨ (ft = .pkl ∧ t.isPath = true)) :
    ∃ o', (save .utf8 .rdms fs t ft ov (ofObj meas o)).2.1 = none ∧
      load .rdms (save .utf8 .rdms fs t ft ov (ofObj meas o)).1 t (some ft) = .ok o' ∧
      canon o' = canon (ofObj meas o) := by
  have hg := reachable_good s0 hwf hidx cm ops k o hk meas
  obtain ⟨hd, hst⟩ := storable_ofObj meas hm o
  exact roundtrip .rdms _ hg fs t ft ov _ hd (fun _ => hst) hfresh

/-- **Datasets after any C11 history.**  From one aligned dataset, after *any* finite sequence
    of the C11 operations that keep measurement values (`Rsa.Dataset.Op`: split / subset by
    observation, channel or time, sort_by, merge, odd-even splits, time-as-observations /
    -channels, DataFrame round trip, copy, pick), every dataset of the reached workspace that has
    an observation and a channel (and, if temporal, its `time` descriptor) round-trips through
    either file type. -/
theorem roundtrip_after_c11_history (init : Rsa.Dataset.DS Rat) (hw : Rsa.Dataset.WFex init)
    (ops : List Rsa.Dataset.Op) (hops : ∀ o ∈ ops, Rsa.Lemmas.C11.keepsValues o)
    (d : Rsa.Dataset.DS Rat) (hd : d ∈ Rsa.Dataset.run [init] ops)
    (hno : 0 < d.nObs) (hnc : 0 < d.nChan)
    (ht : d.temporal = true → (d.time.map (·.1)).contains "time" = true)
    (fs : FS) (t : Target) (ft : FType) (ov : Bool)
    (hfresh : ov = true ∨ FS.lookup fs t = none ∨ (ft = .pkl ∧ t.isPath = true)) :
    ∃ o', (save .utf8 .dataset fs t ft ov (ofDS d)).2.1 = none ∧
      load .dataset (save .utf8 .dataset fs t ft ov (ofDS d)).1 t (some ft) = .ok o' ∧
      canon o' = canon (ofDS d) := by
  obtain ⟨no, nc, nt, hwfd⟩ := run_wfex init hw ops hops d hd
  have hg := good_ofDS d no nc nt hwfd hno hnc ht
  obtain ⟨dd, hdd, hst⟩ := storable_ofDS d
  exact roundtrip .dataset _ hg fs t ft ov dd hdd (fun _ => hst) hfresh

/-! ### saving is pure; the existence guard; overwrite -/

/-- saving never changes the in-memory object, whatever the target, file type, flag and
    outcome (the pickle writer's extra key lands in the fresh dictionary only) -/
theorem save_pure (c : Codec) (k : Kind) (fs : FS) (t : Target) (ft : FType) (ov : Bool) (o : Val)
    (hk : versionKey ∉ o.keys) : (save c k fs t ft ov o).2.2 = o := by
  unfold save
  cases hd : toDict k o with
  | error e => rfl
  | ok d =>
    simp only
    apply viewBack_self
    intro key hkey
    cases ft with
    | hdf5 => rfl
    | pkl =>
      have hne : versionKey ≠ key := by
        intro e; subst e; exact hk hkey
      exact get?_set_ne d versionKey key versionVal hne

/-- an existing HDF5 path is not replaced without `overwrite`, **however the path is handed over**
    (`str`, `pathlib.Path`, `os.PathLike`, `bytes`) and **whatever the file holds** (an object of the
    same or of another kind, a pickle, …): the guard of `write_dict_hdf5` (generated leaf `guard`)
    refuses the save before the file is opened and the file system is exactly as before -/
theorem no_overwrite_guard (c : Codec) (k : Kind) (fs : FS) (t : Target) (o : Val) (old : Content)
    (hp : t.isPath = true) (hex : FS.lookup fs t = some old) :
    (save c k fs t .hdf5 false o).1 = fs ∧ (save c k fs t .hdf5 false o).2.1 ≠ none ∧
      (∀ d, toDict k o = .ok d → (save c k fs t .hdf5 false o).2.1 = some .fileExists) := by
  have hg : (t.isStr || t.isOtherPath) = true := by rw [isPath_split, hp]
  unfold save
  cases hd : toDict k o with
  | error e => simp
  | ok d => simp [writeDict, writeDictWith, hex, hg]

/-- with `overwrite=True` the file afterwards holds exactly the new object — its content does
    not depend on what was there — and no other file is touched -/
theorem overwrite_exact (k : Kind) (fs : FS) (t : Target) (ft : FType) (o d : Val)
    (hd : toDict k o = .ok d) (hst : ft = .hdf5 → storable .utf8 d = true) :
    (∃ content, FS.lookup (save .utf8 k fs t ft true o).1 t = some content ∧
      (∀ fs2 : FS, FS.lookup (save .utf8 k fs2 t ft true o).1 t = some content)) ∧
    (∀ t', Target.other t' t →
      FS.lookup (save .utf8 k fs t ft true o).1 t' = FS.lookup fs t') := by
  cases ft with
  | hdf5 =>
    obtain ⟨tree, d', e1, _, _⟩ := dict_roundtrip .utf8 d (hst rfl)
    have hw := fun fs2 => writeDict_hdf5_fresh .utf8 fs2 t true d tree (Or.inl rfl) e1
    refine ⟨⟨.h5 tree, ?_, ?_⟩, ?_⟩
    · simp [save, hd, hw, lookup_put_self]
    · intro fs2; simp [save, hd, hw, lookup_put_self]
    · intro t' ht
      simp [save, hd, hw, cleared, lookup_put_other _ _ _ _ ht, lookup_erase_other _ _ _ ht]
  | pkl =>
    have hw := fun fs2 => writeDict_pkl_fresh .utf8 fs2 t true d (Or.inr (Or.inl rfl))
    refine ⟨⟨.pkl [dictAfter .pkl d], ?_, ?_⟩, ?_⟩
    · simp [save, hd, hw, lookup_put_self]
    · intro fs2; simp [save, hd, hw, lookup_put_self]
    · intro t' ht
      simp [save, hd, hw, cleared, lookup_put_other _ _ _ _ ht, lookup_erase_other _ _ _ ht]

/-- the same for a fresh target without the flag -/
theorem fresh_save_exact (k : Kind) (fs : FS) (t : Target) (o d : Val) (tree : H5)
    (hd : toDict k o = .ok d) (he : encode .utf8 d = .ok tree) (hf : FS.lookup fs t = none) :
    FS.lookup (save .utf8 k fs t .hdf5 false o).1 t = some (.h5 tree) ∧
    (∀ t', Target.other t' t →
      FS.lookup (save .utf8 k fs t .hdf5 false o).1 t' = FS.lookup fs t') := by
  have hw := writeDict_hdf5_fresh .utf8 fs t false d tree (Or.inr hf) he
  constructor
  · simp [save, hd, hw, lookup_put_self]
  · intro t' ht
    simp [save, hd, hw, cleared, lookup_put_other _ _ _ _ ht]

/-! ### the code as written is the specification (decision structures regenerated from the
    source: harness/leaves/C16.py → Rsa.Gen.C16) -/

/-- `_write_to_group`: with the isinstance chain in its current order, every Python type takes
    the branch that stores it (a `str` is *not* treated as a generic iterable, a tuple is not
    dropped, …) -/
theorem write_dispatch_table :
    writeBranch .str = 1 ∧ writeBranch .ndarray = 2 ∧ writeBranch .list = 3 ∧
    writeBranch .dict = 4 ∧ writeBranch .none = 5 ∧ writeBranch .tuple = 6 ∧
    writeBranch .scalar = 7 := writeBranch_table

/-- `_write_list`: all three ways a list turns out to be no array reach the per-element fall-back —
    h5py's TypeError for an object array (entries that are None), numpy's ValueError for a ragged
    list, and an object-dtype array numpy builds *without raising* (entries that are equal-length
    object arrays of strings: stored raw they would come back as bytes objects); a string array
    is encoded, any other array stored raw -/
theorem list_fallback_table (o u : Nat) :
    Rsa.Gen.C16.listDispatch 1 0 o u = 3 ∧ Rsa.Gen.C16.listDispatch 0 1 o u = 3 ∧
    Rsa.Gen.C16.listDispatch 0 0 1 u = 3 ∧
    Rsa.Gen.C16.listDispatch 0 0 0 1 = 1 ∧ Rsa.Gen.C16.listDispatch 0 0 0 0 = 2 :=
  listDispatch_table o u

/-- the writer as coded (generated dispatch) is the `encode` all theorems above speak about -/
theorem encodeC_eq_encode (c : Codec) (d : Val) : encodeC c d = encode c d := encodeC_eq c d

/-- `save` of every kind as coded (generated: which writer runs, whether `remove_file` ran before
    it, the existence guard of `write_dict_hdf5`) is the `save` all theorems speak about -/
theorem saveC_eq_save (c : Codec) (k : Kind) (fs : FS) (t : Target) (ft : FType) (ov : Bool)
    (o : Val) : saveC c k fs t ft ov o = save c k fs t ft ov o := saveC_eq c k fs t ft ov o

/-- `save()` without arguments writes HDF5 and does not overwrite -/
theorem save_defaults (k : Kind) : saveDefault k = (.hdf5, false) := saveDefault_table k

/-- `load_*` without `file_type`, for the three loaders: a name ending in `.pkl` is a pickle,
    one ending in `.h5` or `hdf5` is HDF5, anything else (`.H5`, `.hdf`, `.pickle`, …) is refused;
    and when the type is recognised the load is the load with that type -/
theorem autodetect_table :
    (∀ b c, Rsa.Gen.C16.detectRdm 1 b c = 1 ∧ Rsa.Gen.C16.detectDataset 1 b c = 1 ∧
      Rsa.Gen.C16.detectResults 1 b c = 1) ∧
    (∀ c, Rsa.Gen.C16.detectRdm 0 1 c = 2 ∧ Rsa.Gen.C16.detectDataset 0 1 c = 2 ∧
      Rsa.Gen.C16.detectResults 0 1 c = 2) ∧
    (Rsa.Gen.C16.detectRdm 0 0 1 = 2 ∧ Rsa.Gen.C16.detectDataset 0 0 1 = 2 ∧
      Rsa.Gen.C16.detectResults 0 0 1 = 2) ∧
    (Rsa.Gen.C16.detectRdm 0 0 0 = 0 ∧ Rsa.Gen.C16.detectDataset 0 0 0 = 0 ∧
      Rsa.Gen.C16.detectResults 0 0 0 = 0) := detect_table

theorem autodetect_agrees (k : Kind) (fs : FS) (t : Target) (ft : FType)
    (h : detectType k t none = .ok ft) : load k fs t none = load k fs t (some ft) := by
  have h2 : detectType k t (some ft) = .ok ft := rfl
  simp only [load, readDict, h, h2]

/-! ### lists that are no arrays (ragged, or holding `None`) -/

/-- through HDF5 a list stays a list and a dictionary stays a dictionary, under every key of
    every storable dictionary, with the same entries -/
theorem list_stays_list (d : Val) (hs : storable .utf8 d = true) :
    ∃ t d', encode .utf8 d = .ok t ∧ decode t = .ok d' ∧
      ∀ key v, d.get? key = some v →
        ∃ v', d'.get? key = some v' ∧ v'.isList = v.isList ∧ norm v' = norm v := by
  obtain ⟨t, d', h1, h2, h3⟩ := dict_roundtrip .utf8 d hs
  refine ⟨t, d', h1, h2, fun key v hv => ?_⟩
  obtain ⟨v', g1, g2⟩ := sim_of_norm_eq h3 key v hv
  exact ⟨v', g1, isList_of_norm_eq g2, g2⟩

/-- `dict_to_list`: a list is left alone; an index-keyed group without the list marker (a file
    written before the marker existed) becomes the list of its entries in numeric order -/
theorem dict_to_list_spec :
    (∀ v, v.isList = true → toListVal v = .ok v) ∧
    (∀ v r, keysFrom indexKey 0 (.dcons (indexKey 0) v r) →
      toListVal (.dcons (indexKey 0) v r) = .ok (mkList (.dcons (indexKey 0) v r))) := by
  refine ⟨toListVal_of_isList, fun v r hk => ?_⟩
  have hne : indexKey 0 ≠ listKey := by decide
  simp [toListVal, hne, byIndex_keysFrom indexKey indexKey_inj _ hk, Except.map]

/-! ### a second save into an open handle that already holds something, without `overwrite` -/

/-- HDF5 into an open handle (named file object or `BytesIO`; paths of every kind are refused up
    front by the guard, `no_overwrite_guard`): `File(handle, 'a')` re-opens the file and `_write_to_group` meets a member of the same
    name (always the case when the file holds an object of the same kind: the first key of
    every kind's dictionary is a dataset / group): h5py refuses, the file is exactly what it
    was, every load returns what it returned before -/
theorem second_save_refused (k : Kind) (fs : FS) (t : Target) (ht : t.isPath = false) (g : H5)
    (hg : FS.lookup fs t = some (.h5 g)) (o : Val) (k0 : String) (v0 r : Val)
    (hd : toDict k o = .ok (.dcons k0 v0 r)) (it : H5) (hi : encodeItem .utf8 v0 = .ok it)
    (hna : it.isAttr = false) (hl : g.hasLink k0 = true) :
    (save .utf8 k fs t .hdf5 false o).2.1 = some .nameExists ∧
    FS.lookup (save .utf8 k fs t .hdf5 false o).1 t = some (.h5 g) ∧
    ∀ k' ft, load k' (save .utf8 k fs t .hdf5 false o).1 t ft = load k' fs t ft := by
  have hw : writeDict .utf8 fs t .hdf5 false (.dcons k0 v0 r) =
      (FS.put fs t (.h5 g), some .nameExists) := by
    simp [writeDict, writeDictWith, hg, ht, Target.isStr, Target.isOtherPath,
      writeInto_collision (encodeItem .utf8) g k0 v0 r it hi hna hl]
  refine ⟨by simp [save, hd, hw], by simp [save, hd, hw, lookup_put_self], fun k' ft => ?_⟩
  simp [save, hd, hw, load, readDict, lookup_put_self, hg]

/-- … in particular two saves of objects of the same kind into a fresh handle: the second is
    refused and the handle still holds the first -/
theorem save_twice_keeps_first (k : Kind) (fs : FS) (t : Target) (ht : t.isPath = false)
    (hf : FS.lookup fs t = none) (o1 o2 : Val) (k0 : String) (v1 r1 v2 r2 : Val)
    (hd1 : toDict k o1 = .ok (.dcons k0 v1 r1)) (hd2 : toDict k o2 = .ok (.dcons k0 v2 r2))
    (hst : storable .utf8 (.dcons k0 v1 r1) = true) (it1 it2 : H5)
    (hi1 : encodeItem .utf8 v1 = .ok it1) (hna1 : it1.isAttr = false)
    (hi2 : encodeItem .utf8 v2 = .ok it2) (hna2 : it2.isAttr = false) :
    (save .utf8 k (save .utf8 k fs t .hdf5 false o1).1 t .hdf5 false o2).2.1 = some .nameExists ∧
    ∀ k' ft, load k' (save .utf8 k (save .utf8 k fs t .hdf5 false o1).1 t .hdf5 false o2).1 t ft =
      load k' (save .utf8 k fs t .hdf5 false o1).1 t ft := by
  obtain ⟨tree, _, e1, _, _⟩ := dict_roundtrip .utf8 _ hst
  have hw := writeDict_hdf5_fresh .utf8 fs t false _ tree (Or.inr hf) e1
  have hfs : (save .utf8 k fs t .hdf5 false o1).1 = FS.put (cleared fs t false) t (.h5 tree) := by
    simp [save, hd1, hw]
  have hl := hasLink_encode_head .utf8 k0 v1 r1 tree it1 hi1 hna1 e1
  rw [hfs]
  obtain ⟨a, _, c⟩ := second_save_refused k (FS.put (cleared fs t false) t (.h5 tree)) t ht tree
    (lookup_put_self _ t _) o2 k0 v2 r2 hd2 it2 hi2 hna2 hl
  exact ⟨a, c⟩

/-! ### an existing HDF5 *path* handed over as `pathlib.Path` / `os.PathLike` / `bytes` -/

/-- the guard covers every path-like target (`isinstance(fhandle, (str, bytes, os.PathLike))`): a
    path that is no `str` and exists is refused up front with `fileExists`, whatever it holds — an
    object of any kind, pickles, a half-written file; every lookup and every load of every kind
    from every target returns what it returned before.  (Before /repo "hdf5-guard-pathlike" such a
    path was opened in append mode and a file of another kind was merged into.) -/
theorem no_overwrite_guard_pathlike (k : Kind) (fs : FS) (t : Target) (hp : t.isPath = true)
    (hs : t.asStr = false) (old : Content) (hex : FS.lookup fs t = some old) (o d : Val)
    (hd : toDict k o = .ok d) :
    (save .utf8 k fs t .hdf5 false o).2.1 = some .fileExists ∧
    (save .utf8 k fs t .hdf5 false o).1 = fs ∧
    ∀ k' t' ft, load k' (save .utf8 k fs t .hdf5 false o).1 t' ft = load k' fs t' ft := by
  obtain ⟨a, _, c⟩ := no_overwrite_guard .utf8 k fs t o old hp hex
  exact ⟨c d hd, a, fun k' t' ft => by rw [a]⟩

/-- **An existing file is never replaced unless overwrite is requested.**  An object of kind `k1`
    saved to a fresh path (handed over either way), then an object of **any** kind `k2` saved to
    the *same file* without `overwrite` — the path again handed over either way, `str` then
    `Path`, `Path` then `str`, …: the first save succeeds, the second is refused with `fileExists`,
    the file system is exactly what it was and every load returns what it returned before. -/
theorem existing_path_never_replaced (k1 k2 : Kind) (fs : FS) (t t2 : Target) (hp : t.isPath = true)
    (hid : t2.id = t.id) (hp2 : t2.isPath = t.isPath)
    (hf : FS.lookup fs t = none) (o1 o2 d1 d2 : Val)
    (hd1 : toDict k1 o1 = .ok d1) (hd2 : toDict k2 o2 = .ok d2)
    (hst : storable .utf8 d1 = true) :
    (save .utf8 k1 fs t .hdf5 false o1).2.1 = none ∧
    (save .utf8 k2 (save .utf8 k1 fs t .hdf5 false o1).1 t2 .hdf5 false o2).2.1 = some .fileExists ∧
    (save .utf8 k2 (save .utf8 k1 fs t .hdf5 false o1).1 t2 .hdf5 false o2).1 =
      (save .utf8 k1 fs t .hdf5 false o1).1 ∧
    ∀ k' t' ft, load k' (save .utf8 k2 (save .utf8 k1 fs t .hdf5 false o1).1 t2 .hdf5 false o2).1 t' ft =
      load k' (save .utf8 k1 fs t .hdf5 false o1).1 t' ft := by
  obtain ⟨tree, _, e1, _, _⟩ := dict_roundtrip .utf8 _ hst
  have hw := writeDict_hdf5_fresh .utf8 fs t false _ tree (Or.inr hf) e1
  have hfs : (save .utf8 k1 fs t .hdf5 false o1).1 = FS.put (cleared fs t false) t (.h5 tree) := by
    simp [save, hd1, hw]
  have herr : (save .utf8 k1 fs t .hdf5 false o1).2.1 = none := by simp [save, hd1, hw]
  have hlk2 : FS.lookup (FS.put (cleared fs t false) t (.h5 tree)) t2 = some (.h5 tree) := by
    rw [lookup_congr _ t2 t hid hp2]; exact lookup_put_self _ t _
  refine ⟨herr, ?_⟩
  rw [hfs]
  obtain ⟨a, _, c⟩ := no_overwrite_guard .utf8 k2 (FS.put (cleared fs t false) t (.h5 tree)) t2 o2 _
    (hp2.trans hp) hlk2
  exact ⟨c _ hd2, a, fun k' t' ft => by rw [a]⟩

/-- a path that is no `str` is a path all the same for pickle (`open(…, 'wb')` truncates): fresh or
    existing, with or without the flag, the file afterwards holds exactly the new dictionary
    (repaired behaviour; the pinned tree raises `TypeError`, finding "pathlike-target") -/
theorem pkl_path_exact (k : Kind) (fs : FS) (t : Target) (hp : t.isPath = true) (ov : Bool)
    (o d : Val) (hd : toDict k o = .ok d) :
    (save .utf8 k fs t .pkl ov o).2.1 = none ∧
    FS.lookup (save .utf8 k fs t .pkl ov o).1 t = some (.pkl [dictAfter .pkl d]) := by
  have hw := writeDict_pkl_fresh .utf8 fs t ov d (Or.inl hp)
  exact ⟨by simp [save, hd, hw], by simp [save, hd, hw, lookup_put_self]⟩

/-- no auto-detection of the file type for a target that is no `str` (as coded:
    `isinstance(filename, str)`), whatever its name -/
theorem autodetect_str_only (k : Kind) (t : Target) (h : t.isStr = false) :
    detectType k t none = .error .valueError := by
  simp [detectType, h]

/-- pickle: `pickle.dump` into a handle that already holds pickles writes behind the first one;
    the save succeeds and every load (which reads the first pickle) returns what it returned before -/
theorem pkl_append_keeps_first (k : Kind) (fs : FS) (t : Target) (ht : t.isPath = false)
    (d0 : Val) (rest : List Val) (hg : FS.lookup fs t = some (.pkl (d0 :: rest))) (o d : Val)
    (hd : toDict k o = .ok d) :
    (save .utf8 k fs t .pkl false o).2.1 = none ∧
    ∀ k' ft, load k' (save .utf8 k fs t .pkl false o).1 t ft = load k' fs t ft := by
  have hw : writeDict .utf8 fs t .pkl false d =
      (FS.put fs t (.pkl (d0 :: (rest ++ [dictAfter .pkl d]))), none) := by
    simp [writeDict, writeDictWith, hg, ht]
  refine ⟨by simp [save, hd, hw], fun k' ft => ?_⟩
  simp [save, hd, hw, load, readDict, lookup_put_self, hg]

/-! ### why the pinned tree changes a reloaded Result (defect C16-result-variances) -/

section pinned
variable {K : Type} [Field K] [LinearOrder K] [IsStrictOrderedRing K]
open Rsa.Gen.C16

/-- `eval_fixed` / `eval_bootstrap_rdm` derive their variances with `n_rdm` only and then set
    `n_pattern`; `result_from_dict` on the pinned tree recomputes with both.  Whenever there are
    fewer patterns than RDMs the two corrections (generated from `_correct_1d`'s current text)
    differ for every non-zero variance: recomputation cannot be a correct reload. -/
theorem pinned_reload_changes_variance (v np nr : K) (hv : v ≠ 0) (h1 : 1 < np) (h2 : np < nr) :
    correct1dBoth v np nr ≠ correct1dRdm v nr := by
  unfold correct1dBoth correct1dRdm
  simp only [Nat.cast_one]
  rw [min_eq_right (le_of_lt h2)]
  intro h
  have hnp : np - 1 ≠ 0 := by linarith
  have hnr : nr - 1 ≠ 0 := by
    have : 1 < nr := lt_trans h1 h2
    intro e; linarith
  have h3 : np / (np - 1) = nr / (nr - 1) := mul_right_cancel₀ hv h
  rw [div_eq_div_iff hnp hnr] at h3
  have : np = nr := by linarith
  exact absurd this (ne_of_lt h2)

end pinned

/-! ### non-vacuity: concrete objects meet the hypotheses -/

/-- a 2-RDM, 3-condition RDMs object with a unicode string descriptor, a NaN entry, an
    absent measure and index descriptors -/
def exRdms : Val :=
  mkRdms (.tens .nd [2, 3] [.num .float (.fin 1), .num .float .nan, .num .float .pinf,
                            .num .float (.fin 0), .num .float .nzero, .num .float (.fin 2)])
    (mkDict [("subj", .str "Ünï"), ("prec", .tens .nd [2, 2] [.num .float (.fin 1),
              .num .float (.fin 0), .num .float (.fin 0), .num .float (.fin 1)]), ("none", .none)])
    (mkDict [("index", arange .list 2), ("lab", .tens .list [2] [.str "日本", .str "a"])])
    (mkDict [("index", arange .list 3)])
    .none

example : Good .rdms exRdms := ⟨_, _, _, _, _, rfl, by decide +kernel⟩
example : ∃ d, toDict .rdms exRdms = .ok d ∧ storable .utf8 d = true ∧ storable .ascii d = false :=
  ⟨exRdms, by rfl, by decide +kernel, by decide +kernel⟩
example : versionKey ∉ exRdms.keys := by decide +kernel
example : Good .model (mkModel (.str "ModelFixed") (.str "m") exRdms) :=
  IsModel.other "ModelFixed" "m" _ _ _ _ _ (Or.inl rfl) (by decide +kernel)
example : Good .result (mkResult (.tens .nd [1, 1, 2] [.num .float (.fin 1), .num .float (.fin 2)])
    (.tens .scalar [] [.num .int (.fin 1)]) .none (.tens .nd [2] []) (.str "cosine") (.str "fixed")
    .none .none (.dcons "model_0" (mkModel (.str "ModelFixed") (.str "m") exRdms) .dnil)
    .none .none .none) :=
  ⟨_, _, _, _, _, _, _, _, _, _, _, _, rfl,
    ModelsWF.cons _ _ _ (IsModel.other "ModelFixed" "m" _ _ _ _ _ (Or.inl rfl) (by decide +kernel))
      ModelsWF.nil, ⟨by decide +kernel, trivial⟩, by decide +kernel⟩
/-- a Result all of whose fields are falsy-but-valid: evaluations 0, dof 0, variances 0, noise
    ceiling 0.0, method / cv_method / model name `''`, n_rdm 0, n_pattern `None` -/
def exFalsyResult : Val :=
  mkResult (.tens .nd [1, 1] [.num .float (.fin 0)])
    (.tens .scalar [] [.num .int (.fin 0)]) (.tens .nd [1, 1] [.num .float (.fin 0)])
    (.tens .nd [2] [.num .float (.fin 0), .num .float (.fin 0)]) (.str "") (.str "")
    (.tens .scalar [] [.num .int (.fin 0)]) .none
    (.dcons "model_0" (mkModel (.str "ModelFixed") (.str "") exRdms) .dnil)
    (.tens .nd [1] [.num .float (.fin 0)]) (.tens .nd [0] []) (.tens .nd [0] [])
example : Good .result exFalsyResult :=
  ⟨_, _, _, _, _, _, _, _, _, _, _, _, rfl,
    ModelsWF.cons _ _ _ (IsModel.other "ModelFixed" "" _ _ _ _ _ (Or.inl rfl) (by decide +kernel))
      ModelsWF.nil, ⟨by decide +kernel, trivial⟩, by decide +kernel⟩
-- every top-level field of it is falsy in Python's sense; the coded reader returns it all the same
example : (["dof", "method", "cv_method", "n_rdm", "n_pattern"].all fun k =>
    ((exFalsyResult.get? k).map pyTruthy) == some false) = true := by decide +kernel
example : ∃ d, toDict .result exFalsyResult = .ok d ∧
    (fromDictC .result d).toOption.bind (·.get? "dof") = some (.tens .scalar [] [.num .int (.fin 0)]) :=
  ⟨_, rfl, by decide +kernel⟩
-- a group listed alphabetically (`model_10` before `model_2`) is read in numeric order
example :
    byIndex modelKey (mkDict [("model_0", .str "a"), ("model_1", .str "b"), ("model_10", .str "k"),
      ("model_11", .str "l"), ("model_2", .str "c"), ("model_3", .str "d"), ("model_4", .str "e"),
      ("model_5", .str "f"), ("model_6", .str "g"), ("model_7", .str "h"), ("model_8", .str "i"),
      ("model_9", .str "j")]) =
    .ok (mkDict [("model_0", .str "a"), ("model_1", .str "b"), ("model_2", .str "c"),
      ("model_3", .str "d"), ("model_4", .str "e"), ("model_5", .str "f"), ("model_6", .str "g"),
      ("model_7", .str "h"), ("model_8", .str "i"), ("model_9", .str "j"), ("model_10", .str "k"),
      ("model_11", .str "l")]) := by decide +kernel
example : opOk (.takeRdms [1, 1, 0]) = true ∧ opOk (.setDesc "k" (.str "ü")) = true ∧
    opOk (.setMeasure .none) = true := by decide
example : (1 : ℚ) < 4 ∧ (4 : ℚ) < 6 ∧ (1 : ℚ) ≠ 0 := by norm_num
/-- a list with a missing entry `[1, None]` inside a descriptor dictionary: storable, a list -/
def exList : Val := mkList (mkDict [("0", natVal 1), ("1", .none)])
example : storable .utf8 (mkDict [("sess", exList), ("d", mkDict [("0", natVal 1)])]) = true ∧
    exList.isList = true ∧ (mkDict [("0", natVal 1)]).isList = false := by decide +kernel
example : keysFrom indexKey 0 (.dcons (indexKey 0) (natVal 1) (.dcons (indexKey 1) .none .dnil)) :=
  ⟨rfl, rfl, trivial⟩
-- the hypotheses of `save_twice_keeps_first` hold for two RDMs objects and a fresh memory handle
example : ∃ k0 v1 r1 it1, toDict .rdms exRdms = .ok (.dcons k0 v1 r1) ∧
    storable .utf8 (.dcons k0 v1 r1) = true ∧ encodeItem .utf8 v1 = .ok it1 ∧ it1.isAttr = false :=
  ⟨"dissimilarities", _, _, _, rfl, by decide +kernel, rfl, rfl⟩
/-- a `pathlib.Path` target: a path, no `str`; the same file as the `str` target of that id -/
def exPathT : Target := { isPath := true, id := 0, name := "x.h5", asStr := false }
def exStrT : Target := { isPath := true, id := 0, name := "x.h5" }
example : exPathT.isPath = true ∧ exPathT.asStr = false ∧ exPathT.isStr = false ∧
    exPathT.id = exStrT.id ∧ exPathT.isPath = exStrT.isPath ∧ exStrT.isStr = true := by decide
example : detectType .rdms exPathT none = .error .valueError := autodetect_str_only _ _ rfl
-- `existing_path_never_replaced`, instantiated: an RDMs object saved through the `str`, then a
-- *model* saved through the Path onto the same file (and the other way round): refused up front
example : (save .utf8 .rdms [] exStrT .hdf5 false exRdms).2.1 = none ∧
    (save .utf8 .model (save .utf8 .rdms [] exStrT .hdf5 false exRdms).1 exPathT .hdf5 false
      (mkModel (.str "ModelFixed") (.str "m") exRdms)).2.1 = some .fileExists ∧
    (save .utf8 .rdms (save .utf8 .rdms [] exPathT .hdf5 false exRdms).1 exStrT .hdf5 false exRdms).2.1 =
      some .fileExists := by
  have h := existing_path_never_replaced .rdms .model [] exStrT exPathT rfl rfl rfl rfl exRdms
    (mkModel (.str "ModelFixed") (.str "m") exRdms) _ _ rfl rfl (by decide +kernel)
  have h' := existing_path_never_replaced .rdms .rdms [] exPathT exStrT rfl rfl rfl rfl exRdms exRdms
    _ _ rfl rfl (by decide +kernel)
  exact ⟨h.1, h.2.1, h'.2.1⟩
example : detectType .rdms { isPath := true, id := 0, name := "a.tar.hdf5" } none = .ok .hdf5 ∧
    detectType .dataset { isPath := true, id := 0, name := "x.h5.pkl" } none = .ok .pkl ∧
    detectType .result { isPath := true, id := 0, name := "x.H5" } none = .error .valueError := by
  decide +kernel

/-- a C10 object as the constructor builds it: 1 RDM of 3 conditions with a NaN entry, an rdm
    descriptor without a value (`None`), a pattern descriptor mixing strings and a number -/
def exObj : Option (Rsa.Rdm.Obj Rat) :=
  Rsa.Rdm.mk2d [[some 1, none, some 2]] [("sub", .int 1)] [("sess", [.none])]
    [("cond", [.str "a", .str "b", .int 3])]
example (o : Rsa.Rdm.Obj Rat) (h : exObj = some o) :
    o.WF ∧ o.rdesc.has "index" = true ∧ o.pdesc.has "index" = true :=
  ⟨Rsa.Rdm.mk2d_wf h ⟨3, by decide, by decide⟩, (Rsa.Rdm.extra_mk2d h).rindex,
    (Rsa.Rdm.extra_mk2d h).pindex⟩
example : exObj.isSome = true := by decide +kernel
/-- an aligned C11 dataset: 2 observations × 2 channels, a descriptor column mixing kinds -/
def exDS : Rsa.Dataset.DS Rat :=
  { temporal := false, meas := [[[1], [2]], [[3], [4]]], desc := [("sub", .num 1)]
    obs := [("c", [.str "a", .num 1])], chan := [("n", [.str "x", .str "y"])], time := [] }
example : Rsa.Dataset.WFex exDS ∧ 0 < exDS.nObs ∧ 0 < exDS.nChan := by
  refine ⟨⟨2, 2, 1, ⟨rfl, ?_, ?_, ?_, ?_, ?_⟩⟩, by decide, by decide⟩ <;>
    simp [exDS, Rsa.Dataset.Tbl.wf]

/-! ### round 7: strings are compared character for character -/

/-- "Equal" never identifies two different strings — not as a scalar, not as an entry of an array
    (whatever its container and wherever it stands) — and the UTF-8 bytes stored for a string
    determine it: no blank, tab, newline, control character or combining mark may be dropped or
    merged between saving and loading (`"face " ≠ "face"`, `" " ≠ ""`, NFC ≠ NFD).  Together with
    `roundtrip` (`canon o' = canon o`) this is "exact comparison after reload" for every string. -/
theorem strings_exact (s s' : String) :
    (canon (.str s) = canon (.str s') ↔ s = s') ∧
    (∀ (c c' : Cont) (sh : List Nat) (pre post : List Atom),
      canon (.tens c sh (pre ++ .str s :: post)) = canon (.tens c' sh (pre ++ .str s' :: post))
        ↔ s = s') ∧
    (encStr .utf8 s = encStr .utf8 s' ↔ s = s') := by
  refine ⟨⟨fun h => by simpa [canon] using h, fun h => h ▸ rfl⟩, ?_, ?_⟩
  · intro c c' sh pre post
    constructor
    · intro h
      simpa [canon, canonAtom] using h
    · intro h
      subst h
      simp [canon]
  · constructor
    · intro h
      have h1 := codec_roundtrip s
      rw [h, codec_roundtrip s'] at h1
      exact (Except.ok.inj h1).symm
    · intro h
      subst h
      rfl

example : canon (.str "face ") ≠ canon (.str "face") ∧ canon (.str " ") ≠ canon (.str "") ∧
    canon (.tens .list [2] [.str "a", .str "a "]) ≠ canon (.tens .nd [2] [.str "a", .str "a"]) ∧
    canon (.str "e\u0301") ≠ canon (.str "\u00e9") ∧
    encStr .utf8 "a\t" ≠ encStr .utf8 "a" := by
  refine ⟨?_, ?_, ?_, ?_, ?_⟩
  · rw [Ne, (strings_exact _ _).1]; decide
  · rw [Ne, (strings_exact _ _).1]; decide
  · exact fun h => absurd (((strings_exact "a " "a").2.1 .list .nd [2] [.str "a"] []).mp h) (by decide)
  · rw [Ne, (strings_exact _ _).1]; decide
  · rw [Ne, (strings_exact _ _).2.2]; decide

end Rsa.Props.C16
