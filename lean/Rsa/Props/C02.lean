/-
  Property C02 — cross-validated distances are the mean of between-fold products only.
  Property theorems only; helper lemmas live in Rsa/Lemmas/C02*.lean.

  Objects (Rsa/Core/CrossVal.lean):
    `crossnobisAlgo`, `foldPrecAlgo`, `poissonCvAlgo`  the estimators as coded (sort by
        condition, leave-one-fold-out loop with positional alignment, mean over folds /
        loop over fold positions i<j with per-fold precisions);
    `crossnobisSpec`, `foldPrecSpec`, `poissonCvSpec`, `pairAverage`  the statement: the
        average over all ordered pairs (m, n), m ≠ n, of distinct folds of
        `(x_am − x_bm) N (x_an − x_bn)ᵀ / P` resp. `(λ_am − λ_bm)·(log λ_an − log λ_bn) / P`
        on fold-wise condition means;
    `Balanced D R`  every condition is observed R ≥ 1 times in every fold.
  `K` is any linearly ordered field; `log` is an arbitrary function; the matrix inverse of
  the per-fold branch is an arbitrary function whose results are symmetric (contract).
-/
import Rsa.Lemmas.C02Cert

set_option linter.unusedSectionVars false
set_option linter.unusedVariables false
set_option linter.unusedDecidableInType false

namespace Rsa.Props.C02

open Rsa Rsa.CrossVal List

variable {L F G : Type} [LinearOrder L] [LinearOrder F] [LinearOrder G]
variable {K : Type} [Field K] [LinearOrder K] [IsStrictOrderedRing K]

/-- sorted distinct condition labels of a dataset (`np.unique` of the descriptor) -/
abbrev condsOf (D : List (Obs L F K)) : List L := sortedDistinct (D.map (·.cond))
/-- sorted distinct fold labels of a dataset -/
abbrev foldsOfD (D : List (Obs L F K)) : List F := sortedDistinct (D.map (·.fold))

/-! ### the estimators equal the pair average -/

/-- Balance ⇒ the mean over all training rows of a condition (all rows of the other folds)
    is the mean of the other folds' condition means. -/
theorem train_mean_eq_mean_of_fold_means (D : List (Obs L F K)) {R : Nat} (hbal : Balanced D R)
    (hM : 2 ≤ (foldsOfD D).length) {f : F} (hf : f ∈ foldsOfD D) {c : L} (hc : c ∈ condsOf D) :
    meanVec (((D.filter (fun r => r.fold ∈ (foldsOfD D).filter (fun n => n ≠ f))).filter
        (fun r => r.cond = c)).map (·.x))
      = meanVec (((foldsOfD D).filter (fun n => n ≠ f)).map (fun n => meanVec (cell D c n))) := by
  have hnd : (foldsOfD D).Nodup := sortedDistinct_nodup _
  have holen := length_filter_ne hnd hf
  have hone : (foldsOfD D).filter (fun n => n ≠ f) ≠ [] := by
    intro h; rw [h] at holen; simp at holen; omega
  apply train_mean D (hnd.filter _) hone c hbal.1
  intro n hn
  exact hbal.2 c (mem_sortedDistinct.mp hc) n (mem_sortedDistinct.mp (List.mem_filter.mp hn).1)

/-- Generic form: for every per-pattern transform `T` that commutes with averaging and every
    kernel `κ` linear in its training argument, the leave-one-fold-out loop as coded yields,
    for every pair of sorted distinct condition labels, exactly the average over ordered
    pairs of distinct folds. -/
theorem lofo_eq_pair_average (T : (Nat → K) → (Nat → K)) (κ : (Nat → K) → (Nat → K) → K)
    (P : Nat) (hT : MeanCommute T) (hκ : MeanLinear κ)
    (D : List (Obs L F K)) {R : Nat} (hbal : Balanced D R) (hM : 2 ≤ (foldsOfD D).length) :
    lofoAlgo T κ P D
      = (pairsOf (condsOf D)).map (fun ab => (ab, cvSpec T κ P D (foldsOfD D) ab.1 ab.2)) :=
  lofoAlgo_closed T κ P hT hκ D hbal hM

/-- `calc_rdm_crossnobis` with one precision `N` (any matrix), with or without `remove_mean`:
    the value for conditions (a, b) is the average over all ordered pairs of distinct folds
    of `(x_am − x_bm) N (x_an − x_bn)ᵀ / P`, labelled by the sorted condition labels. -/
theorem crossnobis_eq_pair_average (rm : Bool) (P : Nat) (N : Nat → Nat → K)
    (D : List (Obs L F K)) {R : Nat} (hbal : Balanced D R) (hM : 2 ≤ (foldsOfD D).length) :
    crossnobisAlgo rm P N D
      = (pairsOf (condsOf D)).map (fun ab =>
          (ab, crossnobisSpec (xT rm P) P N D (foldsOfD D) ab.1 ab.2)) := by
  unfold crossnobisAlgo
  rw [lofoAlgo_closed _ _ P (xT_meanCommute rm P) (kern_meanLinear P N) D hbal hM]
  apply List.map_congr_left
  intro ab _
  unfold cvSpec crossnobisSpec
  simp only [kdiff_kern]

/-- no precision given (`np.eye`): the product is the plain dot product of the differences -/
theorem crossnobis_identity_precision (T : (Nat → K) → (Nat → K)) (P : Nat)
    (D : List (Obs L F K)) (S : List F) (a b : L) :
    crossnobisSpec T P eye D S a b
      = pairAverage S (fun m n =>
          dotP P (vsubF (foldMean T D a m) (foldMean T D b m))
                 (vsubF (foldMean T D a n) (foldMean T D b n)) / ((P : Nat) : K)) := by
  unfold crossnobisSpec
  simp only [kern_eye]

/-- one precision per fold (`prec f` belongs to fold `f`; the list is passed in sorted fold
    order): the loop over fold positions i<j equals the average over *ordered* pairs of
    distinct folds with the precision `inv((inv N_m + inv N_n)/2)` of the two folds' averaged
    covariance.  `inv` is a parameter; the contract used is that these pair precisions are
    symmetric matrices. -/
theorem crossnobis_foldprec_eq (inv : List (List K) → List (List K)) (rm : Bool) (P : Nat)
    (prec : F → List (List K)) (D : List (Obs L F K)) {R : Nat} (hbal : Balanced D R)
    (hM : 2 ≤ (foldsOfD D).length)
    (hsym : ∀ m ∈ foldsOfD D, ∀ n ∈ foldsOfD D, m ≠ n → ∀ k l, k < P → l < P →
      pairPrec inv prec m n k l = pairPrec inv prec m n l k) :
    foldPrecAlgo inv rm P ((foldsOfD D).map prec) D
      = (pairsOf (condsOf D)).map (fun ab =>
          (ab, foldPrecSpec (xT rm P) P (pairPrec inv prec) D (foldsOfD D) ab.1 ab.2)) :=
  foldPrecAlgo_closed inv rm P prec D hbal hM hsym

/-- `calc_rdm_poisson_cv` (loop over folds, averaged), for every function `lg` in place of
    the logarithm: the average over ordered pairs of distinct folds of
    `(λ_am − λ_bm)·(lg λ_an − lg λ_bn) / P` on prior-regularised fold-wise rates. -/
theorem poissoncv_eq_pair_average (lg : K → K) (lam0 w : K) (P : Nat)
    (D : List (Obs L F K)) {R : Nat} (hbal : Balanced D R) (hM : 2 ≤ (foldsOfD D).length) :
    poissonCvAlgo lg lam0 w P D
      = (pairsOf (condsOf D)).map (fun ab =>
          (ab, poissonCvSpec lg lam0 w P D (foldsOfD D) ab.1 ab.2)) := by
  unfold poissonCvAlgo
  rw [lofoAlgo_closed _ _ P (reg_meanCommute lam0 w) (pkern_meanLinear lg P) D hbal hM]
  apply List.map_congr_left
  intro ab _
  unfold cvSpec poissonCvSpec
  simp only [kdiff_pkern]

/-- The estimator of the *pinned* tree (`rdm` overwritten in the loop, DESIGN §7 #3, repaired
    by add674b3) in closed form: only the products in which the **last** fold is the test
    fold survive — the other M−1 test folds never contribute, which is why it violated the
    property. -/
theorem poissoncv_lastfold_closed (lg : K → K) (lam0 w : K) (P : Nat)
    (D : List (Obs L F K)) {R : Nat} (hbal : Balanced D R) (hM : 2 ≤ (foldsOfD D).length)
    {last : F} (hl : (foldsOfD D).getLast? = some last) :
    poissonCvLastFold lg lam0 w P D
      = (pairsOf (condsOf D)).map (fun ab => (ab,
          (((foldsOfD D).filter (fun n => n ≠ last)).map (fun n =>
              kdiff (pkern lg P) (foldMean (reg lam0 w) D ab.1 n) (foldMean (reg lam0 w) D ab.2 n)
                (foldMean (reg lam0 w) D ab.1 last) (foldMean (reg lam0 w) D ab.2 last))).sum
            / ((((foldsOfD D).filter (fun n => n ≠ last)).length : Nat) : K)
            / ((P : Nat) : K))) := by
  have hperm := sortByCond_perm D
  have hs := sortByCond_sorted D
  have hbal' : Balanced (sortByCond D) R := hbal.perm hperm.symm
  have hfolds : foldsOf (sortByCond D) = sortedDistinct (D.map (·.fold)) := by
    unfold foldsOf
    exact sortedDistinct_congr (fun b => (hperm.map _).mem_iff)
  have hconds : uniqueFirst ((sortByCond D).map (·.cond)) = sortedDistinct (D.map (·.cond)) := by
    rw [uniqueFirst_of_sorted hs]
    exact sortedDistinct_congr (fun b => (hperm.map _).mem_iff)
  have hlast : last ∈ foldsOf (sortByCond D) := by
    rw [hfolds]; exact List.mem_of_getLast? hl
  have hM' : 2 ≤ (foldsOf (sortByCond D)).length := by rw [hfolds]; exact hM
  unfold poissonCvLastFold
  simp only []
  rw [List.getLast?_map, hfolds, hl]
  simp only [Option.map_some]
  rw [← hfolds, lofoFold_eq _ _ P (reg_meanCommute lam0 w) (pkern_meanLinear lg P) _ hs hbal' hM'
    hlast]
  unfold pairLabels
  rw [averageBy_fst, zip_map_self, hconds, hfolds]
  have hfm : ∀ c f, foldMean (reg lam0 w) (sortByCond D) c f = foldMean (reg lam0 w) D c f :=
    fun c f => foldMean_perm hperm _ c f
  simp only [hfm]

/-- What "between-fold products only, every fold contributes" means for the pair average:
    (1) a product of a fold with itself has weight zero, (2) the value does not depend on
    what the product of a fold with itself would be, (3) every ordered pair of distinct
    folds has the same weight `1/(M(M−1))`. -/
theorem no_within_fold_product {S : List F} (hS : S.Nodup) :
    (∀ h : F → K, pairAverage S (fun m n => if m = n then h m else 0) = 0) ∧
    (∀ g g' : F → F → K, (∀ m ∈ S, ∀ n ∈ S, m ≠ n → g m n = g' m n) →
        pairAverage S g = pairAverage S g') ∧
    (∀ m0 ∈ S, ∀ n0 ∈ S, m0 ≠ n0 → ∀ v : K,
        pairAverage S (fun m n => if m = m0 ∧ n = n0 then v else 0)
          = v / (((S.length : Nat) : K) * (((S.length : Nat) : K) - 1))) :=
  ⟨fun h => pairAverage_diag S h, fun _ _ e => pairAverage_congr e,
   fun _ hm _ hn hne v => pairAverage_single hS hm hn hne v⟩

/-! ### invariances -/

/-- observation order: any permutation of the rows (explicit fold descriptor) -/
theorem cv_obs_perm (T : (Nat → K) → (Nat → K)) (κ : (Nat → K) → (Nat → K) → K) (P : Nat)
    (hT : MeanCommute T) (hκ : MeanLinear κ) {D D' : List (Obs L F K)} (h : D'.Perm D)
    {R : Nat} (hbal : Balanced D R) (hM : 2 ≤ (foldsOfD D).length) :
    lofoAlgo T κ P D' = lofoAlgo T κ P D :=
  lofoAlgo_perm T κ P hT hκ h hbal hM

/-- … in particular for the three estimators -/
theorem cv_obs_perm_estimators {D D' : List (Obs L F K)} (h : D'.Perm D)
    {R : Nat} (hbal : Balanced D R) (hM : 2 ≤ (foldsOfD D).length) :
    (∀ rm P (N : Nat → Nat → K), crossnobisAlgo rm P N D' = crossnobisAlgo rm P N D) ∧
    (∀ (lg : K → K) lam0 w P, poissonCvAlgo lg lam0 w P D' = poissonCvAlgo lg lam0 w P D) ∧
    (∀ (inv : List (List K) → List (List K)) rm P (prec : F → List (List K)),
        (∀ m ∈ foldsOfD D, ∀ n ∈ foldsOfD D, m ≠ n → ∀ k l, k < P → l < P →
          pairPrec inv prec m n k l = pairPrec inv prec m n l k) →
        foldPrecAlgo inv rm P ((foldsOfD D').map prec) D'
          = foldPrecAlgo inv rm P ((foldsOfD D).map prec) D) := by
  refine ⟨fun rm P N => lofoAlgo_perm _ _ P (xT_meanCommute rm P) (kern_meanLinear P N) h hbal hM,
    fun lg lam0 w P => lofoAlgo_perm _ _ P (reg_meanCommute lam0 w) (pkern_meanLinear lg P) h hbal hM,
    ?_⟩
  intro inv rm P prec hsym
  have hc : sortedDistinct (D'.map (·.cond)) = sortedDistinct (D.map (·.cond)) :=
    sortedDistinct_congr (fun b => (h.map _).mem_iff)
  have hf : sortedDistinct (D'.map (·.fold)) = sortedDistinct (D.map (·.fold)) :=
    sortedDistinct_congr (fun b => (h.map _).mem_iff)
  rw [foldPrecAlgo_closed inv rm P prec D' (hbal.perm h.symm) (by rw [hf]; exact hM)
      (by rw [hf]; exact hsym),
    foldPrecAlgo_closed inv rm P prec D hbal hM hsym, hc, hf]
  apply List.map_congr_left
  intro ab _
  have : ∀ c f, foldMean (xT rm P) D' c f = foldMean (xT rm P) D c f :=
    fun c f => foldMean_perm h _ c f
  unfold foldPrecSpec
  simp only [this]

/-- fold labels: any injective renaming (to any label type) leaves the estimate unchanged -/
theorem cv_fold_relabel (T : (Nat → K) → (Nat → K)) (κ : (Nat → K) → (Nat → K) → K) (P : Nat)
    (hT : MeanCommute T) (hκ : MeanLinear κ) (φ : F → G) (hφ : Function.Injective φ)
    {D : List (Obs L F K)} {R : Nat} (hbal : Balanced D R) (hM : 2 ≤ (foldsOfD D).length) :
    lofoAlgo T κ P (relabel φ D) = lofoAlgo T κ P D :=
  lofoAlgo_relabel T κ P hT hκ φ hφ hbal hM

/-- … for crossnobis (one precision) and Poisson; with one precision per fold the
    precisions have to follow their folds (`prec' (φ f) = prec f`) -/
theorem cv_fold_relabel_estimators (φ : F → G) (hφ : Function.Injective φ)
    {D : List (Obs L F K)} {R : Nat} (hbal : Balanced D R) (hM : 2 ≤ (foldsOfD D).length) :
    (∀ rm P (N : Nat → Nat → K),
        crossnobisAlgo rm P N (relabel φ D) = crossnobisAlgo rm P N D) ∧
    (∀ (lg : K → K) lam0 w P,
        poissonCvAlgo lg lam0 w P (relabel φ D) = poissonCvAlgo lg lam0 w P D) ∧
    (∀ (inv : List (List K) → List (List K)) rm P (prec : F → List (List K))
        (prec' : G → List (List K)), (∀ f, prec' (φ f) = prec f) →
        (∀ m ∈ foldsOfD D, ∀ n ∈ foldsOfD D, m ≠ n → ∀ k l, k < P → l < P →
          pairPrec inv prec m n k l = pairPrec inv prec m n l k) →
        foldPrecAlgo inv rm P ((foldsOfD (relabel φ D)).map prec') (relabel φ D)
          = foldPrecAlgo inv rm P ((foldsOfD D).map prec) D) := by
  refine ⟨fun rm P N =>
      lofoAlgo_relabel _ _ P (xT_meanCommute rm P) (kern_meanLinear P N) φ hφ hbal hM,
    fun lg lam0 w P =>
      lofoAlgo_relabel _ _ P (reg_meanCommute lam0 w) (pkern_meanLinear lg P) φ hφ hbal hM, ?_⟩
  intro inv rm P prec prec' hpp hsym
  have hp := folds_relabel_perm φ hφ (D.map (·.fold))
  have hM' : 2 ≤ (foldsOfD (relabel φ D)).length := by
    show 2 ≤ (sortedDistinct ((relabel φ D).map (·.fold))).length
    rw [relabel_fold, hp.length_eq, List.length_map]
    exact hM
  have hpp2 : ∀ m n, pairPrec inv prec' (φ m) (φ n) = pairPrec inv prec m n := by
    intro m n; unfold pairPrec; rw [hpp, hpp]
  have hmem : ∀ g ∈ foldsOfD (relabel φ D), ∃ f ∈ foldsOfD D, g = φ f := by
    intro g hg
    have := mem_sortedDistinct.mp hg
    rw [relabel_fold] at this
    obtain ⟨f, hf, rfl⟩ := List.mem_map.mp this
    exact ⟨f, mem_sortedDistinct.mpr hf, rfl⟩
  have hsym' : ∀ m ∈ foldsOfD (relabel φ D), ∀ n ∈ foldsOfD (relabel φ D), m ≠ n →
      ∀ k l, k < P → l < P → pairPrec inv prec' m n k l = pairPrec inv prec' m n l k := by
    intro m hm n hn hmn k l hk hl
    obtain ⟨fm, hfm, rfl⟩ := hmem m hm
    obtain ⟨fn, hfn, rfl⟩ := hmem n hn
    rw [hpp2]
    exact hsym fm hfm fn hfn (fun e => hmn (by rw [e])) k l hk hl
  rw [foldPrecAlgo_closed inv rm P prec' _ (hbal.relabel φ hφ) hM' hsym',
    foldPrecAlgo_closed inv rm P prec D hbal hM hsym]
  show (pairsOf (sortedDistinct ((relabel φ D).map (·.cond)))).map _ = _
  rw [relabel_cond]
  apply List.map_congr_left
  intro ab _
  rw [foldPrecSpec_relabel φ hφ D _ P (pairPrec inv prec) (pairPrec inv prec') hpp2]

/-- channel order: permuting the channels (and the precision alike) leaves the estimate
    unchanged; `σ` is any permutation of `0 … P−1` -/
theorem cv_channel_perm (σ : Nat → Nat) (P : Nat)
    (hσ : ((List.range P).map σ).Perm (List.range P))
    {D : List (Obs L F K)} {R : Nat} (hbal : Balanced D R) (hM : 2 ≤ (foldsOfD D).length) :
    (∀ rm (N : Nat → Nat → K),
        crossnobisAlgo rm P (fun k l => N (σ k) (σ l)) (permCh σ D) = crossnobisAlgo rm P N D) ∧
    (∀ (lg : K → K) lam0 w,
        poissonCvAlgo lg lam0 w P (permCh σ D) = poissonCvAlgo lg lam0 w P D) := by
  constructor
  · intro rm N
    unfold crossnobisAlgo
    apply lofoAlgo_permCh _ _ _ P (xT_meanCommute rm P) (kern_meanLinear P N)
      (kern_meanLinear P _) σ _ (fun u v => kern_perm P σ hσ N u v) hbal hM
    intro x
    cases rm
    · rfl
    · exact centre_perm P σ hσ x
  · intro lg lam0 w
    unfold poissonCvAlgo
    exact lofoAlgo_permCh _ _ _ P (reg_meanCommute lam0 w) (pkern_meanLinear lg P)
      (pkern_meanLinear lg P) σ (fun x => rfl) (fun u v => pkern_perm lg P σ hσ u v) hbal hM

/-- channel order with one precision per fold.  Contract on `inv` (true of the matrix
    inverse): the pair precision built from the permuted precisions `prec'` is the permuted
    pair precision.  Then permuting channels and precisions alike changes nothing. -/
theorem cv_channel_perm_foldprec (σ : Nat → Nat) (P : Nat)
    (hσ : ((List.range P).map σ).Perm (List.range P))
    (inv : List (List K) → List (List K)) (rm : Bool) (prec prec' : F → List (List K))
    {D : List (Obs L F K)} {R : Nat} (hbal : Balanced D R) (hM : 2 ≤ (foldsOfD D).length)
    (hsym : ∀ m ∈ foldsOfD D, ∀ n ∈ foldsOfD D, m ≠ n → ∀ k l, k < P → l < P →
      pairPrec inv prec m n k l = pairPrec inv prec m n l k)
    (hperm : ∀ m ∈ foldsOfD D, ∀ n ∈ foldsOfD D, m ≠ n → ∀ k l, k < P → l < P →
      pairPrec inv prec' m n k l = pairPrec inv prec m n (σ k) (σ l)) :
    foldPrecAlgo inv rm P ((foldsOfD (permCh σ D)).map prec') (permCh σ D)
      = foldPrecAlgo inv rm P ((foldsOfD D).map prec) D := by
  have hfo : sortedDistinct ((permCh σ D).map (·.fold)) = sortedDistinct (D.map (·.fold)) := by
    rw [permCh_fold]
  have hsym' : ∀ m ∈ sortedDistinct ((permCh σ D).map (·.fold)),
      ∀ n ∈ sortedDistinct ((permCh σ D).map (·.fold)), m ≠ n → ∀ k l, k < P → l < P →
      pairPrec inv prec' m n k l = pairPrec inv prec' m n l k := by
    rw [hfo]
    intro m hm n hn hmn k l hk hl
    rw [hperm m hm n hn hmn k l hk hl, hperm m hm n hn hmn l k hl hk]
    exact hsym m hm n hn hmn _ _ (perm_range_lt hσ hk) (perm_range_lt hσ hl)
  rw [foldPrecAlgo_closed inv rm P prec' _ (hbal.permCh σ) (by rw [hfo]; exact hM) hsym',
    foldPrecAlgo_closed inv rm P prec D hbal hM hsym, permCh_cond, hfo]
  apply List.map_congr_left
  intro ab _
  congr 1
  have hTσ : ∀ x : Nat → K, xT rm P (fun k => x (σ k)) = fun k => xT rm P x (σ k) := by
    intro x
    unfold xT
    cases rm
    · rfl
    · exact centre_perm P σ hσ x
  unfold foldPrecSpec
  apply pairAverage_congr
  intro m hm n hn hmn
  congr 1
  rw [foldMean_permCh _ σ hTσ, foldMean_permCh _ σ hTσ, foldMean_permCh _ σ hTσ,
    foldMean_permCh _ σ hTσ]
  rw [kern_congr_bounded P (N' := fun k l => pairPrec inv prec m n (σ k) (σ l))
    (fun k l hk hl => hperm m hm n hn hmn k l hk hl)]
  exact kern_perm P σ hσ (pairPrec inv prec m n)
    (vsubF (foldMean (xT rm P) D ab.1 m) (foldMean (xT rm P) D ab.2 m))
    (vsubF (foldMean (xT rm P) D ab.1 n) (foldMean (xT rm P) D ab.2 n))


/-! ### per-fold precisions with the inverse by certificate — no contract on `inv` is left

`foldPrecCert cand …` is `foldPrecAlgo` with `inv := ` "the candidate `cand A`, accepted only with
the exact certificate `A · cand A = I`" (`none` = `LinAlgError`).  Whatever `cand` is (LAPACK,
Gauss–Jordan, …), an accepted candidate *is* the inverse, so the two hypotheses on `inv` of
`crossnobis_foldprec_eq` / `cv_channel_perm_foldprec` become theorems. -/

/-- a precision given as data is symmetric on its `P × P` block -/
def SymmOn (P : Nat) (N : List (List K)) : Prop :=
  ∀ k l, k < P → l < P → matFn N k l = matFn N l k

/-- One symmetric precision per fold, inverse by certificate: whenever the run succeeds, its
    result is the average over ordered pairs of distinct folds with **the** precision of the
    two folds' averaged covariance, `((N_m⁻¹ + N_n⁻¹)/2)⁻¹` (`truePairPrec`, Mathlib's matrix
    inverse) — no hypothesis about the inversion routine. -/
theorem crossnobis_foldprec_certified (cand : List (List K) → List (List K)) (rm : Bool) (P : Nat)
    (prec : F → List (List K)) (D : List (Obs L F K)) {R : Nat} (hbal : Balanced D R)
    (hM : 2 ≤ (foldsOfD D).length) (hsymN : ∀ m ∈ foldsOfD D, SymmOn P (prec m))
    {r : List ((L × L) × K)}
    (h : foldPrecCert cand rm P ((foldsOfD D).map prec) D = some r) :
    r = (pairsOf (condsOf D)).map (fun ab =>
          (ab, foldPrecSpec (xT rm P) P (truePairPrec P prec) D (foldsOfD D) ab.1 ab.2)) := by
  unfold foldPrecCert at h
  split at h
  · rename_i hok
    cases h
    have hpp : ∀ m ∈ foldsOfD D, ∀ n ∈ foldsOfD D, m ≠ n → ∀ k l, k < P → l < P →
        pairPrec (invOr cand P) prec m n k l = truePairPrec P prec m n k l :=
      fun m hm n hn hmn k l hk hl => pairPrec_cert cand P prec hok hm hn hmn hk hl
    have hsym : ∀ m ∈ foldsOfD D, ∀ n ∈ foldsOfD D, m ≠ n → ∀ k l, k < P → l < P →
        pairPrec (invOr cand P) prec m n k l = pairPrec (invOr cand P) prec m n l k := by
      intro m hm n hn hmn k l hk hl
      rw [hpp m hm n hn hmn k l hk hl, hpp m hm n hn hmn l k hl hk]
      exact truePairPrec_symm P prec (hsymN m hm) (hsymN n hn) k l
    rw [foldPrecAlgo_closed (invOr cand P) rm P prec D hbal hM hsym]
    apply List.map_congr_left
    intro ab _
    congr 1
    unfold foldPrecSpec
    apply pairAverage_congr
    intro m hm n hn hmn
    congr 1
    exact kern_congr_bounded P (fun k l hk hl => hpp m hm n hn hmn k l hk hl) _ _
  · simp at h

/-- Channel order, one precision per fold, inverse by certificate: channels permuted and every
    precision permuted alike (`prec'`), possibly inverted by a *different* routine `cand'` —
    if both runs succeed they give the same RDM.  (Closes the item left as a contract on `inv`.) -/
theorem cv_channel_perm_foldprec_certified (σ : Nat → Nat) (P : Nat)
    (hσ : ((List.range P).map σ).Perm (List.range P))
    (cand cand' : List (List K) → List (List K)) (rm : Bool) (prec prec' : F → List (List K))
    {D : List (Obs L F K)} {R : Nat} (hbal : Balanced D R) (hM : 2 ≤ (foldsOfD D).length)
    (hsymN : ∀ m ∈ foldsOfD D, SymmOn P (prec m))
    (hprec' : ∀ m ∈ foldsOfD D, ∀ k l, k < P → l < P →
      matFn (prec' m) k l = matFn (prec m) (σ k) (σ l))
    {r r' : List ((L × L) × K)}
    (h : foldPrecCert cand rm P ((foldsOfD D).map prec) D = some r)
    (h' : foldPrecCert cand' rm P ((foldsOfD (permCh σ D)).map prec') (permCh σ D) = some r') :
    r' = r := by
  have hfo : sortedDistinct ((permCh σ D).map (·.fold)) = sortedDistinct (D.map (·.fold)) := by
    rw [permCh_fold]
  have hsymN' : ∀ m ∈ foldsOfD (permCh σ D), SymmOn P (prec' m) := by
    intro m hm k l hk hl
    have hm' : m ∈ foldsOfD D := by
      have : m ∈ sortedDistinct ((permCh σ D).map (·.fold)) := hm
      rw [hfo] at this
      exact this
    rw [hprec' m hm' k l hk hl, hprec' m hm' l k hl hk]
    exact hsymN m hm' _ _ (perm_range_lt hσ hk) (perm_range_lt hσ hl)
  rw [crossnobis_foldprec_certified cand rm P prec D hbal hM hsymN h,
    crossnobis_foldprec_certified cand' rm P prec' (permCh σ D) (hbal.permCh σ)
      (by show 2 ≤ (sortedDistinct ((permCh σ D).map (·.fold))).length; rw [hfo]; exact hM)
      hsymN' h']
  show (pairsOf (sortedDistinct ((permCh σ D).map (·.cond)))).map
      (fun ab => (ab, foldPrecSpec (xT rm P) P (truePairPrec P prec') (permCh σ D)
        (sortedDistinct ((permCh σ D).map (·.fold))) ab.1 ab.2)) = _
  rw [permCh_cond, hfo]
  apply List.map_congr_left
  intro ab _
  congr 1
  have hTσ : ∀ x : Nat → K, xT rm P (fun k => x (σ k)) = fun k => xT rm P x (σ k) := by
    intro x
    unfold xT
    cases rm
    · rfl
    · exact centre_perm P σ hσ x
  unfold foldPrecSpec
  apply pairAverage_congr
  intro m hm n hn _
  congr 1
  rw [foldMean_permCh _ σ hTσ, foldMean_permCh _ σ hTσ, foldMean_permCh _ σ hTσ,
    foldMean_permCh _ σ hTσ]
  rw [kern_congr_bounded P (N' := fun k l => truePairPrec P prec m n (σ k) (σ l))
    (fun k l hk hl => truePairPrec_perm P σ hσ prec prec' (hprec' m hm) (hprec' n hn) hk hl)]
  exact kern_perm P σ hσ (truePairPrec P prec m n)
    (vsubF (foldMean (xT rm P) D ab.1 m) (foldMean (xT rm P) D ab.2 m))
    (vsubF (foldMean (xT rm P) D ab.1 n) (foldMean (xT rm P) D ab.2 n))

/-- what an accepted candidate is: the matrix inverse (of the `P × P` block), of shape `P × P` -/
theorem certInv_is_inverse (cand : List (List K) → List (List K)) (P : Nat) (A B : List (List K))
    (h : certInv cand P A = some B) :
    noiseShapeOk P B = true ∧ toM P (matFn B) = (toM P (matFn A))⁻¹ ∧
    toM P (matFn A) * toM P (matFn B) = 1 ∧ toM P (matFn B) * toM P (matFn A) = 1 := by
  obtain ⟨hs, hi⟩ := certInv_some h
  have hmul : toM P (matFn A) * toM P (matFn B) = 1 := by
    unfold certInv at h
    split at h
    · rename_i hc
      cases h
      unfold isInvCert at hc
      rw [Bool.and_eq_true] at hc
      ext j k
      rw [Matrix.mul_apply, Matrix.one_apply]
      have h1 := List.all_eq_true.mp hc.2 j.1 (List.mem_range.mpr j.2)
      have h2 := List.all_eq_true.mp h1 k.1 (List.mem_range.mpr k.2)
      have h3 := of_decide_eq_true h2
      unfold mmulP at h3
      rw [sumR_eq_fin] at h3
      simp only [toM, Matrix.of_apply]
      rw [h3]
      unfold eye
      simp [Fin.ext_iff]
    · simp at h
  exact ⟨hs, hi, hmul, mul_eq_one_comm.mp hmul⟩

/-- the result is labelled by the dataset's condition descriptor: the entries are, in
    `triu` order, the pairs of the sorted distinct condition labels, which are strictly
    increasing and are exactly the labels that occur in the dataset -/
theorem cv_labels_from_descriptor (T : (Nat → K) → (Nat → K)) (κ : (Nat → K) → (Nat → K) → K)
    (P : Nat) (hT : MeanCommute T) (hκ : MeanLinear κ)
    (D : List (Obs L F K)) {R : Nat} (hbal : Balanced D R) (hM : 2 ≤ (foldsOfD D).length) :
    (lofoAlgo T κ P D).map (·.1) = pairsOf (condsOf D) ∧
    (condsOf D).Pairwise (· < ·) ∧
    (∀ c, c ∈ condsOf D ↔ ∃ r ∈ D, r.cond = c) := by
  refine ⟨?_, sortedDistinct_sorted _, ?_⟩
  · rw [lofoAlgo_closed T κ P hT hκ D hbal hM, List.map_map]
    simp [Function.comp_def]
  · intro c
    rw [mem_sortedDistinct, List.mem_map]

/-! ### default fold descriptor -/

/-- generated test of `assert np.all(counts == counts[0])`: a count passes iff it equals the
    reference count (the model's `defaultCv` calls it, so the three theorems below are about the
    current source text of the assert) -/
theorem leaf_counts_ok (a b : Nat) : Rsa.Gen.C02.countsOk a b = 1 ↔ a = b := by
  unfold Rsa.Gen.C02.countsOk
  split <;> simp_all

theorem defaultCv_test_eq {β : Type} [DecidableEq β] (l : List β) (c0 : β) :
    l.all (fun c => decide (Rsa.Gen.C02.countsOk (l.count c) (l.count c0) = 1))
      = l.all (fun c => decide (l.count c = l.count c0)) := by
  congr 1
  funext c
  simp only [leaf_counts_ok]

/-- When every condition occurs `M` times, `_gen_default_cv_descriptor` is accepted, has one
    entry per observation, and pairs every condition exactly once with every fold number
    `k < M` and with no other: the k-th occurrence of a condition is fold k. -/
theorem defaultCv_balanced {β : Type} [DecidableEq β] (l : List β) (M : Nat)
    (hcount : ∀ c ∈ l, l.count c = M) :
    defaultCv l = some (occFrom [] l) ∧ (occFrom [] l).length = l.length ∧
    ∀ c ∈ l, ∀ k, (l.zip (occFrom [] l)).count (c, k) = if k < M then 1 else 0 := by
  refine ⟨?_, length_occFrom [] l, ?_⟩
  · cases l with
    | nil => rfl
    | cons c0 l' =>
      have h0 := hcount c0 (List.mem_cons_self)
      have : ((c0 :: l').all (fun c => (c0 :: l').count c = (c0 :: l').count c0)) = true := by
        rw [List.all_eq_true]
        intro c hc
        rw [hcount c hc, h0]
        simp
      simp only [defaultCv, defaultCv_test_eq, this, if_true]
  · intro c hc k
    rw [count_zip_occFrom [] l c k, hcount c hc]
    simp

/-- the dataset the estimators work on when no fold descriptor is given -/
def withDefaultFolds (conds : List L) (xs : List (Nat → K)) : List (Obs L Nat K) :=
  (conds.zip ((occFrom [] conds).zip xs)).map (fun t => ⟨t.1, t.2.1, t.2.2⟩)

/-- … it is fold-balanced with one observation per condition and fold, so every theorem
    above applies to the default descriptor when the counts are equal. -/
theorem defaultCv_dataset_balanced (conds : List L) (xs : List (Nat → K))
    (hlen : xs.length = conds.length) (M : Nat) (hcount : ∀ c ∈ conds, conds.count c = M) :
    Balanced (withDefaultFolds conds xs) 1 := by
  have hocc : (occFrom [] conds).length = conds.length := length_occFrom [] conds
  have hzl : ((occFrom [] conds).zip xs).length = conds.length := by
    rw [List.length_zip, hocc, hlen, Nat.min_self]
  set Z := conds.zip ((occFrom [] conds).zip xs) with hZ
  have hfst : Z.map (·.1) = conds := List.map_fst_zip (by rw [hzl])
  have hsnd : Z.map (·.2) = (occFrom [] conds).zip xs :=
    List.map_snd_zip (by rw [hzl])
  have hmid : Z.map (fun t => t.2.1) = occFrom [] conds := by
    have : Z.map (fun t => t.2.1) = (Z.map (·.2)).map (·.1) := by
      rw [List.map_map]; rfl
    rw [this, hsnd]
    exact List.map_fst_zip (by rw [hocc, hlen])
  have hpair : Z.map (fun t => (t.1, t.2.1)) = conds.zip (occFrom [] conds) := by
    apply List.zip_of_prod
    · rw [List.map_map]; exact hfst
    · rw [List.map_map]; exact hmid
  have hcondD : (withDefaultFolds conds xs).map (·.cond) = conds := by
    unfold withDefaultFolds; rw [List.map_map]; exact hfst
  have hfoldD : (withDefaultFolds conds xs).map (·.fold) = occFrom [] conds := by
    unfold withDefaultFolds; rw [List.map_map]; exact hmid
  have hcell : ∀ c f, (cell (withDefaultFolds conds xs) c f).length
      = (conds.zip (occFrom [] conds)).count (c, f) := by
    intro c f
    unfold cell withDefaultFolds
    rw [List.length_map, ← List.countP_eq_length_filter, List.countP_map, ← hpair,
      List.count_eq_countP, List.countP_map]
    congr 1
    funext t
    simp only [Function.comp_def]
    by_cases h1 : t.1 = c <;> by_cases h2 : t.2.1 = f <;> simp [h1, h2]
  refine ⟨Nat.one_pos, ?_⟩
  intro c hc f hf
  rw [hcondD] at hc
  rw [hfoldD] at hf
  have hform := (defaultCv_balanced conds M hcount).2.2
  rw [hcell, hform c hc]
  -- f is an occurrence number that is actually used, hence below M
  have : f ∈ (conds.zip (occFrom [] conds)).map (·.2) := by
    rw [List.map_snd_zip (by rw [hocc])]; exact hf
  obtain ⟨p, hp, rfl⟩ := List.mem_map.mp this
  have hp1 : p.1 ∈ conds := (List.of_mem_zip (a := p.1) (b := p.2) hp).1
  have hpos : 0 < (conds.zip (occFrom [] conds)).count (p.1, p.2) := List.count_pos_iff.mpr hp
  rw [hform p.1 hp1] at hpos
  by_cases hlt : p.2 < M
  · simp [hlt]
  · simp [hlt] at hpos

/-- … and unequal counts are rejected (the code's `assert`) -/
theorem defaultCv_rejects_unbalanced {β : Type} [DecidableEq β] (l : List β) {c d : β}
    (hc : c ∈ l) (hd : d ∈ l) (hne : l.count c ≠ l.count d) : defaultCv l = none := by
  cases l with
  | nil => simp at hc
  | cons c0 l' =>
    have : ((c0 :: l').all (fun c => (c0 :: l').count c = (c0 :: l').count c0)) = false := by
      rw [List.all_eq_false]
      by_cases h : (c0 :: l').count c = (c0 :: l').count c0
      · exact ⟨d, hd, by
          intro e
          exact hne (h.trans (of_decide_eq_true e).symm)⟩
      · exact ⟨c, hc, by
          intro e
          exact h (of_decide_eq_true e)⟩
    simp only [defaultCv, defaultCv_test_eq, this]
    rfl


/-! ### the pinned-tree Poisson estimator differs from the statement: a concrete witness -/

/-- 2 conditions × 2 folds, 1 channel: rates (1, 0) in fold 0 and (2, 0) in fold 1 -/
def exPois : List (Obs Nat Nat ℚ) :=
  [⟨0, 0, fun _ => 1⟩, ⟨1, 0, fun _ => 0⟩, ⟨0, 1, fun _ => 2⟩, ⟨1, 1, fun _ => 0⟩]

theorem exPois_conds : condsOf exPois = [0, 1] :=
  sortedDistinct_eq (by decide) (by decide) (by decide)
theorem exPois_folds : foldsOfD exPois = [0, 1] :=
  sortedDistinct_eq (by decide) (by decide) (by decide)
theorem exPois_balanced : Balanced exPois 1 := ⟨Nat.one_pos, by decide⟩

/-- On a fold-balanced dataset (`exPois`, no prior, `lg x = x²` in place of the logarithm — the
    theorems hold for every `lg`) the estimator of the pinned tree (`rdm` overwritten in the loop,
    only the last test fold survives) yields 4, the loop-and-average estimator and the statement
    yield 3 = (1·4 + 2·1)/2: `poissonCvLastFold` is **not** the pair average.  (Replaces the
    corpus-only argument of rounds 1–2.) -/
theorem poissoncv_lastfold_ne_spec :
    Balanced exPois 1 ∧ 2 ≤ (foldsOfD exPois).length ∧
    poissonCvLastFold (fun x => x * x) 0 0 1 exPois = [((0, 1), 4)] ∧
    poissonCvAlgo (fun x => x * x) 0 0 1 exPois = [((0, 1), 3)] ∧
    poissonCvSpec (fun x => x * x) 0 0 1 exPois (foldsOfD exPois) 0 1 = 3 ∧
    poissonCvLastFold (fun x => x * x) 0 0 1 exPois
      ≠ (pairsOf (condsOf exPois)).map (fun ab =>
          (ab, poissonCvSpec (fun x => x * x) 0 0 1 exPois (foldsOfD exPois) ab.1 ab.2)) := by
  have hM : 2 ≤ (foldsOfD exPois).length := by rw [exPois_folds]; decide
  have hlast : poissonCvLastFold (fun x : ℚ => x * x) 0 0 1 exPois = [((0, 1), 4)] := by
    rw [poissoncv_lastfold_closed _ 0 0 1 exPois exPois_balanced hM (last := 1)
      (by rw [exPois_folds]; rfl), exPois_conds, exPois_folds]
    decide +kernel
  have halgo : poissonCvAlgo (fun x : ℚ => x * x) 0 0 1 exPois = [((0, 1), 3)] := by
    rw [poissoncv_eq_pair_average _ 0 0 1 exPois exPois_balanced hM, exPois_conds, exPois_folds]
    decide +kernel
  have hspec : poissonCvSpec (fun x : ℚ => x * x) 0 0 1 exPois (foldsOfD exPois) 0 1 = 3 := by
    rw [exPois_folds]
    decide +kernel
  refine ⟨exPois_balanced, hM, hlast, halgo, hspec, ?_⟩
  rw [← poissoncv_eq_pair_average _ 0 0 1 exPois exPois_balanced hM, hlast, halgo]
  decide

/-! ### the generated leaves (text of `/repo`, regenerated on every run)

The model calls `Gen.C02.crossEntry` (in `kdiff`), `Gen.C02.foldAverage` (in `colMean`) and
`Gen.C02.regTrain` (in `reg`), so every theorem above is about the current source text of
these expressions; the three statements below pin their meaning and tie the Poisson copies of
the same expressions to them. -/

/-- the RDM entry for conditions (a, b) is `k_aa + k_bb − k_ab − k_ba`, in
    `_calc_rdm_crossnobis_single` and, identically, in the loop of `calc_rdm_poisson_cv` -/
theorem leaf_entry_formula (kbb kaa kab kba : K) :
    Rsa.Gen.C02.crossEntry kbb kaa kab kba = kaa + kbb - kab - kba ∧
    Rsa.Gen.C02.poissonEntry kbb kaa kab kba = Rsa.Gen.C02.crossEntry kbb kaa kab kba := by
  unfold Rsa.Gen.C02.crossEntry Rsa.Gen.C02.poissonEntry
  exact ⟨by ring, rfl⟩

/-- the fold estimates are summed and divided by their number -/
theorem leaf_fold_average (s n : K) : Rsa.Gen.C02.foldAverage s n = s / n := rfl

/-- prior regularisation `(m + λ₀ w)/(1 + w)`, the same for training and test rates -/
theorem leaf_prior_regularisation (m lam0 w : K) :
    Rsa.Gen.C02.regTrain m lam0 w = (m + lam0 * w) / (1 + w) ∧
    Rsa.Gen.C02.regTest m lam0 w = Rsa.Gen.C02.regTrain m lam0 w := by
  unfold Rsa.Gen.C02.regTrain Rsa.Gen.C02.regTest
  exact ⟨by push_cast; ring, rfl⟩


/-! #### the scalar skeleton extracted by `harness/leaves/C02.py` (round 3)

normalisers, the averaged covariance, the kernel summands, the centring, the loop headers, the
train / test selectors — each regenerated from the source text on every run.  The arithmetic
leaves are *called* by the model (`single`, `matAvg`, `centre`, `pkern`, `defaultCv`), the loop
headers are tied to the model's enumeration by the theorems below. -/

/-- both estimators divide each entry by the channel count -/
theorem leaf_channel_norm (e p : K) :
    Rsa.Gen.C02.singleNorm e p = e / p ∧
    Rsa.Gen.C02.poissonNorm e p = Rsa.Gen.C02.singleNorm e p := ⟨rfl, rfl⟩

/-- Poisson: the fold estimates are averaged exactly like the crossnobis ones -/
theorem leaf_poisson_fold_mean (s n : K) :
    Rsa.Gen.C02.poissonFoldMean s n = Rsa.Gen.C02.foldAverage s n := rfl

/-- the covariance of a fold pair is the mean of the two folds' covariances -/
theorem leaf_pair_cov (a b : K) : Rsa.Gen.C02.pairCov a b = (a + b) / 2 := by
  unfold Rsa.Gen.C02.pairCov
  push_cast
  rfl

/-- `meas1 @ noise @ meas2.T` / `train @ log(test).T` entrywise: the model's kernels are the
    sums of the generated summands (training pattern on the left, test pattern on the right) -/
theorem leaf_kernel_summand (P : Nat) (N : Nat → Nat → K) (lg : K → K) (u v : Nat → K) :
    kern P N u v
      = sumR P (fun l => sumR P (fun k => Rsa.Gen.C02.crossKernel (u k) (N k l) (v l))) ∧
    pkern lg P u v = sumR P (fun k => Rsa.Gen.C02.poissonKernel (u k) (lg (v k))) ∧
    (∀ a b c : K, Rsa.Gen.C02.crossKernel a b c = a * b * c) ∧
    (∀ a b : K, Rsa.Gen.C02.poissonKernel a b = a * b) := by
  refine ⟨?_, rfl, fun _ _ _ => rfl, fun _ _ => rfl⟩
  unfold kern Rsa.Gen.C02.crossKernel
  apply sumR_congr
  intro l _
  rw [← sumR_mul_right]

/-- `remove_mean`: training, test and (per-fold branch) fold means are all centred the same way -/
theorem leaf_centre (x m : K) :
    Rsa.Gen.C02.centreTrain x m = x - m ∧
    Rsa.Gen.C02.centreTest x m = Rsa.Gen.C02.centreTrain x m ∧
    Rsa.Gen.C02.centreFold x m = Rsa.Gen.C02.centreTrain x m := ⟨rfl, rfl, rfl⟩

/-- the fold loops (single-precision branch, Poisson, collecting the fold means) visit every
    fold exactly once, in order; precision `i` is used for fold `i` -/
theorem leaf_fold_loops {β : Type} (l : List β) :
    loopOver Rsa.Gen.C02.crossLoopStart Rsa.Gen.C02.crossLoopStop l = l ∧
    loopOver Rsa.Gen.C02.poissonLoopStart Rsa.Gen.C02.poissonLoopStop l = l ∧
    loopOver Rsa.Gen.C02.listLoopStart Rsa.Gen.C02.listLoopStop l = l ∧
    ∀ i, Rsa.Gen.C02.noiseIndex i = i := by
  refine ⟨?_, ?_, ?_, fun _ => rfl⟩ <;>
    simp [loopOver, Rsa.Gen.C02.crossLoopStart, Rsa.Gen.C02.crossLoopStop,
      Rsa.Gen.C02.poissonLoopStart, Rsa.Gen.C02.poissonLoopStop,
      Rsa.Gen.C02.listLoopStart, Rsa.Gen.C02.listLoopStop]

/-- the fold-pair loops `for i in range(n): for j in range(i+1, n): if i != j` visit exactly
    the positions `i < j` in the order of `pairsOf` — the enumeration `foldPrecAlgo` uses -/
theorem leaf_pair_loop (n : Nat) : loopPairs n = pairsOf (List.range n) := by
  unfold loopPairs Rsa.Gen.C02.pairOuterStart Rsa.Gen.C02.pairOuterStop
    Rsa.Gen.C02.pairInnerStart Rsa.Gen.C02.pairInnerStop Rsa.Gen.C02.pairGuard
  rw [List.range_eq_range', pairsOf_range']
  simp only [Nat.sub_zero, Nat.zero_add]
  apply List.flatMap_congr
  intro i _
  congr 1
  apply List.filter_eq_self.mpr
  intro j hj
  have : i + 1 ≤ j := (List.mem_range'_1.mp hj).1
  have hne : i ≠ j := by omega
  simp [hne]

/-- … hence for any list of per-fold items the model's `pairsOf` is the loop's visiting order -/
theorem pairsOf_eq_loopPairs {β : Type} (l : List β) (d : β) :
    pairsOf l = (loopPairs l.length).map (fun ij => (l.getD ij.1 d, l.getD ij.2 d)) := by
  rw [leaf_pair_loop, ← pairsOf_map (fun i => l.getD i d)]
  congr 1
  apply List.ext_getElem
  · simp
  · intro i h1 h2
    simp [List.getD_eq_getElem?_getD, List.getElem?_eq_getElem h1]

/-- the test set is the rows of the current fold, the training set the rows of all other folds
    (`subset_obs(cv, fold)` / `subset_obs(cv, setdiff1d(cv_folds, fold))`), in both estimators -/
theorem leaf_fold_selectors :
    Rsa.Gen.C02.crossTestIsFold = 1 ∧ Rsa.Gen.C02.crossTrainExcludesFold = 1 ∧
    Rsa.Gen.C02.poissonTestIsFold = 1 ∧ Rsa.Gen.C02.poissonTrainExcludesFold = 1 := by
  decide

/-! ### reuse sessions: the value of a call does not depend on the object's history (round 4) -/

section sessions
variable {α : Type} [Add α] [Sub α] [Mul α] [Div α] [Neg α] [Zero α] [One α] [NatCast α]
  [LT α] [DecidableLT α] [LE α] [DecidableLE α] [Max α] [Min α] [DecidableEq α]
variable {L' F' : Type} [DecidableEq L'] [LT L'] [DecidableLT L'] [DecidableEq F'] [LT F'] [DecidableLT F']

/-- today's source has no statement in the anchored functions that can leave something behind
    after a call (store into a parameter or a module-level name, decorator, mutable default …),
    `_check_noise` hands back its argument itself, and both estimators sort / extend an
    unconditional `deepcopy(dataset)`.  (Generated from the source text on every run.) -/
theorem leaf_no_input_writes :
    Rsa.Gen.C02.inputWrites = 0 ∧ Rsa.Gen.C02.checkNoiseIdentity = 1 ∧
    Rsa.Gen.C02.crossWorkIsCopy = 1 ∧ Rsa.Gen.C02.poissonWorkIsCopy = 1 := by
  decide

theorem map_checkNoiseRestore (precs : List (List (List α))) :
    precs.map checkNoiseRestore = precs := by
  have h : ∀ N : List (List α), checkNoiseRestore N = N := by
    intro N
    simp [checkNoiseRestore, Rsa.Gen.C02.checkNoiseIdentity]
  induction precs with
  | nil => rfl
  | cons N Ns ih => rw [List.map_cons, h, ih]

/-- one call — either estimator, any options, any precision argument — leaves the dataset object
    and every precision object as they were (unfolds the four generated leaves) -/
theorem call_keeps_content (c : Call α) (m : Mem L' F' α) : c.after m = some m := by
  obtain ⟨rows, precs⟩ := m
  cases hp : c.poisson <;> cases hn : c.noise <;>
    simp [Call.after, hp, hn, Rsa.Gen.C02.inputWrites, Rsa.Gen.C02.crossWorkIsCopy,
      Rsa.Gen.C02.poissonWorkIsCopy, map_checkNoiseRestore]

/-- **reuse sessions**: any list of calls (either estimator, `remove_mean` or not, no precision /
    one matrix / one per fold, default or explicit folds, either condition descriptor) interleaved
    with the caller's own `sort_by` steps returns, at every call, the value of the stand-alone call
    on the content of that moment, and the content is changed by the caller's sorts only. -/
theorem session_calls_independent (cand : List (List α) → List (List α)) (lg : α → α) (P : Nat)
    (steps : List (Step α)) (m : Mem L' F' α) :
    runSession cand lg P steps m = some (valuesAlong cand lg P steps m, sortsOnly steps m) := by
  induction steps generalizing m with
  | nil => rfl
  | cons s ss ih =>
    cases s with
    | call c => simp only [runSession, call_keeps_content, ih, valuesAlong, sortsOnly]
    | sort key => simp only [runSession, ih, valuesAlong, sortsOnly]

/-- a session of calls only leaves the object exactly as it was … -/
theorem session_content_is_sorts_only (calls : List (Call α)) (m : Mem L' F' α) :
    sortsOnly (calls.map Step.call) m = m := by
  induction calls with
  | nil => rfl
  | cons c cs ih => simpa [sortsOnly] using ih

theorem valuesAlong_calls (cand : List (List α) → List (List α)) (lg : α → α) (P : Nat)
    (calls : List (Call α)) (m : Mem L' F' α) :
    valuesAlong cand lg P (calls.map Step.call) m = calls.map (fun c => c.value cand lg P m) := by
  induction calls with
  | nil => rfl
  | cons c cs ih => simp [valuesAlong, ih]

/-- **several objects**: with any number of dataset objects in the caller's hands, every call returns
    the stand-alone value on the content of the object it is given — whatever was computed on this
    or on any other object before — and each object is changed by the caller's own sorts only. -/
theorem session_objects_independent (cand : List (List α) → List (List α)) (lg : α → α) (P : Nat)
    (steps : List (Nat × Step α)) (ms : List (Mem L' F' α)) :
    runStore cand lg P steps ms = some (valuesStore cand lg P steps ms, sortsStore steps ms) := by
  induction steps generalizing ms with
  | nil => rfl
  | cons s ss ih =>
    obtain ⟨k, st⟩ := s
    cases st with
    | call c =>
      cases hk : ms[k]? with
      | none => simp [runStore, valuesStore, sortsStore, hk, ih]
      | some m =>
        have hset : ms.set k m = ms := by
          obtain ⟨hlt, hm⟩ := List.getElem?_eq_some_iff.mp hk
          rw [← hm]; exact List.set_getElem_self hlt
        simp [runStore, valuesStore, sortsStore, hk, call_keeps_content, hset, ih]
    | sort key =>
      cases hk : ms[k]? with
      | none => simp [runStore, valuesStore, sortsStore, hk, ih]
      | some m => simp [runStore, valuesStore, sortsStore, hk, ih]

end sessions

/-- … and every call of it is the statement's pair average on the ORIGINAL content: for a
    fold-balanced dataset with ≥ 2 folds, the `i`-th call of any session of calls that use the
    first condition descriptor, the explicit fold descriptor and no / one precision matrix returns
    the average over ordered pairs of distinct folds, whatever was computed on the object before
    (`session_calls_independent` + `crossnobis_eq_pair_average` + `poissoncv_eq_pair_average`). -/
theorem session_call_value (cand : List (List K) → List (List K)) (lg : K → K) (P : Nat)
    (calls : List (Call K)) (m : Mem L F K)
    (D : List (Obs L F K)) (hD : D = m.rows.map (fun r => ⟨r.c1, r.fold, r.x⟩))
    {R : Nat} (hbal : Balanced D R) (hM : 2 ≤ (foldsOfD D).length)
    (i : Nat) (hi : i < calls.length)
    (hc : calls[i].useC2 = false ∧ calls[i].defaultFolds = false) :
    ∃ vs, runSession cand lg P (calls.map Step.call) m = some (vs, m) ∧
      (calls[i].poisson = true →
        vs[i]? = some (some ((pairsOf (condsOf D)).map (fun ab =>
          (ab, poissonCvSpec lg calls[i].lam0 calls[i].w P D (foldsOfD D) ab.1 ab.2))))) ∧
      (calls[i].poisson = false → calls[i].noise = NoiseSel.none →
        vs[i]? = some (some ((pairsOf (condsOf D)).map (fun ab =>
          (ab, crossnobisSpec (xT calls[i].removeMean P) P eye D (foldsOfD D) ab.1 ab.2))))) ∧
      (∀ j N, calls[i].poisson = false → calls[i].noise = NoiseSel.matrix j → m.precs[j]? = some N →
        noiseShapeOk P N = true →
        vs[i]? = some (some ((pairsOf (condsOf D)).map (fun ab =>
          (ab, crossnobisSpec (xT calls[i].removeMean P) P (matFn N) D (foldsOfD D) ab.1 ab.2))))) := by
  refine ⟨valuesAlong cand lg P (calls.map Step.call) m, ?_, ?_, ?_, ?_⟩
  · rw [session_calls_independent, session_content_is_sorts_only]
  all_goals
    rw [valuesAlong_calls, List.getElem?_map, List.getElem?_eq_getElem hi, Option.map_some]
  · intro hp
    have : SRow.label (L := L) (F := F) (α := K) false = fun r => r.c1 := by
      funext r; simp [SRow.label]
    simp only [Call.value, hc.1, hc.2, estimate, hp, if_true, Bool.false_eq_true, if_false, this,
      ← hD, poissoncv_eq_pair_average lg _ _ P D hbal hM]
  · intro hp hn
    have : SRow.label (L := L) (F := F) (α := K) false = fun r => r.c1 := by
      funext r; simp [SRow.label]
    simp only [Call.value, hc.1, hc.2, estimate, hp, hn, Bool.false_eq_true, if_false, this,
      ← hD, crossnobis_eq_pair_average _ P _ D hbal hM]
  · intro j N hp hn hN hshape
    have : SRow.label (L := L) (F := F) (α := K) false = fun r => r.c1 := by
      funext r; simp [SRow.label]
    simp only [Call.value, hc.1, hc.2, estimate, hp, hn, hN, hshape, Bool.false_eq_true, if_false,
      if_true, this, ← hD, crossnobis_eq_pair_average _ P _ D hbal hM]

/-! ### the hypotheses are satisfiable (non-vacuity) -/

/-- 3 conditions × 2 folds × 1 repetition, 2 channels, over ℚ -/
def exD : List (Obs Nat Nat ℚ) :=
  [⟨0, 0, fun k => [1, 2].getD k 0⟩, ⟨1, 0, fun k => [0, 3].getD k 0⟩,
   ⟨2, 0, fun k => [4, 1].getD k 0⟩, ⟨2, 1, fun k => [2, 2].getD k 0⟩,
   ⟨0, 1, fun k => [3, 0].getD k 0⟩, ⟨1, 1, fun k => [1, 1].getD k 0⟩]

example : Balanced exD 1 := by
  refine ⟨Nat.one_pos, ?_⟩
  decide

theorem two_le_length_of_mem {β : Type} {l : List β} {a b : β} (ha : a ∈ l) (hb : b ∈ l)
    (hab : a ≠ b) : 2 ≤ l.length := by
  match l, ha, hb with
  | [x], ha, hb =>
    simp only [List.mem_singleton] at ha hb
    exact absurd (ha.trans hb.symm) hab
  | _ :: _ :: _, _, _ => simp

example : 2 ≤ (foldsOfD exD).length :=
  two_le_length_of_mem (a := 0) (b := 1)
    (mem_sortedDistinct.mpr (by decide)) (mem_sortedDistinct.mpr (by decide)) (by decide)

-- the relabelling / permutation hypotheses: an injective renaming, a channel swap
example : Function.Injective (fun n : Nat => n + 7) := fun a b h => by simpa using h
example : ((List.range 2).map (fun k => 1 - k)).Perm (List.range 2) := by decide
-- the transform / kernel hypotheses are met by the code's choices
example : MeanCommute (xT (α := ℚ) true 2) ∧ MeanLinear (kern (α := ℚ) 2 eye) :=
  ⟨xT_meanCommute true 2, kern_meanLinear 2 eye⟩
-- default descriptor: 3 conditions, each twice
example : ∀ c ∈ [5, 3, 5, 4, 3, 4], [5, 3, 5, 4, 3, 4].count c = 2 := by decide


-- the certified per-fold branch: a closed-form 2 × 2 candidate, two symmetric precisions;
-- every certificate of the run passes, so `foldPrecCert` returns a result on `exD`
def adj2 (A : List (List ℚ)) : List (List ℚ) :=
  let a := matFn A 0 0; let b := matFn A 0 1; let c := matFn A 1 0; let d := matFn A 1 1
  let det := a * d - b * c
  [[d / det, -b / det], [-c / det, a / det]]
def exPrec : Nat → List (List ℚ) := fun f => if f = 0 then [[2, 1], [1, 2]] else [[1, 0], [0, 3]]
example : foldPrecCertsOk adj2 2 ([0, 1].map exPrec) = true := by decide +kernel
example : ∃ r, foldPrecCert adj2 false 2 ((foldsOfD exD).map exPrec) exD = some r := by
  have hf : foldsOfD exD = [0, 1] := sortedDistinct_eq (by decide) (by decide) (by decide)
  have hok : foldPrecCertsOk adj2 2 ([0, 1].map exPrec) = true := by decide +kernel
  exact ⟨_, by rw [hf]; unfold foldPrecCert; rw [if_pos hok]⟩
example : ∀ m ∈ foldsOfD exD, SymmOn 2 (exPrec m) := by
  have hf : foldsOfD exD = [0, 1] := sortedDistinct_eq (by decide) (by decide) (by decide)
  rw [hf]
  intro m hm k l hk hl
  have hk' : k = 0 ∨ k = 1 := by omega
  have hl' : l = 0 ∨ l = 1 := by omega
  simp only [List.mem_cons, List.mem_nil_iff, or_false] at hm
  rcases hm with rfl | rfl <;> rcases hk' with rfl | rfl <;> rcases hl' with rfl | rfl <;> rfl
-- a certificate is rejected for a wrong candidate (the check is not vacuous)
example : certInv (fun A => A) 2 [[2, 1], [1, 2]] = (none : Option (List (List ℚ))) := by
  decide +kernel

-- reuse sessions: `remove_mean` first, then without, then a precision matrix, then Poisson, on `exD`
def exMem : Mem Nat Nat ℚ :=
  ⟨exD.map (fun r => ⟨r.cond, 2 - r.cond, r.fold, r.x⟩), [[[2, 1], [1, 2]], [[1, 0], [0, 3]]]⟩
def exCalls : List (Call ℚ) :=
  [⟨false, false, false, true, .none, 1, 1⟩, ⟨false, false, false, false, .none, 1, 1⟩,
   ⟨false, false, false, false, .matrix 0, 1, 1⟩, ⟨true, false, false, false, .none, 1, 1/10⟩]
example : exD = exMem.rows.map (fun r => ⟨r.c1, r.fold, r.x⟩) := by
  simp [exMem, exD]
example : ∀ i (hi : i < exCalls.length), exCalls[i].useC2 = false ∧ exCalls[i].defaultFolds = false := by
  decide
-- a session with default folds, the second descriptor, per-fold precisions and a user sort
example : ∃ vs, runSession adj2 id 2
    [.call ⟨false, true, true, true, .perFold, 1, 1⟩, .sort 2, .call ⟨false, false, true, false, .none, 1, 1⟩]
    exMem = some (vs, { exMem with rows := sortRows 2 exMem.rows }) :=
  ⟨_, session_calls_independent adj2 id 2 _ exMem⟩
-- two objects, calls alternating between them
example : ∃ vs, runStore adj2 id 2
    [(0, .call ⟨false, false, true, true, .none, 1, 1⟩), (1, .call ⟨false, false, true, false, .none, 1, 1⟩),
     (0, .call ⟨true, false, false, false, .none, 1, 1⟩)]
    [exMem, sortMem 2 exMem] = some (vs, [exMem, sortMem 2 exMem]) :=
  ⟨_, session_objects_independent adj2 id 2 _ _⟩

end Rsa.Props.C02
