/-
  Property C20 — importers recover exactly the structure encoded in external names and files.
  Property theorems only; helper lemmas live in Rsa/Lemmas/C20*.lean, the model in
  Rsa/Core/Importers.lean.

  The grammar of valid BIDS entity records (`ValidEnt`, `Label`, `Seg`) is defined in
  Rsa/Lemmas/C20Bids.lean; it is a superset of the BIDS rule "labels are alphanumeric".

  Round 3: the theorems about parsing / formatting / look-ups / file names are stated about the
  *source-spelled* model `Rsa.Importers.Src.*` (Rsa/Core/C20Syntax.lean), whose separators, keys,
  entity orders, look-up dicts and slice bounds are regenerated from the source on every run; each
  proof first rewrites with the `Src.f = f` lemmas of Rsa/Lemmas/C20Syntax.lean (which fail when
  a constant of the source changes) and then argues about the literal model.
-/
import Rsa.Lemmas.C20Bids
import Rsa.Lemmas.C20Num
import Rsa.Lemmas.C20Meadows
import Rsa.Lemmas.C20Hrf
import Rsa.Lemmas.C20Syntax
import Rsa.Lemmas.C20Session
import Rsa.Lemmas.C20MeadowsJson

set_option linter.unusedSectionVars false
set_option linter.unusedVariables false
set_option linter.unusedSimpArgs false

namespace Rsa.Props.C20

open Rsa Rsa.Importers

/-! ## 1. split / join -/

/-- `sep.join(xs).split(sep) == xs` for every non-empty list of `sep`-free strings -/
theorem split_join (sep : Char) (xs : List Str) (hne : xs ≠ []) (h : ∀ x ∈ xs, sep ∉ x) :
    splitOn sep (joinWith sep xs) = xs := split_join' hne h

/-- `sep.join(s.split(sep)) == s` for every string (used for compound extensions `nii.gz`) -/
theorem join_split (sep : Char) (s : Str) : joinWith sep (splitOn sep s) = s := join_split' sep s

example : splitOn '_' (joinWith '_' ["sub-01".toList, "task-a".toList, "bold.nii".toList]) =
    ["sub-01".toList, "task-a".toList, "bold.nii".toList] := by decide

/-! ## 2. BIDS: parse ∘ format -/

section bids

private theorem mem_entSeg {X x : Str} {v : Option Str} (h : x ∈ entSeg X v) :
    ∃ l, v = some l ∧ l ≠ [] ∧ x = X ++ '-' :: l := by
  unfold entSeg at h
  cases v with
  | none => simp [truthy] at h
  | some l =>
    cases l with
    | nil => simp [truthy] at h
    | cons c cs => simp [truthy, pyStr] at h; exact ⟨c :: cs, rfl, by simp, h⟩

private theorem entSeg_ok {X x : Str} {v : Option Str} (hv : OptLabel v) (hX1 : '_' ∉ X)
    (hX2 : '/' ∉ X) (h : x ∈ entSeg X v) : x ≠ [] ∧ '_' ∉ x ∧ '/' ∉ x ∧ x ≠ ['.'] := by
  obtain ⟨l, rfl, hl, rfl⟩ := mem_entSeg h
  have hv' : Label l := hv
  refine ⟨by simp, ?_, ?_, ?_⟩
  · simp only [List.mem_append, List.mem_cons, not_or]
    exact ⟨hX1, by decide, hv'.2.1⟩
  · simp only [List.mem_append, List.mem_cons, not_or]
    exact ⟨hX2, by decide, hv'.2.2.1⟩
  · intro hc
    have : (X ++ '-' :: l).length = 1 := by rw [hc]; rfl
    cases l with
    | nil => exact hl rfl
    | cons _ _ => simp at this; omega

variable {e : BidsEnt}

/-- every file-name segment is non-empty and free of `_` and `/` -/
private theorem segs_ok (h : ValidEnt e) :
    ∀ x ∈ bidsFnameSegs e, x ≠ [] ∧ '_' ∉ x ∧ '/' ∉ x := by
  obtain ⟨s, hsub, hs⟩ := h.sub
  intro x hx
  simp only [bidsFnameSegs, List.mem_append, List.mem_singleton, List.mem_cons,
    List.not_mem_nil, or_false] at hx
  rcases hx with (((((hx | hx) | hx) | hx) | hx) | hx) | hx
  · subst hx
    rw [hsub]
    refine ⟨by simp, ?_, ?_⟩
    · simp only [pyStr, List.mem_append, List.mem_cons, not_or]
      exact ⟨by decide, by decide, hs.2.1⟩
    · simp only [pyStr, List.mem_append, List.mem_cons, not_or]
      exact ⟨by decide, by decide, hs.2.2.1⟩
  · have := entSeg_ok h.ses (by decide) (by decide) hx; exact ⟨this.1, this.2.1, this.2.2.1⟩
  · have := entSeg_ok h.task (by decide) (by decide) hx; exact ⟨this.1, this.2.1, this.2.2.1⟩
  · have := entSeg_ok h.run (by decide) (by decide) hx; exact ⟨this.1, this.2.1, this.2.2.1⟩
  · have := entSeg_ok h.space (by decide) (by decide) hx; exact ⟨this.1, this.2.1, this.2.2.1⟩
  · have := entSeg_ok h.desc (by decide) (by decide) hx; exact ⟨this.1, this.2.1, this.2.2.1⟩
  · subst hx
    refine ⟨by simp, ?_, ?_⟩
    · simp only [List.mem_append, List.mem_cons, not_or]
      exact ⟨h.suffix.1, by decide, h.ext.1⟩
    · simp only [List.mem_append, List.mem_cons, not_or]
      exact ⟨h.suffix.2.1, by decide, h.ext.2⟩

/-- the file name: free of `/`, not empty, not `.` -/
private theorem fname_ok (h : ValidEnt e) :
    bidsFname e ≠ [] ∧ '/' ∉ bidsFname e ∧ bidsFname e ≠ ['.'] := by
  have hs := segs_ok h
  have h2 : '/' ∉ bidsFname e :=
    not_mem_joinWith (by decide) (fun x hx => (hs x hx).2.2)
  have h1 : ∃ r, bidsFname e = 's' :: 'u' :: r := by
    unfold bidsFname bidsFnameSegs
    simp only [List.cons_append, List.nil_append, List.append_assoc, sSub]
    generalize (entSeg sSes e.ses ++ (entSeg sTask e.task ++ (entSeg sRun e.run ++
      (entSeg sSpace e.space ++ (entSeg sDesc e.desc ++ [e.suffix ++ '.' :: e.ext]))))) = rest
    cases rest with
    | nil => exact ⟨_, rfl⟩
    | cons y r => exact ⟨_, rfl⟩
  obtain ⟨r, hr⟩ := h1
  refine ⟨by rw [hr]; simp, h2, by rw [hr]; simp⟩

/-- directory components: non-empty, free of `/`, kept by `normpath` -/
private theorem dirs_ok (h : ValidEnt e) :
    ∀ x ∈ bidsDirs e, x ≠ [] ∧ '/' ∉ x ∧ x ≠ ['.'] := by
  obtain ⟨s, hsub, hs⟩ := h.sub
  obtain ⟨m, hmod, hm⟩ := h.modality
  intro x hx
  simp only [bidsDirs, List.mem_append] at hx
  rcases hx with ((hx | hx) | hx) | hx
  · cases hd : e.derivative with
    | none => simp [hd, truthy] at hx
    | some d =>
      have hD : Seg d := by have := h.derivative; rw [hd] at this; exact this
      simp only [hd, truthy_seg hD, if_true, pyStr, List.mem_cons, List.not_mem_nil,
        or_false] at hx
      rcases hx with rfl | rfl
      · exact ⟨by decide, by decide, by decide⟩
      · exact ⟨hD.1, hD.2.1, hD.2.2.1⟩
  · have hv : OptLabel e.sub := by rw [hsub]; exact hs
    have := entSeg_ok hv (by decide) (by decide) hx
    exact ⟨this.1, this.2.2.1, this.2.2.2⟩
  · have := entSeg_ok h.ses (by decide) (by decide) hx
    exact ⟨this.1, this.2.2.1, this.2.2.2⟩
  · simp only [hmod, truthy_seg hm, if_true, pyStr, List.mem_singleton] at hx
    subst hx
    exact ⟨hm.1, hm.2.1, hm.2.2.1⟩

/-- the six entities are read back from the file-name segments -/
private theorem entities_back (h : ValidEnt e) :
    findEntity sSub (bidsFnameSegs e) = e.sub ∧ findEntity sSes (bidsFnameSegs e) = e.ses ∧
    findEntity sTask (bidsFnameSegs e) = e.task ∧ findEntity sRun (bidsFnameSegs e) = e.run ∧
    findEntity sSpace (bidsFnameSegs e) = e.space ∧ findEntity sDesc (bidsFnameSegs e) = e.desc := by
  obtain ⟨s, hsub, hs⟩ := h.sub
  have hsx := h.suffix.2.2.1
  refine ⟨?_, ?_, ?_, ?_, ?_, ?_⟩
  · simp only [bidsFnameSegs, hsub, pyStr, List.cons_append, List.nil_append]
    exact findEntity_hit sSub _ hs.2.2.2
  · have : bidsFnameSegs e = [sSub ++ '-' :: pyStr e.sub] ++ (entSeg sSes e.ses ++
        (entSeg sTask e.task ++ entSeg sRun e.run ++ entSeg sSpace e.space ++
          entSeg sDesc e.desc ++ [e.suffix ++ '.' :: e.ext])) := by
      simp [bidsFnameSegs, List.append_assoc]
    rw [this]
    refine findEntity_entSeg (NoPfx_subSeg _ len_ses (by decide)) ?_ h.ses
    simp only [NoPfx_append]
    exact ⟨⟨⟨⟨NoPfx_entSeg _ len_ses len_task (by decide), NoPfx_entSeg _ len_ses len_run (by decide)⟩,
      NoPfx_entSeg _ len_ses len_space (by decide)⟩, NoPfx_entSeg _ len_ses len_desc (by decide)⟩,
      NoPfx_last _ _ (by decide) hsx⟩
  · have : bidsFnameSegs e = ([sSub ++ '-' :: pyStr e.sub] ++ entSeg sSes e.ses) ++
        (entSeg sTask e.task ++ (entSeg sRun e.run ++ entSeg sSpace e.space ++
          entSeg sDesc e.desc ++ [e.suffix ++ '.' :: e.ext])) := by
      simp [bidsFnameSegs, List.append_assoc]
    rw [this]
    refine findEntity_entSeg ?_ ?_ h.task
    · simp only [NoPfx_append]
      exact ⟨NoPfx_subSeg _ len_task (by decide), NoPfx_entSeg _ len_task len_ses (by decide)⟩
    · simp only [NoPfx_append]
      exact ⟨⟨⟨NoPfx_entSeg _ len_task len_run (by decide),
        NoPfx_entSeg _ len_task len_space (by decide)⟩, NoPfx_entSeg _ len_task len_desc (by decide)⟩,
        NoPfx_last _ _ (by decide) hsx⟩
  · have : bidsFnameSegs e = ([sSub ++ '-' :: pyStr e.sub] ++ entSeg sSes e.ses ++
        entSeg sTask e.task) ++ (entSeg sRun e.run ++ (entSeg sSpace e.space ++
          entSeg sDesc e.desc ++ [e.suffix ++ '.' :: e.ext])) := by
      simp [bidsFnameSegs, List.append_assoc]
    rw [this]
    refine findEntity_entSeg ?_ ?_ h.run
    · simp only [NoPfx_append]
      exact ⟨⟨NoPfx_subSeg _ len_run (by decide), NoPfx_entSeg _ len_run len_ses (by decide)⟩,
        NoPfx_entSeg _ len_run len_task (by decide)⟩
    · simp only [NoPfx_append]
      exact ⟨⟨NoPfx_entSeg _ len_run len_space (by decide),
        NoPfx_entSeg _ len_run len_desc (by decide)⟩, NoPfx_last _ _ (by decide) hsx⟩
  · have : bidsFnameSegs e = ([sSub ++ '-' :: pyStr e.sub] ++ entSeg sSes e.ses ++
        entSeg sTask e.task ++ entSeg sRun e.run) ++ (entSeg sSpace e.space ++
          (entSeg sDesc e.desc ++ [e.suffix ++ '.' :: e.ext])) := by
      simp [bidsFnameSegs, List.append_assoc]
    rw [this]
    refine findEntity_entSeg ?_ ?_ h.space
    · simp only [NoPfx_append]
      exact ⟨⟨⟨NoPfx_subSeg _ len_space (by decide), NoPfx_entSeg _ len_space len_ses (by decide)⟩,
        NoPfx_entSeg _ len_space len_task (by decide)⟩, NoPfx_entSeg _ len_space len_run (by decide)⟩
    · simp only [NoPfx_append]
      exact ⟨NoPfx_entSeg _ len_space len_desc (by decide), NoPfx_last _ _ (by decide) hsx⟩
  · have : bidsFnameSegs e = ([sSub ++ '-' :: pyStr e.sub] ++ entSeg sSes e.ses ++
        entSeg sTask e.task ++ entSeg sRun e.run ++ entSeg sSpace e.space) ++
          (entSeg sDesc e.desc ++ [e.suffix ++ '.' :: e.ext]) := by
      simp [bidsFnameSegs, List.append_assoc]
    rw [this]
    refine findEntity_entSeg ?_ (NoPfx_last _ _ (by decide) hsx) h.desc
    simp only [NoPfx_append]
    exact ⟨⟨⟨⟨NoPfx_subSeg _ len_desc (by decide), NoPfx_entSeg _ len_desc len_ses (by decide)⟩,
      NoPfx_entSeg _ len_desc len_task (by decide)⟩, NoPfx_entSeg _ len_desc len_run (by decide)⟩,
      NoPfx_entSeg _ len_desc len_space (by decide)⟩

/-- suffix and extension are read back from the last segment -/
private theorem suffix_ext_back (h : ValidEnt e) :
    suffixOf (bidsFnameSegs e) = e.suffix ∧ extOf (bidsFnameSegs e) = e.ext := by
  have hl : lastOf (bidsFnameSegs e) = e.suffix ++ '.' :: e.ext := by
    unfold bidsFnameSegs; exact lastOf_append_singleton _ _
  have hs : splitOn '.' (e.suffix ++ '.' :: e.ext) = e.suffix :: splitOn '.' e.ext :=
    splitOn_append_sep _ h.suffix.2.2.2
  constructor
  · simp [suffixOf, hl, hs]
  · simp [extOf, hl, hs, join_split']

/-- derivative directory and the remaining components -/
private theorem derivative_back (h : ValidEnt e) (f : Str) :
    stripDerivative (bidsDirs e ++ [f]) =
      .ok (e.derivative, entSeg sSub e.sub ++ entSeg sSes e.ses ++
        (if truthy e.modality then [pyStr e.modality] else []) ++ [f]) := by
  obtain ⟨s, hsub, hs⟩ := h.sub
  cases hd : e.derivative with
  | none =>
    have h0 : truthy (none : Option Str) = false := rfl
    have h1 : entSeg sSub e.sub = [sSub ++ '-' :: s] := by
      simp [entSeg, hsub, truthy_label hs, pyStr]
    have hne : (sSub ++ '-' :: s) ≠ sDerivatives := by simp [sSub, sDerivatives]
    rw [bidsDirs, hd, h0, h1]
    simp [stripDerivative, hne]
  | some d =>
    have hD : Seg d := by have := h.derivative; rw [hd] at this; exact this
    simp [bidsDirs, hd, truthy_seg hD, pyStr, stripDerivative]

/-- the modality directory is found at position 1 or 2 -/
private theorem modality_back (h : ValidEnt e) (f : Str) :
    pickModality e.ses (entSeg sSub e.sub ++ entSeg sSes e.ses ++
        (if truthy e.modality then [pyStr e.modality] else []) ++ [f]) = .ok e.modality := by
  obtain ⟨s, hsub, hs⟩ := h.sub
  obtain ⟨m, hmod, hm⟩ := h.modality
  have h1 : entSeg sSub e.sub = [sSub ++ '-' :: s] := by
    simp [entSeg, hsub, truthy_label hs, pyStr]
  have h2 : (if truthy e.modality then [pyStr e.modality] else []) = [m] := by
    simp [hmod, truthy_seg hm, pyStr]
  rw [h1, h2, hmod]
  cases hses : e.ses with
  | none =>
    have h3 : entSeg sSes (none : Option Str) = [] := by simp [entSeg, truthy]
    rw [h3]
    simp [pickModality, truthy]
  | some l =>
    have hl : Label l := by have := h.ses; rw [hses] at this; exact this
    have h3 : entSeg sSes (some l) = [sSes ++ '-' :: l] := by
      simp [entSeg, truthy_label hl, pyStr]
    rw [h3]
    simp [pickModality, truthy_label hl]

/-- **Round trip.**  For every valid entity record — subject, modality, suffix, extension and
    any of the 2⁶ presence patterns of session, task, run, space, description, derivative —
    parsing the formatted path gives back exactly the record. -/
theorem bids_roundtrip (e : BidsEnt) (h : ValidEnt e) :
    Src.bidsParse (Src.bidsFormat e) = .ok e := by
  rw [Src.bidsParse_eq, Src.bidsFormat_eq]
  have hf := fname_ok h
  have hd := dirs_ok h
  have hall : ∀ b ∈ bidsDirs e ++ [bidsFname e], b ≠ [] ∧ '/' ∉ b := by
    intro b hb
    rcases List.mem_append.mp hb with hb | hb
    · exact ⟨(hd b hb).1, (hd b hb).2.1⟩
    · rw [List.mem_singleton.mp hb]; exact ⟨hf.1, hf.2.1⟩
  have hpath : bidsFormat e = joinWith '/' (bidsDirs e ++ [bidsFname e]) :=
    osJoin_eq_joinWith hall
  have hbase : basename (bidsFormat e) = bidsFname e := by
    rw [hpath]; exact basename_join (fun x hx => (hall x hx).2)
  have hsegs : splitOn '_' (bidsFname e) = bidsFnameSegs e :=
    split_join' (by simp [bidsFnameSegs]) (fun x hx => (segs_ok h x hx).2.1)
  have hparts : normParts (bidsFormat e) = bidsDirs e ++ [bidsFname e] := by
    unfold normParts
    rw [hpath, split_join' (by simp) (fun x hx => (hall x hx).2)]
    apply List.filter_eq_self.mpr
    intro x hx
    rcases List.mem_append.mp hx with hx | hx
    · have := hd x hx
      simp [this.1, this.2.2]
    · rw [List.mem_singleton.mp hx]; simp [hf.1, hf.2.2]
  obtain ⟨e1, e2, e3, e4, e5, e6⟩ := entities_back h
  obtain ⟨e7, e8⟩ := suffix_ext_back h
  unfold bidsParse
  simp only [hbase, hsegs, hparts, derivative_back h, e2, modality_back h, e1, e3, e4, e5, e6,
    e7, e8]

/-- **Rebuilding.**  Parsing a valid path and rebuilding a path from the parsed entities
    returns the original path. -/
theorem bids_rebuild (e : BidsEnt) (h : ValidEnt e) :
    (Src.bidsParse (Src.bidsFormat e)).map (fun b => Src.bidsReplace b {}) =
      .ok (Src.bidsFormat e) := by
  rw [bids_roundtrip e h]; rfl

/-- **Look-ups change only what they are asked to change.**  For a valid base file `e` (which
    by `bids_roundtrip` is what `BidsFile(path)` holds) the file found by each look-up
    deconstructs to `e` with exactly the named entities replaced. -/
theorem lookup_changes_only (e : BidsEnt) (h : ValidEnt e) (desc suffix : Str)
    (hdesc : Label desc)
    (hsuf : '_' ∉ suffix ∧ '/' ∉ suffix ∧ '-' ∉ suffix ∧ '.' ∉ suffix) :
    Src.bidsParse (Src.findMetaFor e) = .ok { e with ext := sJson } ∧
    Src.bidsParse (Src.findEventsFor e) =
      .ok { e with derivative := none, space := none, desc := none, suffix := sEvents, ext := sTsv } ∧
    Src.bidsParse (Src.findTableSiblingOf e desc suffix) =
      .ok { e with desc := some desc, suffix := suffix, ext := sTsv, space := none } ∧
    Src.bidsParse (Src.findMriSiblingOf e desc suffix) =
      .ok { e with desc := some desc, suffix := suffix } := by
  simp only [Src.findMetaFor, Src.findEventsFor, Src.findTableSiblingOf, Src.findMriSiblingOf,
    Src.bidsReplace, Src.metaRepl_eq, Src.eventsRepl_eq, Src.tableSiblingRepl_eq,
    Src.mriSiblingRepl_eq]
  have hj : '_' ∉ sJson ∧ '/' ∉ sJson := ⟨by decide, by decide⟩
  have ht : '_' ∉ sTsv ∧ '/' ∉ sTsv := ⟨by decide, by decide⟩
  have hev : '_' ∉ sEvents ∧ '/' ∉ sEvents ∧ '-' ∉ sEvents ∧ '.' ∉ sEvents :=
    ⟨by decide, by decide, by decide, by decide⟩
  refine ⟨?_, ?_, ?_, ?_⟩
  · exact bids_roundtrip _ { h with ext := hj }
  · exact bids_roundtrip _
      { h with ext := ht, suffix := hev, derivative := trivial, space := trivial, desc := trivial }
  · exact bids_roundtrip _ { h with ext := ht, suffix := hsuf, desc := hdesc, space := trivial }
  · exact bids_roundtrip _ { h with suffix := hsuf, desc := hdesc }

/-- **The files an fMRIPrep run reads** (`FmriprepRun.get_mask`, `get_confounds`,
    `get_parcellation(_labels)`; the `desc` / `suffix` literals are regenerated from the source):
    each is the run's own sibling — the bold file's entities with exactly `desc` and `suffix`
    (and for the confound table `ext`, `space`) replaced; the search itself is for
    `desc-preproc_bold` files of the `fmriprep` derivative. -/
theorem fmriprep_accessor_files (e : BidsEnt) (h : ValidEnt e) :
    Src.bidsParse (Src.maskOf e) = .ok { e with desc := some "brain".toList, suffix := "mask".toList } ∧
    Src.bidsParse (Src.confoundsOf e) =
      .ok { e with desc := some "confounds".toList, suffix := "timeseries".toList, ext := sTsv,
                   space := none } ∧
    Src.bidsParse (Src.parcOf e) =
      .ok { e with desc := some "aparcaseg".toList, suffix := "dseg".toList } ∧
    (∀ files tasks, Src.fmriprepRuns files tasks =
      Src.findDerivativeFiles files "fmriprep".toList "preproc_bold".toList tasks) := by
  obtain ⟨c1, c2, c3, c4, c5, c6, c7, c8⟩ := Src.fmriprep_constants
  simp only [Src.maskOf, Src.confoundsOf, Src.parcOf, Src.fmriprepRuns, c1, c2, c3, c4, c5, c6, c7, c8]
  refine ⟨?_, ?_, ?_, fun _ _ => trivial⟩
  · exact (lookup_changes_only e h _ _ ⟨by decide, by decide, by decide, by decide⟩
      ⟨by decide, by decide, by decide, by decide⟩).2.2.2
  · exact (lookup_changes_only e h _ _ ⟨by decide, by decide, by decide, by decide⟩
      ⟨by decide, by decide, by decide, by decide⟩).2.2.1
  · exact (lookup_changes_only e h _ _ ⟨by decide, by decide, by decide, by decide⟩
      ⟨by decide, by decide, by decide, by decide⟩).2.2.2

/-- non-vacuity: a record with every optional entity present is valid, and so is one with none -/
def exFull : BidsEnt :=
  { derivative := some "fmriprep".toList, sub := some "01".toList, ses := some "02".toList,
    task := some "main".toList, run := some "1".toList, space := some "MNI".toList,
    desc := some "preproc".toList, modality := some "func".toList,
    suffix := "bold".toList, ext := "nii.gz".toList }

def exBare : BidsEnt :=
  { derivative := none, sub := some "x".toList, ses := none, task := none, run := none,
    space := none, desc := none, modality := some "anat".toList,
    suffix := "T1w".toList, ext := "nii".toList }

example : ValidEnt exFull :=
  { sub := ⟨_, rfl, by decide, by decide, by decide, by decide⟩
    ses := ⟨by decide, by decide, by decide, by decide⟩
    task := ⟨by decide, by decide, by decide, by decide⟩
    run := ⟨by decide, by decide, by decide, by decide⟩
    space := ⟨by decide, by decide, by decide, by decide⟩
    desc := ⟨by decide, by decide, by decide, by decide⟩
    derivative := ⟨by decide, by decide, by decide, by decide⟩
    modality := ⟨_, rfl, by decide, by decide, by decide, by decide⟩
    suffix := ⟨by decide, by decide, by decide, by decide⟩
    ext := ⟨by decide, by decide⟩ }

example : ValidEnt exBare :=
  { sub := ⟨_, rfl, by decide, by decide, by decide, by decide⟩
    ses := trivial, task := trivial, run := trivial, space := trivial, desc := trivial
    derivative := trivial
    modality := ⟨_, rfl, by decide, by decide, by decide, by decide⟩
    suffix := ⟨by decide, by decide, by decide, by decide⟩
    ext := ⟨by decide, by decide⟩ }

example : String.ofList (Src.bidsFormat exFull) =
    "derivatives/fmriprep/sub-01/ses-02/func/sub-01_ses-02_task-main_run-1_space-MNI_desc-preproc_bold.nii.gz" := by
  decide

end bids

/-! ## 2b. files of a derivative -/

/-- **The runs found are exactly the matching files, in sorted order**: a path is returned iff
    it is a file of the tree below `derivatives/<derivative>/`, its name starts with `sub-`, it
    contains `desc-<desc>`, is no `.json` side-car and (if tasks are given) contains
    `task-<t>` for a requested `t`; without a task filter the result is sorted. -/
theorem derivative_files_spec (files : List Str) (derivative desc : Str) (p : Str) :
    (p ∈ Src.findDerivativeFiles files derivative desc none ↔
      p ∈ files ∧ (sDerivatives ++ '/' :: derivative ++ ['/']).isPrefixOf p = true ∧
      (sSub ++ ['-']).isPrefixOf (basename p) = true ∧
      containsSub (sDesc ++ '-' :: desc) p = true ∧ endsWithStr sDotJson p = false) ∧
    (Src.findDerivativeFiles files derivative desc none).Pairwise (fun a b => strLe a b = true) ∧
    (∀ ts, p ∈ Src.findDerivativeFiles files derivative desc (some ts) ↔
      p ∈ Src.findDerivativeFiles files derivative desc none ∧
        ∃ t ∈ ts, containsSub (sTask ++ '-' :: t) p = true) := by
  simp only [Src.findDerivativeFiles_eq]
  refine ⟨?_, ?_, ?_⟩
  · simp only [findDerivativeFiles, sortStr, List.mem_filter, (List.mergeSort_perm _ _).mem_iff,
      Bool.and_eq_true, Bool.not_eq_true', and_assoc]
  · simp only [findDerivativeFiles, sortStr]
    exact ((List.pairwise_mergeSort strLe_trans strLe_total _).filter _).filter _
  · intro ts
    simp only [findDerivativeFiles, List.mem_flatMap, List.mem_filter]
    constructor
    · rintro ⟨t, ht, hp, hc⟩; exact ⟨hp, t, ht, hc⟩
    · rintro ⟨hp, t, ht, hc⟩; exact ⟨t, ht, hp, hc⟩

/-! ## 3. Meadows -/

section meadows

/-- a token of a Meadows file name: free of the separators -/
def Tok (s : Str) : Prop := '_' ∉ s ∧ '.' ∉ s ∧ '/' ∉ s

/-- `<tok>_<tok>_…_<tok>.<ext>` -/
def mname (toks : List Str) (ext : Str) : Str := joinWith '_' toks ++ '.' :: ext

private theorem mname_split {toks : List Str} {ext : Str} (hne : toks ≠ [])
    (ht : ∀ x ∈ toks, Tok x) (he : Tok ext) (fpath : Str)
    (hp : fpath = mname toks ext ∨ ∃ dir, fpath = dir ++ '/' :: mname toks ext) :
    splitOn '.' (basename fpath) = [joinWith '_' toks, ext] ∧
      splitOn '_' (joinWith '_' toks) = toks := by
  have h1 : '.' ∉ joinWith '_' toks := not_mem_joinWith (by decide) (fun x hx => (ht x hx).2.1)
  have h2 : '/' ∉ mname toks ext := by
    unfold mname
    simp only [List.mem_append, List.mem_cons, not_or]
    exact ⟨not_mem_joinWith (by decide) (fun x hx => (ht x hx).2.2), by decide, he.2.2⟩
  have hb : basename fpath = mname toks ext := by
    rcases hp with rfl | ⟨dir, rfl⟩
    · exact basename_of_not_mem h2
    · exact basename_dir dir h2
  refine ⟨?_, split_join' hne (fun x hx => (ht x hx).1)⟩
  rw [hb]; unfold mname
  rw [splitOn_append_sep _ h1, splitOn_of_not_mem he.2.1]

/-- **File-name segments**, the three shapes of a Meadows download
    (`Meadows_<experiment>_v_v<version>_…_<structure>.<ext>`, optionally below a directory):
    (A) `…_<participant>_<index>_<structure>` with a numeric index,
    (B) `…_<participant>_<structure>` with a pet-name participant,
    (C) `…_<task>_<structure>` otherwise.  Every component is recovered exactly. -/
theorem meadows_segments (pets : List Str) (m exp v ver x st ext : Str)
    (hm : Tok m) (hexp : Tok exp) (hv : Tok v) (hver : Tok ver) (hx : Tok x) (hst : Tok st)
    (hext : Tok ext) :
    (∀ idx fpath, Tok idx → isDigitStr idx = true →
      (fpath = mname [m, exp, v, ver, x, idx, st] ext ∨
        ∃ dir, fpath = dir ++ '/' :: mname [m, exp, v, ver, x, idx, st] ext) →
      Src.meadowsSegments pets fpath = .ok
        { version := ver.filter (· != 'v'), experiment := exp, structure_ := st, filetype := ext,
          taskScopeSingle := true, participantScopeSingle := true,
          participant := some x, taskIndex := some (natOfDigits idx), taskName := none }) ∧
    (∀ fpath, isDigitStr x = false → Src.isPetname pets x = true →
      (fpath = mname [m, exp, v, ver, x, st] ext ∨
        ∃ dir, fpath = dir ++ '/' :: mname [m, exp, v, ver, x, st] ext) →
      Src.meadowsSegments pets fpath = .ok
        { version := ver.filter (· != 'v'), experiment := exp, structure_ := st, filetype := ext,
          taskScopeSingle := false, participantScopeSingle := true,
          participant := some x, taskIndex := none, taskName := none }) ∧
    (∀ fpath, isDigitStr x = false → Src.isPetname pets x = false →
      (fpath = mname [m, exp, v, ver, x, st] ext ∨
        ∃ dir, fpath = dir ++ '/' :: mname [m, exp, v, ver, x, st] ext) →
      Src.meadowsSegments pets fpath = .ok
        { version := ver.filter (· != 'v'), experiment := exp, structure_ := st, filetype := ext,
          taskScopeSingle := true, participantScopeSingle := false,
          participant := none, taskIndex := none, taskName := some x }) := by
  simp only [Src.meadowsSegments_eq, Src.isPetname_eq]
  refine ⟨?_, ?_, ?_⟩
  · intro idx fpath hidx hdig hp
    obtain ⟨h1, h2⟩ := mname_split (toks := [m, exp, v, ver, x, idx, st]) (by simp)
      (by simp; exact ⟨hm, hexp, hv, hver, hx, hidx, hst⟩) hext fpath hp
    simp [meadowsSegments, h1, h2, negIdx, meadowsInfoOf, hdig, pyReplace_delete]
  · intro fpath hdig hpet hp
    obtain ⟨h1, h2⟩ := mname_split (toks := [m, exp, v, ver, x, st]) (by simp)
      (by simp; exact ⟨hm, hexp, hv, hver, hx, hst⟩) hext fpath hp
    simp [meadowsSegments, h1, h2, negIdx, meadowsInfoOf, hdig, hpet, pyReplace_delete]
  · intro fpath hdig hpet hp
    obtain ⟨h1, h2⟩ := mname_split (toks := [m, exp, v, ver, x, st]) (by simp)
      (by simp; exact ⟨hm, hexp, hv, hver, hx, hst⟩) hext fpath hp
    simp [meadowsSegments, h1, h2, negIdx, meadowsInfoOf, hdig, hpet, pyReplace_delete]

-- non-vacuity: the three bundled file-name shapes
example : (Src.meadowsSegments ["bunny".toList] "Meadows_myExp_v_v1_cuddly-bunny_3_1D.mat".toList).toOption.map
    (fun i => (i.participant, i.taskIndex, i.version)) =
      some (some "cuddly-bunny".toList, some 3, "1".toList) := by decide
example : (Src.meadowsSegments ["bunny".toList] "Meadows_myExp_v_v1_cuddly-bunny_tree.json".toList).toOption.map
    (fun i => (i.participant, i.taskScopeSingle)) = some (some "cuddly-bunny".toList, false) := by decide
example : (Src.meadowsSegments ["bunny".toList] "Meadows_myExp_v_v1_arrangement_1D.mat".toList).toOption.map
    (fun i => (i.taskName, i.participantScopeSingle)) = some (some "arrangement".toList, false) := by
  decide

variable {α : Type}

/-- **Components match the file.**
    (1) single-participant `.mat`: the `rdmutv` rows, the `stimuli`, the participant and task
        index of the file name;
    (2) multi-participant `.mat`: the participant names are read from the `stimuli_<a>_<b>`
        variables and each participant's values come from the variable *named* after it,
        wherever it stands in the file;
    (3) multi-task `.json`: exactly the multi-arrangement tasks whose stimuli equal those of
        the first one, with their names and their positions in the file. -/
theorem meadows_components :
    (∀ (info : MInfo) (vars : List (Str × MatVal α)) (p : Str) (t : Nat) (stim : List Str)
        (rows : List (List α)),
      info.participantScopeSingle = true → info.participant = some p → info.taskIndex = some t →
      lookupVar vars sStimuli = some (.strs stim) → lookupVar vars sRdmutv = some (.nums rows) →
      (compsMat info vars).toOption.map (fun c => (c.utvs, c.stimuli, c.pnames, c.tnames, c.tidx)) =
        some (rows, stim, [p], none, some [t])) ∧
    (∀ (vars : List (Str × MatVal α)) (rowsOf : Str → List (List α)) (ps : List Str),
      (∀ p ∈ ps, lookupVar vars (utvVarOf p) = some (.nums (rowsOf p))) →
      stackUtvs vars ps = .ok (ps.flatMap rowsOf)) ∧
    (∀ a b : Str, '_' ∉ a → '-' ∉ a → '_' ∉ b → '-' ∉ b →
      pnameOfVar (sStimuli ++ '_' :: a ++ '_' :: b) = a ++ '-' :: b ∧
      utvVarOf (a ++ '-' :: b) = sRdmutv ++ '_' :: a ++ '_' :: b) ∧
    (∀ (info : MInfo) (p : Str) (pre rest : List (JTask α)) (t0 : JTask α),
      info.participantScopeSingle = true → info.taskScopeSingle = false →
      info.participant = some p →
      (∀ x ∈ pre, x.taskType ≠ some sMultiarrange) → t0.taskType = some sMultiarrange →
      (compsJson info (some (pre ++ t0 :: rest))).toOption.map
          (fun c => (c.utvs, c.stimuli, c.tnames, c.tidx, c.pnames)) =
        some (t0.rdm :: (selected t0.stimuli rest (pre.length + 1)).map (·.1.rdm), t0.stimuli,
          some (t0.name :: (selected t0.stimuli rest (pre.length + 1)).map (·.1.name)),
          some (pre.length :: (selected t0.stimuli rest (pre.length + 1)).map (·.2)),
          (t0.name :: (selected t0.stimuli rest (pre.length + 1)).map (·.1.name)).map (fun _ => p))) := by
  refine ⟨?_, ?_, ?_, ?_⟩
  · intro info vars p t stim rows h1 h2 h3 h4 h5
    simp [compsMat, compsMatBy, h1, h2, h3, h4, h5, Except.toOption]
  · intro vars rowsOf ps h
    exact stackUtvs_eq vars rowsOf ps h
  · intro a b ha1 ha2 hb1 hb2
    constructor
    · unfold pnameOfVar
      have e : sStimuli ++ '_' :: a ++ '_' :: b = sStimuli ++ '_' :: (a ++ '_' :: b) := by simp
      rw [e, splitOn_append_sep _ (by decide), splitOn_append_sep _ ha1, splitOn_of_not_mem hb1]
      simp [joinWith]
    · unfold utvVarOf
      rw [pyReplace_char]
      have h1 : a.map (fun x => if x = '-' then '_' else x) = a := by
        conv_rhs => rw [← List.map_id a]
        apply List.map_congr_left
        intro x hx
        have : x ≠ '-' := fun e => ha2 (e ▸ hx)
        simp [this]
      have h2 : b.map (fun x => if x = '-' then '_' else x) = b := by
        conv_rhs => rw [← List.map_id b]
        apply List.map_congr_left
        intro x hx
        have : x ≠ '-' := fun e => hb2 (e ▸ hx)
        simp [this]
      simp [h1, h2]
  · intro info p pre rest t0 h1 h2 h3 hpre h0
    have := jsonLoop_start pre t0 rest 0 hpre h0
    simp only [Nat.zero_add] at this
    simp [compsJson, h1, h2, h3, this, Except.toOption]

/-- **Alphabetical sort permutes labels and values alike.**  With `sort = true` the labels of
    the result are the file's stems in non-decreasing code-point order; the sorted list is a
    permutation of `(stem, file position)` pairs (so each label keeps its own file position),
    and *the same* positions index the square form of every RDM: the entry for the sorted
    pair `(i, j)` is the file's dissimilarity between the stimuli at file positions
    `order[i]`, `order[j]`.  Without sorting nothing is moved. -/
theorem meadows_sort_labelled [Zero α] (info : MInfo) (c : Comps α) :
    let conds := c.stimuli.map stem
    let s := sortedIdx conds
    s.Perm conds.zipIdx ∧
    s.Pairwise (fun a b => strLe a.1 b.1 = true) ∧
    (∀ p ∈ s, conds[p.2]? = some p.1) ∧
    (assemble info c true).conds = s.map (·.1) ∧
    (assemble info c true).dissim = c.utvs.map (fun u =>
      (pairsOf (s.map (·.2))).map (fun p => vecToMat conds.length (0 : α) (0 : α) u p.1 p.2)) ∧
    (assemble info c false).conds = conds ∧ (assemble info c false).dissim = c.utvs ∧
    (∀ b, (assemble info c b).participant = c.pnames ∧ (assemble info c b).task = c.tnames ∧
      (assemble info c b).taskIndex = c.tidx ∧ (assemble info c b).experiment = info.experiment) := by
  intro conds s
  have hperm : s.Perm conds.zipIdx := List.mergeSort_perm _ _
  refine ⟨hperm, ?_, ?_, rfl, rfl, rfl, rfl, ?_⟩
  · exact List.pairwise_mergeSort (le := fun a b : Str × Nat => strLe a.1 b.1)
      (fun a b c => strLe_trans a.1 b.1 c.1) (fun a b => strLe_total a.1 b.1) _
  · intro p hp
    have hm : (p.1, p.2) ∈ conds.zipIdx := hperm.mem_iff.mp hp
    obtain ⟨h1, h2⟩ := List.mem_zipIdx' hm
    rw [List.getElem?_eq_getElem h1, h2]
  · intro b; cases b <;> exact ⟨rfl, rfl, rfl, rfl⟩

end meadows

/-! ## 4. MNE -/

/-- **Epochs map to a temporal dataset** with the epochs' data, the third event column as the
    observation descriptor (one per epoch), the channel names and the times. -/
theorem epochs_mapping {α : Type} (data : List (List (List α))) (events : List (Int × Int × Int))
    (ch : List Str) (times : List α) :
    (fromEpochs data events ch times).measurements = data ∧
    (fromEpochs data events ch times).event = events.map (fun e => e.2.2) ∧
    (fromEpochs data events ch times).event.length = events.length ∧
    (fromEpochs data events ch times).channel = ch ∧
    (fromEpochs data events ch times).time = times := by
  simp [fromEpochs]

/-- the descriptors read from a BIDS-style epochs file name are the subject, run and task
    encoded in it — for every valid entity record, whichever optional entities are present -/
theorem mne_descriptors (e : BidsEnt) (h : ValidEnt e) :
    Src.mneDescriptors (Src.bidsFname e) = [(sSub, e.sub), (sRun, e.run), (sTask, e.task)] := by
  rw [Src.mneDescriptors_eq, Src.bidsFname_eq]
  suffices hs : mneDescriptors (bidsFname e) = (e.sub, e.run, e.task) by rw [hs]
  obtain ⟨s, hsub, hs⟩ := h.sub
  have hsx := h.suffix.2.2.1
  have hsegs : splitOn '_' (bidsFname e) = bidsFnameSegs e :=
    split_join' (by simp [bidsFnameSegs]) (fun x hx => (segs_ok h x hx).2.1)
  have hsubseg : [sSub ++ '-' :: pyStr e.sub] = entSeg sSub e.sub := by
    simp [entSeg, hsub, truthy_label hs]
  unfold mneDescriptors
  simp only [hsegs]
  refine Prod.ext ?_ (Prod.ext ?_ ?_)
  · have : bidsFnameSegs e = [] ++ (entSeg sSub e.sub ++ (entSeg sSes e.ses ++
        entSeg sTask e.task ++ entSeg sRun e.run ++ entSeg sSpace e.space ++
          entSeg sDesc e.desc ++ [e.suffix ++ '.' :: e.ext])) := by
      simp [bidsFnameSegs, hsubseg, List.append_assoc]
    show findLastEntity sSub (bidsFnameSegs e) = e.sub
    rw [this]
    refine findLast_entSeg (NoPfx_nil _) ?_ (by rw [hsub]; exact hs)
    simp only [NoPfx_append]
    exact ⟨⟨⟨⟨⟨NoPfx_entSeg _ len_sub len_ses (by decide), NoPfx_entSeg _ len_sub len_task (by decide)⟩,
      NoPfx_entSeg _ len_sub len_run (by decide)⟩, NoPfx_entSeg _ len_sub len_space (by decide)⟩,
      NoPfx_entSeg _ len_sub len_desc (by decide)⟩, NoPfx_last _ _ (by decide) hsx⟩
  · have : bidsFnameSegs e = ([sSub ++ '-' :: pyStr e.sub] ++ entSeg sSes e.ses ++
        entSeg sTask e.task) ++ (entSeg sRun e.run ++ (entSeg sSpace e.space ++
          entSeg sDesc e.desc ++ [e.suffix ++ '.' :: e.ext])) := by
      simp [bidsFnameSegs, List.append_assoc]
    show findLastEntity sRun (bidsFnameSegs e) = e.run
    rw [this]
    refine findLast_entSeg ?_ ?_ h.run
    · simp only [NoPfx_append]
      exact ⟨⟨NoPfx_subSeg _ len_run (by decide), NoPfx_entSeg _ len_run len_ses (by decide)⟩,
        NoPfx_entSeg _ len_run len_task (by decide)⟩
    · simp only [NoPfx_append]
      exact ⟨⟨NoPfx_entSeg _ len_run len_space (by decide),
        NoPfx_entSeg _ len_run len_desc (by decide)⟩, NoPfx_last _ _ (by decide) hsx⟩
  · have : bidsFnameSegs e = ([sSub ++ '-' :: pyStr e.sub] ++ entSeg sSes e.ses) ++
        (entSeg sTask e.task ++ (entSeg sRun e.run ++ entSeg sSpace e.space ++
          entSeg sDesc e.desc ++ [e.suffix ++ '.' :: e.ext])) := by
      simp [bidsFnameSegs, List.append_assoc]
    show findLastEntity sTask (bidsFnameSegs e) = e.task
    rw [this]
    refine findLast_entSeg ?_ ?_ h.task
    · simp only [NoPfx_append]
      exact ⟨NoPfx_subSeg _ len_task (by decide), NoPfx_entSeg _ len_task len_ses (by decide)⟩
    · simp only [NoPfx_append]
      exact ⟨⟨⟨NoPfx_entSeg _ len_task len_run (by decide),
        NoPfx_entSeg _ len_task len_space (by decide)⟩, NoPfx_entSeg _ len_task len_desc (by decide)⟩,
        NoPfx_last _ _ (by decide) hsx⟩

example : Src.mneDescriptors "sub-01_task-x_run-2_epo.fif".toList =
    [(sSub, some "01".toList), (sRun, some "2".toList), (sTask, some "x".toList)] := by decide

/-! ## 5. HRF design matrix -/

section design
variable {K : Type} [Field K] [LinearOrder K] [IsStrictOrderedRing K]

/-- **Every column is range-normalised and centred**: after
    `(x − mean x) / (max x − min x)` the range is exactly one and the mean exactly zero, for
    every non-constant column of any length. -/
theorem columns_range_one_mean_zero (x : List K) (hx : x ≠ []) (hr : lmax x ≠ lmin x) :
    lmax (normaliseCol x) - lmin (normaliseCol x) = 1 ∧ mean (normaliseCol x) = 0 := by
  have hpos : 0 < lmax x - lmin x :=
    sub_pos.mpr (lt_of_le_of_ne (lmin_le_lmax hx) (Ne.symm hr))
  have hmono : Monotone (fun v : K => (v - mean x) / (lmax x - lmin x)) := by
    intro a b hab
    exact div_le_div_of_nonneg_right (sub_le_sub_right hab _) hpos.le
  have hlen : (x.length : K) ≠ 0 := by
    have : x.length ≠ 0 := by cases x <;> simp_all
    exact_mod_cast this
  constructor
  · unfold normaliseCol Rsa.Gen.C20.dmNormEntry
    rw [lmax_map_mono hmono hx, lmin_map_mono hmono hx]
    field_simp
    ring
  · unfold normaliseCol Rsa.Gen.C20.dmNormEntry
    have hs : x.sum - x.length * mean x = 0 := by
      unfold mean
      field_simp
      try ring
    have hm : ∀ l : List K, mean l = l.sum / (l.length : K) := fun _ => rfl
    rw [hm (List.map _ _), sum_map_affine, hs]
    simp

example : lmax [(1 : ℚ), 3, 2] ≠ lmin [(1 : ℚ), 3, 2] := by
  norm_num [lmax, lmin]

/-- **dof = volumes − columns** (the generated leaf `dmDof` is the source's own expression),
    one mask entry per column -/
theorem dm_dof {α : Type} [Add α] [Sub α] [Mul α] [Div α] [Neg α] [Zero α] [One α] [NatCast α]
    [LT α] [DecidableLT α] [LE α] [DecidableLE α] [Max α] [Min α]
    (raw : List (List α)) (cf : Option (List (List (Option α)))) (n : Nat) (d : Design α)
    (h : makeDesign raw cf n = .ok d) :
    d.dof = (n : Int) - (d.cols.length : Int) ∧ d.mask.length = d.cols.length := by
  unfold makeDesign at h
  cases cf with
  | none =>
    simp only [Except.ok.injEq] at h
    subst h
    simp [Rsa.Gen.C20.dmDof]
  | some c =>
    simp only at h
    split at h
    · simp only [Except.ok.injEq] at h
      subst h
      simp [Rsa.Gen.C20.dmDof]
    · cases h

/-- **Confound columns are appended and flagged**: the mask is `true` on the condition
    columns and `false` on the confounds; the confounds kept are exactly the columns of the
    table without a missing value; every column is normalised the same way. -/
theorem confounds_flagged {α : Type} [Add α] [Sub α] [Mul α] [Div α] [Neg α] [Zero α] [One α] [NatCast α]
    [LT α] [DecidableLT α] [LE α] [DecidableLE α] [Max α] [Min α]
    (raw : List (List α)) (cf : List (List (Option α))) (n : Nat) (d : Design α)
    (h : makeDesign raw (some cf) n = .ok d) :
    d.mask = List.replicate raw.length true ++ List.replicate (dropnaCols cf).length false ∧
    d.cols = (raw ++ dropnaCols cf).map normaliseCol ∧
    (∀ col, col ∈ dropnaCols cf ↔ col.map some ∈ cf) ∧
    (∀ c ∈ cf, c.length = n) := by
  unfold makeDesign at h
  simp only at h
  split at h
  · rename_i hall
    simp only [Except.ok.injEq] at h
    subst h
    refine ⟨?_, rfl, ?_, ?_⟩
    · simp [List.map_const']
    · intro col
      simp only [dropnaCols, List.mem_filterMap, allSome_eq_some_iff]
      constructor
      · rintro ⟨c, hc, rfl⟩; exact hc
      · intro hc; exact ⟨_, hc, rfl⟩
    · intro c hc
      have := List.all_eq_true.mp hall c hc
      simpa using this
  · cases h

/-- **One predictor column per condition**: the conditions are the distinct trial types
    (no repetition, nothing lost, first-appearance order), each gets exactly one column — the
    normalised HRF predictor of that condition's own onsets — and these are the flagged ones. -/
theorem dm_one_column_per_condition {α τ : Type} [Add α] [Sub α] [Mul α] [Div α] [Neg α] [Zero α]
    [One α] [NatCast α] [LT α] [DecidableLT α] [LE α] [DecidableLE α] [Max α] [Min α] [DecidableEq τ]
    (events : List (τ × α)) (hrfCol : List α → List α) (cf : Option (List (List (Option α))))
    (n : Nat) (d : Design α) (h : designFromEvents events hrfCol cf n = .ok d) :
    let conds := uniq (events.map (·.1))
    conds.Nodup ∧ (∀ c, c ∈ conds ↔ c ∈ events.map (·.1)) ∧
    d.cols.take conds.length = conds.map (fun c =>
      normaliseCol (hrfCol ((events.filter (fun e => e.1 == c)).map (·.2)))) ∧
    d.mask.take conds.length = List.replicate conds.length true ∧
    (d.mask.drop conds.length).all (fun b => !b) = true := by
  intro conds
  refine ⟨nodup_uniq _, mem_uniq _, ?_⟩
  unfold designFromEvents makeDesign at h
  cases cf with
  | none =>
    simp only [Except.ok.injEq] at h
    subst h
    simp [conds, List.map_const', List.map_map, Function.comp_def]
  | some c =>
    simp only at h
    split at h
    · simp only [Except.ok.injEq] at h
      subst h
      simp [conds, List.map_const', List.map_map, Function.comp_def, List.take_append_of_le_length,
        List.take_append]
    · cases h

/-- **Rescaling the HRF cannot change the design matrix**: the peak scaling
    `hrf = hrf / hrf.max()` (generated leaf `hrfPeakScale`), or any other positive factor on a
    raw predictor column, cancels in the column normalisation. -/
theorem normalise_scale_invariant (x : List K) (p : K) (hp : 0 < p) :
    normaliseCol (x.map (fun v => Rsa.Gen.C20.hrfPeakScale v p)) = normaliseCol x := by
  by_cases hx : x = []
  · subst hx; rfl
  have hmono : Monotone (fun v : K => v / p) := fun a b hab =>
    div_le_div_of_nonneg_right hab hp.le
  have hmean : mean (x.map (fun v => v / p)) = mean x / p := by
    have hm : ∀ l : List K, mean l = l.sum / (l.length : K) := fun _ => rfl
    have hsum : (x.map (fun v => v / p)).sum = x.sum / p := by
      have := sum_map_affine (0 : K) p x
      simpa using this
    rw [hm, hm, hsum, List.length_map]; ring
  unfold normaliseCol Rsa.Gen.C20.dmNormEntry Rsa.Gen.C20.hrfPeakScale
  rw [lmax_map_mono hmono hx, lmin_map_mono hmono hx, hmean, List.map_map]
  apply List.map_congr_left
  intro v _
  simp only [Function.comp]
  by_cases hr : lmax x - lmin x = 0
  · have : lmax x / p - lmin x / p = 0 := by rw [← sub_div, hr, zero_div]
    rw [this, hr]; simp
  · field_simp

/-- the descriptors of an fMRIPrep run are the subject and exactly those of session, run and
    task that are present — each decided by its own presence -/
theorem dataset_descriptors_exact (e : BidsEnt) (k : Str) (v : Option Str) :
    (k, v) ∈ Src.datasetDescriptors e ↔
      (k = sSub ∧ v = e.sub) ∨ (k = sSes ∧ v = e.ses ∧ truthy e.ses = true) ∨
      (k = sRun ∧ v = e.run ∧ truthy e.run = true) ∨
      (k = sTask ∧ v = e.task ∧ truthy e.task = true) := by
  rw [Src.datasetDescriptors_eq]
  unfold datasetDescriptors
  by_cases h1 : truthy e.ses = true <;> by_cases h2 : truthy e.run = true <;>
    by_cases h3 : truthy e.task = true <;> simp [h1, h2, h3]

end design

/-! ## 6. SPM high-pass filter -/

section spm
open Finset

/-- **Each run is filtered with its own regressors and its own data only** (and so the other
    runs are untouched by it): rows `off … off + t − 1` of the result, `off` the number of
    scans of the preceding runs, are `Y_run − X0 (X0ᵀ Y_run)` of that run. -/
theorem spm_filter_runs_independent {α : Type} [Add α] [Sub α] [Mul α] [Zero α]
    (pre : List (Run α)) (run : Run α) (post : List (Run α)) (Y : Nat → Nat → α)
    (r : Nat) (hr : r < run.t) (p : Nat) :
    spmFilter (pre ++ run :: post) Y ((pre.map (·.t)).sum + r) p =
      filterRun run.t run.k run.X (fun r' p' => Y ((pre.map (·.t)).sum + r') p') r p := by
  have gen : ∀ (pre : List (Run α)) (off : Nat),
      spmFilterFrom off (pre ++ run :: post) Y (off + (pre.map (·.t)).sum + r) p =
        filterRun run.t run.k run.X (fun r' p' => Y (off + (pre.map (·.t)).sum + r') p') r p := by
    intro pre
    induction pre with
    | nil =>
      intro off
      simp only [List.nil_append, List.map_nil, List.sum_nil, Nat.add_zero, spmFilterFrom]
      have h1 : ¬ off + r < off := by omega
      have h2 : off + r < off + run.t := by omega
      simp [h1, h2]
    | cons a pre ih =>
      intro off
      simp only [List.cons_append, List.map_cons, List.sum_cons, spmFilterFrom]
      have h1 : ¬ off + a.t + (pre.map (·.t)).sum + r < off := by omega
      have h2 : ¬ off + a.t + (pre.map (·.t)).sum + r < off + a.t := by omega
      have e : ∀ z, off + (a.t + (pre.map (·.t)).sum) + z = off + a.t + (pre.map (·.t)).sum + z := by
        intro z; omega
      simp only [e, h1, h2, if_false]
      exact ih (off + a.t)
  have := gen pre 0
  simpa [spmFilter] using this

variable {K : Type} [Field K]

/-- **The filtered data of every run has no component in that run's filter regressors**:
    for an orthonormal basis `X0` (`X0ᵀ X0 = I`, as SPM's DCT set) `X0ᵀ · result_run = 0`,
    whatever the other runs and their bases are. -/
theorem spm_filter_projection (pre : List (Run K)) (run : Run K) (post : List (Run K))
    (Y : Nat → Nat → K)
    (horth : ∀ c < run.k, ∀ c' < run.k,
      ∑ r ∈ range run.t, run.X r c * run.X r c' = if c = c' then 1 else 0)
    (c : Nat) (hc : c < run.k) (p : Nat) :
    ∑ r ∈ range run.t,
      run.X r c * spmFilter (pre ++ run :: post) Y ((pre.map (·.t)).sum + r) p = 0 := by
  rw [← filterRun_orth run.t run.k run.X (fun r' p' => Y ((pre.map (·.t)).sum + r') p') horth c hc p]
  apply sum_congr rfl
  intro r hr
  rw [spm_filter_runs_independent pre run post Y r (mem_range.mp hr) p]

/-- filtering is a projection: filtering filtered data changes nothing -/
theorem spm_filter_idempotent (t k : Nat) (X Y : Nat → Nat → K)
    (horth : ∀ c < k, ∀ c' < k, ∑ r ∈ range t, X r c * X r c' = if c = c' then 1 else 0)
    (r p : Nat) :
    filterRun t k X (filterRun t k X Y) r p = filterRun t k X Y r p := by
  have h0 : ∀ c ∈ range k, X r c * sumRange t (fun r' => X r' c * filterRun t k X Y r' p) = 0 := by
    intro c hc
    rw [sumRange_eq, filterRun_orth t k X Y horth c (mem_range.mp hc) p, mul_zero]
  show filterRun t k X Y r p - sumRange k (fun c =>
      X r c * sumRange t (fun r' => X r' c * filterRun t k X Y r' p)) = filterRun t k X Y r p
  rw [sumRange_eq, sum_eq_zero h0, sub_zero]

/-- non-vacuity: a two-scan run with the orthonormal regressor (3/5, 4/5) -/
example : ∀ c < 1, ∀ c' < 1,
    ∑ r ∈ range 2, (fun (r _c : Nat) => if r = 0 then (3 / 5 : ℚ) else 4 / 5) r c *
      (fun (r _c : Nat) => if r = 0 then (3 / 5 : ℚ) else 4 / 5) r c' = if c = c' then 1 else 0 := by
  intro c hc c' hc'
  have : c = c' := by omega
  simp [sum_range_succ, this]
  norm_num

/-- `reg_of_interest` is 1-based in `get_betas` and in `get_residuals` alike (both index
    leaves are `r − 1`): regressor `r ≥ 1` selects entry `r − 1`, and the two functions select
    the same rows / names. -/
theorem reg_index_one_based {β : Type} (l : List β) (reg : List Int) :
    selectBetas l reg = selectResiduals l reg ∧
    (∀ r : Nat, 1 ≤ r → selectBetas l [(r : Int)] = [l[r - 1]?]) := by
  constructor
  · rfl
  · intro r hr
    have h0 : (0 : Int) ≤ (r : Int) - 1 := by omega
    have h1 : ((r : Int) - 1).toNat = r - 1 := by omega
    simp [selectBetas, Rsa.Gen.C20.regIndexBetas, pyIndex, h0, h1]
    intro h; omega

/-- `'Sn(<digits>) <name>'` parses to the run number and the regressor name -/
theorem parse_reg_name (d cond : Str) (hd : isDigitStr d = true) (hd' : ' ' ∉ d)
    (hc : ' ' ∉ cond) :
    Src.parseRegName (['S', 'n', '('] ++ d ++ [')'] ++ ' ' :: cond) = .ok (natOfDigits d, cond) := by
  rw [Src.parseRegName_eq]
  have hx : ' ' ∉ (['S', 'n', '('] ++ d ++ [')'] : Str) := by
    simp only [List.mem_append, List.mem_cons, List.not_mem_nil, not_or]
    exact ⟨⟨⟨by decide, by decide, by decide, not_false⟩, hd'⟩, by decide, not_false⟩
  unfold parseRegName
  rw [splitOn_append_sep _ hx, splitOn_of_not_mem hc]
  have : ((['S', 'n', '('] ++ d ++ [')'] : Str).drop 3).dropLast = d := by
    simp [List.dropLast_concat]
  simp [this, hd]

example : Src.parseRegName "Sn(12) face*bf(1)".toList = .ok (12, "face*bf(1)".toList) := by decide

end spm


/-! ## 7. (round 3) HRF predictor columns — what holds for *any* response kernel -/

section hrf
variable {K : Type} [Field K] [LinearOrder K] [IsStrictOrderedRing K]

/-- **The sampling grids** (generated leaves `volTime`, `hrfTime` = numpy's `linspace` on the
    source's arguments): volume `i` is acquired at `i·TR`, the response of `len` samples ends at
    `(len − 1)·TR`. -/
theorem hrf_sampling_grid (tr : K) (n len i : Nat) (hn : 2 ≤ n) (hl : 2 ≤ len) :
    volTimeAt tr n i = tr * i ∧ hrfEnd tr len = tr * ((len - 1 : Nat) : K) :=
  ⟨volTimeAt_eq tr n i hn, hrfEnd_eq tr len hl⟩

/-- **Linear in the events**: the predictor of two sets of onsets is the sum of their predictors
    (so each block contributes independently), and the order of the event rows is irrelevant. -/
theorem hrf_linear_in_events (P : K → K) (T tr : K) (n : Nat) (a b : List K) :
    predictorCol P T tr n (a ++ b) =
      List.zipWith (· + ·) (predictorCol P T tr n a) (predictorCol P T tr n b) ∧
    (∀ c : List K, a.Perm c → predictorCol P T tr n a = predictorCol P T tr n c) := by
  constructor
  · simp only [predictorCol, List.zipWith_map, List.zipWith_self, List.map_map, List.map_append,
      List.sum_append]
  · intro c h
    simp only [predictorCol]
    apply List.map_congr_left
    intro i _
    exact (h.map _).sum_eq

/-- **Linear in the kernel**: scaling the response scales every predictor column. -/
theorem hrf_linear_in_kernel (P : K → K) (c T tr : K) (n : Nat) (onsets : List K) :
    predictorCol (fun x => c * P x) T tr n onsets = (predictorCol P T tr n onsets).map (c * ·) := by
  simp only [predictorCol, List.map_map]
  apply List.map_congr_left
  intro i _
  simp only [Function.comp]
  rw [← List.sum_map_mul_left]
  congr 1
  apply List.map_congr_left
  intro o _
  by_cases h : o ≤ volTimeAt tr n i ∧ volTimeAt tr n i ≤ o + T <;> simp [respAt, h]

/-- **Zero outside the support**: a volume acquired before every onset of the condition (or
    after the end of every placed response) has predictor value exactly 0. -/
theorem hrf_zero_outside_support (P : K → K) (T tr : K) (n : Nat) (onsets : List K) (i : Nat)
    (hi : i < n)
    (h : ∀ o ∈ onsets, volTimeAt tr n i < o ∨ o + T < volTimeAt tr n i) :
    (predictorCol P T tr n onsets)[i]? = some 0 := by
  rw [predictorCol_getElem? P T tr n onsets i hi]
  congr 1
  apply List.sum_eq_zero
  intro x hx
  obtain ⟨o, ho, rfl⟩ := List.mem_map.mp hx
  have : ¬ (o ≤ volTimeAt tr n i ∧ volTimeAt tr n i ≤ o + T) := by
    rcases h o ho with h1 | h1
    · exact fun hh => absurd hh.1 (not_le.mpr h1)
    · exact fun hh => absurd hh.2 (not_le.mpr h1)
  simp [respAt, this]

/-- **Shift equivariance on the sampling grid**: delaying every onset by `k` TRs delays the
    predictor column by `k` samples. -/
theorem hrf_shift_equivariant (P : K → K) (T tr : K) (n : Nat) (hn : 2 ≤ n) (onsets : List K)
    (k i : Nat) (hik : i + k < n) :
    (predictorCol P T tr n (onsets.map (· + tr * k)))[i + k]? =
      (predictorCol P T tr n onsets)[i]? := by
  rw [predictorCol_getElem? P T tr n _ (i + k) hik,
    predictorCol_getElem? P T tr n onsets i (by omega)]
  congr 2
  rw [List.map_map]
  apply List.map_congr_left
  intro o _
  simp only [Function.comp, respAt, volTimeAt_eq tr n _ hn, Nat.cast_add]
  have e1 : (o + tr * k ≤ tr * ((i : K) + k)) = (o ≤ tr * i) := by
    apply propext; constructor <;> intro h <;> linarith
  have e2 : (tr * ((i : K) + k) ≤ o + tr * k + T) = (tr * i ≤ o + T) := by
    apply propext; constructor <;> intro h <;> linarith
  have e3 : tr * ((i : K) + k) - (o + tr * k) = tr * i - o := by ring
  simp only [e1, e2, e3]

/-- non-vacuity: with TR 2 the first volume precedes an onset at 2 s -/
example : ∀ o ∈ [(2 : ℚ)], volTimeAt (2 : ℚ) 4 0 < o ∨ o + 10 < volTimeAt (2 : ℚ) 4 0 := by
  intro o ho
  rw [volTimeAt_eq _ _ _ (by norm_num)]
  simp only [List.mem_singleton] at ho
  subst ho
  left; norm_num

end hrf

/-- **The tabulated response is a haemodynamic response sampled at 100 ms** (table regenerated
    from `io/hrf.py`, units of 1e-7): 490 samples starting at 0, rising monotonically to the single
    peak 0.0182 at 4.8 s, falling monotonically to the undershoot minimum −0.00157 at 17.4 s,
    then returning monotonically towards 0 (|last| < 1e-5). -/
theorem hrf_table_shape :
    hrfTable.length = 490 ∧ hrfTable.head? = some 0 ∧
    argmaxInt hrfTable = 48 ∧ hrfTable[48]? = some 182000 ∧
    argmaxInt (hrfTable.map (fun v => -v)) = 174 ∧ hrfTable[174]? = some (-15700) ∧
    nondecreasing (hrfTable.take 49) = true ∧
    nondecreasing (((hrfTable.drop 48).take 127).map (fun v => -v)) = true ∧
    nondecreasing (hrfTable.drop 174) = true ∧
    hrfTable.getLast? = some (-61) := by decide +kernel


/-! ## 8. (round 3) MNE: the time axis and selections of epochs -/

section mne
variable {K : Type} [Field K] [LinearOrder K] [IsStrictOrderedRing K]

/-- **`tmin` offsets → time descriptor values.**  For an epoch that starts `first` samples
    relative to its event (`tmin = first / sfreq`, negative for a baseline) the time descriptor
    has one value per sample, sample `k` lies at `(first + k) / sfreq`, the values increase
    strictly in steps of `1 / sfreq`, and the event itself (time 0) is sample `−first`. -/
theorem epoch_times_grid (first : Int) (sfreq : K) (hs : 0 < sfreq) (n : Nat) :
    (epochTimes first sfreq n).length = n ∧
    (∀ k < n, (epochTimes first sfreq n)[k]? = some (((first + (k : Int) : Int) : K) / sfreq)) ∧
    (epochTimes first sfreq n).Pairwise (· < ·) ∧
    (∀ k, k + 1 < n → ∀ a b, (epochTimes first sfreq n)[k]? = some a →
      (epochTimes first sfreq n)[k + 1]? = some b → b - a = 1 / sfreq) ∧
    (first ≤ 0 → (-first).toNat < n → (epochTimes first sfreq n)[(-first).toNat]? = some 0) := by
  have hget : ∀ k < n, (epochTimes first sfreq n)[k]? =
      some (((first + (k : Int) : Int) : K) / sfreq) := by
    intro k hk; simp [epochTimes, hk]
  refine ⟨by simp [epochTimes], hget, ?_, ?_, ?_⟩
  · unfold epochTimes
    rw [List.pairwise_map]
    refine List.Pairwise.imp ?_ List.pairwise_lt_range
    intro a b hab
    apply div_lt_div_of_pos_right _ hs
    have : first + Int.ofNat a < first + Int.ofNat b := by
      have : (a : Int) < (b : Int) := by exact_mod_cast hab
      simpa using this
    exact_mod_cast this
  · intro k hk a b ha hb
    rw [hget k (by omega)] at ha
    rw [hget (k + 1) hk] at hb
    cases ha; cases hb
    rw [← sub_div]
    congr 1
    push_cast
    ring
  · intro h0 hlt
    rw [hget _ hlt]
    have : first + (((-first).toNat : Nat) : Int) = 0 := by omega
    rw [this]; simp

/-- **Selecting epochs by event code** (`epochs['a']`, repeated codes included) keeps every
    selected epoch attached to its own event row: the observation descriptor of the selection is
    the filtered descriptor of the whole, in the same order, one per kept epoch. -/
theorem epochs_selection {α β : Type} (keep : Int → Bool) (data : List β)
    (events : List (Int × Int × Int)) (h : data.length = events.length) :
    (selectEpochs keep data events).2 = events.filter (fun e => keep e.2.2) ∧
    (selectEpochs keep data events).1.length = (selectEpochs keep data events).2.length ∧
    ((selectEpochs keep data events).1.zip (selectEpochs keep data events).2).Sublist
      (data.zip events) ∧
    (∀ (d : List (List (List α))) (ch : List Str) (times : List α), d.length = events.length →
      (fromEpochs (selectEpochs keep d events).1 (selectEpochs keep d events).2 ch times).event =
        (fromEpochs d events ch times).event.filter keep) := by
  have hsnd : ∀ {γ : Type} (dd : List γ), dd.length = events.length →
      (selectEpochs keep dd events).2 = events.filter (fun e => keep e.2.2) := by
    intro γ dd hd
    simp only [selectEpochs]
    have : ((dd.zip events).filter (fun de => keep de.2.2.2)).map (·.2) =
        ((dd.zip events).map (·.2)).filter (fun e => keep e.2.2) := by
      rw [List.filter_map]; rfl
    rw [this, List.map_snd_zip (by omega)]
  refine ⟨hsnd data h, by simp [selectEpochs], ?_, ?_⟩
  · simp only [selectEpochs]
    have hz : ∀ z : List (β × (Int × Int × Int)), (z.map (·.1)).zip (z.map (·.2)) = z := by
      intro z; induction z <;> simp_all
    rw [hz]
    exact List.filter_sublist
  · intro d ch times hd
    simp only [fromEpochs, hsnd d hd, List.filter_map]
    rfl

example : (selectEpochs (fun c => c == 2) ["a", "b", "c"] [(0, 0, 2), (5, 0, 1), (9, 0, 2)]) =
    (["a", "c"], [(0, 0, 2), (9, 0, 2)]) := by decide

end mne

/-! ## 9. (round 3) SPM: residuals, beta images, relocation -/

section spm3
open Finset
variable {K : Type} [Field K]

/-- **`get_residuals` wiring.**  `beta = pinvX · f` and `residuals = f − X · beta` of the
    filtered, weighted data `f = spm_filter(W · data)`; and when `pinvX` is a left inverse of the
    design (`pinvX · X = I`, as SPM's `pKX`) the residuals carry no component along any
    regressor: `pinvX · residuals = 0`. -/
theorem spm_residuals_annihilated (n q : Nat) (runs : List (Run K)) (W pinvX X data : Nat → Nat → K)
    (hPX : ∀ c < q, ∀ c' < q, ∑ r ∈ range n, pinvX c r * X r c' = if c = c' then 1 else 0)
    (c : Nat) (hc : c < q) (p : Nat) :
    (spmResiduals n q runs W pinvX X data).2 c p =
      ∑ r ∈ range n, pinvX c r * spmFilter runs (mmul n W data) r p ∧
    ∑ r ∈ range n, pinvX c r * (spmResiduals n q runs W pinvX X data).1 r p = 0 := by
  constructor
  · simp [spmResiduals, mmul, sumRange_eq]
  · have := resid_annihilated n q pinvX X (spmFilter runs (mmul n W data)) hPX c hc p
    simpa [spmResiduals, mmul, sumRange_eq] using this

/-- **`get_betas` wiring.**  The images sampled are the beta images of the regressors of
    interest (1-based, in their order) followed by `ResMS.nii`; the rows returned as betas are the
    samples of the former, the `ResMS` row is the sample of the latter. -/
theorem betas_resms_split {γ : Type} (path : Str) (betaFiles : List Str) (reg : List Int)
    (sample : Option Str → γ) :
    (betaImages path betaFiles reg).length = reg.length + 1 ∧
    splitBetas ((betaImages path betaFiles reg).map sample) =
      ((selectBetas betaFiles reg).map (fun o => sample (o.map (fun f => path ++ '/' :: f))),
       some (sample (some (path ++ '/' :: sResMS)))) := by
  constructor
  · simp [betaImages, selectBetas]
  · simp [betaImages, splitBetas, List.dropLast_concat, List.getLast?_concat, List.map_map,
      Function.comp_def]

/-- `s.replace('\\', '/')` -/
def toSlash (s : Str) : Str := s.map (fun x => if x = '\\' then '/' else x)

/-- **`relocate_file` is independent of the operating system that wrote the path**: a
    Windows-style entry and its POSIX spelling relocate to the same place, the result has no
    backslash, and it is `<project>/func…` from the *first* `func` of the normalised entry on. -/
theorem relocate_spec (base fpath : Str) :
    Src.relocate base fpath = Src.relocate (toSlash base) (toSlash fpath) ∧
    '\\' ∉ Src.relocate base fpath ∧
    (∀ a b : Str, toSlash fpath = a ++ sFunc ++ b →
      (∀ k < a.length, sFunc.isPrefixOf ((a ++ sFunc ++ b).drop k) = false) →
      Src.relocate base fpath = toSlash base ++ '/' :: (sFunc ++ b)) := by
  have hidem : ∀ s : Str, toSlash (toSlash s) = toSlash s := by
    intro s
    simp only [toSlash, List.map_map]
    apply List.map_congr_left
    intro x _
    by_cases hx : x = '\\' <;> simp [hx]
  have hno : ∀ s : Str, '\\' ∉ toSlash s := by
    intro s hm
    obtain ⟨x, _, hx⟩ := List.mem_map.mp hm
    by_cases h : x = '\\'
    · simp [h] at hx
    · simp [h] at hx
  simp only [Src.relocate_eq, relocate, pyReplace_char]
  refine ⟨?_, ?_, ?_⟩
  · show (match findSub sFunc (toSlash fpath) with
        | some c => toSlash base ++ '/' :: (toSlash fpath).drop c
        | none => toSlash base ++ '/' :: (toSlash fpath).drop ((toSlash fpath).length - 1)) =
      (match findSub sFunc (toSlash (toSlash fpath)) with
        | some c => toSlash (toSlash base) ++ '/' :: (toSlash (toSlash fpath)).drop c
        | none => toSlash (toSlash base) ++ '/' ::
            (toSlash (toSlash fpath)).drop ((toSlash (toSlash fpath)).length - 1))
    rw [hidem, hidem]
  · show '\\' ∉ (match findSub sFunc (toSlash fpath) with
        | some c => toSlash base ++ '/' :: (toSlash fpath).drop c
        | none => toSlash base ++ '/' :: (toSlash fpath).drop ((toSlash fpath).length - 1))
    have hd : ∀ k, '\\' ∉ toSlash base ++ '/' :: (toSlash fpath).drop k := by
      intro k hm
      rcases List.mem_append.mp hm with hm | hm
      · exact hno _ hm
      · rcases List.mem_cons.mp hm with hm | hm
        · exact absurd hm (by decide)
        · exact hno _ (List.mem_of_mem_drop hm)
    cases findSub sFunc (toSlash fpath) <;> exact hd _
  · intro a b hab hfirst
    show (match findSub sFunc (toSlash fpath) with
        | some c => toSlash base ++ '/' :: (toSlash fpath).drop c
        | none => toSlash base ++ '/' :: (toSlash fpath).drop ((toSlash fpath).length - 1)) = _
    rw [hab, findSub_first sFunc a b hfirst]
    simp

example : String.ofList (Src.relocate "/data/proj".toList "C:\\study\\func\\run1.nii,1".toList) =
    "/data/proj/func/run1.nii,1" := by decide

end spm3

/-! ## 10. (round 3) Meadows: rejected combinations, names without extension; confounds -/

section meadows3
variable {α : Type}

/-- **Which scope / file-type combinations are rejected.**  A `.json` of a multi-participant
    download, a `.json` of a single task, a `.json` whose `tasks` entry is no list: `ValueError`;
    a `.mat` named like a multi-task download (pet-name participant, no task index): never loads
    (`KeyError` on the missing index once both variables are found, `ValueError` otherwise). -/
theorem meadows_rejections :
    (∀ (info : MInfo) (tasks : Option (List (JTask α))), info.participantScopeSingle = false →
      compsJson info tasks = .error "ValueError") ∧
    (∀ (info : MInfo) (tasks : Option (List (JTask α))), info.participantScopeSingle = true →
      info.taskScopeSingle = true → compsJson info tasks = .error "ValueError") ∧
    (∀ (info : MInfo), info.participantScopeSingle = true → info.taskScopeSingle = false →
      compsJson (α := α) info none = .error "ValueError") ∧
    (∀ (info : MInfo) (vars : List (Str × MatVal α)), info.participantScopeSingle = true →
      info.taskIndex = none →
      compsMat info vars = .error "KeyError" ∨ compsMat info vars = .error "ValueError") := by
  refine ⟨?_, ?_, ?_, ?_⟩
  · intro info tasks h; simp [compsJson, h]
  · intro info tasks h1 h2; simp [compsJson, h1, h2]
  · intro info h1 h2; simp [compsJson, h1, h2]
  · intro info vars h1 h2
    simp only [compsMat, compsMatBy, h1, if_true, h2]
    cases lookupVar vars sStimuli with
    | none => right; rfl
    | some v =>
      cases v with
      | nums r => right; rfl
      | strs st =>
        cases lookupVar vars sRdmutv with
        | none => right; rfl
        | some w =>
          cases w with
          | strs _ => right; rfl
          | nums rows => left; cases info.participant <;> rfl

/-- **The Meadows loaders' constants as the source spells them** (regenerated on every run):
    the participant ↔ variable-name mapping, the stem of a stimulus name, the variable names, the
    task type and the descriptor keys of the model are those of `io/meadows.py`. -/
theorem meadows_loader_syntax :
    (∀ v, pnameOfVar v = joinWith (Char.ofNat Rsa.Gen.C20.mlPnameJoin)
      ((splitOn (Char.ofNat Rsa.Gen.C20.mlPnameSplit) v).drop Rsa.Gen.C20.mlPnameFrom)) ∧
    (∀ p, utvVarOf p = natToStr Rsa.Gen.C20.mlUtvPrefix ++
      pyReplace [Char.ofNat Rsa.Gen.C20.mlUtvFrom] [Char.ofNat Rsa.Gen.C20.mlUtvTo] p) ∧
    (∀ f, stem f = ((splitOn (Char.ofNat Rsa.Gen.C20.mlStemSep) f)[Rsa.Gen.C20.mlStemIdx]?).getD []) ∧
    natToStr Rsa.Gen.C20.mlStimPrefix = sStimuli ∧ Rsa.Gen.C20.mlStimPrefixLen = 7 ∧
    natToList Rsa.Gen.C20.mlSingleVars = [sStimuli, sRdmutv] ∧
    natToStr Rsa.Gen.C20.mlJsonType = sMultiarrange ∧
    natToList Rsa.Gen.C20.mlRdmKeys =
      ["participant".toList, "task".toList, "task_index".toList] := by
  refine ⟨fun v => rfl, ?_, ?_, by decide, by decide, by decide, by decide, by decide⟩
  · intro p
    have : natToStr Rsa.Gen.C20.mlUtvPrefix = sRdmutv ++ ['_'] := by decide
    rw [this]
    simp [utvVarOf]
    rfl
  · intro f
    have h1 : Char.ofNat Rsa.Gen.C20.mlStemSep = '.' := by decide
    have h2 : Rsa.Gen.C20.mlStemIdx = 0 := by decide
    rw [h1, h2]
    unfold stem
    cases splitOn '.' f <;> rfl

/-- **Stimulus names without extension.**  `loadmat` blank-pads the rows of a char matrix.  A
    name with an extension loses the padding together with the extension (`split('.')[0]`), so
    its label is exact; a name *without* extension keeps it: its label is the name followed by
    the blanks that pad it to the longest name. -/
theorem stem_padded (s : Str) (k : Nat) :
    ('.' ∈ s → stem (s ++ List.replicate k ' ') = stem s) ∧
    ('.' ∉ s → stem (s ++ List.replicate k ' ') = s ++ List.replicate k ' ') := by
  constructor
  · intro h
    obtain ⟨a, b, rfl, ha⟩ := List.eq_append_cons_of_mem h
    have e : a ++ '.' :: b ++ List.replicate k ' ' = a ++ '.' :: (b ++ List.replicate k ' ') := by simp
    rw [e]
    simp [stem, splitOn_append_sep _ ha]
  · intro h
    have : '.' ∉ s ++ List.replicate k ' ' := by
      simp only [List.mem_append, List.mem_replicate, not_or]
      exact ⟨h, fun hh => absurd hh.2 (by decide)⟩
    simp [stem, splitOn_of_not_mem this]

/-- every row of the padded matrix is the name plus blanks, all rows equally long -/
theorem padStrs_spec (l : List Str) :
    (padStrs l).length = l.length ∧
    (∀ i (hi : i < l.length), ∃ k, (padStrs l)[i]? = some (l[i] ++ List.replicate k ' ') ∧
      (l[i] ++ List.replicate k ' ').length = l.foldl (fun m s => max m s.length) 0) := by
  have hmax : ∀ (l : List Str) (m0 : Nat) (s : Str), s ∈ l →
      s.length ≤ l.foldl (fun m s => max m s.length) m0 := by
    intro l
    induction l with
    | nil => intro m0 s h; simp at h
    | cons x xs ih =>
      intro m0 s h
      have hmono : ∀ (ys : List Str) (a b : Nat), a ≤ b →
          ys.foldl (fun m s => max m s.length) a ≤ ys.foldl (fun m s => max m s.length) b := by
        intro ys
        induction ys with
        | nil => intro a b hab; simpa using hab
        | cons y ys ihy => intro a b hab; simp only [List.foldl_cons]; exact ihy _ _ (by omega)
      have hge : ∀ (ys : List Str) (a : Nat), a ≤ ys.foldl (fun m s => max m s.length) a := by
        intro ys
        induction ys with
        | nil => intro a; simp
        | cons y ys ihy => intro a; simp only [List.foldl_cons]; exact le_trans (by omega) (ihy _)
      simp only [List.foldl_cons]
      rcases List.mem_cons.mp h with rfl | h
      · exact le_trans (by omega) (hge xs _)
      · exact ih _ s h
  refine ⟨by simp [padStrs], ?_⟩
  intro i hi
  refine ⟨l.foldl (fun m s => max m s.length) 0 - l[i].length, by simp [padStrs, hi], ?_⟩
  have := hmax l 0 l[i] (List.getElem_mem hi)
  simp only [List.length_append, List.length_replicate]
  omega

/-- **Confound selection** (`FmriprepRun.get_confounds`): the columns returned are exactly the
    requested names in the requested order — the nine default names (regenerated from the
    source) when none or an empty list is requested — each with the values of the table's
    column of that name; a missing column is an error, never a silent omission. -/
theorem confound_selection {β : Type} (dflt : List Str) (cf : Option (List Str))
    (table : List (Str × β)) (res : List (Str × β))
    (h : selectConfounds dflt cf table = .ok res) :
    res.map (·.1) = (match cf with | some (n :: ns) => n :: ns | _ => dflt) ∧
    (∀ kv ∈ res, ∃ kv' ∈ table, kv'.1 = kv.1 ∧ kv'.2 = kv.2) ∧
    Src.confoundDefault = ["global_signal".toList, "csf".toList, "white_matter".toList,
      "trans_x".toList, "trans_y".toList, "trans_z".toList, "rot_x".toList, "rot_y".toList,
      "rot_z".toList] := by
  have key : ∀ names : List Str,
      names.mapM (fun n => match table.find? (fun kv => kv.1 == n) with
        | some kv => Except.ok (n, kv.2)
        | none => Except.error "KeyError") = .ok res →
      res.map (·.1) = names ∧ (∀ kv ∈ res, ∃ kv' ∈ table, kv'.1 = kv.1 ∧ kv'.2 = kv.2) := by
    intro names h
    obtain ⟨hlen, hget⟩ := mapM_ok_spec _ names res h
    have hone : ∀ i (hi : i < names.length) (hr : i < res.length),
        res[i].1 = names[i] ∧ ∃ kv' ∈ table, kv'.1 = res[i].1 ∧ kv'.2 = res[i].2 := by
      intro i hi hr
      have := hget i hi hr
      cases hf : table.find? (fun kv => kv.1 == names[i]) with
      | none => simp [hf] at this
      | some kv =>
        simp only [hf, Except.ok.injEq] at this
        have hm := List.mem_of_find?_eq_some hf
        have hk := List.find?_some hf
        simp only [beq_iff_eq] at hk
        rw [← this]
        exact ⟨rfl, kv, hm, hk, rfl⟩
    refine ⟨?_, ?_⟩
    · apply List.ext_getElem (by simp [hlen])
      intro i h1 h2
      simp only [List.getElem_map]
      exact (hone i (by simpa using h2) (by simpa using h1)).1
    · intro kv hkv
      obtain ⟨i, hi, rfl⟩ := List.getElem_of_mem hkv
      exact (hone i (by omega) hi).2
  refine ⟨?_, ?_, by decide⟩
  · rcases cf with _ | _ | ⟨n, ns⟩ <;> exact (key _ h).1
  · rcases cf with _ | _ | ⟨n, ns⟩ <;> exact (key _ h).2

example : selectConfounds ["csf".toList] (some []) [("csf".toList, 1), ("rot_x".toList, 2)] =
    .ok [("csf".toList, 1)] := by decide
example : selectConfounds ["csf".toList] (some ["rot_x".toList, "csf".toList])
    [("csf".toList, 1), ("rot_x".toList, 2)] = .ok [("rot_x".toList, 2), ("csf".toList, 1)] := by
  decide

end meadows3

/-! ## 8. Look-up sessions on one layout (round 4) -/

section session
variable {γ : Type}

/-- **No look-up depends on an earlier one.**  `runSession` is the code as written — one
    `BidsLayout` whose `_nibabel` is set by the first search, file objects that keep their
    sidecar in `_meta` and the sidecar its parsed json in `_data` — run over *any* list of calls
    (new file objects, `find_mri_derivative_files`, `find_meta_for`, `get_meta`, `find_events_for`,
    table / MRI siblings, key files) in any order, from any state whose caches are coherent (in
    particular the empty one).  Every answer (the file found and what reading it gives) equals
    the stateless specification `pureSession`: a function of the file asked about and of the
    disk only.  The attributes the classes carry are regenerated from the source: the layout
    has `_path` and `_nibabel` and nothing else, a file `relpath`, `layout`, `_meta` and its
    entities, a sidecar `_data`, an fMRIPrep run its `boldFile`; the only caches are
    `self._meta` / `self._data` on the object asked (a cache on the layout, the class or the
    module is a different program: these leaves change or become underivable). -/
theorem session_lookups_stateless (fs : Str → Option γ) (files : List Str) (s : Session γ)
    (hc : Coherent Src.lk fs s) (steps : List Step) :
    runSession Src.lk fs files s steps = pureSession Src.lk fs files (s.objs.map (·.ent)) steps ∧
    Src.layoutFields = ["_nibabel".toList, "_path".toList] ∧
    Src.fileFields = ["relpath".toList, "layout".toList, "_meta".toList] ∧
    Src.jsonFields = ["_data".toList] ∧ Src.runFields = ["boldFile".toList] ∧
    Src.metaCacheOwner = "self._meta".toList ∧ Src.dataCacheOwner = "self._data".toList :=
  ⟨runSession_spec Src.lk fs files steps s hc, by decide, by decide, by decide, by decide,
   by decide, by decide⟩

/-- **`get_meta()` always delivers the file's own sidecar.**  Whatever calls came before on the
    same layout and the same objects (`pre`), `get_meta()` of a file with valid entities `e`
    returns the content of exactly the file whose entities are `e` with `ext = json` — same
    derivative (raw vs `derivatives/<A>` vs `derivatives/<B>`), subject, session, … — and the
    earlier answers are unchanged by asking. -/
theorem session_meta_own_sidecar (fs : Str → Option γ) (files : List Str) (s : Session γ)
    (hc : Coherent Src.lk fs s) (pre : List Step) (h : Nat) (e : BidsEnt) (hv : ValidEnt e)
    (hh : (pre.foldl (tblStep Src.lk files) (s.objs.map (·.ent)))[h]? = some e) :
    runSession Src.lk fs files s (pre ++ [.getMeta h]) =
      runSession Src.lk fs files s pre ++ [.file (Src.findMetaFor e) (fs (Src.findMetaFor e))] ∧
    runSession Src.lk fs files s (pre ++ [.findMeta h]) =
      runSession Src.lk fs files s pre ++ [.file (Src.findMetaFor e) (fs (Src.findMetaFor e))] ∧
    Src.bidsParse (Src.findMetaFor e) = .ok { e with ext := sJson } := by
  refine ⟨?_, ?_, (lookup_changes_only e hv ['a'] ['b'] ⟨by decide, by decide, by decide, by decide⟩
    ⟨by decide, by decide, by decide, by decide⟩).1⟩
  · rw [runSession_spec _ _ _ _ s hc, runSession_spec _ _ _ _ s hc, pureSession_snoc]
    simp only [pureAns, pureFile, hh]; rfl
  · rw [runSession_spec _ _ _ _ s hc, runSession_spec _ _ _ _ s hc, pureSession_snoc]
    simp only [pureAns, pureFile, hh]; rfl

/-- non-vacuity: a state with a populated cache is coherent -/
example : Coherent Src.lk (fun _ => some (7 : Nat))
    ({ objs := [{ ent := exFull, metaCache := some (Src.findMetaFor exFull, some 7) },
                { ent := exBare, metaCache := some (Src.findMetaFor exBare, none) }] } : Session Nat) := by
  intro o ho m hm
  simp only [List.mem_cons, List.not_mem_nil, or_false] at ho
  rcases ho with rfl | rfl
  · simp only [Option.some.injEq] at hm; subst hm
    exact ⟨rfl, fun d hd => by simp only [Option.some.injEq] at hd; subst hd; rfl⟩
  · simp only [Option.some.injEq] at hm; subst hm
    exact ⟨rfl, fun d hd => by simp at hd⟩

/-- the literal look-ups (no search) -/
def litLookups : Lookups where
  parse := bidsParse
  metaFor := findMetaFor
  eventsFor := findEventsFor
  tableSibling := findTableSiblingOf
  mriSibling := findMriSiblingOf
  tableKey := findTableKeyFor
  derivativeFiles := fun _ _ _ _ => Except.ok []

/-- a concrete session (literal look-ups): raw file and its namesake in a derivative, `get_meta`
    of the derivative first, then of the raw file, then again of the derivative -/
example :
    let L : Lookups := litLookups
    let raw := "sub-01/func/sub-01_bold.nii".toList
    let der := "derivatives/A/sub-01/func/sub-01_bold.nii".toList
    let fs : Str → Option Nat := fun p => if p = "sub-01/func/sub-01_bold.json".toList then some 1
      else if p = "derivatives/A/sub-01/func/sub-01_bold.json".toList then some 2 else none
    (runSession L fs [] {} [.newFile raw, .newFile der, .getMeta 1, .getMeta 0, .getMeta 1]).drop 2 =
      [.file "derivatives/A/sub-01/func/sub-01_bold.json".toList (some 2),
       .file "sub-01/func/sub-01_bold.json".toList (some 1),
       .file "derivatives/A/sub-01/func/sub-01_bold.json".toList (some 2)] := by decide

end session

/-! ## 9. (round 5) Meadows `.json`: every loaded task carries its own file values by label -/

section meadowsJson
variable {α : Type}

/-- **A loaded task's entry for labels (a, b) is the file's entry for (a, b).**
    About the loader as the source spells it (`Src.compsJson`: the test that lets a *later*
    multi-arrangement task pass is regenerated from `io/meadows.py`, leaf `mlJsonSame`).  Each
    task's `rdm` vector is laid out in that task's **own** stimulus order, while the result keeps
    only the first task's labels.  For every file (any number of tasks, any task kinds in between,
    later tasks with the same stimuli in another order, another set, a superset …), sorted or
    not: the result has one task name, task index and participant per RDM; RDM `k` belongs to the
    multi-arrangement task at file position `task_index[k]`, carries that task's name, and its
    stored entry for the label pair at positions `i < j` equals `fileVal task conds[i] conds[j]`
    — the value the **file** gives, in that task, to the two stimuli with these labels, looked up
    at the positions they have in the task's own list.  Consequently (last conjunct) a task
    whose stimulus list is not exactly the kept one is never loaded.
    Hypothesis: the labels (stems of the first task's stimulus names) are pairwise distinct —
    otherwise "the entry for labels (a, b)" is not defined. -/
theorem meadows_json_task_values [Zero α] (info : MInfo) (ts : List (JTask α)) (c : Comps α)
    (sort : Bool) (hc : Src.compsJson info (some ts) = .ok c)
    (hnd : (c.stimuli.map stem).Nodup) :
    ∃ tn ti, (assemble info c sort).task = some tn ∧ (assemble info c sort).taskIndex = some ti ∧
      tn.length = (assemble info c sort).dissim.length ∧
      ti.length = (assemble info c sort).dissim.length ∧
      (assemble info c sort).participant.length = (assemble info c sort).dissim.length ∧
      (∀ (k : Nat) (row : List α), (assemble info c sort).dissim[k]? = some row →
        ∃ (t : Nat) (task : JTask α), ti[k]? = some t ∧ ts[t]? = some task ∧
          task.taskType = some sMultiarrange ∧ tn[k]? = some task.name ∧
          ∀ (i j : Nat) (hij : i < j) (hj : j < (assemble info c sort).conds.length),
            row.getD (triIdx (assemble info c sort).conds.length i j) 0 =
              fileVal task ((assemble info c sort).conds[i]) ((assemble info c sort).conds[j])) ∧
      (∀ (t : Nat) (task : JTask α), ts[t]? = some task → task.stimuli ≠ c.stimuli → t ∉ ti) := by
  rw [Src.compsJson_eq] at hc
  obtain ⟨tn, ti, h1, h2, h3, hrows⟩ := compsJson_rows info ts c hc
  have hdl : (assemble info c sort).dissim.length = c.utvs.length := by
    cases sort <;> simp [assemble]
  have hmeta := (meadows_sort_labelled info c).2.2.2.2.2.2.2 sort
  refine ⟨tn, ti, by rw [hmeta.2.1, h1], by rw [hmeta.2.2.1, h2], by rw [hdl]; exact hrows.1,
    by rw [hdl]; exact hrows.2.1, by rw [hmeta.1, hdl]; exact h3, ?_, ?_⟩
  · intro k row hrow
    have hk : k < c.utvs.length := by
      have := (List.getElem?_eq_some_iff.mp hrow).1
      omega
    obtain ⟨t, task, a, b, cc, d, e, f⟩ := hrows.2.2 k c.utvs[k] (List.getElem?_eq_getElem hk)
    obtain ⟨row', hr', hval⟩ := assemble_entry info c sort hnd task d k
      (by rw [e]; exact List.getElem?_eq_getElem hk)
    have : row' = row := by rw [hr'] at hrow; exact Option.some.inj hrow
    subst this
    exact ⟨t, task, a, b, cc, f, hval⟩
  · intro t task ht hne hmem
    obtain ⟨k, hk, hkt⟩ := List.getElem_of_mem hmem
    have hk' : k < c.utvs.length := by rw [← hrows.2.1]; exact hk
    obtain ⟨t', task', a, b, _, d, _, _⟩ := hrows.2.2 k c.utvs[k] (List.getElem?_eq_getElem hk')
    rw [List.getElem?_eq_getElem hk, hkt] at a
    have : t' = t := (Option.some.inj a).symm
    subst this
    rw [ht] at b
    exact hne (Option.some.inj b ▸ d)

/-- a file with an info task, a first arrangement over (b, a, c), the same stimuli in another
    order, and the same list again -/
def exJsonTasks : List (JTask Nat) :=
  [{ taskType := some "info".toList, name := "i".toList, stimuli := [], rdm := [] },
   { taskType := some sMultiarrange, name := "one".toList,
     stimuli := ["b.png".toList, "a.png".toList, "c.png".toList], rdm := [1, 2, 3] },
   { taskType := some sMultiarrange, name := "two".toList,
     stimuli := ["a.png".toList, "b.png".toList, "c.png".toList], rdm := [4, 5, 6] },
   { taskType := some sMultiarrange, name := "three".toList,
     stimuli := ["b.png".toList, "a.png".toList, "c.png".toList], rdm := [7, 8, 9] }]

def exJsonInfo : MInfo :=
  { version := "1".toList, experiment := "e".toList, structure_ := "tree".toList,
    filetype := "json".toList, taskScopeSingle := false, participantScopeSingle := true,
    participant := some "able-fox".toList, taskIndex := none, taskName := none }

/-- non-vacuity: the hypotheses hold for that file; the re-ordered task 2 is skipped, tasks 1
    and 3 are loaded; the file's entry of task 1 for (a, b) is 1 (stored at the (b, a) position),
    for (a, c) it is 3; task 2 would give 4 for (a, b) -/
example : ∃ c, Src.compsJson exJsonInfo (some exJsonTasks) = .ok c ∧ (c.stimuli.map stem).Nodup ∧
    c.tidx = some [1, 3] ∧ (assemble exJsonInfo c false).conds = ["b".toList, "a".toList, "c".toList] ∧
    (assemble exJsonInfo c false).dissim = [[1, 2, 3], [7, 8, 9]] ∧
    fileVal exJsonTasks[1] "a".toList "b".toList = 1 ∧
    fileVal exJsonTasks[1] "a".toList "c".toList = 3 ∧
    fileVal exJsonTasks[2] "a".toList "b".toList = 4 := by
  refine ⟨_, rfl, by decide, by decide, by decide, by decide, by decide, by decide, by decide⟩

/-- **A loaded participant's entry for labels (a, b) is the file's entry for (a, b) of that
    participant.**  About `load_rdms_comps_mat` as the source spells it (`Src.compsMat`: the test
    a participant must pass is regenerated from `io/meadows.py`, leaf `mlMatSame`).  A
    multi-participant `.mat` has one `stimuli_<p>` and one `rdmutv_<p>` variable per participant,
    the vector laid out in **that participant's** stimulus order; the result keeps one label list.
    For every such file (any variable order, participants with the same list, the same stimuli in
    another order, other stimuli …), sorted or not: the participants of the result are exactly the
    `stimuli*` variables, in file order, whose own list is the returned one (`kept`); all carry
    the task name of the file name; there is one RDM per kept participant; and RDM `k` is read
    from the variable `rdmutv_<p>` named after participant `k`, its stored entry for the labels at
    positions `i < j` being `fileVal` of *that participant's* own list and vector.
    Hypotheses: every `rdmutv_<p>` variable is a 1 × m matrix (what Meadows writes; the code
    reshapes to one row per participant); labels pairwise distinct. -/
theorem meadows_mat_participant_values [Zero α] (info : MInfo) (vars : List (Str × MatVal α))
    (c : Comps α) (sort : Bool) (hm : info.participantScopeSingle = false)
    (hc : Src.compsMat info vars = .ok c)
    (hone : ∀ p rows, lookupVar vars (utvVarOf p) = some (.nums rows) → rows.length = 1)
    (hnd : (c.stimuli.map stem).Nodup) :
    let kept := ((vars.map (·.1)).filter (fun v => v.take 7 == sStimuli)).filter
      (fun v => strsSame (fun a b => a == b) c.stimuli (lookupVar vars v))
    (assemble info c sort).participant = kept.map pnameOfVar ∧
    (assemble info c sort).taskIndex = none ∧
    (∃ tn, info.taskName = some tn ∧ (assemble info c sort).task = some (kept.map (fun _ => tn))) ∧
    (assemble info c sort).dissim.length = kept.length ∧
    (∀ (k : Nat) (row : List α), (assemble info c sort).dissim[k]? = some row →
      ∃ (v : Str) (stim : List Str) (utv : List α), kept[k]? = some v ∧
        lookupVar vars v = some (.strs stim) ∧
        lookupVar vars (utvVarOf (pnameOfVar v)) = some (.nums [utv]) ∧
        ∀ (i j : Nat) (hij : i < j) (hj : j < (assemble info c sort).conds.length),
          row.getD (triIdx (assemble info c sort).conds.length i j) 0 =
            fileVal { taskType := none, name := pnameOfVar v, stimuli := stim, rdm := utv }
              ((assemble info c sort).conds[i]) ((assemble info c sort).conds[j])) := by
  intro kept
  rw [Src.compsMat_eq] at hc
  obtain ⟨hp, hst, hti, tn, htn, htns⟩ := compsMat_multi info vars c hm hc
  obtain ⟨hlen, hrow⟩ := stackUtvs_rows vars c.pnames c.utvs hst (fun p _ => hone p)
  have hdl : (assemble info c sort).dissim.length = c.utvs.length := by
    cases sort <;> simp [assemble]
  have hmeta := (meadows_sort_labelled info c).2.2.2.2.2.2.2 sort
  have hkl : c.pnames.length = kept.length := by rw [hp]; simp [kept]
  refine ⟨by rw [hmeta.1, hp], by rw [hmeta.2.2.1, hti],
    ⟨tn, htn, by rw [hmeta.2.1, htns, hp, List.map_map]; rfl⟩, by rw [hdl, hlen, hkl], ?_⟩
  intro k row hrw
  have hk : k < c.utvs.length := by
    have := (List.getElem?_eq_some_iff.mp hrw).1
    omega
  have hk' : k < kept.length := by omega
  have hv : kept[k]? = some kept[k] := List.getElem?_eq_getElem hk'
  have hpk : c.pnames[k]? = some (pnameOfVar kept[k]) := by
    rw [hp, List.getElem?_map]
    show Option.map pnameOfVar kept[k]? = _
    rw [hv]; rfl
  obtain ⟨utv, hu, hUk⟩ := hrow k _ hpk
  have hmem : kept[k] ∈ kept := List.getElem_mem hk'
  have hsame := (List.mem_filter.mp hmem).2
  have hl := strsSame_eq hsame
  obtain ⟨row', hr', hval⟩ := assemble_entry info c sort hnd
    { taskType := none, name := pnameOfVar kept[k], stimuli := c.stimuli, rdm := utv } rfl k hUk
  have : row' = row := by rw [hr'] at hrw; exact Option.some.inj hrw
  subst this
  exact ⟨kept[k], c.stimuli, utv, hv, hl, hu, hval⟩

/-- a file with three participants: (a, b, c), the same stimuli as (c, a, b), and (a, b, c) again;
    the variables in mixed order -/
def exMatVars : List (Str × MatVal Nat) :=
  [("rdmutv_brave_cat".toList, .nums [[1, 2, 3]]),
   ("stimuli_able_fox".toList, .strs ["a.png".toList, "b.png".toList, "c.png".toList]),
   ("stimuli_brave_cat".toList, .strs ["c.png".toList, "a.png".toList, "b.png".toList]),
   ("stimuli_clean_dog".toList, .strs ["a.png".toList, "b.png".toList, "c.png".toList]),
   ("rdmutv_clean_dog".toList, .nums [[4, 5, 6]]),
   ("rdmutv_able_fox".toList, .nums [[7, 8, 9]])]

def exMatInfo : MInfo :=
  { version := "1".toList, experiment := "e".toList, structure_ := "1D".toList,
    filetype := "mat".toList, taskScopeSingle := true, participantScopeSingle := false,
    participant := none, taskIndex := none, taskName := some "arrangement".toList }

/-- non-vacuity: the hypotheses hold for that file; brave-cat (other order) is skipped, able-fox
    and clean-dog are loaded with their own vectors; brave-cat's own value for (a, b) would be 3 -/
example : ∃ c, Src.compsMat exMatInfo exMatVars = .ok c ∧ (c.stimuli.map stem).Nodup ∧
    lookupVar exMatVars (utvVarOf "able-fox".toList) = some (.nums [[7, 8, 9]]) ∧
    lookupVar exMatVars (utvVarOf "brave-cat".toList) = some (.nums [[1, 2, 3]]) ∧
    lookupVar exMatVars (utvVarOf "clean-dog".toList) = some (.nums [[4, 5, 6]]) ∧
    c.pnames = ["able-fox".toList, "clean-dog".toList] ∧
    (assemble exMatInfo c false).dissim = [[7, 8, 9], [4, 5, 6]] ∧
    fileVal { taskType := none, name := [], stimuli := ["c.png".toList, "a.png".toList, "b.png".toList],
              rdm := [1, 2, 3] } "a".toList "b".toList = 3 := by
  refine ⟨_, rfl, by decide, rfl, rfl, rfl, by decide, by decide, by decide⟩

end meadowsJson

end Rsa.Props.C20
