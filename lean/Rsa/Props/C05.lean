/-
  Property C05 — folds partition the data and test data never influence fitting.
  Property theorems only; helper lemmas live in Rsa/Lemmas/C05.lean.

  Reading guide.  `sel` is the (possibly shuffled) list of the distinct descriptor values of
  an axis; every theorem that mentions it assumes only `sel.Nodup` (or that it is a
  rearrangement of `uniq` of the descriptor), i.e. it holds for every shuffle outcome.
  `n = sel.length` groups, `k` folds with `1 ≤ k ≤ n` — the calls the code accepts
  (`sets_ok_iff` states exactly which calls are accepted).
-/
import Mathlib.Algebra.Order.Field.Basic
import Mathlib.Tactic.Linarith
import Rsa.Lemmas.C05
import Rsa.Lemmas.C05Glue

set_option linter.unusedSectionVars false
set_option linter.unusedVariables false
set_option linter.unusedSimpArgs false
set_option linter.unusedTactic false
set_option linter.unreachableTactic false

namespace Rsa.Props.C05

open Rsa Rsa.Folds

/-! ### 1. index arithmetic: the k test position lists partition `range n` -/

/-- for every `n`, `k` with `1 ≤ k ≤ n`: the test position lists are non-empty, duplicate
    free, inside `range n`, pairwise disjoint, every position lies in exactly one of them, and
    their concatenation is a rearrangement of `range n`. -/
theorem kfold_partition (n k : Nat) (hk : 1 ≤ k) (hkn : k ≤ n) :
    (∀ g, g < k → foldTestIdx n (n / k) (n % k) g ≠ [] ∧ (foldTestIdx n (n / k) (n % k) g).Nodup
        ∧ ∀ i ∈ foldTestIdx n (n / k) (n % k) g, i < n) ∧
    (∀ g g', g < k → g' < k → g ≠ g' →
        List.Disjoint (foldTestIdx n (n / k) (n % k) g) (foldTestIdx n (n / k) (n % k) g')) ∧
    (∀ i, i < n → ∃! g, g < k ∧ i ∈ foldTestIdx n (n / k) (n % k) g) ∧
    ((List.range k).flatMap (foldTestIdx n (n / k) (n % k))).Perm (List.range n) := by
  refine ⟨?_, ?_, ?_, folds_perm hk hkn⟩
  · intro g hg
    exact ⟨foldTestIdx_ne_nil hk hkn, foldTestIdx_nodup hk hkn hg,
      fun i hi => foldTestIdx_lt hk hkn hg hi⟩
  · intro g g' hg hg' hne
    exact fold_disjoint hk hkn hg hg' hne
  · intro i hi
    refine ⟨foldOf n k i, ⟨foldOf_lt hk hkn hi, (mem_fold_iff hk hkn (foldOf_lt hk hkn hi) hi).2 rfl⟩, ?_⟩
    rintro g ⟨hg, hmem⟩
    exact (mem_fold_iff hk hkn hg hi).1 hmem

/-- fold sizes are `⌊n/k⌋` or `⌊n/k⌋ + 1`, hence differ by at most one -/
theorem kfold_sizes (n k g g' : Nat) :
    ((foldTestIdx n (n / k) (n % k) g).length = n / k ∨
      (foldTestIdx n (n / k) (n % k) g).length = n / k + 1) ∧
    (foldTestIdx n (n / k) (n % k) g).length ≤ (foldTestIdx n (n / k) (n % k) g').length + 1 := by
  rw [foldTestIdx_length, foldTestIdx_length]
  constructor
  · by_cases h : g < n % k <;> simp [h]
  · by_cases h : g < n % k <;> by_cases h' : g' < n % k <;> simp only [h, h', if_true, if_false] <;> omega

/-- more than one fold: training positions are exactly the complement of the test positions;
    at most one fold: training = test (no cross-validation along this axis). -/
theorem kfold_train_compl (n k g : Nat) (hk : 1 ≤ k) (hkn : k ≤ n) (hg : g < k) :
    (1 < k →
      List.Disjoint (foldTrainIdx n k (foldTestIdx n (n / k) (n % k) g))
        (foldTestIdx n (n / k) (n % k) g) ∧
      ∀ i, i < n ↔ (i ∈ foldTrainIdx n k (foldTestIdx n (n / k) (n % k) g)
        ∨ i ∈ foldTestIdx n (n / k) (n % k) g)) ∧
    (k ≤ 1 → foldTrainIdx n k (foldTestIdx n (n / k) (n % k) g) = foldTestIdx n (n / k) (n % k) g) := by
  constructor
  · intro h1
    constructor
    · intro i hi hi'
      exact ((mem_foldTrainIdx h1).1 hi).2 hi'
    · intro i
      rw [mem_foldTrainIdx h1]
      constructor
      · intro hi
        by_cases hm : i ∈ foldTestIdx n (n / k) (n % k) g
        · exact Or.inr hm
        · exact Or.inl ⟨hi, hm⟩
      · rintro (⟨hi, _⟩ | hm)
        · exact hi
        · exact foldTestIdx_lt hk hkn hg hm
  · intro h1
    simp [foldTrainIdx, h1]

/-! ### 2. the same for descriptor values, for every shuffle outcome -/

/-- for every duplicate-free `sel` (any rearrangement of the distinct descriptor values):
    the k test value lists are non-empty, of sizes `⌊n/k⌋` or `⌊n/k⌋+1`, pairwise disjoint,
    and every value of `sel` is in exactly one of them. -/
theorem split_vals_partition (sel : List Nat) (k : Nat) (hn : sel.Nodup) (hk : 1 ≤ k)
    (hkn : k ≤ sel.length) :
    (∀ g, g < k →
      (splitFold sel k (sel.length / k) (sel.length % k) g).2 ≠ [] ∧
      ((splitFold sel k (sel.length / k) (sel.length % k) g).2.length = sel.length / k ∨
       (splitFold sel k (sel.length / k) (sel.length % k) g).2.length = sel.length / k + 1) ∧
      ∀ v ∈ (splitFold sel k (sel.length / k) (sel.length % k) g).2, v ∈ sel) ∧
    (∀ g g', g < k → g' < k → g ≠ g' →
      List.Disjoint (splitFold sel k (sel.length / k) (sel.length % k) g).2
        (splitFold sel k (sel.length / k) (sel.length % k) g').2) ∧
    (∀ v ∈ sel, ∃! g, g < k ∧ v ∈ (splitFold sel k (sel.length / k) (sel.length % k) g).2) := by
  have hlen : ∀ g, g < k →
      (splitFold sel k (sel.length / k) (sel.length % k) g).2.length
        = (foldTestIdx sel.length (sel.length / k) (sel.length % k) g).length := by
    intro g hg
    exact valsAt_length (fun i hi => foldTestIdx_lt hk hkn hg hi)
  refine ⟨?_, ?_, ?_⟩
  · intro g hg
    refine ⟨?_, ?_, fun v hv => valsAt_sub hv⟩
    · intro h
      have h2 := congrArg List.length h
      rw [hlen g hg] at h2
      exact foldTestIdx_ne_nil hk hkn (List.eq_nil_of_length_eq_zero h2)
    · rw [hlen g hg]
      exact (kfold_sizes sel.length k g g).1
  · intro g g' hg hg' hne
    exact valsAt_disjoint hn (fold_disjoint hk hkn hg hg' hne)
  · intro v hv
    obtain ⟨i, hi, hiv⟩ := List.mem_iff_getElem.1 hv
    have hiv' : sel[i]? = some v := by rw [List.getElem?_eq_getElem hi, hiv]
    refine ⟨foldOf sel.length k i, ⟨foldOf_lt hk hkn hi, ?_⟩, ?_⟩
    · exact mem_valsAt.2 ⟨i, (mem_fold_iff hk hkn (foldOf_lt hk hkn hi) hi).2 rfl, hiv'⟩
    · rintro g ⟨hg, hmem⟩
      obtain ⟨j, hj, hjv⟩ := mem_valsAt.1 hmem
      have := getElem?_inj_of_nodup hn hjv hiv'
      subst this
      exact (mem_fold_iff hk hkn hg hi).1 hj

/-- more than one fold: training values and test values are disjoint and together are all
    values; one fold: training values = test values. -/
theorem split_vals_train_compl (sel : List Nat) (k g : Nat) (hn : sel.Nodup) (hk : 1 ≤ k)
    (hkn : k ≤ sel.length) (hg : g < k) :
    (1 < k →
      List.Disjoint (splitFold sel k (sel.length / k) (sel.length % k) g).1
        (splitFold sel k (sel.length / k) (sel.length % k) g).2 ∧
      ∀ v, v ∈ sel ↔ (v ∈ (splitFold sel k (sel.length / k) (sel.length % k) g).1 ∨
        v ∈ (splitFold sel k (sel.length / k) (sel.length % k) g).2)) ∧
    (k ≤ 1 → (splitFold sel k (sel.length / k) (sel.length % k) g).1
      = (splitFold sel k (sel.length / k) (sel.length % k) g).2) := by
  have hc := kfold_train_compl sel.length k g hk hkn hg
  constructor
  · intro h1
    obtain ⟨hd, hcov⟩ := hc.1 h1
    constructor
    · exact valsAt_disjoint hn hd
    · intro v
      constructor
      · intro hv
        obtain ⟨i, hi, hiv⟩ := List.mem_iff_getElem.1 hv
        have hiv' : sel[i]? = some v := by rw [List.getElem?_eq_getElem hi, hiv]
        rcases (hcov i).1 hi with h | h
        · exact Or.inl (mem_valsAt.2 ⟨i, h, hiv'⟩)
        · exact Or.inr (mem_valsAt.2 ⟨i, h, hiv'⟩)
      · rintro (h | h) <;> exact valsAt_sub h
  · intro h1
    simp only [splitFold]
    rw [hc.2 h1]

/-! ### 3. the source text: leaves regenerated from `/repo` on every run -/

/-- the fold size, the number of enlarged folds, the number of groups of the groups-of-k
    generators and the default test-set sizes, as written in `crossvalsets.py` today, are
    `⌊n/k⌋` and `n mod k`. -/
theorem leaf_fold_arithmetic (n k : Nat) :
    Rsa.Gen.C05.groupSizeKFold n k = n / k ∧ Rsa.Gen.C05.additionalKFold n k = n % k ∧
    Rsa.Gen.C05.groupSizeKFoldRdm n k = n / k ∧ Rsa.Gen.C05.additionalKFoldRdm n k = n % k ∧
    Rsa.Gen.C05.groupSizeKFoldPattern n k = n / k ∧ Rsa.Gen.C05.additionalKFoldPattern n k = n % k ∧
    Rsa.Gen.C05.nGroupsOfKRdm n k = n / k ∧ Rsa.Gen.C05.nGroupsOfKPattern n k = n / k ∧
    Rsa.Gen.C05.randomNRdm n k = n / k ∧ Rsa.Gen.C05.randomNPattern n k = n / k :=
  ⟨rfl, rfl, rfl, rfl, rfl, rfl, rfl, rfl, rfl, rfl⟩

/-- default numbers of folds are between 2 and 5 and monotone in the number of groups -/
theorem default_k_range (n m : Nat) (h : n ≤ m) :
    2 ≤ Rsa.Gen.C05.defaultKPattern n ∧ Rsa.Gen.C05.defaultKPattern n ≤ 5 ∧
    2 ≤ Rsa.Gen.C05.defaultKRdm n ∧ Rsa.Gen.C05.defaultKRdm n ≤ 5 ∧
    Rsa.Gen.C05.defaultKPattern n ≤ Rsa.Gen.C05.defaultKPattern m ∧
    Rsa.Gen.C05.defaultKRdm n ≤ Rsa.Gen.C05.defaultKRdm m := by
  simp only [Rsa.Gen.C05.defaultKPattern, Rsa.Gen.C05.defaultKRdm]
  refine ⟨?_, ?_, ?_, ?_, ?_, ?_⟩ <;> (repeat' split) <;> omega

/-! ### 4. the generators are these splits (value level) -/

/-- `sets_k_fold_pattern`: fold `g` trains on / tests the `g`-th split of the pattern values,
    keeps every RDM, returns no ceiling set. -/
theorem kfold_pattern_spec (sel : List Nat) (k : Nat) :
    kFoldPatternV sel k = (List.range k).map (fun g =>
      { rTrain := none, rTest := none,
        pTrain := some (splitFold sel k (sel.length / k) (sel.length % k) g).1,
        pTest := some (splitFold sel k (sel.length / k) (sel.length % k) g).2,
        hasCeil := false }) := rfl

/-- `sets_k_fold_rdm`: fold `g` tests the `g`-th split of the RDM values and trains on the
    complement (for `k = 1` the training set is empty, not the test set), all conditions,
    ceiling set = training set. -/
theorem kfold_rdm_spec (sel : List Nat) (k : Nat) (hn : sel.Nodup) (hk : 1 ≤ k)
    (hkn : k ≤ sel.length) :
    kFoldRdmV sel k = (List.range k).map (fun g =>
      { rTrain := some (valsAt sel ((List.range sel.length).filter
          (fun i => !(foldTestIdx sel.length (sel.length / k) (sel.length % k) g).contains i))),
        rTest := some (splitFold sel k (sel.length / k) (sel.length % k) g).2,
        pTrain := none, pTest := none, hasCeil := true }) ∧
    ∀ g, g < k →
      List.Disjoint (valsAt sel ((List.range sel.length).filter
          (fun i => !(foldTestIdx sel.length (sel.length / k) (sel.length % k) g).contains i)))
        (splitFold sel k (sel.length / k) (sel.length % k) g).2 := by
  refine ⟨rfl, ?_⟩
  intro g hg
  apply valsAt_disjoint hn
  intro i hi hi'
  simp only [List.mem_filter, List.mem_range, Bool.not_eq_true', List.contains_eq_mem,
    decide_eq_false_iff_not] at hi
  exact hi.2 hi'

/-- `sets_k_fold`: RDM fold `g` × pattern fold `h` (a fresh pattern shuffle `psels[g]` for
    every RDM fold): trains on (train RDM values, train pattern values), tests on (test RDM
    values, test pattern values), and returns a ceiling set. -/
theorem kfold_both_spec (rsel : List Nat) (kr : Nat) (psels : List (List Nat)) (kp : Nat) :
    kFoldV rsel kr psels kp = ((List.range kr).zip psels).flatMap (fun gp =>
      (List.range kp).map (fun h =>
        { rTrain := some (splitFold rsel kr (rsel.length / kr) (rsel.length % kr) gp.1).1,
          rTest := some (splitFold rsel kr (rsel.length / kr) (rsel.length % kr) gp.1).2,
          pTrain := some (splitFold gp.2 kp (gp.2.length / kp) (gp.2.length % kp) h).1,
          pTest := some (splitFold gp.2 kp (gp.2.length / kp) (gp.2.length % kp) h).2,
          hasCeil := true })) := by
  simp [kFoldV, kFoldPatternV, List.map_map, Function.comp_def,
    Rsa.Gen.C05.groupSizeKFold, Rsa.Gen.C05.additionalKFold,
    Rsa.Gen.C05.groupSizeKFoldPattern, Rsa.Gen.C05.additionalKFoldPattern]

/-- which calls are accepted: exactly `1 ≤ k ≤ n`; accepted calls return the realised folds -/
theorem sets_ok_iff (o : Obj) (sel : List Nat) (k : Nat) (folds : List Fold) :
    (setsKFoldPattern o sel (some k) = .ok folds ↔
      (1 ≤ k ∧ k ≤ sel.length ∧ folds = (kFoldPatternV sel k).map (realize o))) ∧
    (setsKFoldRdm o sel (some k) = .ok folds ↔
      (1 ≤ k ∧ k ≤ sel.length ∧ folds = (kFoldRdmV sel k).map (realize o))) := by
  constructor
  · unfold setsKFoldPattern kOrDefault
    simp only
    by_cases h1 : sel.length < k
    · simp [h1]
    · by_cases h2 : k = 0
      · simp [h1, h2]
      · simp only [h1, h2, if_false, Except.ok.injEq]
        constructor
        · intro h; exact ⟨by omega, by omega, h.symm⟩
        · intro h; exact h.2.2.symm
  · unfold setsKFoldRdm kOrDefault
    simp only
    by_cases h1 : sel.length < k
    · simp [h1]
    · by_cases h2 : k = 0
      · simp [h1, h2]
      · simp only [h1, h2, if_false, Except.ok.injEq]
        constructor
        · intro h; exact ⟨by omega, by omega, h.symm⟩
        · intro h; exact h.2.2.symm

/-- groups-of-k: accepted exactly when `1 ≤ k` and `2k ≤ n`; then it is the k-fold split
    into `⌊n/k⌋ ≥ 2` folds (always more than one fold) whose test folds hold at least `k`
    groups. -/
theorem of_k_spec (o : Obj) (sel : List Nat) (k : Nat) (hk : 1 ≤ k) (h2 : 2 * k ≤ sel.length) :
    setsOfKPattern o sel k = .ok ((kFoldPatternV sel (sel.length / k)).map (realize o)) ∧
    setsOfKRdm o sel k = .ok ((kFoldRdmV sel (sel.length / k)).map (realize o)) ∧
    2 ≤ sel.length / k ∧ sel.length / k ≤ sel.length ∧ k ≤ sel.length / (sel.length / k) := by
  have hk0 : k ≠ 0 := by omega
  have hge : 2 ≤ sel.length / k := (Nat.le_div_iff_mul_le (by omega)).2 h2
  have hle : sel.length / k ≤ sel.length := Nat.div_le_self _ _
  have hkk : k ≤ sel.length / (sel.length / k) := by
    rw [Nat.le_div_iff_mul_le (by omega)]
    rw [Nat.mul_comm]
    exact Nat.div_mul_le_self _ _
  refine ⟨?_, ?_, hge, hle, hkk⟩
  · have hA : ¬ sel.length < 2 * k := by omega
    have := ((sets_ok_iff o sel (sel.length / k)
      ((kFoldPatternV sel (sel.length / k)).map (realize o))).1).2 ⟨by omega, hle, rfl⟩
    simp only [setsOfKPattern, hA, hk0, if_false, Rsa.Gen.C05.nGroupsOfKPattern]
    exact this
  · have hA : ¬ sel.length < 2 * k := by omega
    have := ((sets_ok_iff o sel (sel.length / k)
      ((kFoldRdmV sel (sel.length / k)).map (realize o))).2).2 ⟨by omega, hle, rfl⟩
    simp only [setsOfKRdm, hA, hk0, if_false, Rsa.Gen.C05.nGroupsOfKRdm]
    exact this

/-- leave-one-out: one fold per value; the left-out value is not among the training values,
    every other value is; with at least two RDM groups the RDM version does the same on the
    RDM axis (with one group it returns the whole object as its single training = test set). -/
theorem loo_spec (sel : List Nat) (hn : sel.Nodup) :
    looPatternV sel = sel.map (fun v =>
      { rTrain := none, rTest := none, pTrain := some (sel.filter (· != v)), pTest := some [v],
        hasCeil := true }) ∧
    (1 < sel.length → looRdmV sel = sel.map (fun v =>
      { rTrain := some (sel.filter (· != v)), rTest := some [v], pTrain := none, pTest := none,
        hasCeil := true, bySubset := true })) ∧
    (∀ v ∈ sel, List.Disjoint (sel.filter (· != v)) [v] ∧
      ∀ w ∈ sel, (w ∈ sel.filter (· != v) ∨ w ∈ [v])) ∧
    (sel.map (fun v => [v])).flatten = sel := by
  refine ⟨rfl, ?_, ?_, ?_⟩
  · intro h
    simp [looRdmV, h]
  · intro v hv
    constructor
    · intro w hw hw'
      simp only [List.mem_filter, bne_iff_ne, ne_eq] at hw
      simp only [List.mem_singleton] at hw'
      exact hw.2 hw'
    · intro w hw
      by_cases h : w = v
      · right; simp [h]
      · left; simp [List.mem_filter, hw, h]
  · induction sel with
    | nil => rfl
    | cons x xs ih =>
      simp only [List.map_cons, List.flatten_cons, List.singleton_append]
      rw [ih (List.nodup_cons.1 hn).2]

/-- `sets_random`: for every shuffle outcome, a requested test size > 0 gives disjoint test
    and training values whose concatenation is the shuffled list; a ceiling set is returned. -/
theorem random_sets_disjoint (draws : List (List Nat × List Nat)) (nr np : Nat)
    (hd : ∀ d ∈ draws, d.1.Nodup ∧ d.2.Nodup) :
    ∀ vf ∈ randomV draws nr np, ∃ d ∈ draws, ∃ rt rtr pt ptr,
      vf.rTest = some rt ∧ vf.rTrain = some rtr ∧ vf.pTest = some pt ∧ vf.pTrain = some ptr ∧
      vf.hasCeil = true ∧
      (0 < nr → List.Disjoint rtr rt ∧ rt ++ rtr = d.1 ∧ rt = d.1.take nr) ∧
      (0 < np → List.Disjoint ptr pt ∧ pt ++ ptr = d.2 ∧ pt = d.2.take np) ∧
      (nr = 0 → rt = d.1 ∧ rtr = d.1) ∧ (np = 0 → pt = d.2 ∧ ptr = d.2) := by
  intro vf hvf
  simp only [randomV, List.mem_map] at hvf
  obtain ⟨d, hdm, rfl⟩ := hvf
  refine ⟨d, hdm, _, _, _, _, rfl, rfl, rfl, rfl, rfl, ?_, ?_, ?_, ?_⟩
  · intro h
    have h0 : nr ≠ 0 := by omega
    simp only [h0, if_false]
    refine ⟨fun a ha hb => List.disjoint_take_drop (hd d hdm).1 (Nat.le_refl nr) hb ha,
      List.take_append_drop nr d.1, ?_⟩
    first | rfl | trivial
  · intro h
    have h0 : np ≠ 0 := by omega
    simp only [h0, if_false]
    refine ⟨fun a ha hb => List.disjoint_take_drop (hd d hdm).2 (Nat.le_refl np) hb ha,
      List.take_append_drop np d.2, ?_⟩
    first | rfl | trivial
  · intro h; simp [h]
  · intro h; simp [h]

/-! ### 5. from values to RDMs and conditions -/

/-- all members (and bootstrap copies) of a group are on the same side: membership of an RDM
    (a condition) in any handed-out part depends only on its descriptor value, and a part
    holds *every* RDM (condition) of the groups it holds. -/
theorem groups_same_side (o : Obj) (sub : Bool) (rv pv : Option (List Nat)) :
    (∀ j, j ∈ (mkPart o sub rv pv).rows ↔ j < o.nR ∧ ∀ v, rv = some v → o.rdesc j ∈ v) ∧
    (∀ i, i ∈ (mkPart o sub rv pv).conds ↔ i < o.nC ∧ ∀ v, pv = some v → o.pdesc i ∈ v) ∧
    (∀ j j', j < o.nR → j' < o.nR → o.rdesc j = o.rdesc j' →
      (j ∈ (mkPart o sub rv pv).rows ↔ j' ∈ (mkPart o sub rv pv).rows)) ∧
    (∀ i i', i < o.nC → i' < o.nC → o.pdesc i = o.pdesc i' →
      (i ∈ (mkPart o sub rv pv).conds ↔ i' ∈ (mkPart o sub rv pv).conds)) := by
  refine ⟨fun j => mem_selRows, fun i => mem_selConds, ?_, ?_⟩
  · intro j j' hj hj' hd
    simp only [mkPart]
    rw [mem_selRows, mem_selRows, hd]
    simp [hj, hj']
  · intro i i' hi hi' hd
    simp only [mkPart]
    rw [mem_selConds, mem_selConds, hd]
    simp [hi, hi']

/-- disjoint value lists give disjoint descriptor groups: no RDM (condition) of the test
    part shares its descriptor value with an RDM (condition) of the training part. -/
theorem realize_disjoint (o : Obj) (vf : VFold) :
    (∀ tr te, vf.rTrain = some tr → vf.rTest = some te → List.Disjoint tr te →
      ∀ j ∈ (realize o vf).test.rows, ∀ j' ∈ (realize o vf).train.rows, o.rdesc j ≠ o.rdesc j') ∧
    (∀ tr te, vf.pTrain = some tr → vf.pTest = some te → List.Disjoint tr te →
      ∀ i ∈ (realize o vf).test.conds, ∀ i' ∈ (realize o vf).train.conds,
        o.pdesc i ≠ o.pdesc i') := by
  constructor
  · intro tr te htr hte hd j hj j' hj' heq
    simp only [realize, mkPart] at hj hj'
    rw [mem_selRows] at hj hj'
    have h1 := hj.2 te hte
    have h2 := hj'.2 tr htr
    rw [heq] at h1
    exact hd h2 h1
  · intro tr te htr hte hd i hi i' hi' heq
    simp only [realize, mkPart] at hi hi'
    rw [mem_selConds] at hi hi'
    have h1 := hi.2 te hte
    have h2 := hi'.2 tr htr
    rw [heq] at h1
    exact hd h2 h1

/-- exhaustive schemes put every RDM / condition in exactly one test fold: for `sel` any
    rearrangement of the distinct descriptor values and `1 ≤ k ≤ n`, every condition is in
    the test part of exactly one fold of `sets_k_fold_pattern`, every RDM in the test part of
    exactly one fold of `sets_k_fold_rdm`. -/
theorem exhaustive_once (o : Obj) (k : Nat) (hk : 1 ≤ k) :
    (∀ sel : List Nat, sel.Perm (uniq (descList o.nC o.pdesc)) → k ≤ sel.length →
      ∀ i, i < o.nC → ∃! g, g < k ∧ ∃ vf, (kFoldPatternV sel k)[g]? = some vf ∧
        i ∈ (realize o vf).test.conds) ∧
    (∀ sel : List Nat, sel.Perm (uniq (descList o.nR o.rdesc)) → k ≤ sel.length →
      ∀ j, j < o.nR → ∃! g, g < k ∧ ∃ vf, (kFoldRdmV sel k)[g]? = some vf ∧
        j ∈ (realize o vf).test.rows) := by
  constructor
  · intro sel hp hkn i hi
    have hn : sel.Nodup := hp.nodup_iff.2 (uniq_nodup _)
    have hv : o.pdesc i ∈ sel := by
      rw [hp.mem_iff, mem_uniq, mem_descList]
      exact ⟨i, hi, rfl⟩
    obtain ⟨g, ⟨hg, hmem⟩, huniq⟩ := (split_vals_partition sel k hn hk hkn).2.2 _ hv
    have hget : ∀ g, g < k → (kFoldPatternV sel k)[g]? = some
        { rTrain := none, rTest := none,
          pTrain := some (splitFold sel k (sel.length / k) (sel.length % k) g).1,
          pTest := some (splitFold sel k (sel.length / k) (sel.length % k) g).2,
          hasCeil := false } := by
      intro g hg
      rw [kfold_pattern_spec]
      simp [hg]
    refine ⟨g, ⟨hg, _, hget g hg, ?_⟩, ?_⟩
    · simp only [realize, mkPart]
      rw [mem_selConds]
      refine ⟨hi, ?_⟩
      intro v hv'
      simp only [Option.some.injEq] at hv'
      subst hv'
      exact hmem
    · rintro g' ⟨hg', vf, hvf, hmem'⟩
      apply huniq
      refine ⟨hg', ?_⟩
      rw [hget g' hg'] at hvf
      simp only [Option.some.injEq] at hvf
      subst hvf
      simp only [realize, mkPart] at hmem'
      rw [mem_selConds] at hmem'
      exact hmem'.2 _ rfl
  · intro sel hp hkn j hj
    have hn : sel.Nodup := hp.nodup_iff.2 (uniq_nodup _)
    have hv : o.rdesc j ∈ sel := by
      rw [hp.mem_iff, mem_uniq, mem_descList]
      exact ⟨j, hj, rfl⟩
    obtain ⟨g, ⟨hg, hmem⟩, huniq⟩ := (split_vals_partition sel k hn hk hkn).2.2 _ hv
    have hget : ∀ g, g < k → (kFoldRdmV sel k)[g]? = some
        { rTrain := some (valsAt sel ((List.range sel.length).filter
            (fun i => !(foldTestIdx sel.length (sel.length / k) (sel.length % k) g).contains i))),
          rTest := some (splitFold sel k (sel.length / k) (sel.length % k) g).2,
          pTrain := none, pTest := none, hasCeil := true } := by
      intro g hg
      rw [(kfold_rdm_spec sel k hn hk hkn).1]
      simp [hg]
    refine ⟨g, ⟨hg, _, hget g hg, ?_⟩, ?_⟩
    · simp only [realize, mkPart]
      rw [mem_selRows]
      refine ⟨hj, ?_⟩
      intro v hv'
      simp only [Option.some.injEq] at hv'
      subst hv'
      exact hmem
    · rintro g' ⟨hg', vf, hvf, hmem'⟩
      apply huniq
      refine ⟨hg', ?_⟩
      rw [hget g' hg'] at hvf
      simp only [Option.some.injEq] at hvf
      subst hvf
      simp only [realize, mkPart] at hmem'
      rw [mem_selRows] at hmem'
      exact hmem'.2 _ rfl

/-! ### 6. contents of the handed-out objects -/

/-- the dissimilarities the code stores in a part (boolean mask over the condensed vector,
    keyed by the advertised `pattern_idx`) are exactly the input entries of its RDMs for all
    pairs of its conditions, in condensed order; and its conditions are exactly the input
    conditions whose descriptor value is advertised. -/
theorem contents_as_advertised {α : Type} (o : Obj) (dis : Nat → List α) (d : Nat → Nat → Nat → α)
    (hd : ∀ r, dis r = (pairs o.nC).map (fun q => d r q.1 q.2))
    (sub : Bool) (rv pv : Option (List Nat)) :
    extractCoded o dis pv.isNone (mkPart o sub rv pv) = extractSpec d (mkPart o sub rv pv) ∧
    (∀ v, pv = some v → (mkPart o sub rv pv).pidx = v ∧
      (mkPart o sub rv pv).conds = (List.range o.nC).filter (fun i => v.contains (o.pdesc i))) ∧
    (pv = none → (mkPart o sub rv pv).conds = List.range o.nC ∧
      (mkPart o sub rv pv).pidx = List.range o.nC) := by
  refine ⟨?_, ?_, ?_⟩
  · cases pv with
    | none =>
      simp only [extractCoded, extractSpec, mkPart, selConds, Option.isNone_none, if_true]
      apply List.map_congr_left
      intro r _
      rw [hd r]
      rfl
    | some v =>
      simp only [extractCoded, extractSpec, mkPart, selConds, Option.isNone_some, subsetSel]
      apply List.map_congr_left
      intro r _
      rw [hd r]
      simp only [Bool.false_eq_true, if_false]
      exact maskVec_eq o.nC (fun i => v.contains (o.pdesc i)) (d r)
  · intro v hv
    subst hv
    exact ⟨rfl, rfl⟩
  · intro hv
    subst hv
    exact ⟨rfl, rfl⟩

/-- the ceiling set, where provided, is the training RDMs at the test conditions -/
theorem ceil_is_train_at_test (o : Obj) (vf : VFold) :
    (vf.hasCeil = true → ∃ c, (realize o vf).ceil = some c ∧
      c.rows = (realize o vf).train.rows ∧ c.conds = (realize o vf).test.conds ∧
      c.pidx = (realize o vf).test.pidx) ∧
    (vf.hasCeil = false → (realize o vf).ceil = none) := by
  constructor
  · intro h
    exact ⟨mkPart o vf.bySubset vf.rTrain vf.pTest, by simp [realize, h], rfl, rfl, rfl⟩
  · intro h
    simp [realize, h]

/-! ### 7. non-interference in `crossval` -/

/-- the training object does not change when any dissimilarity that involves a test-only
    condition or a test-only RDM (anything outside the training RDMs × training conditions)
    is altered. -/
theorem trainSet_indep_of_test_only {α : Type} (f : Fold) (d d' : Nat → Nat → Nat → α)
    (h : ∀ r i j, r ∈ f.train.rows → i ∈ f.train.conds → j ∈ f.train.conds → d r i j = d' r i j) :
    extractSpec d f.train = extractSpec d' f.train := by
  unfold extractSpec
  apply List.map_congr_left
  intro r hr
  apply List.map_congr_left
  intro q hq
  exact h r q.1 q.2 hr (mem_pairsOf hq).1 (mem_pairsOf hq).2

/-- … hence the parameters fitted for the fold do not change, for every fitter; in
    particular (second part) when the fold comes from disjoint value lists, overwriting *all*
    dissimilarities of the test RDMs and all dissimilarities involving a test condition
    leaves θ unchanged. -/
theorem theta_indep_of_test_only {α Θ : Type} (fit : List (List α) → List Nat → Θ) :
    (∀ (f : Fold) (d d' : Nat → Nat → Nat → α),
      (∀ r i j, r ∈ f.train.rows → i ∈ f.train.conds → j ∈ f.train.conds → d r i j = d' r i j) →
      foldTheta fit d f = foldTheta fit d' f) ∧
    (∀ (o : Obj) (vf : VFold) (rtr rte ptr pte : List Nat) (d d' : Nat → Nat → Nat → α),
      vf.rTrain = some rtr → vf.rTest = some rte → List.Disjoint rtr rte →
      vf.pTrain = some ptr → vf.pTest = some pte → List.Disjoint ptr pte →
      (∀ r i j, r ∉ (realize o vf).test.rows → i ∉ (realize o vf).test.conds →
        j ∉ (realize o vf).test.conds → d r i j = d' r i j) →
      foldTheta fit d (realize o vf) = foldTheta fit d' (realize o vf)) := by
  constructor
  · intro f d d' h
    unfold foldTheta
    rw [trainSet_indep_of_test_only f d d' h]
  · intro o vf rtr rte ptr pte d d' h1 h2 hdr h3 h4 hdp h
    unfold foldTheta
    rw [trainSet_indep_of_test_only (realize o vf) d d']
    intro r i j hr hi hj
    have hD := realize_disjoint o vf
    apply h
    · intro hr'
      exact hD.1 rtr rte h1 h2 hdr r hr' r hr rfl
    · intro hi'
      exact hD.2 ptr pte h3 h4 hdp i hi' i hi rfl
    · intro hj'
      exact hD.2 ptr pte h3 h4 hdp j hj' j hj rfl

/-- with θ held fixed, the score of the fold does not change when training-only data
    (anything outside the test RDMs × test conditions) are altered. -/
theorem score_indep_of_train_only {α Θ S : Type} (score : Θ → List Nat → List (List α) → S)
    (θ : Θ) (f : Fold) (d d' : Nat → Nat → Nat → α)
    (h : ∀ r i j, r ∈ f.test.rows → i ∈ f.test.conds → j ∈ f.test.conds → d r i j = d' r i j) :
    foldScore score θ d f = foldScore score θ d' f := by
  unfold foldScore extractSpec
  congr 1
  apply List.map_congr_left
  intro r hr
  apply List.map_congr_left
  intro q hq
  exact h r q.1 q.2 hr (mem_pairsOf hq).1 (mem_pairsOf hq).2

/-! ### 8. expansion of fold pattern ids to bootstrap multiplicities -/

/-- `_concat_sampling boot ids` repeats every fold id as often as the bootstrap drew it and
    contains nothing else -/
theorem concat_sampling_count (boot ids : List Nat) (h : ids.Nodup) (v : Nat) :
    (concatSampling boot ids).count v = if v ∈ ids then boot.count v else 0 :=
  count_concatSampling boot h v

/-- expansion keeps training and test ids disjoint -/
theorem concat_sampling_disjoint (boot a b : List Nat) (h : List.Disjoint a b) :
    List.Disjoint (concatSampling boot a) (concatSampling boot b) := by
  intro x hx hx'
  exact h (mem_concatSampling.1 hx).2 (mem_concatSampling.1 hx').2

/-! ### non-vacuity: concrete objects meeting the hypotheses -/

-- 7 groups in 3 folds: sizes 3, 2, 2, the enlarged fold takes the last position
example : (List.range 3).map (foldTestIdx 7 (7 / 3) (7 % 3)) = [[0, 1, 6], [2, 3], [4, 5]] := by
  decide
-- a shuffled, duplicate-free value list and its split into 2 folds
example : [5, 2, 9, 7, 3].Nodup ∧ 1 ≤ 2 ∧ 2 ≤ [5, 2, 9, 7, 3].length ∧
    splitFold [5, 2, 9, 7, 3] 2 (5 / 2) (5 % 2) 0 = ([9, 7], [5, 2, 3]) := by decide
-- `uniq` of a descriptor with bootstrap copies, and a rearrangement of it
example : uniq [4, 1, 4, 7, 1] = [1, 4, 7] ∧ [7, 1, 4].Perm (uniq [4, 1, 4, 7, 1]) := by
  decide
-- groups-of-k hypotheses: 7 groups, k = 3
example : 1 ≤ 3 ∧ 2 * 3 ≤ [0, 1, 2, 3, 4, 5, 6].length := by decide
-- a random draw with positive test size
example : ([3, 1, 2], [0, 4, 5, 6]).1.Nodup ∧ ([3, 1, 2], [0, 4, 5, 6]).2.Nodup ∧ 0 < 1 := by decide
-- a realised fold with disjoint training / test values on both axes (3 RDMs in 2 groups with
-- a copy, 4 conditions in 3 groups)
private def exObj : Obj :=
  { nR := 3, nC := 4, rdesc := fun j => [5, 8, 5].getD j 0, pdesc := fun i => [1, 2, 1, 3].getD i 0 }
private def exVFold : VFold :=
  { rTrain := some [8], rTest := some [5], pTrain := some [2, 3], pTest := some [1], hasCeil := true }
example :
    (realize exObj exVFold).test.rows = [0, 2] ∧ (realize exObj exVFold).train.rows = [1] ∧
    (realize exObj exVFold).test.conds = [0, 2] ∧ (realize exObj exVFold).train.conds = [1, 3] ∧
    List.Disjoint [8] [5] ∧ List.Disjoint [2, 3] [1] := by
  refine ⟨by decide, by decide, by decide, by decide, ?_, ?_⟩ <;> simp [List.Disjoint]
-- bootstrap expansion
example : concatSampling [3, 1, 3, 5, 0, 1] [1, 5] = [1, 1, 5] ∧ [1, 5].Nodup := by decide


/-! ### round 2: additions (nothing above is changed) -/

/-- which value-level folds `sets_k_fold` produces: exactly one per (RDM fold `g`, pattern
    fold `h`), built from the `g`-th RDM split and the `h`-th split of the `g`-th pattern
    shuffle. -/
theorem kfold_both_mem (rsel : List Nat) (kr : Nat) (psels : List (List Nat)) (kp : Nat)
    (vf : VFold) :
    vf ∈ kFoldV rsel kr psels kp ↔ ∃ g h ps, g < kr ∧ h < kp ∧ psels[g]? = some ps ∧
      vf = { rTrain := some (splitFold rsel kr (rsel.length / kr) (rsel.length % kr) g).1,
             rTest := some (splitFold rsel kr (rsel.length / kr) (rsel.length % kr) g).2,
             pTrain := some (splitFold ps kp (ps.length / kp) (ps.length % kp) h).1,
             pTest := some (splitFold ps kp (ps.length / kp) (ps.length % kp) h).2,
             hasCeil := true } := by
  rw [kfold_both_spec]
  simp only [List.mem_flatMap, List.mem_map, List.mem_range, Prod.exists]
  constructor
  · rintro ⟨g, ps, hz, h, hh, rfl⟩
    rw [mem_zip_range] at hz
    exact ⟨g, h, ps, hz.1, hh, hz.2, rfl⟩
  · rintro ⟨g, h, ps, hg, hh, hps, rfl⟩
    exact ⟨g, ps, mem_zip_range.2 ⟨hg, hps⟩, h, hh, rfl⟩

/-- the two-axis k-fold scheme is exhaustive at item level: for every shuffle outcome on
    both axes (a fresh one per RDM fold on the pattern axis), every (RDM, condition) cell of
    the data lies in the test part (test RDMs × test conditions) of exactly one fold. -/
theorem kfold_both_exhaustive_once (o : Obj) (rsel : List Nat) (kr : Nat)
    (psels : List (List Nat)) (kp : Nat)
    (hr : rsel.Perm (uniq (descList o.nR o.rdesc)))
    (hlen : psels.length = kr)
    (hp : ∀ ps ∈ psels, ps.Perm (uniq (descList o.nC o.pdesc)) ∧ kp ≤ ps.length)
    (hkr : 1 ≤ kr) (hkrn : kr ≤ rsel.length) (hkp : 1 ≤ kp) :
    ∀ j i, j < o.nR → i < o.nC → ∃! gh : Nat × Nat, gh.1 < kr ∧ gh.2 < kp ∧ ∃ ps,
      psels[gh.1]? = some ps ∧
      j ∈ (realize o
        { rTrain := some (splitFold rsel kr (rsel.length / kr) (rsel.length % kr) gh.1).1,
          rTest := some (splitFold rsel kr (rsel.length / kr) (rsel.length % kr) gh.1).2,
          pTrain := some (splitFold ps kp (ps.length / kp) (ps.length % kp) gh.2).1,
          pTest := some (splitFold ps kp (ps.length / kp) (ps.length % kp) gh.2).2,
          hasCeil := true }).test.rows ∧
      i ∈ (realize o
        { rTrain := some (splitFold rsel kr (rsel.length / kr) (rsel.length % kr) gh.1).1,
          rTest := some (splitFold rsel kr (rsel.length / kr) (rsel.length % kr) gh.1).2,
          pTrain := some (splitFold ps kp (ps.length / kp) (ps.length % kp) gh.2).1,
          pTest := some (splitFold ps kp (ps.length / kp) (ps.length % kp) gh.2).2,
          hasCeil := true }).test.conds := by
  intro j i hj hi
  have hnr : rsel.Nodup := hr.nodup_iff.2 (uniq_nodup _)
  have hvr : o.rdesc j ∈ rsel := by
    rw [hr.mem_iff, mem_uniq, mem_descList]; exact ⟨j, hj, rfl⟩
  obtain ⟨g, ⟨hg, hgm⟩, hgu⟩ := (split_vals_partition rsel kr hnr hkr hkrn).2.2 _ hvr
  have hgl : g < psels.length := by omega
  have hps : psels[g]? = some psels[g] := List.getElem?_eq_getElem hgl
  have hpsm : psels[g] ∈ psels := List.getElem_mem hgl
  obtain ⟨hpp, hpk⟩ := hp _ hpsm
  have hnp : (psels[g]).Nodup := hpp.nodup_iff.2 (uniq_nodup _)
  have hvp : o.pdesc i ∈ psels[g] := by
    rw [hpp.mem_iff, mem_uniq, mem_descList]; exact ⟨i, hi, rfl⟩
  obtain ⟨h, ⟨hh, hhm⟩, hhu⟩ := (split_vals_partition psels[g] kp hnp hkp hpk).2.2 _ hvp
  refine ⟨(g, h), ⟨hg, hh, psels[g], hps, ?_, ?_⟩, ?_⟩
  · simp only [realize, mkPart]
    rw [mem_selRows]
    exact ⟨hj, fun v hv => by simp only [Option.some.injEq] at hv; subst hv; exact hgm⟩
  · simp only [realize, mkPart]
    rw [mem_selConds]
    exact ⟨hi, fun v hv => by simp only [Option.some.injEq] at hv; subst hv; exact hhm⟩
  · rintro ⟨g', h'⟩ ⟨hg', hh', ps, hps', hjm, him⟩
    simp only [realize, mkPart] at hjm him
    rw [mem_selRows] at hjm
    rw [mem_selConds] at him
    have e1 : g' = g := hgu g' ⟨hg', hjm.2 _ rfl⟩
    subst e1
    rw [hps] at hps'
    simp only [Option.some.injEq] at hps'
    subst hps'
    have e2 : h' = h := hhu h' ⟨hh', him.2 _ rfl⟩
    subst e2
    rfl

/-- bootstrap path: when the conditions of the sample carry, as descriptor values, a
    rearrangement of the drawn pattern ids `boot` (what `subsample_pattern` produces), the
    `pattern_idx` handed to the fitter (`_concat_sampling boot ids`) has exactly the
    multiplicities of the conditions of the part selected by the fold ids `ids`:
    prediction rows and data rows correspond one to one. -/
theorem concat_sampling_matches_object (o : Obj) (boot ids : List Nat)
    (hb : (descList o.nC o.pdesc).Perm boot) (hn : ids.Nodup) (sub : Bool)
    (rv : Option (List Nat)) :
    ((mkPart o sub rv (some ids)).conds.map o.pdesc).Perm (concatSampling boot ids) := by
  rw [List.perm_iff_count]
  intro v
  rw [count_concatSampling boot hn v]
  have h1 : (mkPart o sub rv (some ids)).conds.map o.pdesc
      = (descList o.nC o.pdesc).filter (fun x => ids.contains x) := by
    simp only [mkPart, selConds, subsetSel, descList, List.filter_map, Function.comp_def]
  rw [h1, count_filter_contains, hb.count_eq]

-- non-vacuity: a bootstrap sample of 5 conditions drawn as [3, 1, 3, 0, 1]
private def exBootObj : Obj :=
  { nR := 1, nC := 5, rdesc := fun _ => 0, pdesc := fun i => [0, 1, 1, 3, 3].getD i 0 }
example : (descList exBootObj.nC exBootObj.pdesc).Perm [3, 1, 3, 0, 1] ∧ [3, 0].Nodup ∧
    (mkPart exBootObj false none (some [3, 0])).conds = [0, 3, 4] ∧
    concatSampling [3, 1, 3, 0, 1] [3, 0] = [3, 3, 0] := by decide
-- non-vacuity of `kfold_both_exhaustive_once`: 3 RDM groups in 2 folds, two pattern shuffles
example : [2, 0, 1].Perm (uniq (descList 4 (fun j => [0, 1, 1, 2].getD j 0))) ∧
    [[1, 0, 2], [2, 1, 0]].length = 2 ∧
    (∀ ps ∈ [[1, 0, 2], [2, 1, 0]], ps.Perm (uniq (descList 3 (fun i => i))) ∧ 2 ≤ ps.length) := by
  decide


/-- the default fold counts are accepted whenever there are at least two groups, and the
    default pattern split leaves at least three condition groups in every test fold as soon
    as there are six (so `crossval` does not skip such folds: it skips parts with ≤ 2
    conditions). -/
theorem default_k_accepted (n : Nat) (h : 2 ≤ n) :
    (Rsa.Gen.C05.defaultKRdm n).toNat ≤ n ∧ (Rsa.Gen.C05.defaultKPattern n).toNat ≤ n ∧
    1 ≤ (Rsa.Gen.C05.defaultKRdm n).toNat ∧ 1 ≤ (Rsa.Gen.C05.defaultKPattern n).toNat ∧
    (6 ≤ n → 3 ≤ n / (Rsa.Gen.C05.defaultKPattern n).toNat) := by
  simp only [Rsa.Gen.C05.defaultKPattern, Rsa.Gen.C05.defaultKRdm]
  refine ⟨?_, ?_, ?_, ?_, ?_⟩
  · (repeat' split) <;> simp <;> omega
  · (repeat' split) <;> simp <;> omega
  · (repeat' split) <;> simp
  · (repeat' split) <;> simp
  · intro h6
    (repeat' split) <;> simp <;> omega

/-- `bootstrap_crossval` calls the default-k functions on a real number (the expected
    number of distinct groups of a bootstrap sample); on every ordered field the generated
    text gives a value in [2, 5], is monotone, and agrees with the integer version on
    natural arguments. -/
theorem default_k_real {K : Type} [Field K] [LinearOrder K] [IsStrictOrderedRing K]
    (x y : K) (hxy : x ≤ y) (n : Nat) :
    2 ≤ Rsa.Gen.C05.defaultKPatternReal x ∧ Rsa.Gen.C05.defaultKPatternReal x ≤ 5 ∧
    2 ≤ Rsa.Gen.C05.defaultKRdmReal x ∧ Rsa.Gen.C05.defaultKRdmReal x ≤ 5 ∧
    Rsa.Gen.C05.defaultKPatternReal x ≤ Rsa.Gen.C05.defaultKPatternReal y ∧
    Rsa.Gen.C05.defaultKRdmReal x ≤ Rsa.Gen.C05.defaultKRdmReal y ∧
    Rsa.Gen.C05.defaultKPatternReal (n : K) = Rsa.Gen.C05.defaultKPattern n ∧
    Rsa.Gen.C05.defaultKRdmReal (n : K) = Rsa.Gen.C05.defaultKRdm n := by
  simp only [Rsa.Gen.C05.defaultKPatternReal, Rsa.Gen.C05.defaultKRdmReal,
    Rsa.Gen.C05.defaultKPattern, Rsa.Gen.C05.defaultKRdm, Nat.cast_lt]
  refine ⟨?_, ?_, ?_, ?_, ?_, ?_, trivial, trivial⟩ <;> (repeat' split) <;>
    first | omega | (exfalso; linarith)


/-! ## round 3 — the code as written (derived leaves), index alignment, crossval glue

The definitions of `Rsa.Core.FoldsGlue` are built from leaves that `harness/leaves/C05.py`
extracts from the current source text (loop bodies, `assert`s, dispatch tests).  The theorems
below tie them to the model above; a source edit that changes one of these pieces changes a
leaf and breaks the corresponding proof. -/

open Rsa.Gen.C05 in
/-- the loop body of each k-fold generator, as written today: the positions tested by fold
    `g` are the block `[g·⌊n/k⌋, (g+1)·⌊n/k⌋)` plus position `n-(g+1)` for `g < n mod k`; the
    training positions are the complement (the test positions themselves for `k ≤ 1`, except in
    `sets_k_fold_rdm`, which has no such case); the loop makes `k` folds; the `assert` accepts
    exactly `k ≤ n`. -/
theorem leaf_loop_positions (n k g : Nat) (t : List Nat) :
    (testIdxC leavesKFold n k g = foldTestIdx n (n / k) (n % k) g ∧
     testIdxC leavesKFoldRdm n k g = foldTestIdx n (n / k) (n % k) g ∧
     testIdxC leavesKFoldPattern n k g = foldTestIdx n (n / k) (n % k) g) ∧
    (trainIdxC leavesKFold n k t = foldTrainIdx n k t ∧
     trainIdxC leavesKFoldPattern n k t = foldTrainIdx n k t ∧
     trainIdxC leavesKFoldRdm n k t = (List.range n).filter (fun i => !t.contains i)) ∧
    (leavesKFold.nFolds k = k ∧ leavesKFoldRdm.nFolds k = k ∧ leavesKFoldPattern.nFolds k = k) ∧
    ((acceptKFold k n = 1 ↔ k ≤ n) ∧ (acceptKFoldRdm k n = 1 ↔ k ≤ n) ∧
     (acceptKFoldPattern k n = 1 ↔ k ≤ n)) :=
  ⟨⟨testIdxC_kFold n k g, testIdxC_kFoldRdm n k g, testIdxC_kFoldPattern n k g⟩,
   ⟨trainIdxC_kFold n k t, trainIdxC_kFoldPattern n k t, trainIdxC_kFoldRdm n k t⟩,
   ⟨rfl, rfl, rfl⟩,
   ⟨guard_eq_one, guard_eq_one, guard_eq_one⟩⟩

open Rsa.Gen.C05 in
/-- the dispatch tests of `crossval`, `_internal_cv`, `bootstrap_crossval` and the pairing
    subscripts of `cv_noise_ceiling`, as written today. -/
theorem leaf_dispatch_tests (a b c d i : Nat) :
    (cvSkip a b c d = 1 ↔ (a = 0 ∨ b = 0 ∨ c ≤ 2 ∨ d ≤ 2)) ∧
    (cvLenOk a b = 1 ↔ a = b) ∧ (cvCeilLenOk a b = 1 ↔ a = b) ∧
    (icvUsesCvNc a b = 1 ↔ (1 < a ∨ 1 < b)) ∧
    (bootcvGuard a b c d = 1 ↔ (b ≤ a ∧ 3 * d ≤ c)) ∧
    ncCeilIndex i = i ∧ ncTestIndex i = i ∧
    (randomNoSplitRdm a = 1 ↔ a = 0) ∧ (randomNoSplitPattern a = 1 ↔ a = 0) ∧
    randomTestHiRdm a = a ∧ randomTrainLoRdm a = a ∧ randomTrainHiRdm a = a ∧ randomFullRdm a = a ∧
    randomTestHiPattern a = a ∧ randomTrainLoPattern a = a ∧ randomTrainHiPattern a = a ∧
    randomFullPattern a = a :=
  ⟨guard_eq_one, guard_eq_one, guard_eq_one, guard_eq_one, guard_eq_one, rfl, rfl,
   guard_eq_one, guard_eq_one, rfl, rfl, rfl, rfl, rfl, rfl, rfl, rfl⟩

/-- the three lists `train_set`, `test_set`, `ceil_set`, built separately as the code builds
    them (`sets_k_fold` deep-copies the inner test sets as ceiling sets and then substitutes the
    test objects; `sets_k_fold_rdm` aliases `ceil_set = train_set`), are index-aligned: entry `q`
    of each list belongs to the same fold of the model's fold list, and the ceiling entry is the
    training RDMs at the test conditions of that same fold. -/
theorem sets_lists_aligned (o : Obj) (rsel : List Nat) (kr : Nat) (psels : List (List Nat))
    (kp : Nat) (sel : List Nat) (k : Nat) :
    ((kFoldSets o rsel kr psels kp).trains
        = ((kFoldV rsel kr psels kp).map (realize o)).map (·.train) ∧
     (kFoldSets o rsel kr psels kp).tests
        = ((kFoldV rsel kr psels kp).map (realize o)).map (·.test) ∧
     (kFoldSets o rsel kr psels kp).ceils.map (List.map some)
        = some (((kFoldV rsel kr psels kp).map (realize o)).map (·.ceil))) ∧
    ((kFoldRdmSets o sel k).trains = ((kFoldRdmV sel k).map (realize o)).map (·.train) ∧
     (kFoldRdmSets o sel k).tests = ((kFoldRdmV sel k).map (realize o)).map (·.test) ∧
     (kFoldRdmSets o sel k).ceils.map (List.map some)
        = some (((kFoldRdmV sel k).map (realize o)).map (·.ceil))) ∧
    ((kFoldPatternSets o none sel k).trains
        = ((kFoldPatternV sel k).map (realize o)).map (·.train) ∧
     (kFoldPatternSets o none sel k).tests
        = ((kFoldPatternV sel k).map (realize o)).map (·.test) ∧
     (kFoldPatternSets o none sel k).ceils = none ∧
     ∀ f ∈ (kFoldPatternV sel k).map (realize o), f.ceil = none) := by
  refine ⟨?_, ?_, ?_⟩
  · obtain ⟨h1, h2, h3⟩ := kFoldSets_eq o rsel kr psels kp
    refine ⟨h1, h2, ?_⟩
    rw [h3]
    simp only [Option.map_some, List.map_map, Option.some.injEq]
    apply List.map_congr_left
    intro vf hvf
    obtain ⟨g, h, ps, _, _, _, rfl⟩ := (kfold_both_mem rsel kr psels kp vf).1 hvf
    simp [realize]
  · obtain ⟨h1, h2, h3⟩ := kFoldRdmSets_eq o sel k
    refine ⟨h1, h2, ?_⟩
    rw [h3, h1]
    simp only [Option.map_some, List.map_map, Option.some.injEq]
    apply List.map_congr_left
    intro vf hvf
    simp only [kFoldRdmV, List.mem_map] at hvf
    obtain ⟨g, _, rfl⟩ := hvf
    simp [realize]
  · obtain ⟨h1, h2, h3⟩ := kFoldPatternSets_folds o sel k
    refine ⟨h1, h2, h3, ?_⟩
    intro f hf
    simp only [kFoldPatternV, List.mem_map] at hf
    obtain ⟨vf, ⟨g, _, rfl⟩, rfl⟩ := hf
    simp [realize]

-- non-vacuity: 3 RDM groups in 2 folds × 3 pattern groups in 2 folds; list entry 1 is cell (0, 1)
example :
    (kFoldSets exObj [8, 5] 2 [[1, 2, 3], [3, 1, 2]] 2).trains.length = 4 ∧
    ((kFoldSets exObj [8, 5] 2 [[1, 2, 3], [3, 1, 2]] 2).tests.map (·.pidx)) = [[1, 3], [2], [3, 2], [1]] ∧
    ((kFoldSets exObj [8, 5] 2 [[1, 2, 3], [3, 1, 2]] 2).ceils.map (List.map (·.rows)))
      = some [[0, 2], [0, 2], [1], [1]] := by decide

/-- as-coded result (three lists) and model result (one fold list) say the same -/
def Agree (a : Except Err Sets) (b : Except Err (List Fold)) : Prop :=
  match a, b with
  | .ok s, .ok fs =>
      s.trains = fs.map (·.train) ∧ s.tests = fs.map (·.test) ∧
      ((s.ceils = none ∧ ∀ f ∈ fs, f.ceil = none) ∨
       s.ceils.map (List.map some) = some (fs.map (·.ceil)))
  | .error e, .error e' => e = e'
  | _, _ => False

open Rsa.Gen.C05 in
/-- `assert k <= len(select) / 2` (a comparison with a true quotient) accepts exactly
    `2·k ≤ n`, over the rationals the model computes with and over every ordered field -/
theorem of_k_accept_iff (k n : Nat) :
    (acceptOfKPattern ((k : Nat) : Rat) ((n : Nat) : Rat) = 1 ↔ 2 * k ≤ n) ∧
    (acceptOfKRdm ((k : Nat) : Rat) ((n : Nat) : Rat) = 1 ↔ 2 * k ≤ n) ∧
    (∀ {K : Type} [Field K] [LinearOrder K] [IsStrictOrderedRing K],
      (acceptOfKPattern ((k : Nat) : K) ((n : Nat) : K) = 1 ↔ 2 * k ≤ n) ∧
      (acceptOfKRdm ((k : Nat) : K) ((n : Nat) : K) = 1 ↔ 2 * k ≤ n)) := by
  have key : ∀ {K : Type} [Field K] [LinearOrder K] [IsStrictOrderedRing K],
      ((k : K) ≤ (n : K) / ((2 : Nat) : K) ↔ 2 * k ≤ n) := by
    intro K _ _ _
    rw [le_div_iff₀ (by norm_num : (0 : K) < ((2 : Nat) : K))]
    constructor
    · intro h
      have : ((k * 2 : Nat) : K) ≤ (n : K) := by push_cast; exact h
      have := Nat.cast_le.1 this
      omega
    · intro h
      have : ((k * 2 : Nat) : K) ≤ (n : K) := Nat.cast_le.2 (by omega)
      push_cast at this
      exact this
  refine ⟨?_, ?_, ?_⟩
  · unfold acceptOfKPattern
    rw [guard_eq_one]
    exact key (K := Rat)
  · unfold acceptOfKRdm
    rw [guard_eq_one]
    exact key (K := Rat)
  · intro K _ _ _
    constructor
    · unfold acceptOfKPattern
      rw [guard_eq_one]
      exact key
    · unfold acceptOfKRdm
      rw [guard_eq_one]
      exact key

/-- the entry points as written (defaults, `assert`s from the source text, the three lists)
    accept, reject and return exactly what the model's entry points do. -/
theorem coded_entry_points_agree (o : Obj) (sel rsel : List Nat) (k kr kp : Option Nat)
    (psels : List (List Nat)) (nPat m : Nat) :
    Agree (setsKFoldPatternC o sel k) (setsKFoldPattern o sel k) ∧
    Agree (setsKFoldRdmC o sel k) (setsKFoldRdm o sel k) ∧
    Agree (setsKFoldC o rsel kr psels nPat kp) (setsKFold o rsel kr psels nPat kp) ∧
    Agree (setsOfKPatternC o sel m) (setsOfKPattern o sel m) ∧
    Agree (setsOfKRdmC o sel m) (setsOfKRdm o sel m) := by
  have aF : ∀ a b, Rsa.Gen.C05.acceptKFold a b = 1 ↔ a ≤ b := fun _ _ => guard_eq_one
  have aR : ∀ a b, Rsa.Gen.C05.acceptKFoldRdm a b = 1 ↔ a ≤ b := fun _ _ => guard_eq_one
  have aP : ∀ a b, Rsa.Gen.C05.acceptKFoldPattern a b = 1 ↔ a ≤ b := fun _ _ => guard_eq_one
  have hP : ∀ k, Agree (setsKFoldPatternC o sel k) (setsKFoldPattern o sel k) := by
    intro k
    unfold setsKFoldPatternC setsKFoldPattern
    simp only
    generalize kOrDefault k (Rsa.Gen.C05.defaultKPattern sel.length) = k'
    by_cases h1 : sel.length < k'
    · have : Rsa.Gen.C05.acceptKFoldPattern k' sel.length ≠ 1 := by
        rw [Ne]; (first | rw [aF] | rw [aR] | rw [aP]); omega
      simp [this, h1, Agree]
    · have : ¬ Rsa.Gen.C05.acceptKFoldPattern k' sel.length ≠ 1 := by
        rw [Ne]; (first | rw [aF] | rw [aR] | rw [aP]); omega
      rw [if_neg this, if_neg h1]
      by_cases h2 : k' = 0
      · simp [h2, Agree]
      · rw [if_neg h2, if_neg h2]
        obtain ⟨a, b, c, d⟩ := (sets_lists_aligned o [] 0 [] 0 sel k').2.2
        exact ⟨a, b, Or.inl ⟨c, d⟩⟩
  have hR : ∀ k, Agree (setsKFoldRdmC o sel k) (setsKFoldRdm o sel k) := by
    intro k
    unfold setsKFoldRdmC setsKFoldRdm
    simp only
    generalize kOrDefault k (Rsa.Gen.C05.defaultKRdm sel.length) = k'
    by_cases h1 : sel.length < k'
    · have : Rsa.Gen.C05.acceptKFoldRdm k' sel.length ≠ 1 := by
        rw [Ne]; (first | rw [aF] | rw [aR] | rw [aP]); omega
      simp [this, h1, Agree]
    · have : ¬ Rsa.Gen.C05.acceptKFoldRdm k' sel.length ≠ 1 := by
        rw [Ne]; (first | rw [aF] | rw [aR] | rw [aP]); omega
      rw [if_neg this, if_neg h1]
      by_cases h2 : k' = 0
      · simp [h2, Agree]
      · rw [if_neg h2, if_neg h2]
        obtain ⟨a, b, c⟩ := (sets_lists_aligned o [] 0 [] 0 sel k').2.1
        exact ⟨a, b, Or.inr c⟩
  refine ⟨hP k, hR k, ?_, ?_, ?_⟩
  · unfold setsKFoldC setsKFold
    simp only
    generalize kOrDefault kr (Rsa.Gen.C05.defaultKRdm rsel.length) = kr'
    generalize kOrDefault kp (Rsa.Gen.C05.defaultKPattern nPat) = kp'
    by_cases h1 : rsel.length < kr'
    · have : Rsa.Gen.C05.acceptKFold kr' rsel.length ≠ 1 := by
        rw [Ne]; (first | rw [aF] | rw [aR] | rw [aP]); omega
      simp [this, h1, Agree]
    · have : ¬ Rsa.Gen.C05.acceptKFold kr' rsel.length ≠ 1 := by
        rw [Ne]; (first | rw [aF] | rw [aR] | rw [aP]); omega
      rw [if_neg this, if_neg h1]
      by_cases h2 : kr' = 0
      · simp [h2, Agree]
      · rw [if_neg h2, if_neg h2]
        by_cases h3 : nPat < kp'
        · have : Rsa.Gen.C05.acceptKFoldPattern kp' nPat ≠ 1 := by
            rw [Ne]; (first | rw [aF] | rw [aR] | rw [aP]); omega
          simp [this, h3, Agree]
        · have : ¬ Rsa.Gen.C05.acceptKFoldPattern kp' nPat ≠ 1 := by
            rw [Ne]; (first | rw [aF] | rw [aR] | rw [aP]); omega
          rw [if_neg this, if_neg h3]
          by_cases h4 : kp' = 0
          · simp [h4, Agree]
          · rw [if_neg h4, if_neg h4]
            obtain ⟨a, b, c⟩ := (sets_lists_aligned o rsel kr' psels kp' [] 0).1
            exact ⟨a, b, Or.inr c⟩
  · unfold setsOfKPatternC setsOfKPattern
    by_cases h1 : sel.length < 2 * m
    · have : Rsa.Gen.C05.acceptOfKPattern ((m : Nat) : Rat) ((sel.length : Nat) : Rat) ≠ 1 := by
        rw [Ne, (of_k_accept_iff m sel.length).1]; omega
      simp [this, h1, Agree]
    · have : ¬ Rsa.Gen.C05.acceptOfKPattern ((m : Nat) : Rat) ((sel.length : Nat) : Rat) ≠ 1 := by
        rw [Ne, (of_k_accept_iff m sel.length).1]; omega
      rw [if_neg this, if_neg h1]
      by_cases h2 : m = 0
      · simp [h2, Agree]
      · rw [if_neg h2, if_neg h2]
        exact hP _
  · unfold setsOfKRdmC setsOfKRdm
    by_cases h1 : sel.length < 2 * m
    · have : Rsa.Gen.C05.acceptOfKRdm ((m : Nat) : Rat) ((sel.length : Nat) : Rat) ≠ 1 := by
        rw [Ne, (of_k_accept_iff m sel.length).2.1]; omega
      simp [this, h1, Agree]
    · have : ¬ Rsa.Gen.C05.acceptOfKRdm ((m : Nat) : Rat) ((sel.length : Nat) : Rat) ≠ 1 := by
        rw [Ne, (of_k_accept_iff m sel.length).2.1]; omega
      rw [if_neg this, if_neg h1]
      by_cases h2 : m = 0
      · simp [h2, Agree]
      · rw [if_neg h2, if_neg h2]
        exact hR _

/-- what `sets_of_k_*` guarantees about group sizes (the docstring promises "groups of k, the
    first ones k+1"; the code makes `m = ⌊n/k⌋ ≥ 2` folds): every test fold holds `q` or `q+1`
    groups with `q = ⌊n/m⌋ = k + ⌊(n mod k)/m⌋`, so `k ≤ q` and `2·(q−k) < k`; `q = k` — the
    docstring's claim — holds exactly when `n mod k < ⌊n/k⌋`. -/
theorem of_k_group_sizes (n k g : Nat) (hk : 1 ≤ k) (h2 : 2 * k ≤ n) :
    2 ≤ n / k ∧
    ((foldTestIdx n (n / (n / k)) (n % (n / k)) g).length = n / (n / k) ∨
     (foldTestIdx n (n / (n / k)) (n % (n / k)) g).length = n / (n / k) + 1) ∧
    n / (n / k) = k + (n % k) / (n / k) ∧ k ≤ n / (n / k) ∧ 2 * (n / (n / k) - k) < k ∧
    (n / (n / k) = k ↔ n % k < n / k) := by
  have hm : 2 ≤ n / k := (Nat.le_div_iff_mul_le (by omega)).2 h2
  have hq : n / (n / k) = k + (n % k) / (n / k) := by
    have h := Nat.mul_add_div (show 0 < n / k by omega) k (n % k)
    rw [Nat.div_add_mod'] at h
    exact h
  have hr : n % k < k := Nat.mod_lt n (by omega)
  have hlt : (n % k) / (n / k) * 2 ≤ n % k := by
    calc (n % k) / (n / k) * 2 ≤ (n % k) / (n / k) * (n / k) := Nat.mul_le_mul_left _ hm
      _ ≤ n % k := Nat.div_mul_le_self _ _
  refine ⟨hm, (kfold_sizes n (n / k) g g).1, hq, by omega, by omega, ?_⟩
  rw [hq]
  constructor
  · intro h
    have h0 : (n % k) / (n / k) = 0 := by omega
    rcases (Nat.div_eq_zero_iff).1 h0 with h | h
    · omega
    · exact h
  · intro h
    rw [Nat.div_eq_of_lt h]
    omega

-- the docstring's "k or k+1" fails for 11 groups, k = 4: two folds of 5 and 6 groups
example : 11 / (11 / 4) = 5 ∧ (List.range 2).map (fun g => (foldTestIdx 11 (11 / 2) (11 % 2) g).length) = [6, 5] := by
  decide
-- hypotheses of `of_k_group_sizes`
example : 1 ≤ 4 ∧ 2 * 4 ≤ 11 := by decide

/-! ### `sets_random`: what the code guarantees about sizes, and its defaults -/

/-- one repetition of `sets_random` as written (positions by `np.arange`, values by plain
    indexing): for a draw of `n` values and a requested test size `m` it raises `IndexError`
    exactly when `m > n`; otherwise the test part holds the first `m` values of the shuffle and
    the training part the other `n − m` (`m = 0`: no split, both hold all `n`); sizes add up. -/
theorem random_axis_coded (sel : List Nat) (m : Nat) :
    randomRdmAxisC sel m = (if sel.length < m then .error .index
      else .ok (if m = 0 then sel else sel.drop m, if m = 0 then sel else sel.take m)) ∧
    randomPatternAxisC sel m = (if sel.length < m then .error .index
      else .ok (if m = 0 then sel else sel.drop m, if m = 0 then sel else sel.take m)) ∧
    (m ≤ sel.length → (sel.take m).length = m ∧ (sel.drop m).length = sel.length - m) :=
  ⟨randomAxisC_eq sel m, randomAxisC_eq sel m, fun h => by simp [h]⟩

/-- the whole repetition as coded is the model's fold (train, test, ceiling = training RDMs at
    the test conditions), with `IndexError` exactly when a requested size exceeds the number of
    groups. -/
theorem random_coded_eq (o : Obj) (d : List Nat × List Nat) (nr np : Nat) :
    randomOneC o d nr np =
      if d.1.length < nr ∨ d.2.length < np then .error .index
      else .ok ((realize o ((randomV [d] nr np).headD default)).train,
                (realize o ((randomV [d] nr np).headD default)).test,
                mkPart o false ((randomV [d] nr np).headD default).rTrain
                  ((randomV [d] nr np).headD default).pTest) := by
  unfold randomOneC
  rw [(random_axis_coded d.1 nr).1, (random_axis_coded d.2 np).2.1]
  by_cases h1 : d.1.length < nr
  · simp [h1]
  · by_cases h2 : d.2.length < np
    · simp [h1, h2]
    · simp only [h1, h2, if_false, or_self, randomV, List.map_cons, List.map_nil, List.headD_cons,
        realize, mkPart]

/-- default test sizes of `sets_random` (`n_rdm`, `n_pattern` = `None`): `⌊n / default_k(n)⌋`,
    which for `n ≥ 2` groups is at least 1 and at most `⌊n/2⌋`, so both the test and the training
    side are non-empty and the call is never rejected. -/
theorem random_default_sizes (n : Nat) (h : 2 ≤ n) :
    randomDefaultNr n none = n / (Rsa.Gen.C05.defaultKRdm n).toNat ∧
    randomDefaultNp n none = n / (Rsa.Gen.C05.defaultKPattern n).toNat ∧
    1 ≤ randomDefaultNr n none ∧ 2 * randomDefaultNr n none ≤ n ∧
    1 ≤ randomDefaultNp n none ∧ 2 * randomDefaultNp n none ≤ n ∧
    (∀ m, randomDefaultNr n (some m) = m ∧ randomDefaultNp n (some m) = m) := by
  have hr := default_k_range n n (Nat.le_refl n)
  have ha := default_k_accepted n h
  have e1 : randomDefaultNr n none = n / (Rsa.Gen.C05.defaultKRdm n).toNat := rfl
  have e2 : randomDefaultNp n none = n / (Rsa.Gen.C05.defaultKPattern n).toNat := rfl
  have k2r : 2 ≤ (Rsa.Gen.C05.defaultKRdm n).toNat := by omega
  have k2p : 2 ≤ (Rsa.Gen.C05.defaultKPattern n).toNat := by omega
  refine ⟨e1, e2, ?_, ?_, ?_, ?_, fun m => ⟨rfl, rfl⟩⟩
  · rw [e1]; exact Nat.div_pos ha.1 (by omega)
  · rw [e1]
    calc 2 * (n / (Rsa.Gen.C05.defaultKRdm n).toNat)
        ≤ (Rsa.Gen.C05.defaultKRdm n).toNat * (n / (Rsa.Gen.C05.defaultKRdm n).toNat) :=
          Nat.mul_le_mul_right _ k2r
      _ ≤ n := Nat.mul_div_le _ _
  · rw [e2]; exact Nat.div_pos ha.2.1 (by omega)
  · rw [e2]
    calc 2 * (n / (Rsa.Gen.C05.defaultKPattern n).toNat)
        ≤ (Rsa.Gen.C05.defaultKPattern n).toNat * (n / (Rsa.Gen.C05.defaultKPattern n).toNat) :=
          Nat.mul_le_mul_right _ k2p
      _ ≤ n := Nat.mul_div_le _ _

-- non-vacuity: a draw of 5 RDM values, 2 tested; 4 pattern values, none split
example : randomRdmAxisC [4, 0, 3, 1, 2] 2 = .ok ([3, 1, 2], [4, 0]) ∧
    randomPatternAxisC [2, 0, 3, 1] 0 = .ok ([2, 0, 3, 1], [2, 0, 3, 1]) ∧
    randomRdmAxisC [4, 0, 3] 4 = .error .index := by decide

/-! ### the two-axis scheme, by list position -/

/-- `sets_k_fold` returns `k_rdm · k_pattern` folds; list position `q` holds the cell
    (RDM fold `q / k_pattern`, pattern fold `q mod k_pattern`, split of the pattern shuffle drawn
    for that RDM fold). -/
theorem kfold_both_indexed (o : Obj) (rsel : List Nat) (kr : Nat) (psels : List (List Nat))
    (kp : Nat) (hlen : psels.length = kr) :
    (kFoldV rsel kr psels kp).map (realize o) = (List.range (kr * kp)).map (fun q =>
      realize o (kFoldCell rsel kr (psels.getD (q / kp) []) kp (q / kp) (q % kp))) ∧
    ((kFoldV rsel kr psels kp).map (realize o)).length = kr * kp := by
  rw [kFoldV_indexed rsel kr psels kp hlen, List.map_map]
  exact ⟨rfl, by simp⟩

/-- item level, by list position: for every shuffle outcome on both axes every (RDM,
    condition) cell of the data is in the test part of exactly one *list entry* of what
    `sets_k_fold` returns (entries of `train_set` / `test_set` / `ceil_set` with that index belong
    together by `sets_lists_aligned`), and the test folds' sizes differ by at most one group on
    either axis. -/
theorem sets_k_fold_indexed_once (o : Obj) (rsel : List Nat) (kr : Nat)
    (psels : List (List Nat)) (kp : Nat)
    (hr : rsel.Perm (uniq (descList o.nR o.rdesc)))
    (hlen : psels.length = kr)
    (hp : ∀ ps ∈ psels, ps.Perm (uniq (descList o.nC o.pdesc)) ∧ kp ≤ ps.length)
    (hkr : 1 ≤ kr) (hkrn : kr ≤ rsel.length) (hkp : 1 ≤ kp) :
    (∀ j i, j < o.nR → i < o.nC → ∃! q, q < kr * kp ∧ ∃ f,
      ((kFoldV rsel kr psels kp).map (realize o))[q]? = some f ∧
      j ∈ f.test.rows ∧ i ∈ f.test.conds) ∧
    (∀ q q', q < kr * kp → q' < kr * kp → ∀ vf vf' rt rt' pt pt',
      (kFoldV rsel kr psels kp)[q]? = some vf → (kFoldV rsel kr psels kp)[q']? = some vf' →
      vf.rTest = some rt → vf'.rTest = some rt' → vf.pTest = some pt → vf'.pTest = some pt' →
      rt.length ≤ rt'.length + 1 ∧ pt.length ≤ pt'.length + 1) := by
  have hidx := (kfold_both_indexed o rsel kr psels kp hlen).1
  have hcell : ∀ q, q < kr * kp → ((kFoldV rsel kr psels kp).map (realize o))[q]? =
      some (realize o (kFoldCell rsel kr (psels.getD (q / kp) []) kp (q / kp) (q % kp))) := by
    intro q hq
    rw [hidx]
    simp [hq]
  have hdiv : ∀ q, q < kr * kp → q / kp < kr := by
    intro q hq
    rw [Nat.div_lt_iff_lt_mul (by omega)]
    exact hq
  have hgetD : ∀ g, g < kr → psels[g]? = some (psels.getD g []) := by
    intro g hg
    rw [List.getD_eq_getElem?_getD, List.getElem?_eq_getElem (by omega)]
    simp
  constructor
  · intro j i hj hi
    obtain ⟨⟨g, h⟩, ⟨hg, hh, ps, hps, hjm, him⟩, huniq⟩ :=
      kfold_both_exhaustive_once o rsel kr psels kp hr hlen hp hkr hkrn hkp j i hj hi
    simp only at hg hh hps hjm him
    have hq : g * kp + h < kr * kp := by
      calc g * kp + h < g * kp + kp := by omega
        _ = (g + 1) * kp := by ring
        _ ≤ kr * kp := Nat.mul_le_mul_right _ hg
    have hqd : (g * kp + h) / kp = g := by
      rw [Nat.mul_comm, Nat.mul_add_div (by omega), Nat.div_eq_of_lt hh, Nat.add_zero]
    have hqm : (g * kp + h) % kp = h := by
      rw [Nat.mul_comm, Nat.mul_add_mod, Nat.mod_eq_of_lt hh]
    have hpsD : psels.getD g [] = ps := by
      have := hgetD g hg
      rw [hps] at this
      exact (Option.some.inj this).symm
    refine ⟨g * kp + h, ⟨hq, _, hcell _ hq, ?_, ?_⟩, ?_⟩
    · rw [hqd, hqm, hpsD]; exact hjm
    · rw [hqd, hqm, hpsD]; exact him
    · rintro q' ⟨hq', f, hf, hjf, hif⟩
      rw [hcell q' hq'] at hf
      have hf' := Option.some.inj hf
      subst hf'
      have := huniq (q' / kp, q' % kp)
        ⟨hdiv q' hq', Nat.mod_lt _ (by omega), psels.getD (q' / kp) [], hgetD _ (hdiv q' hq'),
          hjf, hif⟩
      have e1 : q' / kp = g := congrArg Prod.fst this
      have e2 : q' % kp = h := congrArg Prod.snd this
      rw [← e1, ← e2, Nat.mul_comm]
      exact (Nat.div_add_mod q' kp).symm
  · intro q q' hq hq' vf vf' rt rt' pt pt' hvf hvf' e1 e1' e2 e2'
    rw [kFoldV_indexed rsel kr psels kp hlen] at hvf hvf'
    simp only [List.getElem?_map, List.getElem?_range hq, List.getElem?_range hq', Option.map_some,
      Option.some.injEq] at hvf hvf'
    subst hvf hvf'
    simp only [kFoldCell, Option.some.injEq] at e1 e1' e2 e2'
    subst e1 e1' e2 e2'
    have hnr : rsel.Nodup := hr.nodup_iff.2 (uniq_nodup _)
    have hR := (split_vals_partition rsel kr hnr hkr hkrn).1
    have hg := hdiv q hq
    have hg' := hdiv q' hq'
    have hpsm : ∀ g, g < kr → psels.getD g [] ∈ psels := by
      intro g hg
      exact List.mem_of_getElem? (hgetD g hg)
    obtain ⟨hpp, hpk⟩ := hp _ (hpsm _ hg)
    obtain ⟨hpp', hpk'⟩ := hp _ (hpsm _ hg')
    have hlen_eq : (psels.getD (q / kp) []).length = (psels.getD (q' / kp) []).length := by
      rw [hpp.length_eq, hpp'.length_eq]
    have hP := (split_vals_partition _ kp (hpp.nodup_iff.2 (uniq_nodup _)) hkp hpk).1
      (q % kp) (Nat.mod_lt _ (by omega))
    have hP' := (split_vals_partition _ kp (hpp'.nodup_iff.2 (uniq_nodup _)) hkp hpk').1
      (q' % kp) (Nat.mod_lt _ (by omega))
    have hA := (hR _ hg).2.1
    have hA' := (hR _ hg').2.1
    have hB := hP.2.1
    have hB' := hP'.2.1
    have hquot : (psels.getD (q / kp) []).length / kp = (psels.getD (q' / kp) []).length / kp := by
      rw [hlen_eq]
    constructor
    · rcases hA with h | h <;> rcases hA' with h' | h' <;> omega
    · rcases hB with h | h <;> rcases hB' with h' | h' <;> omega

/-! ### `crossval`, `cv_noise_ceiling`, `_internal_cv`: pairing by index -/

/-- `crossval` as written (`for i, train in enumerate(train_set): test = test_set[i]`, fold-major
    evaluation, then the transposition to models × folds): it is rejected (`AssertionError`)
    exactly when the list lengths differ; otherwise entry (model `j`, fold `i`) of the result is
    `nan` for a skipped fold and else the score of model `j`, fitted on `train_set[i]`, on
    `test_set[i]` — training and test entry of the *same* index, for every model and fitter. -/
theorem crossval_pairs_by_index {Θ S : Type} (nan : S) (nModels : Nat) (fit : Nat → Part → Θ)
    (score : Nat → Θ → Part → S) (trains tests : List Part) (ceilLen : Option Nat) :
    ((trains.length ≠ tests.length ∨ ∃ c, ceilLen = some c ∧ c ≠ tests.length) →
      crossvalC nan nModels fit score trains tests ceilLen = .error .assertion) ∧
    (trains.length = tests.length → (∀ c, ceilLen = some c → c = tests.length) →
      ∃ ev, crossvalC nan nModels fit score trains tests ceilLen = .ok ev ∧
        ev.length = nModels ∧
        ∀ j i, j < nModels → i < trains.length → ∃ row tr te,
          ev[j]? = some row ∧ row.length = trains.length ∧ trains[i]? = some tr ∧
          tests[i]? = some te ∧
          row[i]? = some (if Rsa.Gen.C05.cvSkip tr.rows.length te.rows.length tr.conds.length
              te.conds.length = 1 then nan else score j (fit j tr) te)) := by
  constructor
  · exact crossvalC_rejects nan nModels fit score trains tests ceilLen
  · intro h hc
    refine ⟨_, crossvalC_ok nan nModels fit score trains tests ceilLen h hc, by simp, ?_⟩
    intro j i hj hi
    have hi2 : i < tests.length := by omega
    refine ⟨(trains.zip tests).map (fun tt =>
        if Rsa.Gen.C05.cvSkip tt.1.rows.length tt.2.rows.length tt.1.conds.length
          tt.2.conds.length = 1 then nan else score j (fit j tt.1) tt.2),
      trains[i], tests[i], ?_, ?_, List.getElem?_eq_getElem hi,
      List.getElem?_eq_getElem hi2, ?_⟩
    · simp [hj]
    · simp [h]
    · simp [hi, hi2]

/-- `cv_noise_ceiling` walks through the pairs `(ceil_set[i], test_set[i])`, same index. -/
theorem cv_noise_ceiling_pairs (ceils tests : List Part) :
    (ceils.length ≠ tests.length → cvNoisePairsC ceils tests = .error .assertion) ∧
    (ceils.length = tests.length → cvNoisePairsC ceils tests = .ok (ceils.zip tests)) := by
  constructor
  · intro h
    simp [cvNoisePairsC, h]
  · exact cvNoisePairsC_eq ceils tests

/-- cross-validated evaluation on the lists `sets_k_fold` returns (as coded): the result has
    one entry per (model, list position `q`); it is computed from `train_set[q]` and
    `test_set[q]`, which are the training and the test part of the *same* cell
    (`q / k_pattern`, `q mod k_pattern`); the ceiling entry `q` is that cell's training RDMs at its
    test conditions.  Hence (non-interference at the level of what `crossval` returns) entry
    (model `j`, fold `q`) does not change when the data are altered anywhere outside that
    cell's training RDMs × training conditions and test RDMs × test conditions — for every
    model, fitter and score function. -/
theorem crossval_on_k_fold {α Θ S : Type} (o : Obj) (rsel : List Nat) (kr : Nat)
    (psels : List (List Nat)) (kp : Nat) (hlen : psels.length = kr)
    (nan : S) (nModels : Nat) (fit : Nat → List (List α) → List Nat → Θ)
    (score : Nat → Θ → List Nat → List (List α) → S) (d d' : Nat → Nat → Nat → α) :
    let s := kFoldSets o rsel kr psels kp
    let cell := fun q => realize o (kFoldCell rsel kr (psels.getD (q / kp) []) kp (q / kp) (q % kp))
    let run := fun (e : Nat → Nat → Nat → α) =>
      crossvalC nan nModels (fun j p => fit j (extractSpec e p) p.pidx)
        (fun j θ p => score j θ p.pidx (extractSpec e p)) s.trains s.tests (s.ceils.map List.length)
    (∀ q, q < kr * kp → s.trains[q]? = some (cell q).train ∧ s.tests[q]? = some (cell q).test ∧
      ∃ cs, s.ceils = some cs ∧ (cs[q]?).map some = some (cell q).ceil) ∧
    (∃ ev ev', run d = .ok ev ∧ run d' = .ok ev' ∧
      ∀ j q, j < nModels → q < kr * kp →
        (∀ r i i', r ∈ (cell q).train.rows → i ∈ (cell q).train.conds →
          i' ∈ (cell q).train.conds → d r i i' = d' r i i') →
        (∀ r i i', r ∈ (cell q).test.rows → i ∈ (cell q).test.conds →
          i' ∈ (cell q).test.conds → d r i i' = d' r i i') →
        ∃ row row', ev[j]? = some row ∧ ev'[j]? = some row' ∧ row[q]? = row'[q]? ∧
          (row[q]?).isSome) := by
  intro s cell run
  obtain ⟨hT, hE, hC⟩ := (sets_lists_aligned o rsel kr psels kp [] 0).1
  obtain ⟨hidx, hlenF⟩ := kfold_both_indexed o rsel kr psels kp hlen
  have htr : s.trains = (List.range (kr * kp)).map (fun q => (cell q).train) := by
    show (kFoldSets o rsel kr psels kp).trains = _
    rw [hT, hidx, List.map_map]; rfl
  have hte : s.tests = (List.range (kr * kp)).map (fun q => (cell q).test) := by
    show (kFoldSets o rsel kr psels kp).tests = _
    rw [hE, hidx, List.map_map]; rfl
  have hltr : s.trains.length = kr * kp := by rw [htr]; simp
  have hlte : s.tests.length = kr * kp := by rw [hte]; simp
  obtain ⟨cs, hcs⟩ : ∃ cs, s.ceils = some cs := by
    cases hsc : s.ceils with
    | none =>
      have : (kFoldSets o rsel kr psels kp).ceils = none := hsc
      rw [this] at hC; simp at hC
    | some cs => exact ⟨cs, rfl⟩
  have hcs' : (kFoldSets o rsel kr psels kp).ceils = some cs := hcs
  have hcm : cs.map some = (List.range (kr * kp)).map (fun q => (cell q).ceil) := by
    rw [hcs'] at hC
    simp only [Option.map_some, Option.some.injEq] at hC
    rw [hC, hidx, List.map_map]; rfl
  have hlcs : cs.length = kr * kp := by
    have := congrArg List.length hcm
    simpa using this
  constructor
  · intro q hq
    refine ⟨by rw [htr]; simp [hq], by rw [hte]; simp [hq], cs, hcs, ?_⟩
    have := congrArg (fun l => l[q]?) hcm
    simp only [List.getElem?_map, List.getElem?_range hq, Option.map_some] at this
    exact this
  · have hc : ∀ c, s.ceils.map List.length = some c → c = s.tests.length := by
      intro c hc
      rw [hcs] at hc
      simp only [Option.map_some, Option.some.injEq] at hc
      omega
    have hlen2 : s.trains.length = s.tests.length := by omega
    obtain ⟨ev, hev, _, hevc⟩ := (crossval_pairs_by_index nan nModels
      (fun j p => fit j (extractSpec d p) p.pidx)
      (fun j θ p => score j θ p.pidx (extractSpec d p)) s.trains s.tests
      (s.ceils.map List.length)).2 hlen2 hc
    obtain ⟨ev', hev', _, hevc'⟩ := (crossval_pairs_by_index nan nModels
      (fun j p => fit j (extractSpec d' p) p.pidx)
      (fun j θ p => score j θ p.pidx (extractSpec d' p)) s.trains s.tests
      (s.ceils.map List.length)).2 hlen2 hc
    refine ⟨ev, ev', hev, hev', ?_⟩
    intro j q hj hq h1 h2
    obtain ⟨row, tr, te, hr, _, htrq, hteq, hval⟩ := hevc j q hj (by omega)
    obtain ⟨row', tr', te', hr', _, htrq', hteq', hval'⟩ := hevc' j q hj (by omega)
    rw [htrq] at htrq'
    rw [hteq] at hteq'
    have e1 := Option.some.inj htrq'
    have e2 := Option.some.inj hteq'
    subst e1 e2
    have etr : tr = (cell q).train := by
      rw [htr] at htrq; simpa [hq] using htrq.symm
    have ete : te = (cell q).test := by
      rw [hte] at hteq; simpa [hq] using hteq.symm
    refine ⟨row, row', hr, hr', ?_, by rw [hval]; rfl⟩
    rw [hval, hval']
    have ea : extractSpec d tr = extractSpec d' tr := by
      rw [etr]
      exact trainSet_indep_of_test_only (cell q) d d' h1
    have eb : extractSpec d te = extractSpec d' te := by
      rw [ete]
      exact trainSet_indep_of_test_only ⟨(cell q).test, (cell q).test, none⟩ d d' h2
    simp only [ea, eb]

/-- `_internal_cv` on a bootstrap sample: after the expansion every training and every test
    entry of the lists of `sets_k_fold` advertises a `pattern_idx` that is a rearrangement of the
    descriptor values of the conditions the object holds (prediction rows ↔ data rows one to
    one, with the bootstrap multiplicities); the ceiling sets are left as generated. -/
theorem internal_cv_pidx_multiset (o : Obj) (boot rsel : List Nat) (kr : Nat)
    (psels : List (List Nat)) (kp : Nat)
    (hb : (descList o.nC o.pdesc).Perm boot)
    (hp : ∀ ps ∈ psels, ps.Nodup ∧ kp ≤ ps.length) (hkp : 1 ≤ kp) :
    (∀ p ∈ (expandSets boot (kFoldSets o rsel kr psels kp)).trains,
      (p.conds.map o.pdesc).Perm p.pidx) ∧
    (∀ p ∈ (expandSets boot (kFoldSets o rsel kr psels kp)).tests,
      (p.conds.map o.pdesc).Perm p.pidx) ∧
    (expandSets boot (kFoldSets o rsel kr psels kp)).ceils = (kFoldSets o rsel kr psels kp).ceils := by
  obtain ⟨hT, hE, _⟩ := (sets_lists_aligned o rsel kr psels kp [] 0).1
  have hnd : ∀ ps ∈ psels, ∀ h, h < kp →
      (splitFold ps kp (ps.length / kp) (ps.length % kp) h).1.Nodup ∧
      (splitFold ps kp (ps.length / kp) (ps.length % kp) h).2.Nodup := by
    intro ps hps h hh
    obtain ⟨hn, hk⟩ := hp ps hps
    have ht := foldTestIdx_nodup (n := ps.length) hkp hk hh
    constructor
    · apply valsAt_nodup hn
      unfold foldTrainIdx
      split
      · exact ht
      · exact List.Nodup.filter _ List.nodup_range
    · exact valsAt_nodup hn ht
  refine ⟨?_, ?_, rfl⟩
  · intro p hpm
    simp only [expandSets, List.mem_map] at hpm
    obtain ⟨p0, hp0, rfl⟩ := hpm
    rw [hT] at hp0
    simp only [List.mem_map] at hp0
    obtain ⟨f, ⟨vf, hvf, rfl⟩, rfl⟩ := hp0
    obtain ⟨g, h, ps, hg, hh, hps, rfl⟩ := (kfold_both_mem rsel kr psels kp vf).1 hvf
    have hmem : ps ∈ psels := List.mem_of_getElem? hps
    exact concat_sampling_matches_object o boot _ hb (hnd ps hmem h hh).1 false
      (some (splitFold rsel kr (rsel.length / kr) (rsel.length % kr) g).1)
  · intro p hpm
    simp only [expandSets, List.mem_map] at hpm
    obtain ⟨p0, hp0, rfl⟩ := hpm
    rw [hE] at hp0
    simp only [List.mem_map] at hp0
    obtain ⟨f, ⟨vf, hvf, rfl⟩, rfl⟩ := hp0
    obtain ⟨g, h, ps, hg, hh, hps, rfl⟩ := (kfold_both_mem rsel kr psels kp vf).1 hvf
    have hmem : ps ∈ psels := List.mem_of_getElem? hps
    exact concat_sampling_matches_object o boot _ hb (hnd ps hmem h hh).2 false
      (some (splitFold rsel kr (rsel.length / kr) (rsel.length % kr) g).2)

/-- the guard of `bootstrap_crossval` (`#rdm groups ≥ k_rdm` and `#pattern groups ≥ 3·k_pattern`,
    as written today) admits only samples that `sets_k_fold` accepts and whose every pattern
    test fold holds at least three condition groups — so `crossval`, which skips folds with at
    most two conditions, evaluates every fold of an admitted sample. -/
theorem bootcv_guard_no_skip (nr kr np kp g : Nat) (hkr : 1 ≤ kr) (hkp : 1 ≤ kp)
    (h : bootcvRuns nr kr np kp = true) :
    kr ≤ nr ∧ kp ≤ np ∧ 3 ≤ (foldTestIdx np (np / kp) (np % kp) g).length ∧
    (internalCvUsesCvNc kr kp = true ↔ (1 < kr ∨ 1 < kp)) := by
  have h' : Rsa.Gen.C05.bootcvGuard nr kr np kp = 1 := by simpa [bootcvRuns] using h
  obtain ⟨h1, h2⟩ := (leaf_dispatch_tests nr kr np kp 0).2.2.2.2.1.1 h'
  have h3 : 3 ≤ np / kp := (Nat.le_div_iff_mul_le (by omega)).2 (by omega)
  refine ⟨h1, by omega, ?_, ?_⟩
  · rw [foldTestIdx_length]; omega
  · simp only [internalCvUsesCvNc, decide_eq_true_eq]
    exact (leaf_dispatch_tests kr kp 0 0 0).2.2.2.1

-- non-vacuity
example : bootcvRuns 3 2 7 2 = true ∧ bootcvRuns 3 2 5 2 = false := by decide
example : (descList exBootObj.nC exBootObj.pdesc).Perm [3, 1, 3, 0, 1] ∧
    (∀ ps ∈ [[3, 0, 1]], ps.Nodup ∧ 2 ≤ ps.length) ∧
    ((expandSets [3, 1, 3, 0, 1] (kFoldSets exBootObj [0] 1 [[3, 0, 1]] 2)).tests.map (·.pidx))
      = [[3, 3, 1, 1], [0]] := by decide
example : (cvNoisePairsC [⟨[0], [1], [1]⟩, ⟨[1], [2], [2]⟩] [⟨[2], [1], [1]⟩, ⟨[3], [2], [2]⟩]).toOption
    = some [(⟨[0], [1], [1]⟩, ⟨[2], [1], [1]⟩), (⟨[1], [2], [2]⟩, ⟨[3], [2], [2]⟩)] := by decide

-- non-vacuity of `crossval_pairs_by_index` / `crossval_on_k_fold`: two folds, two "models" whose
-- score is (model, number of training rows, number of test rows); the second fold has only two
-- test conditions and is skipped; unequal list lengths are rejected
example :
    crossvalC (0, 0, 0) 2 (fun _ p => p.rows.length) (fun j θ p => (j, θ, p.rows.length))
      [⟨[0, 1], [0, 1, 2], [0, 1, 2]⟩, ⟨[2], [0, 1, 2], [0, 1, 2]⟩]
      [⟨[2], [3, 4, 5], [3, 4, 5]⟩, ⟨[0, 1], [3, 4], [3, 4]⟩] (some 2)
      = .ok [[(0, 2, 1), (0, 0, 0)], [(1, 2, 1), (0, 0, 0)]] ∧
    (crossvalC (0, 0, 0) 2 (fun _ p => p.rows.length) (fun j θ p => (j, θ, p.rows.length))
      [⟨[0, 1], [0, 1, 2], [0, 1, 2]⟩] [] none).toOption = none := by decide
-- hypotheses of `sets_k_fold_indexed_once` / `kfold_both_indexed` / `crossval_on_k_fold` are those of
-- `kfold_both_exhaustive_once` (example above) — here the indexed list itself
example : ((kFoldV [2, 0, 1] 2 [[1, 0, 2], [2, 1, 0]] 2).map (fun vf => (vf.rTest, vf.pTest)))
    = [(some [2, 1], some [1, 2]), (some [2, 1], some [0]), (some [0], some [2, 0]), (some [0], some [1])] := by
  decide
-- `coded_entry_points_agree`: an accepted and a rejected call; the groups-of-k `assert` on 3 groups
example : (setsKFoldC exObj [5, 8] (some 2) [[1, 2, 3], [3, 1, 2]] 3 (some 1)).toOption.map
      (·.trains.length) = some 2 ∧
    (setsKFoldC exObj [5, 8] (some 3) [] 3 (some 1)).toOption = none := by decide
example : Rsa.Gen.C05.acceptOfKPattern ((1 : Nat) : Rat) ((3 : Nat) : Rat) = 1 ∧
    Rsa.Gen.C05.acceptOfKPattern ((2 : Nat) : Rat) ((3 : Nat) : Rat) ≠ 1 :=
  ⟨(of_k_accept_iff 1 3).1.2 (by decide), fun h => absurd ((of_k_accept_iff 2 3).1.1 h) (by decide)⟩

/-! ### 12. (round 4) sessions: one RDMs object / one list of sets used by several successive calls -/

/-- the in-place write count read off the current source is zero: no statement of a fold generator,
    of `add_pattern_index`, `crossval`, `_internal_cv`, `_concat_sampling`, `cv_noise_ceiling` or of
    `RDMs.subset / subsample / subset_pattern` stores into an object reachable from one of its
    parameters (so `np.random.shuffle` only ever permutes the fresh array `np.unique` returned) -/
theorem input_writes_zero : Rsa.Gen.C05.inputWrites = 0 := by decide

/-- as coded, a call leaves the content it was given exactly as it was — whatever an in-place write
    would have done (`wr` arbitrary) -/
theorem call_leaves_content_unchanged {κ σ : Type} (wr : κ → σ → σ) (c : κ) (s : σ) :
    callEffect wr c s = s := by
  unfold callEffect callEffectW
  rw [input_writes_zero]
  simp

/-- **sessions**: run any list of steps (library calls with any arguments, user edits of the content,
    in any order) through the as-coded model with explicit state.  Then every call returns the value of
    the stand-alone call on the content the *edits* before it produce (the original content when there
    are none), and the content after every step is that produced by the edits alone: calls leave no
    trace.  Hence every single-call theorem of this file (partition, groups on one side, contents as
    advertised, ceiling sets, non-interference) holds for every call of a session. -/
theorem session_calls_independent {κ σ ρ : Type} (wr : κ → σ → σ) (result : κ → σ → ρ)
    (steps : List (Step κ σ)) (s : σ) (k : Nat) :
    (runSteps (callEffect wr) result steps s)[k]? = stepSpec result steps s k := by
  induction steps generalizing s k with
  | nil => simp [runSteps, stepSpec]
  | cons st rest ih =>
    cases st with
    | call c =>
      cases k with
      | zero => simp [runSteps, stepSpec, editsOnly, call_leaves_content_unchanged]
      | succ k =>
        simp only [runSteps, call_leaves_content_unchanged, List.getElem?_cons_succ]
        rw [ih]
        simp [stepSpec, editsOnly]
    | edit f =>
      cases k with
      | zero => simp [runSteps, stepSpec, editsOnly]
      | succ k =>
        simp only [runSteps, List.getElem?_cons_succ]
        rw [ih]
        simp [stepSpec, editsOnly]

/-- a session of calls only (the reuse sessions of the correspondence without edit steps): call after
    call returns the stand-alone value on the original content and leaves it unchanged -/
theorem session_calls_only {κ σ ρ : Type} (wr : κ → σ → σ) (result : κ → σ → ρ)
    (calls : List κ) (s : σ) :
    runSteps (callEffect wr) result (calls.map Step.call) s
      = calls.map (fun c => (some (result c s), s)) := by
  induction calls with
  | nil => rfl
  | cons c cs ih =>
    simp only [List.map_cons, runSteps, call_leaves_content_unchanged]
    rw [ih]

/-- a session never changes its length: one (value, content) pair per step -/
theorem session_length {κ σ ρ : Type} (eff : κ → σ → σ) (result : κ → σ → ρ)
    (steps : List (Step κ σ)) (s : σ) : (runSteps eff result steps s).length = steps.length := by
  induction steps generalizing s with
  | nil => rfl
  | cons st rest ih => cases st <;> simp [runSteps, ih]

/-- why the write count matters (the leaf is not decoration): with a single in-place statement — here
    `np.random.shuffle` acting on the descriptor itself instead of on the array `np.unique` returned —
    the second call of a session sees another content than the stand-alone call: on the RDM descriptor
    `[5, 8, 5]` the first call (outcome `[8, 5]`) leaves `[8, 5]`, and the second call's groups are
    those of `[8, 5]`, no longer those of the object -/
theorem inplace_write_changes_later_call :
    (runSteps (callEffectW 1 (fun (c : List Nat) (_ : List Nat) => c)) (fun _ s => uniq s)
        [.call [8, 5], .call [5, 8]] [5, 8, 5]).map (·.2) = [[8, 5], [5, 8]] ∧
    (runSteps (callEffect (fun (c : List Nat) (_ : List Nat) => c)) (fun _ s => uniq s)
        [.call [8, 5], .call [5, 8]] [5, 8, 5]).map (·.2) = [[5, 8, 5], [5, 8, 5]] := by
  refine ⟨by decide, ?_⟩
  have := session_calls_only (fun (c : List Nat) (_ : List Nat) => c) (fun _ s => uniq s)
    [[8, 5], [5, 8]] [5, 8, 5]
  simp only [List.map_cons, List.map_nil] at this
  rw [this]
  rfl

/-- sessions on the generators of this file: whatever was computed on the object before (`pre`: any
    calls, any edits) and whatever follows, a call is the as-coded entry point evaluated on the content
    the edits of `pre` produce — so `coded_entry_points_agree`, `kfold_pattern_spec`, `random_coded_eq`,
    `crossval_pairs_by_index` … apply to it verbatim, with `editsOnly pre o` as the object -/
theorem session_call_after_any_history {κ : Type} (wr : κ → Obj → Obj)
    (result : κ → Obj → Except Err Sets) (pre post : List (Step κ Obj)) (c : κ) (o : Obj) :
    (runSteps (callEffect wr) result (pre ++ .call c :: post) o)[pre.length]?
      = some (some (result c (editsOnly pre o)), editsOnly pre o) := by
  rw [session_calls_independent]
  simp [stepSpec, editsOnly]
  induction pre generalizing o with
  | nil => simp [editsOnly]
  | cons st rest ih => cases st <;> simp [editsOnly, ih]

-- non-vacuity: a three-step session on `exObj` — a two-fold pattern split, the user re-labels the
-- conditions (two groups instead of three), a leave-one-out split; each call sees the edits only
private def exResult (loo : Bool) (o : Obj) : List (List Nat) :=
  if loo then (setsLooPattern o (uniq (descList o.nC o.pdesc))).map (·.test.conds)
  else match setsKFoldPatternC o (uniq (descList o.nC o.pdesc)) (some 2) with
    | .ok s => s.tests.map (·.conds)
    | .error _ => []
private def exSteps : List (Step Bool Obj) :=
  [.call false, .edit (fun o => { o with pdesc := fun i => i % 2 }), .call true]
example :
    (runSteps (callEffect (fun _ o => { o with nC := 0 })) exResult exSteps exObj).map (·.1)
      = [some (exResult false exObj), none, some (exResult true { exObj with pdesc := fun i => i % 2 })] ∧
    exResult false exObj = [[0, 2, 3], [1]] ∧
    exResult true { exObj with pdesc := fun i => i % 2 } = [[0, 2], [1, 3]] := by
  refine ⟨?_, by decide, by decide⟩
  apply List.ext_getElem?
  intro k
  rw [List.getElem?_map, session_calls_independent]
  match k with
  | 0 => rfl
  | 1 => rfl
  | 2 => rfl
  | k + 3 => simp [stepSpec, exSteps]

end Rsa.Props.C05
