/-
  Property C14 — noise covariance is the pooled residual covariance; precision is its inverse.
  Property theorems only; helper lemmas live in Rsa/Lemmas/C14.lean.

  `K` is any linearly ordered field.  `rows : List (Row K)` is a residual matrix (one
  function channel ↦ value per row), `obs : List (Nat × Row K)` a dataset with its condition
  labels, `p` the number of channels.  All model functions are those of Rsa/Core/Noise.lean,
  which the driver executes (at `Rat` / `Float`) against the real code.
-/
import Mathlib.LinearAlgebra.Matrix.NonsingularInverse
import Mathlib.Algebra.Order.Ring.Rat
import Mathlib.Algebra.Field.Rat
import Rsa.Lemmas.C14

set_option linter.unusedSectionVars false
set_option linter.unusedVariables false
set_option linter.unusedSimpArgs false
set_option linter.style.longLine false

namespace Rsa.Props.C14

open Rsa.Noise Rsa.Lemmas.C14 Rsa.Gen.C14

variable {K : Type} [Field K] [LinearOrder K] [IsStrictOrderedRing K] [Rsa.HasSqrt K]

/-! ### Degrees of freedom (the three leaves regenerated from `data/noise.py`) -/

/-- residual matrices: observations minus one; unbalanced datasets: observations minus
    conditions — exactly the source text -/
theorem dof_unbalanced (n c : Nat) : dofResiduals n = n - 1 ∧ dofUnbalanced n c = n - c := by
  simp [dofResiduals, dofUnbalanced]

/-- the measurement tensor of a balanced design with `C` conditions × `R` repetitions has
    `C·(R−1)` = observations − conditions degrees of freedom, the same number
    `cov_from_unbalanced` uses.  (Fails to check while the source reads `(C−1)·R`.) -/
theorem dof_balanced (C R : Nat) :
    dofTensor C R = C * (R - 1) ∧ dofTensor C R = dofUnbalanced (C * R) C := by
  simp [dofTensor, dofUnbalanced, Nat.mul_sub]

/-- why the 10 × 10 test of the suite cannot see the wrong formula `(C−1)·R`: the two
    agree exactly on square designs -/
theorem dof_wrong_iff (C R : Nat) (hC : 0 < C) (hR : 0 < R) :
    (C - 1) * R = C * (R - 1) ↔ C = R := by
  obtain ⟨c, rfl⟩ : ∃ c, C = c + 1 := ⟨C - 1, by omega⟩
  obtain ⟨r, rfl⟩ : ∃ r, R = r + 1 := ⟨R - 1, by omega⟩
  simp only [Nat.add_sub_cancel]
  constructor
  · intro h
    have : c * r + c = c * r + r := by
      have h1 : c * (r + 1) = c * r + c := by ring
      have h2 : (c + 1) * r = c * r + r := by ring
      omega
    omega
  · intro h
    have : c = r := by omega
    subst this; ring

example : (3 - 1) * 5 ≠ 3 * (5 - 1) := by decide

/-! ### 'full' and 'diag' -/

/-- 'full' on a residual matrix with a passed dof is the textbook covariance of the rows
    around their column means, `Σ_i (x_ij − μ_j)(x_ik − μ_k) / dof`, `μ_j = Σ_i x_ij / n`. -/
theorem full_is_residual_cov (n : Nat) (x : Fin n → Row K) (dof : K) (p j k : Nat) :
    covFromResiduals .full (List.ofFn x) (some dof) p j k
      = (∑ i, (x i j - (∑ i', x i' j) / (n : K)) * (x i k - (∑ i', x i' k) / (n : K))) / dof := by
  simp only [covFromResiduals, estimate2, estimateC_full, dofPick_eq, covFullC, fullNorm, gram, demean,
    colMean, colSum, Option.getD_some, List.map_map, List.map_ofFn, List.sum_ofFn, List.length_ofFn]
  rfl

/-- … and with `dof=None` the divisor is `n − 1` -/
theorem full_is_residual_cov_natural_dof (n : Nat) (x : Fin n → Row K) (p j k : Nat) :
    covFromResiduals .full (List.ofFn x) none p j k
      = (∑ i, (x i j - (∑ i', x i' j) / (n : K)) * (x i k - (∑ i', x i' k) / (n : K)))
        / ((n - 1 : Nat) : K) := by
  simp only [covFromResiduals, estimate2, estimateC_full, dofPick_eq, covFullC, fullNorm, gram, demean,
    colMean, colSum, Option.getD_none, List.map_map, List.map_ofFn, List.sum_ofFn, List.length_ofFn,
    dofResiduals]
  rfl

/-- 'diag' is the diagonal of 'full' (same residuals, same dof), zero elsewhere -/
theorem diag_is_diagonal_of_full (rows : List (Row K)) (dof : Option K) (p j k : Nat) :
    covFromResiduals .diag rows dof p j k
      = if j = k then covFromResiduals .full rows dof p j j else 0 := by
  simp only [covFromResiduals, estimate2, estimateC_full, estimateC_diag, varianceC, varNorm, covFullC,
    fullNorm]

/-! ### Schäfer–Strimmer shrinkage ('shrinkage_diag') -/

/-- convex combination of the covariance with its own diagonal, whatever the intensity
    estimate (and whatever `sqrt` is) -/
theorem sdiag_is_convex_combination (rows : List (Row K)) (dof : K) (p j k : Nat) :
    covSDiagC rows dof p j k
      = sdLambda rows dof p * (if j = k then covFullC rows dof j j else 0)
        + (1 - sdLambda rows dof p) * covFullC rows dof j k := by
  unfold covSDiagC covSDiagEntry
  rw [ssTail_eq]
  unfold ssShrink ssScaling ssMask sdS ssS covFullC fullNorm delta sdLambda
  by_cases h : j = k
  · subst h; simp; ring
  · simp [h]; ring

theorem sdiag_intensity_mem_unit (rows : List (Row K)) (dof : K) (p : Nat) :
    0 ≤ sdLambda rows dof p ∧ sdLambda rows dof p ≤ 1 := by
  unfold sdLambda
  rw [ssLambda_eq]
  unfold ssClip ssLambRaw
  simp only [Nat.cast_one, Nat.cast_zero]
  split
  · exact ⟨le_max_right _ _, max_le (min_le_right _ _) zero_le_one⟩
  · exact ⟨le_refl _, zero_le_one⟩

/-! ### Lists -/

/-- a list of residual matrices with a list of dofs: one estimate per element, element `i`
    from matrix `i` with `dof[i]` -/
theorem list_uses_own_dof (m : Method) (rs : List (List (Row K))) (ds : List K) (p : Nat)
    (hlen : ds.length = rs.length) :
    (covFromResidualsList m rs (.list ds) p).length = rs.length ∧
    ∀ i (hi : i < rs.length),
      (covFromResidualsList m rs (.list ds) p)[i]? =
        some (some (covFromResiduals m rs[i] (some (ds[i]'(hlen ▸ hi))) p)) := by
  constructor
  · simp [covFromResidualsList]
  · intro i hi
    have hi' : i < ds.length := hlen ▸ hi
    simp [covFromResidualsList, DofArg.at, List.getElem?_range, hi, hi']

/-- the same for lists of datasets (both dataset entry points delegate element-wise to
    `cov_from_unbalanced`); scalar and absent dof are handed to every element unchanged -/
theorem dataset_list_uses_own_dof (m : Method) (dss : List (List (Obs K))) (ds : List K) (p : Nat)
    (hlen : ds.length = dss.length) (d : K) :
    (∀ i (hi : i < dss.length),
      (covFromDatasetList m dss (.list ds) p)[i]? =
        some (some (covFromUnbalanced m dss[i] (some (ds[i]'(hlen ▸ hi))) p))) ∧
    (∀ i (hi : i < dss.length),
      (covFromDatasetList m dss (.scalar d) p)[i]? = some (some (covFromUnbalanced m dss[i] (some d) p))) ∧
    (∀ i (hi : i < dss.length),
      (covFromDatasetList m dss .none p)[i]? = some (some (covFromUnbalanced m dss[i] none p))) := by
  refine ⟨?_, ?_, ?_⟩
  · intro i hi
    have hi' : i < ds.length := hlen ▸ hi
    simp [covFromDatasetList, DofArg.at, List.getElem?_range, hi, hi']
  · intro i hi
    simp [covFromDatasetList, DofArg.at, List.getElem?_range, hi]
  · intro i hi
    simp [covFromDatasetList, DofArg.at, List.getElem?_range, hi]

/-! ### Ledoit–Wolf shrinkage ('shrinkage_eye') -/

/-- `_covariance_eye` (as coded: `b2/d2·m·I + (d2−b2)/d2·s`, then `·n/dof`) is the convex
    combination `λ·(tr S/p)·I + (1−λ)·S` of the 'full' covariance `S = RᵀR/dof` with the scaled
    identity, `λ = b2/d2` (and `λ = 0`, i.e. `S` itself, when `d2` is not positive).  Only
    hypothesis: there is at least one row. -/
theorem eye_is_convex_combination (rows : List (Row K)) (hne : rows ≠ []) (dof : K) (p j k : Nat) :
    covEyeC rows dof p j k
      = eyeLambda rows p * (traceMean (covFullC rows dof) p * delta j k)
        + (1 - eyeLambda rows p) * covFullC rows dof j k := by
  have hn : (rows.length : K) ≠ 0 := by
    have : rows.length ≠ 0 := fun h => hne (List.eq_nil_of_length_eq_zero h)
    exact_mod_cast this
  have hT : traceMean (covFullC rows dof) p = eyeM rows p * (rows.length : K) / dof := by
    unfold traceMean eyeM lwM covFullC fullNorm eyeS lwS
    rw [rsum_eq_finset, ← Finset.sum_div, ← Finset.sum_div]
    field_simp
  have hS : covFullC rows dof j k = eyeS rows j k * (rows.length : K) / dof := by
    unfold covFullC fullNorm eyeS lwS
    field_simp
  rw [hT, hS]
  unfold covEyeC covEyeEntry
  rw [lwTail_eq]
  unfold lwRescale lwCombine eyeLambda eyeB2
  simp only [Nat.cast_zero]
  by_cases hd : 0 < eyeD2 rows p
  · have hd' : eyeD2 rows p ≠ 0 := ne_of_gt hd
    simp only [hd, if_true]
    by_cases hdof : dof = 0
    · subst hdof; simp
    · field_simp
  · simp only [hd, if_false]
    ring

/-- the Ledoit–Wolf target `(tr S / p)·I` has the trace of `S` -/
theorem eye_target_equal_trace (S : Mat K) (p : Nat) (hp : p ≠ 0) :
    ∑ j ∈ Finset.range p, traceMean S p * (delta j j : K) = ∑ j ∈ Finset.range p, S j j := by
  have hp' : (p : K) ≠ 0 := by exact_mod_cast hp
  simp only [delta, if_true, mul_one, Finset.sum_const, Finset.card_range, nsmul_eq_mul, traceMean]
  field_simp

/-- the Ledoit–Wolf intensity lies in [0,1] for every input: `b2 ≥ 0` is Cauchy–Schwarz
    (mean of squares ≥ square of mean), `b2 ≤ d2` is the `min` of the code -/
theorem eye_intensity_mem_unit (rows : List (Row K)) (p : Nat) :
    0 ≤ eyeLambda rows p ∧ eyeLambda rows p ≤ 1 := by
  unfold eyeLambda
  split
  · rename_i hd
    unfold eyeB2 lwB2min
    constructor
    · exact div_nonneg (le_min (le_of_lt hd) (eyeB2raw_nonneg rows p)) (le_of_lt hd)
    · rw [div_le_one hd]; exact min_le_left _ _
  · exact ⟨le_refl _, zero_le_one⟩

/-! ### Symmetry, positive semi-definiteness, positive definiteness -/

/-- the 'full' estimate is symmetric -/
theorem full_symm (rows : List (Row K)) (dof : K) (j k : Nat) :
    covFullC rows dof j k = covFullC rows dof k j := by
  unfold covFullC; rw [gram_comm]

/-- both shrinkage estimates are symmetric -/
theorem shrink_symm (rows : List (Row K)) (dof : K) (p j k : Nat) :
    covEyeC rows dof p j k = covEyeC rows dof p k j ∧
    covSDiagC rows dof p j k = covSDiagC rows dof p k j := by
  constructor
  · unfold covEyeC covEyeEntry eyeS
    rw [gram_comm rows j k, delta_comm j k]
  · rw [sdiag_is_convex_combination, sdiag_is_convex_combination, full_symm rows dof j k]
    by_cases h : j = k
    · subst h; rfl
    · have : ¬ k = j := fun h' => h h'.symm
      simp [h, this]

/-- the 'full' estimate is positive semi-definite: `vᵀSv = Σ_rows (v·r)² / dof ≥ 0` for
    every positive dof (natural or passed) -/
theorem full_psd (rows : List (Row K)) (dof : K) (hdof : 0 < dof) (p : Nat) (v : Nat → K) :
    0 ≤ quad p (covFullC rows dof) v ∧
    quad p (covFullC rows dof) v
      = (rows.map (fun r => (∑ j ∈ Finset.range p, v j * r j) ^ 2)).sum / dof := by
  have h : quad p (covFullC rows dof) v
      = (rows.map (fun r => (∑ j ∈ Finset.range p, v j * r j) ^ 2)).sum / dof := by
    rw [← quad_gram]
    unfold quad covFullC fullNorm
    rw [Finset.sum_div]
    apply Finset.sum_congr rfl; intro j _
    rw [Finset.sum_div]
    apply Finset.sum_congr rfl; intro k _
    ring
  refine ⟨?_, h⟩
  rw [h, ← quad_gram]
  exact div_nonneg (quad_gram_nonneg _ _ _) (le_of_lt hdof)

/-- corollary of `eye_is_convex_combination` on quadratic forms (used by the two theorems
    below) -/
theorem quad_eye (rows : List (Row K)) (hne : rows ≠ []) (dof : K) (p : Nat) (v : Nat → K) :
    quad p (covEyeC rows dof p) v
      = eyeLambda rows p * (∑ j ∈ Finset.range p, traceMean (covFullC rows dof) p * (v j * v j))
        + (1 - eyeLambda rows p) * quad p (covFullC rows dof) v := by
  have : covEyeC rows dof p = fun j k =>
      eyeLambda rows p * (if j = k then traceMean (covFullC rows dof) p else 0)
        + (1 - eyeLambda rows p) * covFullC rows dof j k := by
    funext j k
    rw [eye_is_convex_combination rows hne]
    unfold delta
    by_cases h : j = k <;> simp [h]
  rw [this, quad_combo, quad_diagonal]

/-- corollary of `sdiag_is_convex_combination` on quadratic forms -/
theorem quad_sdiag (rows : List (Row K)) (dof : K) (p : Nat) (v : Nat → K) :
    quad p (covSDiagC rows dof p) v
      = sdLambda rows dof p * (∑ j ∈ Finset.range p, covFullC rows dof j j * (v j * v j))
        + (1 - sdLambda rows dof p) * quad p (covFullC rows dof) v := by
  have : covSDiagC rows dof p = fun j k =>
      sdLambda rows dof p * (if j = k then covFullC rows dof j j else 0)
        + (1 - sdLambda rows dof p) * covFullC rows dof j k := by
    funext j k
    rw [sdiag_is_convex_combination]
  rw [this, quad_combo, quad_diagonal]

/-- both shrinkage estimates are positive semi-definite (any positive dof) -/
theorem shrink_psd (rows : List (Row K)) (hne : rows ≠ []) (dof : K) (hdof : 0 < dof) (p : Nat)
    (v : Nat → K) :
    0 ≤ quad p (covEyeC rows dof p) v ∧ 0 ≤ quad p (covSDiagC rows dof p) v := by
  have hS := (full_psd rows dof hdof p v).1
  constructor
  · rw [quad_eye rows hne]
    have hl := eye_intensity_mem_unit rows p
    have hT : 0 ≤ ∑ j ∈ Finset.range p, traceMean (covFullC rows dof) p * (v j * v j) :=
      Finset.sum_nonneg (fun j _ => mul_nonneg (traceMean_full_nonneg rows dof hdof p) (mul_self_nonneg _))
    have := mul_nonneg hl.1 hT
    have := mul_nonneg (sub_nonneg.mpr hl.2) hS
    linarith
  · rw [quad_sdiag]
    have hl := sdiag_intensity_mem_unit rows dof p
    have hT : 0 ≤ ∑ j ∈ Finset.range p, covFullC rows dof j j * (v j * v j) :=
      Finset.sum_nonneg (fun j _ => mul_nonneg
        (div_nonneg (gram_diag_nonneg rows j) (le_of_lt hdof)) (mul_self_nonneg _))
    have := mul_nonneg hl.1 hT
    have := mul_nonneg (sub_nonneg.mpr hl.2) hS
    linarith

/-- … and positive definite whenever shrinkage is active (`λ > 0`) and the target is
    positive (`tr S > 0`, resp. every channel has positive variance): `vᵀΣv > 0` for every
    `v` that is non-zero on some channel -/
theorem shrink_pd_when_active (rows : List (Row K)) (hne : rows ≠ []) (dof : K) (hdof : 0 < dof)
    (p : Nat) (v : Nat → K) (hv : ∃ j, j < p ∧ v j ≠ 0) :
    (0 < eyeLambda rows p → 0 < traceMean (covFullC rows dof) p →
        0 < quad p (covEyeC rows dof p) v) ∧
    (0 < sdLambda rows dof p → (∀ j, j < p → 0 < covFullC rows dof j j) →
        0 < quad p (covSDiagC rows dof p) v) := by
  have hS := (full_psd rows dof hdof p v).1
  constructor
  · intro hl ht
    rw [quad_eye rows hne]
    have hl1 := (eye_intensity_mem_unit rows p).2
    have hT := sum_diag_pos p (fun _ => traceMean (covFullC rows dof) p) v (fun _ _ => ht) hv
    have := mul_pos hl hT
    have := mul_nonneg (sub_nonneg.mpr hl1) hS
    linarith
  · intro hl hd
    rw [quad_sdiag]
    have hl1 := (sdiag_intensity_mem_unit rows dof p).2
    have hT := sum_diag_pos p (fun j => covFullC rows dof j j) v hd hv
    have := mul_pos hl hT
    have := mul_nonneg (sub_nonneg.mpr hl1) hS
    linarith

/-! ### Datasets: per-condition residuals, pooled covariance, the two estimators -/

/-- the residuals of the measurement path (grouped by condition) and of the unbalanced path
    (dataset order) contribute the same terms to every sum — they are the same multiset -/
theorem residual_terms_agree {M : Type} [AddCommMonoid M] (obs : List (Obs K)) (g : Row K → M) :
    ((demean3 (groups obs)).map g).sum = ((residUnb obs).map g).sum :=
  sum_demean3_groups obs g

/-- residuals around the per-condition means have column sum zero, so the second
    (global) demeaning that `cov_from_unbalanced` inherits from `_check_demean` changes
    nothing — for every design, balanced or not -/
theorem unbalanced_residuals_centered (obs : List (Obs K)) (j : Nat) :
    colSum (residUnb obs) j = 0 ∧ demean (residUnb obs) = residUnb obs := by
  have h0 : ∀ j, colSum (residUnb obs) j = 0 := by
    intro j
    unfold colSum residUnb
    rw [List.map_map, sum_by_key obs (uniq (labels obs)) (nodup_uniq _) (labels_mem_uniq obs)]
    rw [← sum_map_zero' (uniq (labels obs))]
    congr 1
    apply List.map_congr_left
    intro v _
    have key := sum_sub_mean ((groupRows obs v).map (fun r => r j))
    rw [List.length_map, List.map_map] at key
    rw [← key]
    unfold groupRows colMean colSum
    rw [List.map_map]
    apply congrArg
    apply List.map_congr_left
    intro o ho
    have : o.1 = v := by
      have := (List.mem_filter.mp ho).2
      simpa using this
    simp only [Function.comp, this, List.map_map, List.length_map]
  refine ⟨h0 j, ?_⟩
  unfold demean colMean
  conv_rhs => rw [← List.map_id (residUnb obs)]
  apply List.map_congr_left
  intro r _
  funext j
  simp [h0 j]

/-- mean of condition `c`, channel `j` (specification side) -/
def condMean (obs : List (Obs K)) (c : Nat) (j : Nat) : K :=
  ((obs.filter (fun o => o.1 == c)).map (fun o => o.2 j)).sum
    / ((obs.filter (fun o => o.1 == c)).length : K)

/-- 'full' on a dataset is the pooled within-condition covariance
    `Σ_obs (x − μ_cond)(x − μ_cond)ᵀ / (observations − conditions)` -/
theorem unbalanced_full_is_pooled_cov (obs : List (Obs K)) (p j k : Nat) :
    covFromUnbalanced .full obs none p j k
      = (obs.map (fun o => (o.2 j - condMean obs o.1 j) * (o.2 k - condMean obs o.1 k))).sum
        / ((obs.length - (uniq (labels obs)).length : Nat) : K) := by
  unfold covFromUnbalanced
  rw [(unbalanced_residuals_centered obs 0).2]
  simp only [estimateC_full, dofPick_eq, dofPickUnb_eq, covFullC, fullNorm, gram, residUnb, List.map_map,
    Option.getD_none, Option.getD_some, dofUnbalanced, condMean, colMean, colSum, groupRows, List.length_map]
  rfl

/-- on every balanced design (the only ones `cov_from_measurements` accepts) the
    measurement-based and the unbalanced estimator return the same matrix, for all four
    methods and for `dof=None` as well as a passed dof.  Depends on the generated leaves
    through `dof_balanced`. -/
theorem measurements_eq_unbalanced_on_balanced (m : Method) (obs : List (Obs K)) (R : Nat)
    (hb : balancedR (groups obs) = some R) (dof : Option K) (p : Nat) :
    covFromMeasurements m obs dof p = some (covFromUnbalanced m obs dof p) := by
  unfold covFromMeasurements covFromUnbalanced
  rw [hb]
  simp only [Option.some.injEq]
  rw [(unbalanced_residuals_centered obs 0).2]
  have hlen : (groups obs).length = (uniq (labels obs)).length := by simp [groups]
  have hdof : dofTensor (groups obs).length R
      = dofUnbalanced obs.length (uniq (labels obs)).length := by
    rw [hlen, length_eq_of_balanced obs R hb]
    exact (dof_balanced _ _).2
  have hpick : dofPick dof ((dofTensor (groups obs).length R : Nat) : K)
      = dofPick (some (dofPickUnb dof obs.length (uniq (labels obs)).length))
          ((dofResiduals obs.length : Nat) : K) := by
    rw [dofPick_eq, dofPick_eq, dofPickUnb_eq, hdof]; rfl
  rw [hpick]
  apply estimateC_congr
  · funext j k; exact sum_demean3_groups obs (fun r => r j * r k)
  · funext j k; exact sum_demean3_groups obs (fun r => (r j * r k) * (r j * r k))
  · have := sum_demean3_groups (M := Nat) obs (fun _ => 1)
    simpa using this

/-- the estimate does not depend on the order of the rows -/
theorem estimate_perm (m : Method) (r1 r2 : List (Row K)) (h : r1.Perm r2) (dof : Option K)
    (p : Nat) : covFromResiduals m r1 dof p = covFromResiduals m r2 dof p := by
  unfold covFromResiduals estimate2
  have hlen : r1.length = r2.length := h.length_eq
  have hmean : ∀ j, colMean r1 j = colMean r2 j := by
    intro j; unfold colMean colSum; rw [(h.map _).sum_eq, hlen]
  have hd : (demean r1).Perm (demean r2) := by
    unfold demean
    have : (fun (r : Row K) => fun j => r j - colMean r1 j) = (fun r => fun j => r j - colMean r2 j) := by
      funext r j; rw [hmean]
    rw [this]; exact h.map _
  rw [hlen]
  apply estimateC_congr
  · funext j k; exact (hd.map _).sum_eq
  · funext j k; exact (hd.map _).sum_eq
  · exact hd.length_eq

/-- the order of the observations in a dataset does not matter (`cov_from_unbalanced`,
    every design, all methods, dof None or passed) -/
theorem unbalanced_perm (m : Method) (o1 o2 : List (Obs K)) (h : o1.Perm o2) (dof : Option K)
    (p : Nat) : covFromUnbalanced m o1 dof p = covFromUnbalanced m o2 dof p := by
  unfold covFromUnbalanced
  rw [(unbalanced_residuals_centered o1 0).2, (unbalanced_residuals_centered o2 0).2]
  have hlen : o1.length = o2.length := h.length_eq
  have hu : (uniq (labels o1)).length = (uniq (labels o2)).length :=
    uniq_length_perm _ _ (h.map _)
  have hmean : ∀ c j, colMean (groupRows o1 c) j = colMean (groupRows o2 c) j := by
    intro c j
    have hg : (groupRows o1 c).Perm (groupRows o2 c) := (h.filter _).map _
    unfold colMean colSum; rw [(hg.map _).sum_eq, hg.length_eq]
  have hr : (residUnb o1).Perm (residUnb o2) := by
    unfold residUnb
    have : (fun (o : Obs K) => fun j => o.2 j - colMean (groupRows o1 o.1) j)
        = (fun o => fun j => o.2 j - colMean (groupRows o2 o.1) j) := by
      funext o j; rw [hmean]
    rw [this]; exact h.map _
  rw [hlen, hu]
  apply estimateC_congr
  · funext j k; exact (hr.map _).sum_eq
  · funext j k; exact (hr.map _).sum_eq
  · exact hr.length_eq

/-- … nor for `cov_from_measurements`, on the designs it accepts (both orders balanced) -/
theorem measurements_perm (m : Method) (o1 o2 : List (Obs K)) (h : o1.Perm o2) (R1 R2 : Nat)
    (hb1 : balancedR (groups o1) = some R1) (hb2 : balancedR (groups o2) = some R2)
    (dof : Option K) (p : Nat) :
    covFromMeasurements m o1 dof p = covFromMeasurements m o2 dof p := by
  rw [measurements_eq_unbalanced_on_balanced m o1 R1 hb1,
    measurements_eq_unbalanced_on_balanced m o2 R2 hb2, unbalanced_perm m o1 o2 h]

/-! ### Condition relabelling -/

/-- the same dataset with every condition label `c` renamed to `f c` -/
def relabel (f : Nat → Nat) (obs : List (Obs K)) : List (Obs K) := obs.map (fun o => (f o.1, o.2))

theorem groupRows_relabel (f : Nat → Nat) (hf : Function.Injective f) (obs : List (Obs K)) (c : Nat) :
    groupRows (relabel f obs) (f c) = groupRows obs c := by
  unfold groupRows relabel
  rw [List.filter_map, List.map_map]
  have : ((fun (o : Obs K) => o.1 == f c) ∘ fun (o : Obs K) => (f o.1, o.2)) = fun o => o.1 == c := by
    funext o
    show (f o.1 == f c) = (o.1 == c)
    by_cases h : o.1 = c
    · simp [h]
    · have : f o.1 ≠ f c := fun h' => h (hf h')
      simp [h, this]
  rw [this]
  apply List.map_congr_left
  intro o _; rfl

theorem labels_relabel (f : Nat → Nat) (obs : List (Obs K)) :
    labels (relabel f obs) = (labels obs).map f := by
  unfold labels relabel; rw [List.map_map, List.map_map]; rfl

/-- the names of the conditions do not matter, only which observations share one: renaming
    the labels by any injective map leaves `cov_from_unbalanced` unchanged (every design,
    method, dof) — together with `unbalanced_perm` this is "any re-ordering and re-coding of
    the observation descriptor" -/
theorem unbalanced_relabel (m : Method) (obs : List (Obs K)) (f : Nat → Nat)
    (hf : Function.Injective f) (dof : Option K) (p : Nat) :
    covFromUnbalanced m (relabel f obs) dof p = covFromUnbalanced m obs dof p := by
  have hr : residUnb (relabel f obs) = residUnb obs := by
    unfold residUnb
    conv_lhs => rw [show relabel f obs = obs.map (fun o => (f o.1, o.2)) from rfl, List.map_map]
    apply List.map_congr_left
    intro o _
    funext j
    show o.2 j - colMean (groupRows (obs.map fun o => (f o.1, o.2)) (f o.1)) j = _
    rw [show (obs.map fun o => (f o.1, o.2)) = relabel f obs from rfl, groupRows_relabel f hf]
  have hl : (relabel f obs).length = obs.length := by simp [relabel]
  have hu : (uniq (labels (relabel f obs))).length = (uniq (labels obs)).length := by
    rw [labels_relabel, uniq_map_inj f hf, List.length_map]
  unfold covFromUnbalanced
  rw [hr, hl, hu]

/-- … and `cov_from_measurements` (same grouping, same blocks in the same order, so the same
    acceptance / `ValueError` and the same estimate) -/
theorem measurements_relabel (m : Method) (obs : List (Obs K)) (f : Nat → Nat)
    (hf : Function.Injective f) (dof : Option K) (p : Nat) :
    covFromMeasurements m (relabel f obs) dof p = covFromMeasurements m obs dof p := by
  have hg : groups (relabel f obs) = groups obs := by
    unfold groups
    rw [labels_relabel, uniq_map_inj f hf, List.map_map]
    apply List.map_congr_left
    intro c _
    exact groupRows_relabel f hf obs c
  unfold covFromMeasurements
  rw [hg]

/-! ### Degenerate inputs: guards of the two shrinkage estimators -/

/-- when the Ledoit–Wolf `d2` is not positive (the sample covariance already equals its
    target, e.g. one channel) the estimate is the 'full' covariance *with the stated dof* —
    the `* n / dof` rescale applies to the `else` branch too -/
theorem eye_unshrunk_when_target_reached (rows : List (Row K)) (hne : rows ≠ []) (dof : K) (p : Nat)
    (hd : ¬ 0 < eyeD2 rows p) (j k : Nat) :
    covEyeC rows dof p j k = covFullC rows dof j k ∧ eyeLambda rows p = 0 := by
  have hl : eyeLambda rows p = 0 := by unfold eyeLambda; simp [hd]
  refine ⟨?_, hl⟩
  rw [eye_is_convex_combination rows hne, hl]; ring

/-- a constant channel (no positive variance; in the source the correlations are then NaN and
    `denom > 0` is False): the Schäfer–Strimmer estimate is the unshrunk 'full' covariance,
    intensity 0 -/
theorem sdiag_constant_channel_unshrunk (rows : List (Row K)) (dof : K) (p : Nat)
    (hdeg : sdDegenerate rows dof p = true) (j k : Nat) :
    covSDiagC rows dof p j k = covFullC rows dof j k ∧ sdLambda rows dof p = 0 := by
  have hl : sdLambda rows dof p = 0 := by
    unfold sdLambda sdDenG
    rw [ssLambda_eq]; simp [hdeg]
  refine ⟨?_, hl⟩
  rw [sdiag_is_convex_combination, hl]; ring

/-- `sdDegenerate` is exactly "some channel `j < p` has no positive variance" -/
theorem sdDegenerate_iff (rows : List (Row K)) (dof : K) (p : Nat) :
    sdDegenerate rows dof p = true ↔ ∃ j, j < p ∧ ¬ 0 < covFullC rows dof j j := by
  unfold sdDegenerate sdVar sdS ssS covFullC fullNorm
  simp [List.any_eq_true]

/-! ### Source skeletons (statement level), dispatch, defaults, layout, writes -/

/-- the statement-level leaves derived from the current source agree with the shape the
    theorems above rely on: in `_covariance_eye` the `min`, the guard `d2 > 0`, the
    combination and the rescale *after* the guard; in `_covariance_diag` the guard
    `denom > 0`, the clip to [0,1], `else 0`, and `s * (eye + (1 - lamb) * mask)` -/
theorem source_skeletons (s d2 b2raw m e n dof num den mk : K) :
    lwTail s d2 b2raw m e n dof
      = (if 0 < d2 then (min d2 b2raw / d2 * m * e + (d2 - min d2 b2raw) / d2 * s) else s) * n / dof ∧
    ssLambda num den = (if 0 < den then max (min (num / den) 1) 0 else 0) ∧
    ssTail num den s e mk = s * (e + (1 - ssLambda num den) * mk) ∧
    ssMask e = 1 - e ∧ varNorm s dof = s / dof ∧
    lwB2term s n m = s / n - m * m ∧ lwD2term s m e = (s - m * e) * (s - m * e) ∧
    ssDenTerm s = s * s := by
  refine ⟨?_, ?_, ?_, ?_, rfl, rfl, rfl, rfl⟩
  · rw [lwTail_eq]; unfold lwRescale lwCombine lwB2min; simp only [Nat.cast_zero]
  · rw [ssLambda_eq]; unfold ssClip ssLambRaw; simp only [Nat.cast_zero, Nat.cast_one]
  · rw [ssTail_eq]; unfold ssShrink ssScaling; simp only [Nat.cast_one]
  · unfold ssMask; simp only [Nat.cast_one]

/-- the `if method == …` chain sends each method string to its estimator -/
theorem dispatch_table (rows : List (Row K)) (dof : K) (p : Nat) :
    estimateC .full rows dof p = covFullC rows dof ∧ estimateC .diag rows dof p = varianceC rows dof ∧
    estimateC .eye rows dof p = covEyeC rows dof p ∧ estimateC .sdiag rows dof p = covSDiagC rows dof p :=
  ⟨rfl, rfl, rfl, rfl⟩

/-- `dof=None` means the natural dof, a passed dof is used as it is — in `_estimate_covariance`
    and in `cov_from_unbalanced` (observations − conditions) -/
theorem dof_default (d nat : K) (n c : Nat) :
    dofPick none nat = nat ∧ dofPick (some d) nat = d ∧
    dofPickUnb (none : Option K) n c = ((n - c : Nat) : K) ∧ dofPickUnb (some d) n c = d :=
  ⟨rfl, rfl, rfl, rfl⟩

/-- axis bookkeeping of the measurement tensor, from the constants of the current source:
    the tensor is (condition, channel, repetition); `_check_demean` averages over the
    repetition axis; `shape[0]`, `shape[2]` in its dof are #conditions, #repetitions; after the
    transpose the channel axis is last and the two others come first (in either order: the
    estimate does not depend on the row order, `estimate_perm`), so the reshape to
    `(shape[0] * shape[2], shape[1])` lists one residual row per (condition, repetition)
    (`demean3`); 2-D input is demeaned over rows -/
theorem tensor_layout :
    tensorAxes[demeanAxis3d]? = some 1 ∧ tensorAxes[0]? = some 0 ∧ tensorAxes[2]? = some 1 ∧
    (tensorAxesT = [0, 1, 2] ∨ tensorAxesT = [1, 0, 2]) ∧ demeanAxis2d = 0 := by
  decide

/-- no statement of the anchored functions stores into (a view of) one of its array / dataset
    parameters (static analysis of the current source in harness/leaves/C14.py, see there) -/
theorem inputs_not_written : inputWrites = 0 := by decide

/-! ### Precision -/

/-- whatever the model returns as precision is the matrix inverse of the covariance:
    the returned `B` satisfies `cov · B = I` (certificate checked by `precOf`), hence
    `B = cov⁻¹` and `B · cov = I` as `p × p` matrices -/
theorem prec_is_inverse (cov B : Mat K) (p : Nat) (h : precOf cov p = some B) :
    (∀ j k, j < p → k < p → mmul p cov B j k = if j = k then 1 else 0) ∧
    (Matrix.of fun (j k : Fin p) => B j k) = (Matrix.of fun (j k : Fin p) => cov j k)⁻¹ ∧
    (Matrix.of fun (j k : Fin p) => B j k) * (Matrix.of fun (j k : Fin p) => cov j k) = 1 := by
  have hcert : ∀ j k, j < p → k < p → mmul p cov B j k = if j = k then 1 else 0 := by
    unfold precOf at h
    split at h
    · simp at h
    · rename_i l hl
      split at h
      · rename_i hc
        have hB : matOfLists l = B := by simpa using h
        subst hB
        intro j k hj hk
        unfold isRightInv at hc
        have h1 := List.all_eq_true.mp hc j (List.mem_range.mpr hj)
        have h2 := List.all_eq_true.mp h1 k (List.mem_range.mpr hk)
        simpa using h2
      · simp at h
  have hmul : (Matrix.of fun (j k : Fin p) => cov j k) * (Matrix.of fun (j k : Fin p) => B j k) = 1 := by
    ext j k
    rw [Matrix.mul_apply, Matrix.one_apply]
    have := hcert j k j.2 k.2
    unfold mmul at this
    have e := rsum_eq_finset p (fun l => cov j l * B l k)
    unfold rsum at e
    rw [e, Finset.sum_range] at this
    simp only [Matrix.of_apply]
    rw [this]
    simp [Fin.ext_iff]
  refine ⟨hcert, ?_, ?_⟩
  · exact (Matrix.inv_eq_right_inv hmul).symm
  · exact mul_eq_one_comm.mp hmul

/-- the model returns no precision for a singular covariance (`np.linalg.inv` raises
    `LinAlgError`, or returns a meaningless matrix when rounding hides the zero pivot) -/
theorem singular_has_no_precision (cov : Mat K) (p : Nat)
    (hdet : (Matrix.of fun (j k : Fin p) => cov j k).det = 0) : precOf cov p = none := by
  cases h : precOf cov p with
  | none => rfl
  | some B =>
    exfalso
    have h3 := (prec_is_inverse cov B p h).2.2
    have := congrArg Matrix.det h3
    rw [Matrix.det_mul, hdet, mul_zero, Matrix.det_one] at this
    exact zero_ne_one this

/-- a concrete class of exactly singular estimates: if channel `j` is constant (zero residual
    sum of squares) then 'full', 'diag' and 'shrinkage_diag' have a zero row, so the model
    returns no precision for them (any dof) -/
theorem constant_channel_singular (rows : List (Row K)) (dof : K) (p j : Nat) (hj : j < p)
    (h0 : gram rows j j = 0) :
    precOf (covFullC rows dof) p = none ∧ precOf (varianceC rows dof) p = none ∧
    precOf (covSDiagC rows dof p) p = none := by
  have hz : ∀ r ∈ rows, r j = 0 := by
    intro r hr
    have hnn : ∀ x ∈ rows.map (fun r => r j * r j), 0 ≤ x := by
      intro x hx; rcases List.mem_map.mp hx with ⟨r', _, rfl⟩; exact mul_self_nonneg _
    have := List.all_zero_of_le_zero_le_of_sum_eq_zero hnn h0 (x := r j * r j)
      (List.mem_map.mpr ⟨r, hr, rfl⟩)
    exact mul_self_eq_zero.mp this
  have hrow : ∀ k, gram rows j k = 0 := by
    intro k
    unfold gram
    rw [← sum_map_zero' rows]
    congr 1
    apply List.map_congr_left
    intro r hr; rw [hz r hr, zero_mul]
  have hfull : precOf (covFullC rows dof) p = none := by
    apply singular_has_no_precision
    apply Matrix.det_eq_zero_of_row_eq_zero ⟨j, hj⟩
    intro k
    simp [covFullC, fullNorm, hrow]
  refine ⟨hfull, ?_, ?_⟩
  · apply singular_has_no_precision
    apply Matrix.det_eq_zero_of_row_eq_zero ⟨j, hj⟩
    intro k
    simp [varianceC, varNorm, h0]
  · have hdeg : sdDegenerate rows dof p = true := by
      rw [sdDegenerate_iff]
      exact ⟨j, hj, by simp [covFullC, fullNorm, h0]⟩
    have : covSDiagC rows dof p = covFullC rows dof := by
      funext a b; exact (sdiag_constant_channel_unshrunk rows dof p hdeg a b).1
    rw [this]; exact hfull

/-- kept visible: the converse — *every* invertible covariance gets a precision from the
    model — would need the correctness of the Gauss–Jordan candidate generator, which is not
    proved (the candidate is only ever used through its certificate) -/
def prec_complete_full : Prop :=
  ∀ (cov : Mat K) (p : Nat), (Matrix.of fun (j k : Fin p) => cov j k).det ≠ 0 → (precOf cov p).isSome

/-! ### Channel scales (round 5)

   The property demands `P · C = I` of *every* channel, whatever its unit.  The two theorems below are
   what the engine's scale-aware judgement rests on: (1) rescaling the channels by any non-zero factors
   `d j` (the engine uses exact powers of two) maps inverses to inverses, so `P` is the inverse of `C` iff
   `D P D` is the inverse of the equilibrated `D⁻¹ C D⁻¹`; (2) the precision of a diagonal covariance
   ('diag', or a shrinkage estimate that reached its target) is entry-wise the reciprocal variance —
   `P_jj · C_jj = 1` for every channel, nothing off the diagonal — so a "precision" with a zero where a
   channel of small variance sits is not one. -/

/-- equilibration: `B` is a right inverse of `cov` on the `p × p` block **iff** `D B D` is a right inverse
    of `D⁻¹ cov D⁻¹`, for every diagonal scaling `D = diag (d j)` with non-zero entries -/
theorem prec_equilibrated (cov B : Mat K) (p : Nat) (d : Nat → K) (hd : ∀ j, d j ≠ 0) :
    (∀ j k, j < p → k < p → mmul p cov B j k = if j = k then 1 else 0) ↔
    (∀ j k, j < p → k < p →
      mmul p (fun j k => cov j k / (d j * d k)) (fun j k => d j * B j k * d k) j k
        = if j = k then 1 else 0) := by
  have key : ∀ j k, mmul p (fun j k => cov j k / (d j * d k)) (fun j k => d j * B j k * d k) j k
      = d k / d j * mmul p cov B j k := by
    intro j k
    rw [mmul_eq_finset, mmul_eq_finset, Finset.mul_sum]
    apply Finset.sum_congr rfl
    intro l _
    have := hd l
    have := hd j
    field_simp
  constructor
  · intro h j k hj hk
    rw [key, h j k hj hk]
    by_cases hjk : j = k
    · subst hjk; simp [hd j]
    · simp [hjk]
  · intro h j k hj hk
    have h1 := h j k hj hk
    rw [key] at h1
    by_cases hjk : j = k
    · subst hjk
      simpa [hd j] using h1
    · simp only [hjk, if_false] at h1 ⊢
      have hne : d k / d j ≠ 0 := div_ne_zero (hd k) (hd j)
      exact (mul_eq_zero.mp h1).resolve_left hne

/-- the precision of a diagonal covariance is entry-wise the reciprocal: `C_jj · P_jj = 1` for **every**
    channel `j < p` (however small `C_jj` is next to the others) and `P` is diagonal -/
theorem diagonal_precision_entrywise (cov B : Mat K) (p : Nat)
    (hdiag : ∀ j k, j < p → k < p → j ≠ k → cov j k = 0)
    (h : ∀ j k, j < p → k < p → mmul p cov B j k = if j = k then 1 else 0) :
    (∀ j, j < p → cov j j * B j j = 1) ∧ (∀ j k, j < p → k < p → j ≠ k → B j k = 0) := by
  have key : ∀ j k, j < p → k < p → mmul p cov B j k = cov j j * B j k := by
    intro j k hj hk
    rw [mmul_eq_finset]
    rw [Finset.sum_eq_single j]
    · intro l hl hlj
      rw [hdiag j l hj (Finset.mem_range.mp hl) (Ne.symm hlj), zero_mul]
    · intro hnot
      exact absurd (Finset.mem_range.mpr hj) hnot
  have hone : ∀ j, j < p → cov j j * B j j = 1 := by
    intro j hj
    have := h j j hj hj
    rw [key j j hj hj] at this
    simpa using this
  refine ⟨hone, ?_⟩
  intro j k hj hk hjk
  have h1 := h j k hj hk
  rw [key j k hj hk] at h1
  simp only [hjk, if_false] at h1
  have hne : cov j j ≠ 0 := left_ne_zero_of_mul_eq_one (hone j hj)
  exact (mul_eq_zero.mp h1).resolve_left hne

/-- 'diag': whatever precision the model returns, every channel's entry times that channel's variance
    is one — for every residual matrix, dof and channel scale (this is what `np.linalg.pinv`, which drops
    the channels whose variance is below 1e-15 × the largest, breaks) -/
theorem diag_precision_is_reciprocal_variance (rows : List (Row K)) (dof : Option K) (p : Nat) (B : Mat K)
    (h : precOf (covFromResiduals .diag rows dof p) p = some B) :
    (∀ j, j < p → covFromResiduals .full rows dof p j j * B j j = 1) ∧
    (∀ j k, j < p → k < p → j ≠ k → B j k = 0) := by
  have hcert := (prec_is_inverse _ B p h).1
  have hd := diagonal_precision_entrywise (covFromResiduals .diag rows dof p) B p
    (by intro j k _ _ hjk; rw [diag_is_diagonal_of_full]; simp [hjk]) hcert
  refine ⟨?_, hd.2⟩
  intro j hj
  have := hd.1 j hj
  rw [diag_is_diagonal_of_full] at this
  simpa using this

/-! ### Sessions on one dataset object: estimate → in-place change → estimate again

  `runSession` threads the content of the object through `sort_by`, descriptor and measurement
  stores; the theorems say that this content is the *only* thing an estimate depends on (no
  memory of earlier calls or of an earlier row layout), so every theorem above applies to every
  call of a session with the content of that moment. -/

theorem applySteps_cons (st : Step K) (steps : List (Step K)) (s : List (SObs K)) :
    applySteps (st :: steps) s = applySteps steps (st.apply s) := rfl

/-- every estimate of a session — whatever was estimated, sorted or stored before, whatever
    comes after — is the estimator applied to the content the object has at that moment -/
theorem session_estimate_of_current_content (p : Nat) (pre post : List (Step K)) (e : Est)
    (m : Method) (d : Nat) (dof : Option K) (s : List (SObs K)) :
    runSession p (pre ++ Step.est e m d dof :: post) s
      = runSession p pre s ++ estimateOn e m d dof p (applySteps pre s)
          :: runSession p post (applySteps pre s) := by
  induction pre generalizing s with
  | nil => rfl
  | cons st pre ih =>
    cases st <;> simp only [List.cons_append, runSession, applySteps_cons, Step.apply, ih]

/-- estimator calls, however many, with whatever arguments and in whatever order, leave the
    content of the object as it is: the content after a session is that after its stores alone -/
theorem session_estimates_leave_content (steps : List (Step K)) (s : List (SObs K)) :
    applySteps steps s = applySteps (steps.filter Step.mutates) s := by
  induction steps generalizing s with
  | nil => rfl
  | cons st steps ih =>
    cases st <;> simp only [List.filter_cons, Step.mutates, applySteps_cons, Step.apply, ih,
      if_true, Bool.false_eq_true, if_false]

/-- estimating twice without a change in between gives the identical matrix, and the order of
    two estimator calls is irrelevant for what each returns -/
theorem session_repeat_identical (p : Nat) (e1 e2 : Est) (m1 m2 : Method) (d1 d2 : Nat)
    (dof1 dof2 : Option K) (s : List (SObs K)) :
    runSession p [.est e1 m1 d1 dof1, .est e2 m2 d2 dof2, .est e1 m1 d1 dof1] s
      = [estimateOn e1 m1 d1 dof1 p s, estimateOn e2 m2 d2 dof2 p s, estimateOn e1 m1 d1 dof1 p s] ∧
    runSession p [.est e2 m2 d2 dof2, .est e1 m1 d1 dof1] s
      = [estimateOn e2 m2 d2 dof2 p s, estimateOn e1 m1 d1 dof1 p s] := ⟨rfl, rfl⟩

/-- `sort_by` re-orders the observations (measurements and all descriptors together) -/
theorem view_sortBy_perm (d d' : Nat) (s : List (SObs K)) : (view d (sortBy d' s)).Perm (view d s) :=
  (List.mergeSort_perm s _).map _

/-- the model's `sort_by` is a sort: afterwards the chosen descriptor is non-decreasing (and, by
    `view_sortBy_perm`, the observations are the same ones) -/
theorem sortBy_sorted (d : Nat) (s : List (SObs K)) :
    (labels (view d (sortBy d s))).Pairwise (· ≤ ·) := by
  have hs : (sortBy d s).Pairwise (fun a b => decide (descOf d a ≤ descOf d b) = true) :=
    List.pairwise_mergeSort (by intro a b c; simp only [decide_eq_true_eq]; omega)
      (by intro a b; simp only [Bool.or_eq_true, decide_eq_true_eq]; omega) s
  simp only [labels, view, List.map_map, List.pairwise_map]
  exact hs.imp (by intro a b hab; simpa using hab)

/-- `Dataset.sort_by` on any descriptor changes no estimate: both estimators, every method,
    every descriptor used for grouping, dof None or passed; the measurement-based one accepts
    the sorted object exactly when it accepted the unsorted one -/
theorem session_sort_keeps_estimates (e : Est) (m : Method) (d d' : Nat) (dof : Option K) (p : Nat)
    (s : List (SObs K)) :
    estimateOn e m d dof p (sortBy d' s) = estimateOn e m d dof p s := by
  have hp := view_sortBy_perm d d' s
  cases e with
  | unbalanced => simp only [estimateOn, unbalanced_perm m _ _ hp]
  | measurements =>
    simp only [estimateOn]
    cases hb : balancedR (groups (view d s)) with
    | some R =>
      exact measurements_perm m _ _ hp R R (balancedR_perm _ _ hp.symm R hb) hb dof p
    | none =>
      cases hb' : balancedR (groups (view d (sortBy d' s))) with
      | some R => rw [balancedR_perm _ _ hp R hb'] at hb; exact absurd hb (by simp)
      | none => simp only [covFromMeasurements, hb, hb']

/-- … hence a whole session of estimates interleaved with sorts returns, at every call, what
    the same call returns on the object as first built -/
theorem session_sorts_only (p : Nat) (steps : List (Step K))
    (hs : ∀ st ∈ steps, (∃ d, st = .sort d) ∨ ∃ e m d dof, st = .est e m d dof)
    (e : Est) (m : Method) (d : Nat) (dof : Option K) (s : List (SObs K)) :
    estimateOn e m d dof p (applySteps steps s) = estimateOn e m d dof p s := by
  induction steps generalizing s with
  | nil => rfl
  | cons st steps ih =>
    have ih' := fun s => ih (fun st' h' => hs st' (List.mem_cons_of_mem _ h')) s
    rcases hs st List.mem_cons_self with ⟨d', rfl⟩ | ⟨e', m', d', dof', rfl⟩
    · rw [applySteps_cons, ih']; exact session_sort_keeps_estimates e m d d' dof p s
    · rw [applySteps_cons, ih']; rfl

/-- after any session the 'full' estimate with the natural dof is the pooled within-condition
    covariance of the object's *current* rows grouped by its *current* descriptor values -/
theorem session_full_is_pooled_cov_of_current (steps : List (Step K)) (d : Nat) (s : List (SObs K))
    (p j k : Nat) :
    (estimateOn .unbalanced .full d none p (applySteps steps s)).map (fun c => c j k)
      = some ((let obs := view d (applySteps steps s)
          (obs.map (fun o => (o.2 j - condMean obs o.1 j) * (o.2 k - condMean obs o.1 k))).sum
            / ((obs.length - (uniq (labels obs)).length : Nat) : K))) := by
  simp only [estimateOn, Option.map_some, unbalanced_full_is_pooled_cov]

/-! ### Non-vacuity: concrete objects meeting the hypotheses used above -/

section examples

/-- three residual rows on two channels -/
def exRows : List (Row ℚ) := [fun j => if j = 0 then 1 else 2, fun j => if j = 0 then -3 else 1,
  fun j => if j = 0 then 2 else -3]

/-- a 3 conditions × 2 repetitions dataset in shuffled order with arbitrary labels -/
def exObs : List (Obs ℚ) := [(7, fun j => if j = 0 then 1 else 2), (2, fun j => if j = 0 then 0 else 1),
  (7, fun j => if j = 0 then 3 else 5), (4, fun _ => 1), (2, fun j => if j = 0 then 2 else -1),
  (4, fun j => if j = 0 then -2 else 0)]

local instance : Rsa.HasSqrt ℚ := ⟨fun x => x⟩

-- `diag_precision_is_reciprocal_variance` / `prec_equilibrated` (round 5): two channels whose variances
-- differ by 2^100 (> 1e30) — the model inverts the 'diag' estimate; the precision of the small channel is
-- 2^100 / 2, not 0; and the equilibrated pair (d = 1, 2^-50) is the well-conditioned diag(2,2) / diag(1/2,1/2)
example :
    let rows : List (Row ℚ) := [fun j => if j = 0 then 1 else 1 / 2 ^ 50,
                                fun j => if j = 0 then -1 else -1 / 2 ^ 50]
    (precOf (covFromResiduals .diag rows none 2) 2).map (fun B => (B 0 0, B 1 1, B 0 1))
      = some (1 / 2, 2 ^ 100 / 2, 0) := by
  decide +kernel

-- `measurements_eq_unbalanced_on_balanced`: a balanced design exists
example : balancedR (groups exObs) = some 2 := by decide
-- `eye_is_convex_combination`, `shrink_psd`: a non-empty residual matrix, a positive dof
example : exRows ≠ [] ∧ (0 : ℚ) < 2 := by decide
-- `shrink_pd_when_active`: shrinkage is active and the targets are positive on `exRows`
example : 0 < eyeLambda exRows 2 := by decide +kernel
example : 0 < traceMean (covFullC exRows (2 : ℚ)) 2 := by unfold traceMean; decide +kernel
example : 0 < sdLambda exRows 2 2 := by decide +kernel
example : ∀ j, j < 2 → 0 < covFullC exRows (2 : ℚ) j j := by decide +kernel
example : ∃ j, j < 2 ∧ (fun j => if j = 0 then (1 : ℚ) else 0) j ≠ 0 := ⟨0, by decide⟩
-- `prec_is_inverse`: the model does return a certified precision for this covariance
example : (precOf (covFullC exRows (2 : ℚ)) 2).isSome = true := by decide +kernel
-- `list_uses_own_dof`: a dof list as long as the input list
example : ([3, 5] : List ℚ).length = ([exRows, exRows] : List (List (Row ℚ))).length := rfl
-- `dof_wrong_iff`: positive sizes
example : 0 < 3 ∧ 0 < 5 := by decide
-- `unbalanced_relabel`, `measurements_relabel`: an injective renaming that reverses the order
example : Function.Injective (fun c : Nat => if c < 100 then 99 - c else c) := by
  intro a b h; simp only at h; split at h <;> split at h <;> omega
/-- one channel constant, one not: `sdiag_constant_channel_unshrunk`, `constant_channel_singular` -/
def exConst : List (Row ℚ) := [fun j => if j = 0 then 1 else 0, fun j => if j = 0 then -1 else 0]
example : sdDegenerate exConst (1 : ℚ) 2 = true := by decide +kernel
example : (1 : Nat) < 2 ∧ gram exConst 1 1 = (0 : ℚ) := by decide +kernel
-- `eye_unshrunk_when_target_reached`: one channel
example : exRows ≠ [] ∧ ¬ 0 < eyeD2 exRows 1 := by decide +kernel
-- `singular_has_no_precision`: a singular 2 × 2 matrix
example : (Matrix.of fun (j k : Fin 2) => (fun (_ _ : Nat) => (1 : ℚ)) j k).det = 0 := by
  simp [Matrix.det_fin_two]

/-- a run-wise interleaved object: descriptor 0 = condition, descriptor 1 = run; one channel -/
def exS : List (SObs ℚ) := [([1, 0], fun _ => 3), ([0, 0], fun _ => 1), ([1, 1], fun _ => 5),
  ([0, 1], fun _ => 2)]

-- `sort_by` really changes the row layout (so a row grouping remembered from before is wrong) …
example : labels (view 0 exS) = [1, 0, 1, 0] ∧ labels (view 0 (sortBy 0 exS)) ≠ labels (view 0 exS) := by
  refine ⟨by decide +kernel, fun h => ?_⟩
  have hl := sortBy_sorted 0 exS
  rw [h] at hl
  revert hl; decide +kernel
-- … a session of sorts and estimates meets the hypothesis of `session_sorts_only` …
example : ∀ st ∈ ([.sort 0, .est .measurements .full 0 none, .sort 1] : List (Step ℚ)),
    (∃ d, st = .sort d) ∨ ∃ e m d dof, st = .est e m d dof := by
  intro st h
  simp only [List.mem_cons, List.not_mem_nil, or_false] at h
  rcases h with rfl | rfl | rfl
  · exact Or.inl ⟨0, rfl⟩
  · exact Or.inr ⟨_, _, _, _, rfl⟩
  · exact Or.inl ⟨1, rfl⟩
-- … and stores into a descriptor / the measurements do change the estimate
example : (runSession 1 [.est .unbalanced .full 0 none, .setDesc 0 0 0, .est .unbalanced .full 0 none,
      .setVal 3 0 8, .est .measurements .full 1 none] exS).map (fun r => r.map (fun c => c 0 0))
    = [some (5 / 4), some 1, some (13 / 4)] := by decide +kernel

end examples

/-! ### What the driver executes -/

section fast
variable {α : Type} [Add α] [Sub α] [Mul α] [Div α] [Neg α] [Zero α] [One α] [NatCast α]
variable [LT α] [DecidableLT α] [LE α] [DecidableLE α] [Min α] [Max α] [Rsa.HasSqrt α]

/-- what the driver executes (tabulated rows, scalars bound once, result as data) is the
    model function the theorems are about — for every number type, `Rat` and `Float` included -/
theorem fast_eq_model (m : Method) (rows : List (Row α)) (obs : List (Obs α)) (dof : Option α)
    (p : Nat) :
    covFromResidualsL m rows dof p = matList p (covFromResiduals m rows dof p) ∧
    covFromMeasurementsL m obs dof p = (covFromMeasurements m obs dof p).map (matList p) ∧
    covFromUnbalancedL m obs dof p = matList p (covFromUnbalanced m obs dof p) := by
  refine ⟨?_, ?_, ?_⟩
  · simp only [covFromResidualsL, residRows2, freezeRows_eq, estimateCL_eq, covFromResiduals, estimate2]
  · have h3 : residRows3 (groups obs) p = demean3 (groups obs) := by
      simp only [residRows3, demean3, freezeRows_eq]
    unfold covFromMeasurementsL covFromMeasurements
    cases balancedR (groups obs) with
    | none => rfl
    | some R => simp only [h3, estimateCL_eq, Option.map_some]
  · simp only [covFromUnbalancedL, residRowsUnb, freezeRows_eq, estimateCL_eq, covFromUnbalanced]

end fast

end Rsa.Props.C14
